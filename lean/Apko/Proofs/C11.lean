/-
C11 — The SBOM describes the image that was built.

Model: `Apko/Model/Sbom.lean` (stringToIdentifier byte by byte over the regenerated valid-byte table,
Generate / imagePackage / layerPackage / apkPackage / addSourcePackage / de-dup pass,
ProcessInternalApkSBOM / copySBOMElements / replacePackage / mergeLicensingInfos, GenerateIndex).
Facts: `Apko/Generated/Sbom.lean`, rewritten from spdx.go on every run.

Full statement of the property on the model (`FullC11` below) and what is proved of it:

  identifiers   id_alphabet, id_idempotent, generated_ids_valid, index_ids_valid        — for all inputs
  uniqueness    ids_unique                                                               — for all inputs
  references    refs_resolve_partial (each embedded SBOM has ≤ 1 target element), index_refs_resolve;
                negation of the unrestricted statement: refs_dangle_multi_target (F11d);
                the pinned `replacePackage` without its guard: pinned_replace_dangles (F11b, repaired)
  apk elements  one_element_per_apk_partial (no embedded SBOM is found, generated ids distinct);
                negations: apk_element_lost_on_collision (F11a), apk_element_replaced_by_embedded (F11c)
  digests       image_layers_by_digest (same hypotheses), image_layers_by_digest_embedded (arbitrary embedded
                SBOMs, nothing else claims the image/layer names or ids), index_describes_index
  model         generate_never_fuel (the fuel of the closure loop always suffices)

  oracle        oracle_iff_describes: the executable oracle the driver evaluates on every Go document passes
                exactly when the document satisfies the specification `Describes` (all seven clauses as Props);
                oracle_passes_partial / describes_partial: on every `Benign` input (one decidable predicate:
                well-formed header, ¬F11a, ¬F11c, ¬F11d as the driver computes them) the model's document
                satisfies the specification and the driver's verdict is `pass`, for every iteration order;
                invalid_is_listed: a failing verdict on the model's output implies F11a ∨ F11c ∨ F11d;
                driver_invalid_listed: with embedded SBOMs of arbitrary shape, the class the driver reports
                for the model's output is `-`, F11a, F11c or F11d, never `unlisted` (hypotheses `headerOk`,
                `unclaimed`; both shown necessary by witnesses) — so `unlisted` means Go ≠ model;
                stray_never, ids_clauses_never: three of the oracle's clauses hold for ALL inputs
  F11c inputs   describes_but_apks_partial (six of the seven clauses), apk_named_element_partial (every installed
                apk keeps an element named after it when an identifier never comes with two names)
  exact list    one_element_per_apk_partial_embedded (embedded SBOMs without a target element allowed),
                one_element_per_distinct_apk_partial (under exactly ¬F11a ∧ ¬F11c: header ++ one per distinct entry)
  db of image   packages_from_installed_db (over the regenerated expression behind `s.Packages`), image_opts_list_installed_db
                (every build, with or without base image: the generator is given base records ++ this build's),
                base_image_one_element_per_db_record_partial; another source loses the base image's records:
                unpacked_list_misses_base_records
  index         index_oracle_cases / index_oracle_passes_partial: the index oracle on the model's index document
  order         order_independent_partial: with ≤ 1 target element per embedded SBOM the result (document or
                error) is the same for all map iteration orders; order_dependent_multi_target (F11d) negation

`ord` is Go's map iteration order in ProcessInternalApkSBOM; theorems hold for every `ord` that only
yields target ids (`OrdOk`); every rearrangement (`OrdPerm`) is such an order.
-/
import Apko.Proofs.Lemmas.SbomGen
import Apko.Proofs.Lemmas.SbomFuel
import Apko.Proofs.Lemmas.SbomImage
import Apko.Proofs.Lemmas.SbomVerdict
import Apko.Proofs.Lemmas.SbomDriver
import Apko.Proofs.Lemmas.SbomDedup
import Apko.Proofs.Lemmas.SbomNamed
import Apko.Proofs.Lemmas.GlueC11
import Apko.Model.SbomInputs

namespace Apko.C11
open Apko Apko.Sbom

/-! ## ties to the regenerated facts -/

theorem tie_validIDCharsRe : Generated.sbomValidIDCharsRe = "[^a-zA-Z0-9-.]+" := by decide

/-- `strings.ReplaceAll(in, ":", "-")`, accumulator `""`, `fmt.Sprintf("%sC%d", r, uc)` -/
theorem tie_lits_stringToIdentifier : Generated.sbomLits_stringToIdentifier = [":", "-", "", "%sC%d"] := by
  decide

theorem tie_stmts_stringToIdentifier : Generated.sbomStmts_stringToIdentifier = [
    "in = strings.ReplaceAll(in, \":\", \"-\")",
    "return validIDCharsRe.ReplaceAllStringFunc(in, func(s string) string { r := \"\" for i := 0; i < len(s); i++ { uc, _ := utf8.DecodeRuneInString(string(s[i])) r = fmt.Sprintf(\"%sC%d\", r, uc) } return r })"] := by
  rfl

/-- the bytes Go's regexp leaves alone (recomputed from the literal) are exactly `[a-zA-Z0-9.-]` -/
theorem tie_validIdBytes (c : Char) : tableValid c = idChar c := tableValid_iff c

/-- `replacePackage` as modelled: the guard of the F11b repair, then describes / relationships / packages -/
theorem tie_stmts_replacePackage : Generated.sbomStmts_replacePackage = [
    "if originalID == newID { return }",
    "for i := range doc.DocumentDescribes { if doc.DocumentDescribes[i] == originalID { doc.DocumentDescribes[i] = newID break } }",
    "for i := range doc.Relationships { if doc.Relationships[i].Element == originalID { doc.Relationships[i].Element = newID } if doc.Relationships[i].Related == originalID { doc.Relationships[i].Related = newID } }",
    "newPackages := []Package{}",
    "replaced := false",
    "for _, r := range doc.Packages { if r.ID != originalID { newPackages = append(newPackages, r) replaced = true } }",
    "if replaced { doc.Packages = newPackages }"] := by
  rfl

theorem tie_apkSBOMdir : Generated.sbomApkSBOMdir = "/var/lib/db/sbom" := by decide

/-- the three candidate paths of locateApkSBOM, in order, and the revision regex -/
theorem tie_lits_locateApkSBOM :
    (Generated.sbomLits_locateApkSBOM.filter (fun s => s ≠ "")).take 4 =
      ["-r\\d+$", "%s/%s-%s.spdx.json", "%s/%s-%s.spdx.json", "%s/%s.spdx.json"] := by
  decide

theorem tie_lits_copySBOMElements : Generated.sbomLits_copySBOMElements.take 2 = ["SPDXRef-File-", "SPDXRef-File-"] := by
  decide

/-- identifier formats, nonce and relationship types of the generators -/
theorem tie_lits_ids :
    "SPDXRef-Package-%s" ∈ Generated.sbomLits_imagePackage ∧ "sha256:" ∈ Generated.sbomLits_imagePackage ∧
    "SPDXRef-Package-%s" ∈ Generated.sbomLits_layerPackage ∧
    "SPDXRef-Package-%s" ∈ Generated.sbomLits_addSourcePackage ∧ "GENERATED_FROM" ∈ Generated.sbomLits_addSourcePackage ∧
    "@" ∈ Generated.sbomLits_addSourcePackage ∧
    Generated.sbomLits_addSourcePackage.filter (fun s => s ∈ ["git+ssh://", "git://", "https://"]) =
      ["git+ssh://", "git://", "https://"] ∧
    "SPDXRef-Package-%s-%s-%s" ∈ Generated.sbomLits_Generate ∧ "thismakestestspass" ∈ Generated.sbomLits_Generate ∧
    "CONTAINS" ∈ Generated.sbomLits_Generate ∧
    "SPDXRef-Package-" ∈ Generated.sbomLits_GenerateIndex ∧ "VARIANT_OF" ∈ Generated.sbomLits_GenerateIndex ∧
    "sha256:%s" ∈ Generated.sbomLits_GenerateIndex := by
  decide

/-! ## identifiers -/

/-- every character of `stringToIdentifier s` is in `[a-zA-Z0-9.-]` -/
theorem id_alphabet (s : Text) : ∀ x ∈ stringToIdentifier s, idChar x = true := sti_alphabet s

theorem id_idempotent (s : Text) : stringToIdentifier (stringToIdentifier s) = stringToIdentifier s :=
  sti_idempotent s

/-- the sanitiser is not injective: `+` and `C43` -/
theorem id_not_injective : ¬ Function.Injective stringToIdentifier := by
  intro h
  have e : stringToIdentifier "+".toList = stringToIdentifier "C43".toList := by decide
  exact absurd (h e) (by decide)

/-- the model's sanitiser is the byte-wise specification with the alphabet written out -/
theorem id_eq_spec (s : Text) : stringToIdentifier s = Spec.stringToIdentifier s := by
  induction s with
  | nil => rfl
  | cons c cs ih =>
    simp only [stringToIdentifier, Spec.stringToIdentifier, List.flatMap_cons] at ih ⊢
    rw [ih]
    congr 1
    simp only [idByte, Spec.idByte, tableValid_iff]

/-- every identifier apko generates itself matches `SPDXRef-[a-zA-Z0-9.-]+`; the only other identifiers
in the document are those imported verbatim from package-embedded SBOMs -/
theorem generated_ids_valid {o : Opts} {fs : SbomDir} {ord : List Id → List Id} {d : Doc}
    (h : generate o fs ord = .ok d) :
    ∀ p ∈ d.packages, validSpdxId p.id = true ∨ p.id ∈ embeddedIds fs := by
  unfold generate at h
  split at h
  · cases h
  · split at h
    · cases h
    · next doc ha =>
      cases h
      intro p hp
      exact addApks_goodIds _ (header_goodIds fs o) ha p (dedup_mem hp)

/-- without embedded SBOMs every identifier of the document is syntactically valid -/
theorem generated_ids_valid_no_embedded {o : Opts} {ord : List Id → List Id} {d : Doc}
    (h : generate o [] ord = .ok d) : ∀ p ∈ d.packages, validSpdxId p.id = true := by
  intro p hp
  rcases generated_ids_valid h p hp with h | h
  · exact h
  · simp [embeddedIds] at h

/-- identifiers of `doc.packages` are pairwise distinct (the de-dup pass) -/
theorem ids_unique {o : Opts} {fs : SbomDir} {ord : List Id → List Id} {d : Doc}
    (h : generate o fs ord = .ok d) : d.ids.Nodup := by
  unfold generate at h
  split at h
  · cases h
  · split at h
    · cases h
    · cases h; exact dedup_nodup _

/-! ## references -/

/-- every relationship endpoint and every described id is an element of the document, provided every
embedded SBOM that is found has at most one target element (one described element named like its apk) -/
theorem refs_resolve_partial {o : Opts} {fs : SbomDir} {ord : List Id → List Id} {d : Doc}
    (hord : OrdOk ord) (hone : ∀ a ∈ o.apks, targetCount fs a ≤ 1)
    (h : generate o fs ord = .ok d) : refsResolve d = true := by
  rw [refsResolve_iff]
  unfold generate at h
  split at h
  · cases h
  · split at h
    · cases h
    · next doc ha =>
      cases h
      have hi := addApks_inv hord _ hone (header_inv o) ha
      have hids : ∀ i, i ∈ doc.ids → i ∈ Doc.ids { doc with packages := dedup doc.packages } := by
        intro i hi'
        exact (dedup_ids doc.packages i).mpr hi'
      exact ⟨fun r hr => ⟨hids _ (hi.closed.1 r hr).1, hids _ (hi.closed.1 r hr).2⟩,
             fun i hi' => hids _ (hi.closed.2 i hi')⟩

/-- the hypotheses of `refs_resolve_partial` are satisfiable by a document with an embedded SBOM, a
relationship graph and a replaced element -/
def exFS : SbomDir :=
  [("foo-1".toList, .doc ⟨["SPDXRef-Package-foo".toList],
      [⟨"SPDXRef-Package-foo".toList, "foo".toList, "1".toList, []⟩,
       ⟨"SPDXRef-Package-libz".toList, "libz".toList, "3".toList, []⟩],
      [⟨"SPDXRef-Package-foo".toList, "CONTAINS".toList, "SPDXRef-Package-libz".toList⟩], []⟩)]

def exOpts : Opts := ⟨"sha256:ab".toList, ["sha256:cd".toList, "sha256:ef".toList], "https://x/y@12".toList, "1".toList,
  [⟨"foo".toList, "1".toList, "22".toList⟩, ⟨"bar".toList, "2".toList, "33".toList⟩]⟩

/-- evaluate a Boolean observation on a successful result -/
def okAnd (r : Except Err Doc) (f : Doc → Bool) : Bool :=
  match r with
  | .ok d => f d
  | .error _ => false

example : (∀ a ∈ exOpts.apks, targetCount exFS a ≤ 1) ∧
    okAnd (generate exOpts exFS id) (fun d =>
      d.packages.map (·.name) == ["sha256:ab", "sha256:cd", "sha256:ef", "x/y", "foo", "libz", "bar"].map String.toList
        && d.rels.length == 4) = true := ⟨by decide, by decide⟩

/-- F11d — with two described same-named elements and an earlier import sharing an id with one of them,
one of the two possible map orders leaves a relationship pointing at a removed element -/
def f11dFS : SbomDir :=
  [("bar-1".toList, .doc ⟨["SPDXRef-Package-bar".toList],
      [⟨"SPDXRef-Package-bar".toList, "bar".toList, "1".toList, []⟩,
       ⟨"SPDXRef-Package-foo-b".toList, "foo".toList, "1".toList, []⟩,
       ⟨"SPDXRef-Package-foo-g".toList, "foo".toList, "1".toList, []⟩],
      [⟨"SPDXRef-Package-bar".toList, "DEPENDS_ON".toList, "SPDXRef-Package-foo-b".toList⟩,
       ⟨"SPDXRef-Package-bar".toList, "DEPENDS_ON".toList, "SPDXRef-Package-foo-g".toList⟩], []⟩),
   ("foo-1".toList, .doc ⟨["SPDXRef-Package-foo-a".toList, "SPDXRef-Package-foo-b".toList],
      [⟨"SPDXRef-Package-foo-a".toList, "foo".toList, "1".toList, []⟩,
       ⟨"SPDXRef-Package-foo-b".toList, "foo".toList, "1".toList, []⟩], [], []⟩)]

def f11dOpts : Opts := ⟨"sha256:ab".toList, ["sha256:cd".toList], [], "1".toList,
  [⟨"bar".toList, "1".toList, "11".toList⟩, ⟨"foo".toList, "1".toList, "22".toList⟩]⟩

theorem refs_dangle_multi_target :
    okAnd (generate f11dOpts f11dFS id) (fun d => !refsResolve d) = true ∧
    okAnd (generate f11dOpts f11dFS List.reverse) refsResolve = true ∧ multiTarget f11dOpts f11dFS = true := by
  decide

/-- F11b (repaired) — the pinned `replacePackage` ran its body also for `originalID == newID`: every
element carrying the id is deleted and the relationship that mentions it dangles; the guard keeps it -/
def f11bDoc : Doc := ⟨["SPDXRef-Package-bar".toList],
  [⟨"SPDXRef-Package-bar".toList, "bar".toList, [], []⟩, ⟨"SPDXRef-Package-foo".toList, "foo".toList, [], []⟩],
  [⟨"SPDXRef-Package-bar".toList, "DEPENDS_ON".toList, "SPDXRef-Package-foo".toList⟩], []⟩

theorem pinned_replace_dangles :
    refsResolve f11bDoc = true ∧
    refsResolve (replaceBody f11bDoc "SPDXRef-Package-foo".toList "SPDXRef-Package-foo".toList) = false ∧
    refsResolve (replacePackage f11bDoc "SPDXRef-Package-foo".toList "SPDXRef-Package-foo".toList) = true := by
  decide

/-- a sweep that adds nothing means the set is closed under the (non-file) relationships: what
`copySBOMElements` copies is self-contained -/
theorem copy_closed {src tgt d : Doc} {t0 : List Id} (h : copyElements src tgt t0 = .ok d) (hc : Closed tgt)
    (h1 : tgt.describes.length ≤ 1) : Closed d :=
  (copyElements_inv ⟨hc, h1⟩ h).1.closed

/-! ## the model's fuel is never exhausted -/

theorem mergeLics_err {s t : List (Text × Text)} {e : Err} (h : mergeLics s t = .error e) : e = .licConflict := by
  induction s generalizing t with
  | nil => simp [mergeLics] at h
  | cons x xs ih =>
    simp only [mergeLics] at h
    split at h
    · split at h
      · cases h; rfl
      · exact ih h
    · exact ih h

theorem locate_err {fs : SbomDir} {stems : List Text} {e : Err} (h : locate fs stems = .error e) : e = .sbomIsDir := by
  induction stems with
  | nil => simp [locate] at h
  | cons s rest ih =>
    simp only [locate] at h
    split at h
    · exact ih h
    · cases h; rfl
    · cases h

theorem processInternal_never_fuel {fs : SbomDir} {ord : List Id → List Id} {doc : Doc} {n v : Text} :
    processInternal fs ord doc n v ≠ .error .fuel := by
  intro h
  unfold processInternal at h
  split at h
  · next e hl => cases h; have := locate_err hl; cases this
  · cases h
  · cases h
  · cases h
  · dsimp only at h
    split at h
    · next e hc => cases h; exact copyElements_never_fuel _ _ _ hc
    · split at h
      · next e hm => cases h; have := mergeLics_err hm; cases this
      · cases h

/-- the closure loop of `copySBOMElements` is modelled with `rels.length + 1` sweeps of fuel; the fuel
always suffices, so `Generate`'s model never answers the artificial `fuel` error -/
theorem generate_never_fuel (o : Opts) (fs : SbomDir) (ord : List Id → List Id) :
    generate o fs ord ≠ .error .fuel := by
  have key : ∀ (apks : List Apk) (doc : Doc), addApks fs ord (nonceOf o.imageDigest) apks doc ≠ .error .fuel := by
    intro apks
    induction apks with
    | nil => intro doc h; simp [addApks] at h
    | cons a as ih =>
      intro doc h
      simp only [addApks] at h
      split at h
      · next e ha => cases h; exact processInternal_never_fuel ha
      · exact ih _ h
  intro h
  unfold generate at h
  split at h
  · cases h
  · split at h
    · next e ha => cases h; exact key _ _ ha
    · cases h

/-! ## apk elements, image and layers -/

/-- no installed apk has a file at one of its three SBOM paths -/
def NoEmbedded (fs : SbomDir) (o : Opts) : Prop :=
  ∀ a ∈ o.apks, locate fs (sbomStems a.name a.version) = .ok none

/-- Boolean form of `NoEmbedded` -/
def noEmbeddedB (fs : SbomDir) (o : Opts) : Bool :=
  o.apks.all fun a => match locate fs (sbomStems a.name a.version) with | .ok none => true | _ => false

theorem noEmbedded_of_B {fs : SbomDir} {o : Opts} (h : noEmbeddedB fs o = true) : NoEmbedded fs o := by
  intro a ha
  have := List.all_eq_true.mp h a ha
  split at this
  · next e => exact e
  · cases this

theorem processInternal_none {fs : SbomDir} {ord : List Id → List Id} {doc : Doc} {n v : Text}
    (h : locate fs (sbomStems n v) = .ok none) : processInternal fs ord doc n v = .ok doc := by
  unfold processInternal; rw [h]

theorem addApks_noEmbedded {fs : SbomDir} {ord : List Id → List Id} {nonce : Text} (apks : List Apk)
    (h : ∀ a ∈ apks, locate fs (sbomStems a.name a.version) = .ok none) (doc : Doc) :
    addApks fs ord nonce apks doc =
      .ok { doc with packages := doc.packages ++ apks.map (apkPackage nonce) } := by
  induction apks generalizing doc with
  | nil => simp [addApks]
  | cons a as ih =>
    simp only [addApks, addApk, processInternal_none (h a (by simp))]
    rw [ih (fun b hb => h b (by simp [hb]))]
    simp [List.append_assoc]

/-- without embedded SBOMs the document is the header (image, layers, source) followed by one element per
installed apk, in the order of the installed database — before the de-dup pass -/
theorem generate_no_embedded {o : Opts} {fs : SbomDir} {ord : List Id → List Id}
    (hl : o.layers ≠ []) (hn : NoEmbedded fs o) :
    generate o fs ord = .ok { header o with
      packages := dedup ((header o).packages ++ o.apks.map (apkPackage (nonceOf o.imageDigest))) } := by
  unfold generate
  have : o.layers.isEmpty = false := by cases h : o.layers <;> simp_all
  rw [this, addApks_noEmbedded _ hn]
  rfl

/-- the identifiers apko generates for image, layers, source and apks are pairwise distinct -/
def DistinctIds (o : Opts) : Prop :=
  ((header o).ids ++ o.apks.map (apkId (nonceOf o.imageDigest))).Nodup

/-- **one_element_per_apk_partial** — without embedded SBOMs and with distinct generated identifiers the
package list is exactly: the header elements, then for every installed apk, in order, one element with the
database's name, version and checksum; nothing else -/
theorem one_element_per_apk_partial {o : Opts} {fs : SbomDir} {ord : List Id → List Id} {d : Doc}
    (hl : o.layers ≠ []) (hn : NoEmbedded fs o) (hd : DistinctIds o) (h : generate o fs ord = .ok d) :
    d.packages = (header o).packages ++
      o.apks.map (fun a => ⟨apkId (nonceOf o.imageDigest) a, a.name, a.version, [("SHA1".toList, a.checksum)]⟩) ∧
    d.rels = (header o).rels ∧ d.describes = (header o).describes := by
  rw [generate_no_embedded hl hn] at h
  cases h
  refine ⟨?_, rfl, rfl⟩
  show dedup _ = _
  rw [dedup_of_nodup]
  · rfl
  · simpa [DistinctIds, Doc.ids, apkPackage, Function.comp_def] using hd

/-- reading of the exact list: every installed apk has exactly as many matching elements among the apk
elements as it has entries in the installed database, and every apk element matches an installed apk -/
theorem apk_elements_match {o : Opts} {fs : SbomDir} {ord : List Id → List Id} {d : Doc}
    (hl : o.layers ≠ []) (hn : NoEmbedded fs o) (hd : DistinctIds o) (h : generate o fs ord = .ok d) :
    (d.packages.drop (header o).packages.length).map (fun p => (p.name, p.version, p.checksums)) =
      o.apks.map (fun a => (a.name, a.version, [("SHA1".toList, a.checksum)])) := by
  rw [(one_element_per_apk_partial hl hn hd h).1, List.drop_left]
  simp [Function.comp_def]

/-- **image_layers_by_digest** — under the same hypotheses, with an image digest: the single described
element is the image element, named by the digest with the hex part as SHA256; every layer has an element
named by its digest which the image element CONTAINS -/
theorem image_layers_by_digest {o : Opts} {fs : SbomDir} {ord : List Id → List Id} {d : Doc}
    (hl : o.layers ≠ []) (hi : o.imageDigest.isEmpty = false) (hn : NoEmbedded fs o) (hd : DistinctIds o)
    (h : generate o fs ord = .ok d) :
    d.describes = [imageId o.imageDigest] ∧
    (⟨imageId o.imageDigest, o.imageDigest, o.imageDigest,
       [("SHA256".toList, trimPrefix "sha256:".toList o.imageDigest)]⟩ : Pkg) ∈ d.packages ∧
    ∀ l ∈ o.layers, (⟨layerId l, l, o.osVersion, []⟩ : Pkg) ∈ d.packages ∧
      (⟨imageId o.imageDigest, "CONTAINS".toList, layerId l⟩ : Rel) ∈ d.rels := by
  obtain ⟨hp, hr, hdsc⟩ := one_element_per_apk_partial hl hn hd h
  rw [hp, hr, hdsc, header_image hi]
  split
  · refine ⟨rfl, by simp [headerBase, imagePackage], ?_⟩
    intro l hl'
    refine ⟨?_, ?_⟩
    · simp only [headerBase, List.mem_append, List.mem_cons, layerPackages, List.mem_map]
      exact Or.inl (Or.inr ⟨l, hl', rfl⟩)
    · simp only [headerBase, List.mem_map]
      exact ⟨l, hl', rfl⟩
  · refine ⟨rfl, by simp [addSourcePackage, headerBase, imagePackage], ?_⟩
    intro l hl'
    refine ⟨?_, ?_⟩
    · simp only [addSourcePackage, headerBase, List.mem_append, List.mem_cons, layerPackages, List.mem_map]
      exact Or.inl (Or.inl (Or.inr ⟨l, hl', rfl⟩))
    · simp only [addSourcePackage, headerBase, List.mem_append, List.mem_map]
      exact Or.inl ⟨l, hl', rfl⟩

/-- **image_layers_by_digest**, with embedded SBOMs of arbitrary shape — provided nothing else in the input
claims the names or identifiers of image and layers (no apk is named like a digest; no embedded element,
apk or source identifier equals the image's or a layer's): the single described element is the image's
identifier, carried by an element named by a digest of the image; every layer identifier is carried by
such an element and is CONTAINed by the image -/
theorem image_layers_by_digest_embedded {o : Opts} {fs : SbomDir} {ord : List Id → List Id} {d : Doc}
    (hi : o.imageDigest.isEmpty = false)
    (hname : ∀ a ∈ o.apks, a.name ∉ digests o) (hemb : ∀ i ∈ embeddedIds fs, i ∉ protIds o)
    (hapk : ∀ a ∈ o.apks, apkId (nonceOf o.imageDigest) a ∉ protIds o)
    (hsrc : sourceId o.vcsUrl ∉ protIds o) (h : generate o fs ord = .ok d) :
    d.describes = [imageId o.imageDigest] ∧
    (∀ i ∈ protIds o, ∃ p ∈ d.packages, p.id = i ∧ p.name ∈ digests o) ∧
    ∀ l ∈ o.layers, (⟨imageId o.imageDigest, "CONTAINS".toList, layerId l⟩ : Rel) ∈ d.rels := by
  unfold generate at h
  split at h
  · cases h
  · split at h
    · cases h
    · next doc ha =>
      cases h
      have hp := addApks_prot _ hname hemb hapk (header_prot hi hsrc) ha
      refine ⟨hp.desc, ?_, hp.rels⟩
      intro i hi'
      have : i ∈ (dedup doc.packages).map (·.id) := (dedup_ids _ i).mpr (hp.ids i hi')
      obtain ⟨p, hpm, rfl⟩ := List.mem_map.mp this
      exact ⟨p, hpm, rfl, hp.names p (dedup_mem hpm) hi'⟩

/-- its hypotheses hold for `exOpts` with the embedded SBOM `exFS` -/
example : (∀ a ∈ exOpts.apks, a.name ∉ digests exOpts) ∧ (∀ i ∈ embeddedIds exFS, i ∉ protIds exOpts) ∧
    (∀ a ∈ exOpts.apks, apkId (nonceOf exOpts.imageDigest) a ∉ protIds exOpts) ∧
    sourceId exOpts.vcsUrl ∉ protIds exOpts := by decide

/-- the hypotheses are satisfiable (two layers, source, two apks with characters outside the alphabet) -/
def exOpts2 : Opts := ⟨"sha256:ab".toList, ["sha256:cd".toList, "sha256:ef".toList], "https://x/y@12".toList, "1".toList,
  [⟨"a+".toList, "1:2".toList, "22".toList⟩, ⟨"b c".toList, "2".toList, "33".toList⟩]⟩

example : exOpts2.layers ≠ [] ∧ NoEmbedded exFS exOpts2 ∧ DistinctIds exOpts2 := by
  exact ⟨by decide, noEmbedded_of_B (by decide), by unfold DistinctIds; decide⟩

/-- F11a — the unrestricted statement is false: `a+ 1` and `aC43 1` get the same identifier and the
de-dup pass drops the second; no element of the document is named `aC43` -/
def f11aOpts : Opts := ⟨"sha256:ab".toList, ["sha256:cd".toList], [], "1".toList,
  [⟨"a+".toList, "1".toList, "11".toList⟩, ⟨"aC43".toList, "1".toList, "22".toList⟩]⟩

theorem apk_element_lost_on_collision :
    okAnd (generate f11aOpts [] id) (fun d =>
      d.packages.map (·.name) == ["sha256:ab", "sha256:cd", "a+"].map String.toList && !apksOk f11aOpts [] d) = true ∧
    idCollision f11aOpts = true := by
  decide

/-- F11c — with an embedded SBOM the apko-generated element (db version and checksum) is removed in
favour of the embedded one -/
def f11cFS : SbomDir :=
  [("foo-1.2-r0".toList, .doc ⟨["SPDXRef-Package-foo".toList],
      [⟨"SPDXRef-Package-foo".toList, "foo".toList, "1.2".toList, []⟩], [], []⟩)]

def f11cOpts : Opts := ⟨"sha256:ab".toList, ["sha256:cd".toList], [], "1".toList,
  [⟨"foo".toList, "1.2-r0".toList, "22".toList⟩]⟩

theorem apk_element_replaced_by_embedded :
    okAnd (generate f11cOpts f11cFS id) (fun d =>
      d.packages.map (fun p => (p.name, p.version, p.checksums)) ==
          [("sha256:ab".toList, "sha256:ab".toList, [("SHA256".toList, "ab".toList)]),
           ("sha256:cd".toList, "1".toList, []), ("foo".toList, "1.2".toList, [])] && !apksOk f11cOpts f11cFS d) = true ∧
    embeddedTarget f11cOpts f11cFS = true := by
  decide

/-! ## the index document -/

theorem index_ids_valid {o : IndexOpts} {d : Doc} (h : generateIndex o = .ok d) :
    ∀ p ∈ d.packages, validSpdxId p.id = true := by
  unfold generateIndex at h
  split at h
  · cases h
  · cases h
    have hv : ∀ s, validSpdxId (pfx ++ stringToIdentifier s) = true := fun s => validSpdxId_pfx (sti_alphabet s)
    intro p hp
    split at hp
    · simp only [List.mem_cons, List.mem_map] at hp
      rcases hp with rfl | ⟨x, _, rfl⟩
      · exact hv _
      · exact hv _
    · simp only [addSourcePackage, List.mem_append, List.mem_cons, List.mem_map, List.not_mem_nil, or_false] at hp
      rcases hp with (rfl | ⟨x, _, rfl⟩) | rfl
      · exact hv _
      · exact hv _
      · exact hv _

/-- the VARIANT_OF relationships use `stringToIdentifier(indexPackage.ID)` as their element: by
idempotence this is the index element's own identifier, so every reference resolves -/
theorem index_refs_resolve {o : IndexOpts} {d : Doc} (h : generateIndex o = .ok d) : refsResolve d = true := by
  rw [refsResolve_iff]
  unfold generateIndex at h
  split at h
  · cases h
  · cases h
    have hidem : stringToIdentifier (indexId o) = indexId o := by
      unfold indexId
      rw [sti_pfx_append, sti_idempotent]
    have base : Inv ⟨[indexId o], indexPackage o :: o.images.map archImagePackage,
        o.images.map (fun h => (⟨stringToIdentifier (indexId o), "VARIANT_OF".toList, pfx ++ stringToIdentifier h.str⟩ : Rel)), []⟩ := by
      refine ⟨⟨?_, ?_⟩, by simp⟩
      · intro r hr
        simp only [List.mem_map] at hr
        obtain ⟨x, hx, rfl⟩ := hr
        rw [hidem]
        simp only [Doc.ids, List.map_cons, List.map_map, List.mem_cons, List.mem_map]
        exact ⟨Or.inl rfl, Or.inr ⟨x, hx, rfl⟩⟩
      · intro i hi
        simp only [List.mem_singleton] at hi
        subst hi
        simp [Doc.ids, indexPackage]
    split
    · exact base.closed
    · exact (addSourcePackage_inv _ base (by simp [Doc.ids, indexPackage])).closed

/-- the index document describes exactly the index element, named by the index digest with the hex part
as SHA256, and has one element per image carrying that image's digest -/
theorem index_describes_index {o : IndexOpts} {d : Doc} (h : generateIndex o = .ok d) :
    d.describes = [indexId o] ∧
    (⟨indexId o, o.indexDigest.str, o.indexDigest.str, [("SHA256".toList, o.indexDigest.hex)]⟩ : Pkg) ∈ d.packages ∧
    ∀ im ∈ o.images, archImagePackage im ∈ d.packages ∧
      (⟨indexId o, "VARIANT_OF".toList, (archImagePackage im).id⟩ : Rel) ∈ d.rels := by
  have hidem : stringToIdentifier (indexId o) = indexId o := by
    unfold indexId
    rw [sti_pfx_append, sti_idempotent]
  unfold generateIndex at h
  split at h
  · cases h
  · cases h
    rw [hidem]
    split
    · refine ⟨rfl, by simp [indexPackage], ?_⟩
      intro im him
      exact ⟨by simp only [List.mem_cons, List.mem_map]; exact Or.inr ⟨im, him, rfl⟩,
             by simp only [List.mem_map]; exact ⟨im, him, rfl⟩⟩
    · refine ⟨rfl, by simp [addSourcePackage, indexPackage], ?_⟩
      intro im him
      exact ⟨by simp only [addSourcePackage, List.mem_append, List.mem_cons, List.mem_map]; exact Or.inl (Or.inr ⟨im, him, rfl⟩),
             by simp only [addSourcePackage, List.mem_append, List.mem_map]; exact Or.inl ⟨im, him, rfl⟩⟩

/-! ## the oracle the driver evaluates, and its verdict on the model's own output

`Driver/Sbom.lean` answers every `s.gen` request with `verdict (oracle o fs d)` for Go's document `d` and
the class `classOf o fs (oracle o fs d)`.  The theorems below are about the same two functions applied to
the model's document. -/

/-- the executable oracle passes exactly when the document satisfies the specification: valid and unique
identifiers, resolving references, image / layers / installed apks described, no stray element -/
theorem oracle_iff_describes (o : Opts) (fs : SbomDir) (d : Doc) : oracle o fs d = none ↔ Describes o fs d :=
  oracle_none_iff o fs d

/-- `Benign`: ONE decidable predicate over the input —
  * `headerOk`: header elements (image, layers, source) with the same identifier are the same element
    (`HdrInj`; a layer listed twice is fine, two digests sanitising to one identifier are not) and the source
    element (url, commit) does not read like an entry of the installed database;
  * ¬F11a `idCollision`, ¬F11c `embeddedTarget`, ¬F11d `multiTarget`, exactly as the driver computes them.
Embedded SBOMs that do not describe an element named like their apk, unparsable files and licensing infos
are all allowed. -/
def Benign (o : Opts) (fs : SbomDir) : Prop := benign o fs = true

instance (o : Opts) (fs : SbomDir) : Decidable (Benign o fs) := inferInstanceAs (Decidable (_ = true))

theorem benign_unfold {o : Opts} {fs : SbomDir} : Benign o fs ↔
    (HdrInj o ∧ ∀ a ∈ o.apks, ∀ p ∈ srcPkgs o, matchesApk a p = false) ∧
    idCollision o = false ∧ embeddedTarget o fs = false ∧ multiTarget o fs = false := by
  unfold Benign
  rw [benign_iff, headerOk_iff]

/-- **describes_partial** — on a benign input every document the model emits satisfies the whole
specification, for every map iteration order -/
theorem describes_partial {o : Opts} {fs : SbomDir} {ord : List Id → List Id} {d : Doc}
    (hord : OrdOk ord) (hb : Benign o fs) (h : generate o fs ord = .ok d) : Describes o fs d :=
  describes_of_benign hord hb h

/-- **oracle_passes_partial** — … and so the verdict the driver computes on it is `pass` -/
theorem oracle_passes_partial {o : Opts} {fs : SbomDir} {ord : List Id → List Id} {d : Doc}
    (hord : OrdOk ord) (hb : Benign o fs) (h : generate o fs ord = .ok d) :
    Driver.Sbom.verdict (oracle o fs d) = "pass" := by
  rw [oracle_pass_of_benign hord hb h]; rfl

/-- what the `s.gen` handler feeds to `verdict` / `classOf` when the answer it is given is the model's own:
the oracle on an emitted document, nothing when an error is reported -/
def modelWhy (o : Opts) (fs : SbomDir) (ord : List Id → List Id) : Option String :=
  match generate o fs ord with
  | .ok d => oracle o fs d
  | .error _ => none

theorem model_passes_partial {o : Opts} {fs : SbomDir} {ord : List Id → List Id}
    (hord : OrdOk ord) (hb : Benign o fs) : Driver.Sbom.verdict (modelWhy o fs ord) = "pass" := by
  unfold modelWhy
  split
  · next d h => exact oracle_passes_partial hord hb h
  · rfl

/-- every rearrangement of the key set is an admissible order, so the theorems hold for all Go map orders -/
theorem ordOk_of_perm {ord : List Id → List Id} (h : OrdPerm ord) : OrdOk ord := h.ordOk

/-- the hypothesis is satisfiable by a non-trivial input: characters outside the identifier alphabet, a source
element, an embedded SBOM (with a relationship and a licensing info) that describes something not named like
its apk, an unparsable file — seven elements, licensing info merged -/
def benignFS : SbomDir :=
  [("foo-1".toList, .doc ⟨["SPDXRef-Package-libz".toList],
      [⟨"SPDXRef-Package-libz".toList, "libz".toList, "3".toList, []⟩,
       ⟨"SPDXRef-Package-foo".toList, "foo".toList, "1".toList, []⟩],
      [⟨"SPDXRef-Package-libz".toList, "CONTAINS".toList, "SPDXRef-Package-foo".toList⟩],
      [("LicenseRef-x".toList, "text".toList)]⟩),
   ("b c".toList, .junk)]

def benignOpts : Opts := ⟨"sha256:ab".toList, ["sha256:cd".toList, "sha256:ef".toList], "https://x/y@12".toList, "1".toList,
  [⟨"foo".toList, "1".toList, "22".toList⟩, ⟨"a+".toList, "1:2".toList, "33".toList⟩, ⟨"b c".toList, "2".toList, "44".toList⟩]⟩

example : Benign benignOpts benignFS ∧
    okAnd (generate benignOpts benignFS id) (fun d => d.packages.length == 7 && d.lics.length == 1) = true :=
  ⟨by decide, by decide⟩

/-- … also by one without image digest, with the same layer listed twice, the zero-hash layer and a database
entry listed twice (`DistinctIds` and `(header o).ids.Nodup` both fail here) -/
example : Benign ⟨[], ["sha256:cd".toList, [], "sha256:cd".toList], [], "1".toList,
      [⟨"foo".toList, "1".toList, "22".toList⟩, ⟨"foo".toList, "1".toList, "22".toList⟩]⟩ benignFS := by decide

/-- **invalid_is_listed** — contrapositive: if the oracle fails on a document the model emits for an input
with a well-formed header, then one of the three class predicates holds, as the driver computes them -/
theorem invalid_is_listed {o : Opts} {fs : SbomDir} {ord : List Id → List Id} {d : Doc}
    (hord : OrdOk ord) (hh : headerOk o = true) (h : generate o fs ord = .ok d)
    (hfail : oracle o fs d ≠ none) :
    idCollision o = true ∨ embeddedTarget o fs = true ∨ multiTarget o fs = true := by
  cases h1 : idCollision o
  · cases h2 : embeddedTarget o fs
    · cases h3 : multiTarget o fs
      · exact absurd (oracle_pass_of_benign hord (benign_iff.mpr ⟨hh, h1, h2, h3⟩) h) hfail
      · exact Or.inr (Or.inr rfl)
    · exact Or.inr (Or.inl rfl)
  · exact Or.inl rfl

/-- three clauses of the oracle can never fail on a document the model emits, whatever the input -/
theorem ids_clauses_never {o : Opts} {fs : SbomDir} {ord : List Id → List Id} {d : Doc}
    (h : generate o fs ord = .ok d) : idsValid fs d = true ∧ idsUnique d = true :=
  ⟨(idsValid_iff fs d).mpr (generate_common h).1, (idsUnique_iff d).mpr (generate_common h).2.1⟩

theorem stray_never {o : Opts} {fs : SbomDir} {ord : List Id → List Id} {d : Doc}
    (h : generate o fs ord = .ok d) : strayElements o fs d = [] :=
  List.isEmpty_iff.mp ((noStray_iff o fs d).mpr (generate_common h).2.2)

/-- **driver_invalid_listed** — with embedded SBOMs of arbitrary shape and every iteration order: when nothing
else in the input claims the names or identifiers of image and layers (`unclaimed`), the oracle on the model's
document can only fail in the clauses `dangling-reference` and `apk-element`, and the class the driver attaches
is F11d for the former and F11a / F11c for the latter.  The class is never `unlisted`: an `unlisted` verdict of
the suite on such an input means that the Go code and the model disagree. -/
theorem driver_invalid_listed {o : Opts} {fs : SbomDir} {ord : List Id → List Id} {d : Doc}
    (hord : OrdOk ord) (hh : headerOk o = true) (hu : unclaimed o fs = true)
    (h : generate o fs ord = .ok d) :
    Driver.Sbom.classOf o fs (oracle o fs d) ≠ "unlisted" := by
  have := classOf_model_listed hord hh hu h
  simp only [List.mem_cons, List.not_mem_nil, or_false] at this
  rcases this with e | e | e | e <;> rw [e] <;> decide

/-- the precise form: which clause, which class -/
theorem driver_verdict_cases {o : Opts} {fs : SbomDir} {ord : List Id → List Id} {d : Doc}
    (hord : OrdOk ord) (hh : headerOk o = true) (hu : unclaimed o fs = true)
    (h : generate o fs ord = .ok d) :
    (oracle o fs d = none) ∨
    (oracle o fs d = some "dangling-reference" ∧ multiTarget o fs = true) ∨
    (oracle o fs d = some "apk-element" ∧ (idCollision o = true ∨ embeddedTarget o fs = true)) := by
  rw [oracle_model_cases hh hu h]
  split
  · next hr =>
    refine Or.inr (Or.inl ⟨rfl, ?_⟩)
    cases hm : multiTarget o fs
    · have := (refsResolve_iff d).mpr (generate_closed hord hm h)
      rw [hr] at this; cases this
    · rfl
  · split
    · next ha =>
      refine Or.inr (Or.inr ⟨rfl, ?_⟩)
      cases hc : idCollision o
      · cases he : embeddedTarget o fs
        · have := (apksOk_iff o fs d).mpr (generate_benign hord hh hc he h).2.2
          rw [ha] at this; cases this
        · exact Or.inr rfl
      · exact Or.inl rfl
    · exact Or.inl rfl

/-- the hypotheses of `driver_invalid_listed` hold of the example with a replaced element and of all three
finding witnesses, and on these the driver's class is the listed one -/
def classOn (o : Opts) (fs : SbomDir) (ord : List Id → List Id) : String :=
  match generate o fs ord with
  | .ok d => Driver.Sbom.classOf o fs (oracle o fs d)
  | .error _ => "error"

example : headerOk exOpts = true ∧ unclaimed exOpts exFS = true ∧ classOn exOpts exFS id = "F11c" := by decide

theorem classes_realised :
    (headerOk f11aOpts = true ∧ unclaimed f11aOpts [] = true ∧ classOn f11aOpts [] id = "F11a") ∧
    (headerOk f11cOpts = true ∧ unclaimed f11cOpts f11cFS = true ∧ classOn f11cOpts f11cFS id = "F11c") ∧
    (headerOk f11dOpts = true ∧ unclaimed f11dOpts f11dFS = true ∧ classOn f11dOpts f11dFS id = "F11d" ∧
      classOn f11dOpts f11dFS List.reverse = "F11c") := by
  decide

/-- `headerOk` cannot be dropped: two layer digests that sanitise to the same identifier lose a layer element
in the de-dup pass; a source element `url@commit` that reads like the database entry of an installed apk is a
second "apk element".  Neither is a finding class (layer digests are `sha256:<hex>`, apk names contain no `/`),
and the driver says `unlisted`. -/
def badLayersOpts : Opts := ⟨"sha256:ab".toList, ["a+".toList, "aC43".toList], [], "1".toList, []⟩

def badSourceOpts : Opts := ⟨"sha256:ab".toList, ["sha256:cd".toList], "https://foo@abc".toList, "1".toList,
  [⟨"foo".toList, "abc".toList, "abc".toList⟩]⟩

theorem headerOk_needed :
    (headerOk badLayersOpts = false ∧ unclaimed badLayersOpts [] = true ∧ classOn badLayersOpts [] id = "unlisted") ∧
    (headerOk badSourceOpts = false ∧ unclaimed badSourceOpts [] = true ∧ classOn badSourceOpts [] id = "unlisted") := by
  decide

/-- `unclaimed` cannot be dropped: an apk named like the image digest whose embedded SBOM describes an element
of that name makes the replace round remove the *image* element; the clause `image-digest` fails, for which
no class exists -/
def claimFS : SbomDir :=
  [("sha256:ab-1".toList, .doc ⟨["SPDXRef-Package-x".toList],
      [⟨"SPDXRef-Package-x".toList, "sha256:ab".toList, "1".toList, []⟩], [], []⟩)]

def claimOpts : Opts := ⟨"sha256:ab".toList, ["sha256:cd".toList], [], "1".toList,
  [⟨"sha256:ab".toList, "1".toList, "22".toList⟩]⟩

theorem unclaimed_needed :
    headerOk claimOpts = true ∧ unclaimed claimOpts claimFS = false ∧ classOn claimOpts claimFS id = "unlisted" ∧
    okAnd (generate claimOpts claimFS id) (fun d => oracle claimOpts claimFS d == some "image-digest") = true := by
  decide

/-! ## independence of the map iteration order (the audited site of C01) -/

/-- **order_independent_partial** — `for id := range targetElementIDs` in ProcessInternalApkSBOM is the only
place where `Generate` depends on Go's map iteration order.  When no embedded SBOM has two or more target
elements (¬F11d), any two iteration orders (functions returning a rearrangement of the key set they are given)
produce the same result — the same document or the same error. -/
theorem order_independent_partial {o : Opts} {fs : SbomDir} {ord₁ ord₂ : List Id → List Id}
    (h₁ : OrdPerm ord₁) (h₂ : OrdPerm ord₂) (hone : multiTarget o fs = false) :
    generate o fs ord₁ = generate o fs ord₂ := by
  rw [generate_ord h₁ (multiTarget_false.mp hone), generate_ord h₂ (multiTarget_false.mp hone)]

/-- the full statement is false (F11d): with two target elements the identity and the reversed order give
different documents -/
theorem order_dependent_multi_target :
    OrdPerm id ∧ OrdPerm List.reverse ∧ generate f11dOpts f11dFS id ≠ generate f11dOpts f11dFS List.reverse := by
  refine ⟨ordPerm_id, ordPerm_reverse, ?_⟩
  intro e
  obtain ⟨h1, h2, _⟩ := refs_dangle_multi_target
  rw [e] at h1
  cases hg : generate f11dOpts f11dFS List.reverse with
  | error x => rw [hg] at h2; simp [okAnd] at h2
  | ok d =>
    rw [hg] at h1 h2
    simp only [okAnd, Bool.not_eq_true'] at h1 h2
    rw [h1] at h2; cases h2

/-- satisfiable with an embedded SBOM that *has* a target element (`exFS`) -/
example : multiTarget exOpts exFS = false ∧ embeddedTarget exOpts exFS = true := by decide

/-! ## one element per apk, with embedded SBOMs that cannot collide -/

/-- no installed apk ships an SBOM that describes an element named like the apk.  Files that are absent,
unparsable, or SBOMs describing other things are all allowed (`NoEmbedded` demanded that nothing is found). -/
def NoTarget (fs : SbomDir) (o : Opts) : Prop := ∀ a ∈ o.apks, targetCount fs a = 0

theorem noTarget_of_noEmbedded {fs : SbomDir} {o : Opts} (h : NoEmbedded fs o) : NoTarget fs o := by
  intro a ha
  unfold targetCount
  rw [h a ha]

theorem noTarget_iff {fs : SbomDir} {o : Opts} : NoTarget fs o ↔ embeddedTarget o fs = false :=
  embeddedTarget_false.symm

/-- **one_element_per_apk_partial**, strengthened — embedded SBOMs without a target element import nothing:
the package list is exactly the header elements followed by one element per installed apk with the database's
name, version and checksum; relationships and described ids are the header's -/
theorem one_element_per_apk_partial_embedded {o : Opts} {fs : SbomDir} {ord : List Id → List Id} {d : Doc}
    (hord : OrdOk ord) (hn : NoTarget fs o) (hd : DistinctIds o) (h : generate o fs ord = .ok d) :
    d.packages = (header o).packages ++
      o.apks.map (fun a => ⟨apkId (nonceOf o.imageDigest) a, a.name, a.version, [("SHA1".toList, a.checksum)]⟩) ∧
    d.rels = (header o).rels ∧ d.describes = (header o).describes := by
  obtain ⟨hp, hr, hds⟩ := generate_noTarget hord hn h
  refine ⟨?_, hr, hds⟩
  rw [hp, dedup_of_nodup]
  · rfl
  · simpa [DistinctIds, Doc.ids, apkPackage, Function.comp_def] using hd

theorem apk_elements_match_embedded {o : Opts} {fs : SbomDir} {ord : List Id → List Id} {d : Doc}
    (hord : OrdOk ord) (hn : NoTarget fs o) (hd : DistinctIds o) (h : generate o fs ord = .ok d) :
    (d.packages.drop (header o).packages.length).map (fun p => (p.name, p.version, p.checksums)) =
      o.apks.map (fun a => (a.name, a.version, [("SHA1".toList, a.checksum)])) := by
  rw [(one_element_per_apk_partial_embedded hord hn hd h).1, List.drop_left]
  simp [Function.comp_def]

/-- the old hypothesis `DistinctIds` splits into: distinct header identifiers, ¬F11a, and no database entry
listed twice -/
theorem distinctIds_split {o : Opts} (hd : DistinctIds o) :
    (header o).ids.Nodup ∧ idCollision o = false ∧ o.apks.Nodup := by
  unfold DistinctIds at hd
  rw [List.nodup_append] at hd
  refine ⟨hd.1, idCollision_false.mpr ⟨?_, inj_of_nodup_map hd.2.1⟩, nodup_of_nodup_map _ hd.2.1⟩
  intro a ha hm
  exact hd.2.2 _ hm _ (List.mem_map_of_mem (f := apkId (nonceOf o.imageDigest)) ha) rfl

/-- **one_element_per_apk**, under exactly the complement of F11a and F11c as the driver computes them (and
distinct header identifiers): the element list is the header followed by one element per *distinct* entry of
the installed database (an entry listed twice gets one element), each with the database's name, version and
checksum -/
theorem one_element_per_distinct_apk_partial {o : Opts} {fs : SbomDir} {ord : List Id → List Id} {d : Doc}
    (hord : OrdOk ord) (hh : (header o).ids.Nodup) (hcol : idCollision o = false)
    (hn : embeddedTarget o fs = false) (h : generate o fs ord = .ok d) :
    d.packages = (header o).packages ++
      o.apks.eraseDups.map (fun a => ⟨apkId (nonceOf o.imageDigest) a, a.name, a.version, [("SHA1".toList, a.checksum)]⟩) ∧
    d.rels = (header o).rels ∧ d.describes = (header o).describes := by
  obtain ⟨hp, hr, hds⟩ := generate_noTarget hord (embeddedTarget_false.mp hn) h
  refine ⟨?_, hr, hds⟩
  rw [hp, dedup_header_apks hh hcol]
  rfl

/-- a database that lists an entry twice: `DistinctIds` fails, ¬F11a holds, one element is emitted -/
example : ¬ DistinctIds ⟨"sha256:ab".toList, ["sha256:cd".toList], [], "1".toList,
      [⟨"foo".toList, "1".toList, "22".toList⟩, ⟨"foo".toList, "1".toList, "22".toList⟩]⟩ ∧
    idCollision ⟨"sha256:ab".toList, ["sha256:cd".toList], [], "1".toList,
      [⟨"foo".toList, "1".toList, "22".toList⟩, ⟨"foo".toList, "1".toList, "22".toList⟩]⟩ = false := by
  unfold DistinctIds; decide

/-- the weaker hypothesis is satisfied where the old one is not: `foo` ships an SBOM (about `libz`) -/
example : NoTarget benignFS benignOpts ∧ DistinctIds benignOpts ∧ noEmbeddedB benignFS benignOpts = false := by
  refine ⟨noTarget_iff.mpr (by decide), by unfold DistinctIds; decide, by decide⟩

/-- **image_layer_clauses_partial** — the clauses `image-digest` and `layer-digest` of the oracle hold of the
model's document for embedded SBOMs of arbitrary shape and for EVERY function `ord` (not even `OrdOk` is
needed), provided header elements are told apart by their identifiers and nothing else claims the image/layer names or
identifiers.  Stronger than `image_layers_by_digest_embedded`: the image *element itself* (name, SHA256) and
every layer element survive, also without an image digest. -/
theorem image_layer_clauses_partial {o : Opts} {fs : SbomDir} {ord : List Id → List Id} {d : Doc}
    (hh : HdrInj o) (hu : unclaimed o fs = true) (h : generate o fs ord = .ok d) :
    imageOk o d = true ∧ layersOk o d = true :=
  ⟨(imageOk_iff o d).mpr (generate_unclaimed hh hu h).1, (layersOk_iff o d).mpr (generate_unclaimed hh hu h).2⟩

/-! ## what still holds on the inputs of class F11c -/

/-- **describes_but_apks_partial** — with embedded SBOMs that replace apko's elements (F11c) but have at most
one target each (¬F11d), six of the seven clauses of the specification hold: everything except "the element
of an installed apk carries the database's version and checksum" -/
theorem describes_but_apks_partial {o : Opts} {fs : SbomDir} {ord : List Id → List Id} {d : Doc}
    (hord : OrdOk ord) (hh : headerOk o = true) (hu : unclaimed o fs = true) (hone : multiTarget o fs = false)
    (h : generate o fs ord = .ok d) :
    GoodIds fs d ∧ d.ids.Nodup ∧ Closed d ∧ ImageOk o d ∧ LayersOk o d ∧ NoStray o fs d := by
  obtain ⟨c1, c2, c3⟩ := generate_common h
  obtain ⟨u1, u2⟩ := generate_unclaimed (headerOk_iff.mp hh).1 hu h
  exact ⟨c1, c2, generate_closed hord hone h, u1, u2, c3⟩

/-- **apk_named_element_partial** — … and of the seventh clause this much remains: every installed apk has an
element *named* after it (apko's own, or the one its embedded SBOM describes), provided that among all
candidate elements (header, apko-generated, embedded) the same identifier never comes with two names
(`nameById`, decidable).  F11c costs the version and the checksum, never the presence of the package. -/
theorem apk_named_element_partial {o : Opts} {fs : SbomDir} {ord : List Id → List Id} {d : Doc}
    (hord : OrdOk ord) (hone : multiTarget o fs = false) (hj : nameById o fs = true)
    (h : generate o fs ord = .ok d) : ∀ a ∈ o.apks, ∃ p ∈ d.packages, p.name = a.name :=
  generate_named hord hone hj h

/-- satisfiable on the F11c witness and on the example with a replaced element and a relationship graph -/
example : (multiTarget f11cOpts f11cFS = false ∧ nameById f11cOpts f11cFS = true ∧ embeddedTarget f11cOpts f11cFS = true) ∧
    (multiTarget exOpts exFS = false ∧ nameById exOpts exFS = true ∧ embeddedTarget exOpts exFS = true) := by
  decide

/-- `nameById` is needed: on the F11a witness one identifier comes with the names `a+` and `aC43`, and no
element is named `aC43` -/
theorem nameById_needed :
    multiTarget f11aOpts [] = false ∧ nameById f11aOpts [] = false ∧
    okAnd (generate f11aOpts [] id) (fun d => !d.packages.any (fun p => p.name = "aC43".toList)) = true := by
  decide

/-! ## which errors `Generate` can report -/

/-- for all inputs: no layers (a panic in Go), a directory at an SBOM path, an embedded SBOM whose relationships
mention an element it does not contain, conflicting licensing infos — nothing else -/
theorem generate_errors {o : Opts} {fs : SbomDir} {ord : List Id → List Id} {e : Err}
    (h : generate o fs ord = .error e) :
    e = .noLayers ∨ e = .sbomIsDir ∨ e = .missing ∨ e = .licConflict := by
  have hf : e ≠ .fuel := fun he => generate_never_fuel o fs ord (he ▸ h)
  unfold generate at h
  split at h
  · cases h; exact Or.inl rfl
  · split at h
    · next e' ha =>
      cases h
      rcases addApks_error _ ha with h | h | h | h
      · exact Or.inr (Or.inl h)
      · exact absurd h hf
      · exact Or.inr (Or.inr (Or.inl h))
      · exact Or.inr (Or.inr (Or.inr h))
    · cases h

/-- on a benign input nothing is imported, so "unable to find elements" cannot happen either -/
theorem benign_errors {o : Opts} {fs : SbomDir} {ord : List Id → List Id} {e : Err}
    (hb : Benign o fs) (h : generate o fs ord = .error e) :
    e = .noLayers ∨ e = .sbomIsDir ∨ e = .licConflict :=
  generate_noTarget_err (embeddedTarget_false.mp (benign_iff.mp hb).2.2.1) h

/-! ## the orders the driver tries -/

/-- every iteration order the `s.gen` handler tries (`ordOf c` for `c ∈ choices (multiLists o fs)`) is a
rearrangement of the key set it is applied to -/
theorem driver_orders_perm (o : Opts) (fs : SbomDir) :
    ∀ c ∈ Driver.Sbom.choices (Driver.Sbom.multiLists o fs), OrdPerm (Driver.Sbom.ordOf c) :=
  Sbom.driver_orders_perm o fs

/-- so every candidate document the handler computes gets a listed class (or none) -/
theorem driver_candidates_listed {o : Opts} {fs : SbomDir} (hh : headerOk o = true) (hu : unclaimed o fs = true) :
    ∀ c ∈ Driver.Sbom.choices (Driver.Sbom.multiLists o fs), ∀ d,
      generate o fs (Driver.Sbom.ordOf c) = .ok d → Driver.Sbom.classOf o fs (oracle o fs d) ≠ "unlisted" :=
  fun c hc _ h => driver_invalid_listed (Sbom.driver_orders_perm o fs c hc).ordOk hh hu h

/-- without an embedded SBOM with two target elements (¬F11d) the handler has exactly one candidate, computed
with the identity order — by `order_independent_partial` it is the model's answer for every Go map order, so
in this case the correspondence is an equality, not a membership -/
theorem driver_single_candidate {o : Opts} {fs : SbomDir} (h : multiTarget o fs = false) :
    (Driver.Sbom.choices (Driver.Sbom.multiLists o fs)).map (fun c => generate o fs (Driver.Sbom.ordOf c)) =
      [generate o fs id] :=
  Sbom.driver_single_candidate h

/-! ## the index oracle on the model's index document -/

/-- the identifiers of the index document, in order: index, one per image, source -/
def indexIds (o : IndexOpts) : List Id :=
  indexId o :: o.images.map (fun h => (archImagePackage h).id) ++
    (if o.vcsUrl.isEmpty then [] else [sourceId o.vcsUrl])

theorem index_ids {o : IndexOpts} {d : Doc} (h : generateIndex o = .ok d) : d.ids = indexIds o := by
  unfold generateIndex at h
  split at h
  · cases h
  · cases h
    unfold indexIds
    cases o.vcsUrl.isEmpty <;> simp [Doc.ids, addSourcePackage, indexPackage, sourcePackage, Function.comp_def]

theorem index_length {o : IndexOpts} {d : Doc} (h : generateIndex o = .ok d) :
    d.packages.length = 1 + o.images.length + (if o.vcsUrl.isEmpty then 0 else 1) := by
  unfold generateIndex at h
  split at h
  · cases h
  · cases h
    cases o.vcsUrl.isEmpty <;> simp [addSourcePackage] <;> omega

/-- on the model's index document every clause of `indexOracle` holds for all inputs except identifier
uniqueness (GenerateIndex has no de-dup pass) -/
theorem index_oracle_cases {o : IndexOpts} {d : Doc} (h : generateIndex o = .ok d) :
    indexOracle o d = if idsUnique d = true then none else some "id-duplicate" := by
  have h1 : (d.packages.all fun p => validSpdxId p.id) = true := List.all_eq_true.mpr (index_ids_valid h)
  have h3 := index_refs_resolve h
  obtain ⟨hd, hp, him⟩ := index_describes_index h
  have h6 := index_length h
  unfold indexOracle
  rw [h1, h3, hd]
  cases hu : idsUnique d
  · simp
  · simp only [Bool.not_true, Bool.false_eq_true, if_false, if_true]
    rw [if_neg, if_neg, if_neg]
    · simp [h6]
    · simp only [Bool.not_eq_true', Bool.not_eq_false, List.all_eq_true, List.any_eq_true, Bool.and_eq_true,
        decide_eq_true_eq, List.contains_eq_mem]
      intro im hi
      obtain ⟨a1, a2⟩ := him im hi
      exact ⟨_, a1, ⟨by simp [archImagePackage], rfl⟩, _, a2, ⟨rfl, rfl⟩, by simp⟩
    · simp only [Bool.not_eq_true', Bool.not_eq_false, List.any_eq_true, Bool.and_eq_true,
        decide_eq_true_eq, List.contains_eq_mem]
      exact ⟨_, hp, ⟨rfl, rfl⟩, by simp⟩

/-- **index_oracle_passes_partial** — when index, images and source sanitise to pairwise distinct identifiers
the driver's verdict on the model's index document is `pass` -/
theorem index_oracle_passes_partial {o : IndexOpts} {d : Doc} (hn : (indexIds o).Nodup)
    (h : generateIndex o = .ok d) : Driver.Sbom.verdict (indexOracle o d) = "pass" := by
  rw [index_oracle_cases h, if_pos ((idsUnique_iff d).mpr (index_ids h ▸ hn))]
  rfl

/-- … and that is the only way it can fail -/
theorem index_invalid_only_duplicate {o : IndexOpts} {d : Doc} (h : generateIndex o = .ok d)
    (hfail : indexOracle o d ≠ none) : indexOracle o d = some "id-duplicate" ∧ ¬ (indexIds o).Nodup := by
  rw [index_oracle_cases h] at hfail ⊢
  split at hfail
  · exact absurd rfl hfail
  · next hu =>
    rw [if_neg hu]
    exact ⟨rfl, fun hn => hu ((idsUnique_iff d).mpr (index_ids h ▸ hn))⟩

def exIndex : IndexOpts := ⟨⟨"sha256".toList, "aa".toList⟩, [⟨"sha256".toList, "bb".toList⟩, ⟨"sha256".toList, "cc".toList⟩],
  "https://x/y@12".toList⟩

example : (indexIds exIndex).Nodup := by unfold indexIds; decide

/-- the hypothesis is needed: the same image digest twice gives two elements with one identifier -/
theorem index_duplicate_witness :
    (match generateIndex ⟨⟨"sha256".toList, "aa".toList⟩, [⟨"sha256".toList, "bb".toList⟩, ⟨"sha256".toList, "bb".toList⟩], []⟩ with
     | .ok d => indexOracle ⟨⟨"sha256".toList, "aa".toList⟩, [⟨"sha256".toList, "bb".toList⟩, ⟨"sha256".toList, "bb".toList⟩], []⟩ d
     | .error _ => none) = some "id-duplicate" := by
  decide

/-! ## the package list is the installed database of the image that was built (base image included)

`GenerateImageSBOM` (pkg/build/sbom.go) fills the generator options; `Generated.sbomImageInputs` lists where every
field comes from (tie_glue_sbom_inputs in Lemmas/GlueC11), `Generated.sbomPackagesExpr` is the expression behind
`s.Packages`.  Model of the build's database: `Apko/Model/SbomInputs.lean`.

Full statement: for every build — with or without `contents.baseimage` — the document has exactly one element for every
record of the installed database of the image (`b.baseDb ++ b.unpacked`).  Proved: the options carry exactly that list
(`image_opts_list_installed_db`, no hypothesis); the element list under the hypotheses of `one_element_per_apk_partial`
(`base_image_one_element_per_db_record_partial`; the unrestricted form is false already without base image: F11a, F11c).
Taking the list from what this build unpacked instead violates the statement on every build with a non-empty base
image whose names are not installed again (`unpacked_list_misses_base_records`). -/
section ImageDb
open SbomInputs

/-- the expression GenerateImageSBOM takes the package list from reads the installed database of the file system
that becomes the image — proved over the regenerated fact -/
theorem packages_from_installed_db : sourceOf Generated.sbomPackagesExpr = .installedDb := by decide

/-- for EVERY build the options handed to the generator exist and list the installed database of the image:
the base image's records followed by what this build unpacked; digest and layers are the image's -/
theorem image_opts_list_installed_db (b : Build) (dg : Text) (ls : List Text) (vcs osv : Text) :
    ∃ o, imageOpts (sourceOf Generated.sbomPackagesExpr) b dg ls vcs osv = some o ∧
      o.apks = b.baseDb ++ b.unpacked ∧ o.imageDigest = dg ∧ o.layers = ls := by
  rw [packages_from_installed_db]
  exact ⟨_, rfl, rfl, rfl, rfl⟩

/-- **base_image_one_element_per_db_record_partial** — a build on top of any base image: without embedded SBOMs in
the build's own file system and with distinct generated identifiers the package list is the header followed by one
element per record of the image's installed database, base image first, with the record's name, version, checksum -/
theorem base_image_one_element_per_db_record_partial {b : Build} {dg : Text} {ls : List Text} {vcs osv : Text}
    {o : Opts} {fs : SbomDir} {ord : List Id → List Id} {d : Doc}
    (ho : imageOpts (sourceOf Generated.sbomPackagesExpr) b dg ls vcs osv = some o)
    (hl : ls ≠ []) (hn : NoEmbedded fs o) (hd : DistinctIds o) (h : generate o fs ord = .ok d) :
    d.packages = (header o).packages ++
      (b.baseDb ++ b.unpacked).map (fun a => ⟨apkId (nonceOf dg) a, a.name, a.version, [("SHA1".toList, a.checksum)]⟩) := by
  obtain ⟨o2, ho2, ha, hdg, hls⟩ := image_opts_list_installed_db b dg ls vcs osv
  rw [ho] at ho2
  cases ho2
  have := (one_element_per_apk_partial (hls ▸ hl) hn hd h).1
  rw [ha, hdg] at this
  exact this

def exBuild : Build :=
  ⟨[⟨"bi-core".toList, "1.0-r0".toList, "aa".toList⟩, ⟨"bi+".toList, "2".toList, "bb".toList⟩],
   [⟨"tool".toList, "0.8.3-r3".toList, "cc".toList⟩]⟩

example : ∃ o, imageOpts (sourceOf Generated.sbomPackagesExpr) exBuild "sha256:ab".toList ["sha256:cd".toList, "sha256:ef".toList] [] "unknown".toList = some o ∧
    NoEmbedded [] o ∧ DistinctIds o ∧ exBuild.baseDb ≠ [] := by
  refine ⟨_, by rw [packages_from_installed_db]; rfl, noEmbedded_of_B (by decide), by unfold DistinctIds; decide, by decide⟩

/-- the other list a build context has at hand is not good enough: with the packages this build's installer reported,
the document for `exBuild` has no element for the two records of the base image — the oracle, given the database of
the image, answers `apk-element` -/
theorem unpacked_list_misses_base_records :
    (match imageOpts .unpacked exBuild "sha256:ab".toList ["sha256:cd".toList, "sha256:ef".toList] [] "unknown".toList,
           imageOpts .installedDb exBuild "sha256:ab".toList ["sha256:cd".toList, "sha256:ef".toList] [] "unknown".toList with
     | some ou, some oi => okAnd (generate ou [] id) (fun d =>
         d.packages.map (·.name) == ["sha256:ab", "sha256:cd", "sha256:ef", "tool"].map String.toList &&
         oracle oi [] d == some "apk-element")
     | _, _ => false) = true := by
  decide

/-- the same document is what the oracle accepts when the image has no base (nothing but this build's records) -/
theorem unpacked_list_fine_without_base (b : Build) (h : b.baseDb = []) :
    b.listFrom .unpacked = b.listFrom .installedDb := by
  simp [Build.listFrom, Build.installedDb, h]

end ImageDb

end Apko.C11
