/-
C11 — The SBOM describes the image that was built.  (work in progress: identifier theorems)
-/
import Apko.Proofs.Lemmas.SbomId

namespace Apko.C11
open Apko Apko.Sbom

theorem id_alphabet (s : Text) : ∀ x ∈ stringToIdentifier s, idChar x = true := sti_alphabet s

theorem id_idempotent (s : Text) : stringToIdentifier (stringToIdentifier s) = stringToIdentifier s :=
  sti_idempotent s

end Apko.C11
