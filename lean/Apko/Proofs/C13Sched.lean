import Apko.Proofs.C13
import Apko.Proofs.Lemmas.AccountsSched
/-! C13 — the two goroutines of `mutateAccounts` commute (this was an assumption of the package).

Model: `Model/AccountsSched.lean` — each goroutine makes one file-system call per step (`gstep`, `ustep`), a
schedule says who moves next (`runSched`).

* `step_comm` — in every joint state in which `etc/group` and `etc/passwd` are plain entries resolving to
  different nodes (`SInv`, an invariant of both kinds of steps: `sinv_stepG`, `sinv_stepU`), a step of the
  group goroutine and a step of the passwd goroutine commute: same file system, same local states.
* `runSched_normal` — hence every schedule ends where "all the passwd steps, then all the group steps" ends.
* `interleavings_agree` — **the final state is the same for every interleaving**: any two schedules under
  which both goroutines have finished end in the same joint state (file system, both results).
* `group_alone` — the group goroutine run alone is `groupsPart` of `Model/Accounts.lean`; the same for the
  passwd goroutine is checked by the driver on every case of the suite (the three schedules it runs must
  agree with `mutateAccounts` and with the real code).
* `group_file_final_partial` — item (b): under `SInv` the group file at the END of the call reads back as
  exactly what the group goroutine wrote, whatever the interleaving.
* `aliased_schedules_differ` — the witness when the two names are one node (hard link): the hypothesis
  cannot be dropped; two schedules end differently (one reports a parse error, the other succeeds with a
  group file that holds passwd lines). -/
namespace Apko.C13
open Apko Apko.Path Apko.FS Apko.Formats Apko.Accounts

/-- the invariant: a well-formed tree in which `etc/group` and `etc/passwd` are plain entries for the
nodes `g` and `p`, and the file objects the goroutines hold are for these nodes -/
structure SInv (c : Cfg) (pig g pip p : Nat) (s : Sys) : Prop where
  wft : WFT s.fs
  pg : PlainFile c s.fs groupPath pig g
  pp : PlainFile c s.fs passwdPath pip p
  gok : GOK s.g g
  uok : UOK s.u p

theorem sinv_stepG (c : Cfg) (hc : c.posix = false) (cfg : AccCfg) (pig g pip p : Nat) (s : Sys)
    (hs : SInv c pig g pip p s) : SInv c pig g pip p (s.stepG c cfg) := by
  obtain ⟨F, k, hF, _, hgk, hchar⟩ := gstep_char c hc cfg.groups pig g s.g hs.gok
  have he := hchar s.fs hs.wft.inv hs.pg
  have hsh := hF.shape s.fs g
  refine ⟨?_, ?_, ?_, ?_, hs.uok⟩
  · exact wft_gstep c cfg.groups s.g s.fs hs.wft
  · simp only [Sys.stepG, he]; exact hs.pg.shape hsh
  · simp only [Sys.stepG, he]; exact hs.pp.shape hsh
  · simp only [Sys.stepG, he]; exact hgk _

theorem sinv_stepU (c : Cfg) (hc : c.posix = false) (cfg : AccCfg) (pig g pip p : Nat) (hne : g ≠ p) (s : Sys)
    (hs : SInv c pig g pip p s) : SInv c pig g pip p (s.stepU c cfg) := by
  obtain ⟨hext, _, _, huok⟩ := ustep_frame c hc cfg pip p g hne s.u hs.uok s.fs hs.wft (hs.pg.live hs.wft.inv) hs.pp
  exact ⟨wft_ustep c cfg s.u s.fs hs.wft, hs.pg.ext hc hext, hs.pp.ext hc hext, hs.gok, huok⟩

/-- **one step of each goroutine, in either order** -/
theorem step_comm (c : Cfg) (hc : c.posix = false) (cfg : AccCfg) (pig g pip p : Nat) (hne : g ≠ p) (s : Sys)
    (hs : SInv c pig g pip p s) : (s.stepU c cfg).stepG c cfg = (s.stepG c cfg).stepU c cfg := by
  obtain ⟨F, k, hF, hk, _, hchar⟩ := gstep_char c hc cfg.groups pig g s.g hs.gok
  have hgl := hs.pg.live hs.wft.inv
  obtain ⟨hext, _, hce, _⟩ := ustep_frame c hc cfg pip p g hne s.u hs.uok s.fs hs.wft hgl hs.pp
  have hU := sinv_stepU c hc cfg pig g pip p hne s hs
  have e1 := hchar s.fs hs.wft.inv hs.pg
  have e2 := hchar (ustep c cfg s.u s.fs).2 hU.wft.inv hU.pg
  have e3 := ustep_modify c hc cfg pip p g hne s.u hs.uok F hF s.fs hs.wft hgl hs.pp
  simp only [Sys.stepG, Sys.stepU, e1, e2, e3, hk _ _ hce]

/-! ### schedules -/

def iter (f : Sys → Sys) : Nat → Sys → Sys
  | 0, s => s
  | n + 1, s => iter f n (f s)

theorem iter_succ_right (f : Sys → Sys) : ∀ (n : Nat) (s : Sys), iter f (n + 1) s = f (iter f n s) := by
  intro n
  induction n with
  | zero => intro s; rfl
  | succ n ih => intro s; show iter f (n + 1) (f s) = _; rw [ih]; rfl

theorem iter_add (f : Sys → Sys) : ∀ (m n : Nat) (s : Sys), iter f (m + n) s = iter f n (iter f m s) := by
  intro m
  induction m with
  | zero => intro n s; simp [iter]
  | succ m ih => intro n s; rw [Nat.add_right_comm]; show iter f (m + n) (f s) = _; rw [ih]; rfl

theorem iter_fix (f : Sys → Sys) (s : Sys) (h : f s = s) : ∀ n, iter f n s = s := by
  intro n
  induction n with
  | zero => rfl
  | succ n ih => show iter f n (f s) = s; rw [h, ih]

/-- two runs of a deterministic goroutine that have both reached a fixed point are the same run -/
theorem iter_done_eq (f : Sys → Sys) (s : Sys) (m n : Nat) (hm : f (iter f m s) = iter f m s)
    (hn : f (iter f n s) = iter f n s) : iter f m s = iter f n s := by
  rcases Nat.le_total m n with h | h
  · obtain ⟨k, rfl⟩ := Nat.exists_eq_add_of_le h
    rw [iter_add, iter_fix f _ hm]
  · obtain ⟨k, rfl⟩ := Nat.exists_eq_add_of_le h
    rw [iter_add, iter_fix f _ hn]

theorem sinv_iterU (c : Cfg) (hc : c.posix = false) (cfg : AccCfg) (pig g pip p : Nat) (hne : g ≠ p) :
    ∀ (n : Nat) (s : Sys), SInv c pig g pip p s → SInv c pig g pip p (iter (Sys.stepU c cfg) n s) := by
  intro n
  induction n with
  | zero => intro s h; exact h
  | succ n ih => intro s h; exact ih _ (sinv_stepU c hc cfg pig g pip p hne s h)

/-- a step of the group goroutine moves past any number of steps of the other -/
theorem stepG_iterU (c : Cfg) (hc : c.posix = false) (cfg : AccCfg) (pig g pip p : Nat) (hne : g ≠ p) :
    ∀ (n : Nat) (s : Sys), SInv c pig g pip p s →
      (iter (Sys.stepU c cfg) n s).stepG c cfg = iter (Sys.stepU c cfg) n (s.stepG c cfg) := by
  intro n
  induction n with
  | zero => intro s _; rfl
  | succ n ih =>
    intro s h
    show (iter (Sys.stepU c cfg) n (s.stepU c cfg)).stepG c cfg = iter (Sys.stepU c cfg) n ((s.stepG c cfg).stepU c cfg)
    rw [ih _ (sinv_stepU c hc cfg pig g pip p hne s h), step_comm c hc cfg pig g pip p hne s h]

/-- **normal form of a schedule**: every schedule ends where "first all the passwd steps, then all the
group steps" ends -/
theorem runSched_normal (c : Cfg) (hc : c.posix = false) (cfg : AccCfg) (pig g pip p : Nat) (hne : g ≠ p) :
    ∀ (sched : List Bool) (s : Sys), SInv c pig g pip p s →
      runSched c cfg sched s =
        iter (Sys.stepG c cfg) (sched.count true) (iter (Sys.stepU c cfg) (sched.count false) s) := by
  intro sched
  induction sched with
  | nil => intro s _; rfl
  | cons b rest ih =>
    intro s h
    cases b with
    | true =>
      simp only [runSched, List.count_cons_self, List.count_cons_of_ne (by decide : true ≠ false)]
      rw [ih _ (sinv_stepG c hc cfg pig g pip p s h)]
      show _ = iter (Sys.stepG c cfg) (rest.count true) ((iter (Sys.stepU c cfg) (rest.count false) s).stepG c cfg)
      rw [stepG_iterU c hc cfg pig g pip p hne _ s h]
    | false =>
      simp only [runSched, List.count_cons_self, List.count_cons_of_ne (by decide : false ≠ true)]
      rw [ih _ (sinv_stepU c hc cfg pig g pip p hne s h)]
      rfl

theorem stepG_done (c : Cfg) (cfg : AccCfg) (s : Sys) (h : s.g.isDone = true) : s.stepG c cfg = s := by
  cases s with
  | mk fs g u => cases g <;> simp [GSt.isDone] at h; rfl

theorem stepU_done (c : Cfg) (cfg : AccCfg) (s : Sys) (h : s.u.isDone = true) : s.stepU c cfg = s := by
  cases s with
  | mk fs g u => cases u <;> simp [USt.isDone] at h; rfl

theorem iterG_u (c : Cfg) (cfg : AccCfg) : ∀ (n : Nat) (s : Sys), (iter (Sys.stepG c cfg) n s).u = s.u := by
  intro n
  induction n with
  | zero => intro s; rfl
  | succ n ih => intro s; show (iter (Sys.stepG c cfg) n (s.stepG c cfg)).u = s.u; rw [ih]; rfl

/-- **the final state is the same for every interleaving**: from a joint state in which `etc/group` and
`etc/passwd` are distinct plain nodes of a well-formed tree, any two schedules under which both goroutines
have finished end in the same joint state — the same file system, the same error of either goroutine,
the same resolved `run-as`. -/
theorem interleavings_agree (c : Cfg) (hc : c.posix = false) (cfg : AccCfg) (pig g pip p : Nat) (hne : g ≠ p)
    (s : Sys) (hs : SInv c pig g pip p s) (sched1 sched2 : List Bool)
    (hg1 : (runSched c cfg sched1 s).g.isDone = true) (hu1 : (runSched c cfg sched1 s).u.isDone = true)
    (hg2 : (runSched c cfg sched2 s).g.isDone = true) (hu2 : (runSched c cfg sched2 s).u.isDone = true) :
    runSched c cfg sched1 s = runSched c cfg sched2 s := by
  rw [runSched_normal c hc cfg pig g pip p hne sched1 s hs] at hg1 hu1 ⊢
  rw [runSched_normal c hc cfg pig g pip p hne sched2 s hs] at hg2 hu2 ⊢
  rw [iterG_u] at hu1 hu2
  have hU : iter (Sys.stepU c cfg) (sched1.count false) s = iter (Sys.stepU c cfg) (sched2.count false) s :=
    iter_done_eq _ s _ _ (stepU_done c cfg _ hu1) (stepU_done c cfg _ hu2)
  rw [hU] at hg1 ⊢
  exact iter_done_eq _ _ _ _ (stepG_done c cfg _ hg1) (stepG_done c cfg _ hg2)

/-- the result `mutateAccounts` reports is therefore the same for every interleaving -/
theorem interleavings_result (c : Cfg) (hc : c.posix = false) (cfg : AccCfg) (pig g pip p : Nat) (hne : g ≠ p)
    (s : Sys) (hs : SInv c pig g pip p s) (sched1 sched2 : List Bool)
    (hg1 : (runSched c cfg sched1 s).g.isDone = true) (hu1 : (runSched c cfg sched1 s).u.isDone = true)
    (hg2 : (runSched c cfg sched2 s).g.isDone = true) (hu2 : (runSched c cfg sched2 s).u.isDone = true) :
    (runSched c cfg sched1 s).result = (runSched c cfg sched2 s).result := by
  rw [interleavings_agree c hc cfg pig g pip p hne s hs sched1 sched2 hg1 hu1 hg2 hu2]

/-! ### the group goroutine alone is `groupsPart` -/

/-- four steps of the group goroutine from its start are `groupsPart` of `Model/Accounts.lean` -/
theorem group_alone (c : Cfg) (cfg : AccCfg) (fs : FS) (u : USt) :
    iter (Sys.stepG c cfg) 4 ⟨fs, .start, u⟩ =
      ⟨(groupsPart c fs cfg.groups).1, .done (groupsPart c fs cfg.groups).2, u⟩ := by
  simp only [iter, Sys.stepG, gstep, groupsPart, readOrCreate, writeBack, act, step]
  by_cases hgs : cfg.groups = []
  · simp [hgs, gstep]
  · simp only [hgs, if_false]
    rcases openCore c fs groupPath flagsReadOrCreate readOrCreatePerm with ⟨fs1, e | h⟩
    · simp [gstep]
    · simp only [gstep]
      cases loadGroups (handleData fs1 h) with
      | none => simp [gstep]
      | some old =>
        simp only [gstep]
        rcases openCore c fs1 groupPath flagsWriteFile createPerm with ⟨fs2, e | h2⟩
        · simp [gstep, liftE, errOf]
        · simp [gstep, liftE, errOf, writeH]

/-! ### (b) the group file at the end of the call -/

/-- **group_append (the file, at the END)**: in any joint state reached from `SInv` in which the group
goroutine has done its `Write` (local state `created h t` one step earlier), whatever the other goroutine
does afterwards — any number of its steps, in particular all of them — the group file reads back as
exactly the text `t` that was written (`t` = rendering of old ++ configured groups). -/
theorem group_file_final_partial (c : Cfg) (hc : c.posix = false) (cfg : AccCfg) (pig g pip p : Nat) (hne : g ≠ p)
    (s : Sys) (hs : SInv c pig g pip p s) (h : Handle) (t : Text) (ht : t ≠ [])
    (hst : s.g = .created h t) (hempty : (s.fs.node g).data = []) (n : Nat) :
    readText c (iter (Sys.stepU c cfg) n (s.stepG c cfg)).fs groupPath = t := by
  have hI := sinv_stepG c hc cfg pig g pip p s hs
  have hgok : h.ino = g := by have := hs.gok; rw [hst] at this; exact this
  have hdata : ((s.stepG c cfg).fs.node g).data = t := by
    simp only [Sys.stepG, hst, gstep, writeH_eq, hgok]
    rw [node_modify, if_pos ⟨rfl, hs.pg.live hs.wft.inv⟩]
    simp only [writeF, hempty]; exact writeAt_empty t ht
  -- the other goroutine keeps the content of `g`
  have key : ∀ (n : Nat) (s' : Sys), SInv c pig g pip p s' → (s'.fs.node g).data = t →
      SInv c pig g pip p (iter (Sys.stepU c cfg) n s') ∧ ((iter (Sys.stepU c cfg) n s').fs.node g).data = t := by
    intro n
    induction n with
    | zero => intro s' h1 h2; exact ⟨h1, h2⟩
    | succ n ih =>
      intro s' h1 h2
      obtain ⟨_, _, hce, _⟩ := ustep_frame c hc cfg pip p g hne s'.u h1.uok s'.fs h1.wft (h1.pg.live h1.wft.inv) h1.pp
      exact ih _ (sinv_stepU c hc cfg pig g pip p hne s' h1) (by simp only [Sys.stepU]; rw [hce.1]; exact h2)
  obtain ⟨hF, hd⟩ := key n _ hI hdata
  rw [readText_of_entry c hc _ groupPath pig g hF.pg.par hF.pg.pdir hF.pg.look hF.pg.ndir hF.pg.nsym (by rw [hd]; exact ht)]
  exact hd

/-! ### aliasing: the hypothesis `g ≠ p` cannot be dropped -/

/-- `etc/passwd` (empty) and a hard link `etc/group` to it -/
def wFSalias : FS :=
  (run wCfg FS.empty
    [.mkdirAll ['e', 't', 'c'] 0o755, .writeFile passwdPath [] 0o644, .link passwdPath groupPath]).1

def wAcc : AccCfg :=
  { users := [{ name := ['u'], uid := 7, home := devNull }], groups := [{ name := ['g'], gid := 9 }] }

/-- group goroutine to its end, then the other -/
def schedGU : List Bool := List.replicate 4 true ++ List.replicate 6 false
/-- both read before either writes, and the passwd goroutine writes last -/
def schedMixed : List Bool := [true, true, false, false, true, true, false, false, false, false]

/-- **the witness for aliased files** (one node under both names): the two schedules end differently — run
one after the other, the passwd goroutine finds group lines in "its" file and the call fails with a parse
error; interleaved so that both read the empty file first, both goroutines succeed and `etc/group` ends up
holding the passwd entries (what was written last), not the configured group. -/
theorem aliased_schedules_differ :
    let s0 : Sys := ⟨wFSalias, .start, .start⟩
    (runSched wCfg wAcc schedGU s0).result.2.1 = some .parse ∧
    (runSched wCfg wAcc schedMixed s0).result.2.1 = none ∧
    readText wCfg (runSched wCfg wAcc schedMixed s0).fs groupPath = writeUsers (wAcc.users.map userToUserEntry) ∧
    (runSched wCfg wAcc schedGU s0).g.isDone = true ∧ (runSched wCfg wAcc schedGU s0).u.isDone = true ∧
    (runSched wCfg wAcc schedMixed s0).g.isDone = true ∧ (runSched wCfg wAcc schedMixed s0).u.isDone = true := by
  decide +kernel

/-- the invariant is satisfiable by a non-trivial state: distinct files shipped by a package / written
in memory -/
def wFSok : FS :=
  (run wCfg FS.empty
    [.mkdirAll ['e', 't', 'c'] 0o755, .writeFile passwdPath [] 0o644, .writeFile groupPath [] 0o644]).1

example : SInv wCfg 1 3 1 2 ⟨wFSok, .start, .start⟩ := by
  have h0 : WFT FS.empty := ⟨Tar.tar_wf_empty, Tree.empty⟩
  have h1 := wft_step wCfg FS.empty (.mkdirAll ['e', 't', 'c'] 0o755) (by decide) h0
  have h2 := wft_step wCfg _ (.writeFile passwdPath [] 0o644) (by decide) h1
  have h3 := wft_step wCfg _ (.writeFile groupPath [] 0o644) (by decide) h2
  have par : ∀ q, follow wCfg wFSok q = some 1 → getNode wCfg wFSok q = .ok 1 := by
    intro q hq
    unfold follow at hq
    cases hx : getNode wCfg wFSok q with
    | ok i => rw [hx] at hq; simp at hq; rw [hq]
    | error e => rw [hx] at hq; simp at hq
  exact ⟨h3, ⟨par _ (by decide +kernel), by decide +kernel, by decide +kernel, by decide +kernel, by decide +kernel⟩,
    ⟨par _ (by decide +kernel), by decide +kernel, by decide +kernel, by decide +kernel, by decide +kernel⟩, trivial, trivial⟩

end Apko.C13
