import Apko.Proofs.C13
import Apko.Proofs.Lemmas.AccountsDirLinks
/-! C13, `directory` mutations at full strength over the FINAL tree (items (a) and (c) of the list that
was "exercised only"):

* `directory_post` — the declared path resolves to a **directory** with the declared bits and owner, for
  every spelling of the path and also when it runs through symbolic links (no side condition on the
  lookup; the initial tree is well-formed, `WFT`).
* `recursive_subtree` — `recursive: true`: **every** entry below the root in the final tree (the list
  `walkFrom` that `specMutation`'s `subtreeFails` inspects, to any depth) that is not a symbolic link
  carries the declared bits and owner.
* `directory_post_spec_partial` — hence the whole Spec post-condition `specMutation = []` when no
  symbolic link lives below the root; the full statement `directory_full` fails exactly there
  (`directory_full_fails`, F13a: the owner declared lands on the link's target). -/
namespace Apko.C13
open Apko Apko.Path Apko.FS Apko.Formats Apko.Accounts

/-- the state `MkdirAll` left and its relation to the final state of a `directory` iteration -/
theorem directory_states (c : Cfg) (fs fs' : FS) (m : Mutation) (hw : WFT fs)
    (ht : m.type = tDirectory) (h : mutateOne c fs m = (fs', none)) :
    ∃ fsA fs1 vs, act c fs (.mkdirAll m.path (permMode m.perms)) = (fsA, none) ∧ WFT fsA ∧
      mutateDirectory c fs m = (fs1, none, vs) ∧ mutatePermissions c fs1 m = (fs', none) ∧
      ShapeEq fsA fs1 ∧ ShapeEq fsA fs' ∧ FS.Inv fs1 := by
  rw [mutateOne_directory c fs m ht] at h
  obtain ⟨fs1, h1, h2⟩ := andThen_ok (liftE_ok h)
  simp only [Prod.mk.injEq] at h1
  have hd : mutateDirectory c fs m = (fs1, none, (mutateDirectory c fs m).2.2) := by rw [← h1.1, ← h1.2]
  cases hA : act c fs (.mkdirAll m.path (permMode m.perms)) with
  | mk fsA e =>
    cases e with
    | some e =>
      exfalso
      have : (mutateDirectory c fs m).2.1 = some e := by simp [mutateDirectory, hA]
      rw [h1.2] at this; cases this
    | none =>
      have wA : WFT fsA := by have := wft_act c fs _ (mkdirAll_guard m.perms m.path) hw; rw [hA] at this; exact this
      have s1 : ShapeEq fsA fs1 := by rw [← h1.1]; exact mutateDirectory_shape c fs fsA m hA
      have s2 : ShapeEq fs1 fs' := by
        have := shape_mpd c fs1 m.path m.perms m.uid m.gid
        unfold mutatePermissions at h2; rw [h2] at this; exact this
      have i1 : FS.Inv fs1 := by have := inv_mutateDirectory c fs m hw.inv; rw [hd] at this; exact this
      exact ⟨fsA, fs1, _, rfl, wA, hd, h2, s1, ShapeEq.trans s1 s2, i1⟩

/-- **mutation_post (directory)** at full strength: after a successful iteration of `mutatePaths` for a
`directory` mutation on a well-formed tree, the declared path — however it is spelled, through
whatever symbolic links it runs — resolves to a *directory* that carries exactly the declared
permission bits (set-id and sticky included) and owner. -/
theorem directory_post (c : Cfg) (hc : c.posix = false) (fs fs' : FS) (m : Mutation) (hw : WFT fs)
    (ht : m.type = tDirectory) (h : mutateOne c fs m = (fs', none)) :
    ∃ i, follow c fs' m.path = some i ∧ (fs'.node i).dir = true ∧
      permBitsOK (fs'.node i) m.perms = true ∧ ownerOK (fs'.node i) m.uid m.gid = true := by
  obtain ⟨i, hf, hp, ho⟩ := mutation_post_attrs c fs fs' m hw.inv (by simp [ht]) h
  obtain ⟨fsA, fs1, vs, hA, wA, _, _, _, sh, _⟩ := directory_states c fs fs' m hw ht h
  refine ⟨i, hf, ?_, hp, ho⟩
  have hg : getNode c fsA m.path = .ok i := by
    have : getNode c fs' m.path = .ok i := by
      simp only [follow] at hf
      cases hx : getNode c fs' m.path with
      | ok j => simp [hx] at hf; rw [hf]
      | error e => simp [hx] at hf
    rw [getNode_shape sh] at this; exact this
  rw [sh.dir i]
  exact mkdirAll_resolves_dir c hc fs fsA m.path _ hw.inv wA.tree hA i hg

/-- **mutation_post (directory, recursive) over the final tree**: every entry below the declared root —
to any depth, as the structural walk of the FINAL state lists them — that is not a symbolic link carries
exactly the declared permission bits and owner. -/
theorem recursive_subtree (c : Cfg) (hc : c.posix = false) (fs fs' : FS) (m : Mutation) (hw : WFT fs)
    (ht : m.type = tDirectory) (hr : m.recursive = true) (h : mutateOne c fs m = (fs', none)) :
    ∃ i, follow c fs' m.path = some i ∧ (fs'.node i).dir = true ∧
      ∀ (k : Nat) (pre : List Name) (w : List Name × Ino), w ∈ walkFrom fs' k pre i →
        (fs'.node w.2).isSymlink = false →
        permBitsOK (fs'.node w.2) m.perms = true ∧ ownerOK (fs'.node w.2) m.uid m.gid = true := by
  obtain ⟨i, hf, hdir, _, _⟩ := directory_post c hc fs fs' m hw ht h
  obtain ⟨fsA, fs1, vs, hA, wA, hmd, h2, s1, sh, i1⟩ := directory_states c fs fs' m hw ht h
  refine ⟨i, hf, hdir, ?_⟩
  intro k pre w hwk hsym
  have hgA : getNode c fsA m.path = .ok i := by
    have : getNode c fs' m.path = .ok i := by
      simp only [follow] at hf
      cases hx : getNode c fs' m.path with
      | ok j => simp [hx] at hf; rw [hf]
      | error e => simp [hx] at hf
    rw [getNode_shape sh] at this; exact this
  -- the walk of `mutateDirectory`
  obtain ⟨_, _, hgood⟩ := mutateDirectory_walk c fs fs1 m vs hw.inv hr hmd
  have hmd2 := hmd
  unfold mutateDirectory at hmd2
  simp only [hA, hr, if_true] at hmd2
  unfold walkRoot at hmd2
  simp only [step, hgA, statOf] at hmd2
  rw [walkFrom_shape sh] at hwk
  rw [sh.sym] at hsym
  obtain ⟨p, hp, hpg⟩ := walkDir_subtree c hc _ (fun f q => shape_mpd c f q _ _ _) fsA wA.inv wA.tree wA.symOK
    _ fsA fs1 m.path _ vs i (ShapeEq.refl fsA) hmd2 hgA rfl k pre w hwk hsym
  -- the last `mutatePermissions` keeps every visited path good
  obtain ⟨_, hg'⟩ := good_cb c m.perms m.uid m.gid fs1 fs' vs m.path i1 hgood h2
  obtain ⟨j, hj, ha⟩ := hg' p (List.mem_cons_of_mem _ hp)
  rw [getNode_shape sh, hpg] at hj
  cases hj
  exact ha

/-- **mutation_post (directory): the whole Spec post-condition**, for every `directory` mutation —
recursive or not — under the one hypothesis that is a recorded finding: no symbolic link lives below
the root of a recursive mutation (F13a: ownership declared for a link lands on its target). -/
theorem directory_post_spec_partial (c : Cfg) (hc : c.posix = false) (fs fs' : FS) (m : Mutation) (hw : WFT fs)
    (ht : m.type = tDirectory) (h : mutateOne c fs m = (fs', none))
    (hnl : m.recursive = true → ∀ i, follow c fs' m.path = some i →
      ∀ w ∈ walkFrom fs' fs'.nodes.length [] i, (fs'.node w.2).isSymlink = false) :
    specMutation c fs' m = [] := by
  obtain ⟨i, hf, hdir, hp, ho⟩ := directory_post c hc fs fs' m hw ht h
  simp only [specMutation, ht, if_true, hf, hdir, attrFails, hp, ho, List.append_nil, List.nil_append, and_true]
  by_cases hr : m.recursive = true
  · simp only [hr, if_true]
    obtain ⟨i', hf', _, hsub⟩ := recursive_subtree c hc fs fs' m hw ht hr h
    rw [hf] at hf'; cases hf'
    unfold subtreeFails
    rw [List.flatMap_eq_nil_iff]
    intro w hwm
    have hs := hnl hr i hf w hwm
    obtain ⟨h1, h2⟩ := hsub _ _ w hwm hs
    simp [hs, attrFails, h1, h2]
  · simp [hr]

/-! ### the full statement and its negation -/

/-- the full statement for `directory` mutations: the whole Spec post-condition, links below the root
of a recursive mutation included (their *own* ownership is what is declared) … -/
def directory_full : Prop :=
  ∀ (fs fs' : FS) (m : Mutation), WFT fs → m.type = tDirectory → mutateOne wCfg fs m = (fs', none) →
    specMutation wCfg fs' m = []

/-- a tree with a file `t` and a directory `d` that holds one entry, the link `d/l -> /t` -/
def wFSd : FS :=
  (run wCfg FS.empty
    [.writeFile ['t'] ['x'] 0o644, .mkdirAll ['d'] 0o755, .symlink ['/', 't'] ['d', '/', 'l']]).1

def wRec : Mutation :=
  { path := ['d'], type := tDirectory, uid := 1000, gid := 1000, perms := 0o750, recursive := true }

theorem wft_wFSd : WFT wFSd := by
  have h0 : WFT FS.empty := ⟨Tar.tar_wf_empty, Tree.empty⟩
  have h1 := wft_step wCfg FS.empty (.writeFile ['t'] ['x'] 0o644) (by decide) h0
  have h2 := wft_step wCfg _ (.mkdirAll ['d'] 0o755) (by decide) h1
  have h3 := wft_step wCfg _ (.symlink ['/', 't'] ['d', '/', 'l']) (by decide) h2
  exact h3

/-- **F13a below a recursive root** (negation of the full statement): the mutation succeeds, the only
failed demand is the ownership of the link entry `d/l` (it stays 0:0), and the declared owner has landed
on the link's target `t`, which is not below the root at all. -/
theorem recursive_link_owner_lands_on_target :
    (mutateOne wCfg wFSd wRec).2 = none ∧
    specMutation wCfg (mutateOne wCfg wFSd wRec).1 wRec = [tr "sub-link-owner"] ∧
    (follow wCfg (mutateOne wCfg wFSd wRec).1 ['t']).map
      (fun k => ((mutateOne wCfg wFSd wRec).1.node k).uid) = some 1000 := by decide +kernel

/-- … fails (F13a); `directory_post_spec_partial` is the part that holds -/
theorem directory_full_fails : ¬ directory_full := by
  intro h
  have hw := recursive_link_owner_lands_on_target
  have := h wFSd _ wRec wft_wFSd rfl (Prod.ext rfl hw.1)
  rw [hw.2.1] at this
  cases this

/-- a nested tree `n/s/f` (singleton listings at every level) -/
def wFSn : FS :=
  (run wCfg FS.empty [.mkdirAll ['n', '/', 's'] 0o755, .writeFile ['n', '/', 's', '/', 'f'] ['x'] 0o600]).1

/-- the hypotheses of `directory_post_spec_partial` are satisfiable by a non-trivial value: a recursive
mutation over a nested tree, reached through a spelling with a doubled slash; every level (the
directory `n/s` and the file `n/s/f`) ends with the declared bits (set-group-ID included) and owner -/
example :
    let m : Mutation := { path := ['/', '/', 'n'], type := tDirectory, uid := 7, gid := 8, perms := 0o2750, recursive := true }
    (mutateOne wCfg wFSn m).2 = none ∧ specMutation wCfg (mutateOne wCfg wFSn m).1 m = [] ∧
    (walkFrom (mutateOne wCfg wFSn m).1 3 [] 1).map (·.1) = [[['s']], [['s'], ['f']]] := by decide +kernel

end Apko.C13
