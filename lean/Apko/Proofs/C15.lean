/-
C15 — Untrusted input never crashes or hangs the tool.

Every reader model is a total Lean function (accepted without `partial`: it terminates on every
input).  Go slice/index expressions are mirrored by pattern matches that yield the outcome `oob`
where the Go code would panic; the theorems say that outcome is unreachable.

* `parseInstalled_no_oob`, `parseIndex_no_oob`: for ALL codecs, case tables and byte strings.
  `parseInstalled_unguarded_oob` is the witness for the pinned code (F15a, repaired): without the
  `len(line) < 2` guard a one-byte line panics.  `C16.tie_idbGuarded` ties the guard to the source.
* `parseDotNums_fuel`, `recognise` totality: the version recogniser's fuel (the input length) is
  adequate — more fuel never changes the answer, so the model does not cut a parse short.
* passwd / group / constraint readers: total by construction (structural recursion, no indexing).
Library decoders (gzip, tar, YAML, JSON, ini) are outside the model (partial; suite `robust`).
-/
import Apko.Model.Formats
import Apko.Model.Version

namespace Apko.C15
open Apko Apko.Formats

/-! ## the installed-db and APKINDEX readers never index out of range -/

theorem bind_ne_oob {α β : Type} {r : Res α} {f : α → Res β}
    (h1 : r ≠ .oob) (h2 : ∀ a, f a ≠ .oob) : r.bind f ≠ .oob := by
  cases r with
  | ok a => exact h2 a
  | err => simp [Res.bind]
  | oob => exact absurd rfl h1

theorem ofOption_ne_oob {α : Type} (o : Option α) : Res.ofOption o ≠ .oob := by
  cases o <;> simp [Res.ofOption]

theorem idbStep_no_oob (c : Codec) (cs : List Case) (st : IdbState) (line : Text) :
    idbStep c cs true st line ≠ .oob := by
  unfold idbStep
  split
  · simp
  · simp
  · split
    · simp
    · split
      · simp
      · exact bind_ne_oob (ofOption_ne_oob _) (fun _ => by simp)
      · simp
      · split
        · simp
        · split <;> simp
      · simp
      · split
        · simp
        · split <;> simp

theorem idbFold_no_oob (c : Codec) (cs : List Case) (st : IdbState) (ls : List Text) :
    idbFold c cs true st ls ≠ .oob := by
  induction ls generalizing st with
  | nil => simp [idbFold]
  | cons l ls ih =>
    simp only [idbFold]
    exact bind_ne_oob (idbStep_no_oob c cs st l) (fun st' => ih st')

/-- T `no_oob_ParseInstalled`: with the one-byte-line guard, no byte string makes the reader index
out of range. -/
theorem parseInstalled_no_oob (c : Codec) (cs : List Case) (t : Text) :
    parseInstalled c cs true t ≠ .oob := by
  unfold parseInstalled
  exact bind_ne_oob (idbFold_no_oob c cs _ _) (fun _ => by simp)

/-- F15a witness (pinned code, repaired): without the guard a one-byte line panics -/
theorem parseInstalled_unguarded_oob (c : Codec) (cs : List Case) :
    parseInstalled c cs false "P\n".toList = .oob := by
  simp [parseInstalled, scanLines, rawLines, rawLinesAux, dropCR, idbFold, idbStep, Res.bind,
    defaultTokenMax]

theorem idxStep_no_oob (c : Codec) (cs : List Case) (st : IdxState) (line : Text) :
    idxStep c cs st line ≠ .oob := by
  unfold idxStep
  split
  · simp
  · simp
  · split
    · simp
    · split
      · exact bind_ne_oob (ofOption_ne_oob _) (fun _ => by simp)
      · simp

theorem idxFold_no_oob (c : Codec) (cs : List Case) (st : IdxState) (ls : List Text) :
    idxFold c cs st ls ≠ .oob := by
  induction ls generalizing st with
  | nil => simp [idxFold]
  | cons l ls ih =>
    simp only [idxFold]
    exact bind_ne_oob (idxStep_no_oob c cs st l) (fun st' => ih st')

/-- T `no_oob_ParsePackageIndex` -/
theorem parseIndex_no_oob (c : Codec) (cs : List Case) (t : Text) :
    parseIndex c cs t ≠ .oob := by
  unfold parseIndex
  exact bind_ne_oob (idxFold_no_oob c cs _ _) (fun _ => by split <;> simp)

/-! ## the version recogniser: fuel is adequate -/

theorem spanDigits_length (s : Text) : (spanDigits s).2.length ≤ s.length := by
  induction s with
  | nil => simp [spanDigits]
  | cons c cs ih =>
    simp only [spanDigits]
    split
    · simp only [List.length_cons]; omega
    · simp

/-- T `parseDotNums_fuel`: once the fuel covers the input length, more fuel changes nothing — the
fuelled loop is the unbounded loop `(\.[0-9]+)*`. -/
theorem parseDotNums_fuel (s : Text) (n : Nat) (h : s.length ≤ n) :
    parseDotNums (n + 1) s = parseDotNums n s := by
  induction n generalizing s with
  | zero =>
    have : s = [] := List.length_eq_zero_iff.mp (by omega)
    subst this; simp [parseDotNums]
  | succ n ih =>
    cases s with
    | nil => simp [parseDotNums]
    | cons a rest =>
      cases rest with
      | nil => by_cases ha : a = '.' <;> simp [parseDotNums, ha]
      | cons c cs =>
        by_cases ha : a = '.'
        · subst ha
          simp only [parseDotNums]
          by_cases hd : isDigit c = true
          · simp only [hd, if_true]
            have hl := spanDigits_length (c :: cs)
            simp only [List.length_cons] at h hl
            rw [ih (spanDigits (c :: cs)).2 (by omega)]
          · simp [hd]
        · simp [parseDotNums, ha]

end Apko.C15
