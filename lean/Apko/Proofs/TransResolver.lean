/-
Equality theorems for the Go functions of pkg/apk/apk/repo.go that the extractor translates to Lean on
every run (`Apko/Generated/TransResolver.lean`, written by extract/trans.go): the translated definition
equals the hand-written model in `Model/Resolver.lean` that the theorems of C02 / C01 / C08
(`comparePackages_lex`, `comparePackages_swo`, `filter_local`, `resolve_sound_partial`, …) are about.
A semantic change of the Go function changes the generated definition and these proofs stop checking.
-/
import Apko.Generated.TransResolver
import Apko.Generated.Resolver
import Apko.Model.Resolver
import Apko.Proofs.Lemmas.TransLoop
import Apko.Proofs.TransVersion

namespace Apko.TransResolver
open Apko Apko.Resolver Apko.TransLoop

-- a `for … range` loop whose body is "`if p x { return g x }`" is `find?` followed by `g`
theorem findSome_guard {α β} (p : α → Prop) [DecidablePred p] (g : α → β) (l : List α) :
    l.findSome? (fun x => if p x then some (g x) else none) = (l.find? (fun x => decide (p x))).map g := by
  induction l with
  | nil => rfl
  | cons x xs ih => by_cases h : p x <;> simp [h, ih]

-- T `trans_getDepVersionForName`: Go's `getDepVersionForName`, translated, is the model's.
theorem trans_getDepVersionForName (pkg : Pkg) (name : Text) :
    Generated.Trans.getDepVersionForName pkg name = getDepVersionForName pkg name := by
  unfold Generated.Trans.getDepVersionForName getDepVersionForName
  by_cases h1 : name = []
  · simp [h1]
  by_cases h2 : name = pkg.name
  · simp [h2]
  have h12 : ¬(name = [] ∨ name = pkg.name) := not_or.mpr ⟨h1, h2⟩
  simp only [beq_iff_eq, Bool.or_eq_true, decide_eq_true_eq, List.isEmpty_iff, h12, ↓reduceIte, provName]
  generalize pkg.provides = l
  induction l with
  | nil => simp
  | cons x xs ih =>
    simp only [List.findSome?_cons, List.find?_cons]
    by_cases hx : (parseConstraint x).name = name <;> simp_all

-- the two version steps of the comparator, as Go's `switch` renders them
theorem verStep_int (x y : Text) (k : Int) :
    (if ((pv x).isNone && !(pv y).isNone) then (1 : Int)
     else if (!(pv x).isNone && (pv y).isNone) then -1
     else if (!(pv x).isNone && !(pv y).isNone) then
       (if (Generated.Trans.compareVersionsGo ((pv x).getD default) ((pv y).getD default) != (0 : Int)) then
          (-1) * Generated.Trans.compareVersionsGo ((pv x).getD default) ((pv y).getD default)
        else k)
     else k) =
    match verStep .eq x y with
    | some o => Trans.ordInt o
    | none => k := by
  unfold verStep
  cases hx : pv x <;> cases hy : pv y <;> simp [Trans.ordInt]
  rename_i vx vy
  cases hc : compareVersions vx vy <;> simp [TransVersion.trans_compareVersions, Trans.ordInt, hc, Ordering.swap]

theorem cmpCompare_eq (a b : Text) : Trans.cmpCompare a b = Trans.ordInt (cmpText a b) := by
  unfold Trans.cmpCompare cmpText
  by_cases h1 : a < b <;> by_cases h2 : b < a <;> simp [h1, h2, Trans.ordInt]

-- T `trans_comparePackages`: the closure `comparePackages` returns, translated with the captured
-- variables as parameters, is the model's comparator (the repaired one, `bothBad = .eq`) read as Go's
-- `-1 / 0 / +1` — for `compare = nil`, which is what every call site passes (`tie_comparatorCallSites`).
theorem trans_comparePackages (name pin : Text) (existing : List (Text × Pkg)) (origins : List Text)
    (a b : Pkg) :
    Generated.Trans.comparePackages none name existing origins pin a b =
      Trans.ordInt (comparePackages .eq name pin existing origins a b) := by
  unfold Generated.Trans.comparePackages comparePackages
  simp only [trans_getDepVersionForName, Option.isSome_none, Bool.false_eq_true, ↓reduceIte, verStep_int,
    cmpCompare_eq]
  cases he1 : lookupT existing a.name <;> cases he2 : lookupT existing b.name <;>
    simp <;> (repeat' split) <;> simp_all [Trans.ordInt] <;> omega

-- T `trans_conflictingVersion`: Go's `conflictingVersion`, translated (`none` = the `panic` at its end),
-- is the model's.
theorem trans_conflictingVersion (con : Constraint) (conflict : Pkg) :
    Generated.Trans.conflictingVersion con conflict = conflictingVersion con conflict := by
  unfold Generated.Trans.conflictingVersion conflictingVersion
  by_cases h1 : con.version = []
  · by_cases h2 : conflict.name = con.name
    · simp [h1, h2]
    · simp only [h1, h2, bne_self_eq_false, Bool.false_eq_true, ↓reduceIte, beq_iff_eq, List.isEmpty_nil,
        Bool.not_true, provName]
      generalize conflict.provides = l
      induction l with
      | nil => simp
      | cons x xs ih =>
        simp only [List.findSome?_cons, List.find?_cons]
        by_cases hx : (parseConstraint x).name = con.name
        · by_cases hv : (parseConstraint x).version = [] <;> simp_all
        · simp_all
  · simp [h1]

/-- the candidate test of `filterPackages` that does not look at versions (the model's `survivors`) -/
def surv (dq : List Nat) (allowPin preferPin : Text) (installed : Option Pkg) (p : Pkg) : Bool :=
  !dq.contains p.id &&
    !((!p.pin.isEmpty && p.pin != allowPin && p.pin != preferPin) &&
      (match installed with | none => true | some i => Pkg.url i != Pkg.url p))

/-- the model's test of one provide against the required version -/
def provHit (dep : Dep) (req : Version) (prov : Text) : Bool :=
  let v := (parseConstraint prov).version
  if v.isEmpty then false
  else match pv v with
    | none => false
    | some a => dep.satisfies a req

/-- the model's version test of one candidate -/
def pkgTest (dep : Dep) (req : Version) (p : Pkg) : Bool :=
  match pv p.version with
  | none => false
  | some act => dep.satisfies act req || p.provides.any (provHit dep req)

-- T `trans_filterPackages`: the body of Go's `filterPackages` after the functional options were applied
-- (the loop with its accumulator `passed`, the early `return nil`, `continue`, and the inner loop over the
-- provides with its `break`), translated, is the model's `filterPackages` — which `C02.filter_local`,
-- `filter_perm`, `filter_sound`, `filter_excludes_dq` are about.
theorem trans_filterPackages (pkgs : List Pkg) (dq : List Nat) (version : Text) (dep : Dep)
    (allowPin preferPin : Text) (installed : Option Pkg) :
    Generated.Trans.filterPackages pkgs dq ⟨allowPin, preferPin, version, installed, dep⟩ =
      filterPackages pkgs dq version dep allowPin preferPin installed := by
  unfold Generated.Trans.filterPackages filterPackages
  simp only [TransVersion.trans_satisfies]
  by_cases hany : dep = .any
  · subst hany
    rw [forRange_next (g := fun s x => if surv dq allowPin preferPin installed x then s ++ [x] else s)]
    · rw [foldl_append_filter, List.nil_append]
      congr 1
    · intro s x
      cases installed <;> simp [surv] <;> grind
  · cases hv : pv version with
    | none =>
      simp only [hany, ↓reduceIte]
      split
      · rename_i r heq
        exact forRange_next_or_ret_inl _ [] (by
          intro s x
          simp only [Option.isNone_none, ↓reduceIte, beq_iff_eq, hany]
          repeat' split
          all_goals first | exact Or.inl rfl | exact Or.inr rfl) _ _ _ heq
      · rename_i p heq
        exact forRange_next_or_ret_inr _ [] (by
          intro s x
          simp only [Option.isNone_none, ↓reduceIte, beq_iff_eq, hany]
          repeat' split
          all_goals first | exact Or.inl rfl | exact Or.inr rfl) _ _ _ heq
    | some req =>
      simp only [hany, ↓reduceIte]
      rw [forRange_next (g := fun s x =>
        if (pkgTest dep req x && surv dq allowPin preferPin installed x) then s ++ [x] else s)]
      · rw [foldl_append_filter, List.nil_append, List.filter_filter]
        congr 1
      · intro s x
        simp only [Option.isNone_some, Bool.false_eq_true, ↓reduceIte, beq_iff_eq, hany, Option.getD_some]
        by_cases hs : surv dq allowPin preferPin installed x = true
        · have hd : dq.contains x.id = false := by simp [surv] at hs; simpa using hs.1
          have hp : (x.pin != [] && x.pin != allowPin && x.pin != preferPin &&
              (installed.isNone || (if installed.isSome = true then Pkg.url (installed.getD default) else []) != Pkg.url x)) = false := by
            cases installed <;> simp [surv] at hs ⊢ <;> grind
          simp only [hd, hp, Bool.false_eq_true, ↓reduceIte, hs, Bool.and_true, pkgTest]
          cases hx : pv x.version with
          | none => simp
          | some act =>
            simp only [Option.isNone_some, Bool.false_eq_true, ↓reduceIte, Option.getD_some]
            by_cases hsat : dep.satisfies act req = true
            · simp [hsat]
            · simp only [hsat, Bool.false_eq_true, ↓reduceIte, Bool.false_or]
              split
              · rename_i r heq
                exact absurd heq (forRange_brk_any_not_inl (fun t => t.2.2) (provHit dep req) (· ++ [x]) _ (by
                  intro t prov
                  unfold provHit
                  by_cases h1 : (parseConstraint prov).version = []
                  · simp [h1]
                  · cases h2 : pv (parseConstraint prov).version with
                    | none => simp [h1, h2]
                    | some a => by_cases h3 : dep.satisfies a req = true <;> simp [h1, h2, h3]) _ _ _)
              · rename_i av er pa heq
                have := forRange_brk_any_inr (fun t => t.2.2) (provHit dep req) (· ++ [x]) _ (by
                  intro t prov
                  unfold provHit
                  by_cases h1 : (parseConstraint prov).version = []
                  · simp [h1]
                  · cases h2 : pv (parseConstraint prov).version with
                    | none => simp [h1, h2]
                    | some a => by_cases h3 : dep.satisfies a req = true <;> simp [h1, h2, h3]) _ _ _ heq
                simpa using this
        · have hs2 : surv dq allowPin preferPin installed x = false := by simpa using hs
          simp only [hs2, Bool.and_false, Bool.false_eq_true, ↓reduceIte]
          by_cases hd : dq.contains x.id = true
          · simp only [hd, ↓reduceIte]
          · have hp : (x.pin != [] && x.pin != allowPin && x.pin != preferPin &&
                (installed.isNone || (if installed.isSome = true then Pkg.url (installed.getD default) else []) != Pkg.url x)) = true := by
              cases installed <;> simp [surv] at hs2 hd ⊢ <;> grind
            simp only [hd, hp, Bool.false_eq_true, ↓reduceIte]

-- every call site hands `nil` as `compare` (the branch on it is dead code today)
theorem tie_comparatorCallSites : Generated.comparatorCompareArgs = ["nil", "nil", "nil"] := by decide

/-- the statement is about non-trivial values: a preferred pin beats a higher version -/
example :
    let a : Pkg := ⟨0, "x".toList, "1.0-r0".toList, [], [], "edge".toList, 0, [], [], []⟩
    let b : Pkg := ⟨1, "x".toList, "2.0-r0".toList, [], [], [], 0, [], [], []⟩
    Generated.Trans.comparePackages none "x".toList [] [] "edge".toList a b = -1 ∧
    Generated.Trans.comparePackages none "x".toList [] [] [] a b = 1 := by decide

end Apko.TransResolver
