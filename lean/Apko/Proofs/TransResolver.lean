/-
Equality theorems for the Go functions of pkg/apk/apk/repo.go that the extractor translates to Lean on
every run (`Apko/Generated/TransResolver.lean`, written by extract/trans.go): the translated definition
equals the hand-written model in `Model/Resolver.lean` that the theorems of C02 / C01 / C08
(`comparePackages_lex`, `comparePackages_swo`, `filter_local`, `resolve_sound_partial`, …) are about.
A semantic change of the Go function changes the generated definition and these proofs stop checking.
-/
import Apko.Generated.TransResolver
import Apko.Generated.Resolver
import Apko.Model.Resolver

namespace Apko.TransResolver
open Apko Apko.Resolver

-- a `for … range` loop whose body is "`if p x { return g x }`" is `find?` followed by `g`
theorem findSome_guard {α β} (p : α → Prop) [DecidablePred p] (g : α → β) (l : List α) :
    l.findSome? (fun x => if p x then some (g x) else none) = (l.find? (fun x => decide (p x))).map g := by
  induction l with
  | nil => rfl
  | cons x xs ih => by_cases h : p x <;> simp [h, ih]

-- T `trans_getDepVersionForName`: Go's `getDepVersionForName`, translated, is the model's.
theorem trans_getDepVersionForName (pkg : Pkg) (name : Text) :
    Generated.Trans.getDepVersionForName pkg name = getDepVersionForName pkg name := by
  unfold Generated.Trans.getDepVersionForName getDepVersionForName
  by_cases h1 : name = []
  · simp [h1]
  by_cases h2 : name = pkg.name
  · simp [h2]
  have h12 : ¬(name = [] ∨ name = pkg.name) := not_or.mpr ⟨h1, h2⟩
  simp only [beq_iff_eq, Bool.or_eq_true, decide_eq_true_eq, List.isEmpty_iff, h12, ↓reduceIte, provName]
  generalize pkg.provides = l
  induction l with
  | nil => simp
  | cons x xs ih =>
    simp only [List.findSome?_cons, List.find?_cons]
    by_cases hx : (parseConstraint x).name = name <;> simp_all

-- the two version steps of the comparator, as Go's `switch` renders them
theorem verStep_int (x y : Text) (k : Int) :
    (if ((pv x).isNone && !(pv y).isNone) then (1 : Int)
     else if (!(pv x).isNone && (pv y).isNone) then -1
     else if (!(pv x).isNone && !(pv y).isNone) then
       (if (Trans.compareVersionsInt ((pv x).getD default) ((pv y).getD default) != (0 : Int)) then
          (-1) * Trans.compareVersionsInt ((pv x).getD default) ((pv y).getD default)
        else k)
     else k) =
    match verStep .eq x y with
    | some o => Trans.ordInt o
    | none => k := by
  unfold verStep
  cases hx : pv x <;> cases hy : pv y <;> simp [Trans.ordInt]
  rename_i vx vy
  cases hc : compareVersions vx vy <;> simp [Trans.compareVersionsInt, Trans.ordInt, hc, Ordering.swap]

theorem cmpCompare_eq (a b : Text) : Trans.cmpCompare a b = Trans.ordInt (cmpText a b) := by
  unfold Trans.cmpCompare cmpText
  by_cases h1 : a < b <;> by_cases h2 : b < a <;> simp [h1, h2, Trans.ordInt]

-- T `trans_comparePackages`: the closure `comparePackages` returns, translated with the captured
-- variables as parameters, is the model's comparator (the repaired one, `bothBad = .eq`) read as Go's
-- `-1 / 0 / +1` — for `compare = nil`, which is what every call site passes (`tie_comparatorCallSites`).
theorem trans_comparePackages (name pin : Text) (existing : List (Text × Pkg)) (origins : List Text)
    (a b : Pkg) :
    Generated.Trans.comparePackages none name existing origins pin a b =
      Trans.ordInt (comparePackages .eq name pin existing origins a b) := by
  unfold Generated.Trans.comparePackages comparePackages
  simp only [trans_getDepVersionForName, Option.isSome_none, Bool.false_eq_true, ↓reduceIte, verStep_int,
    cmpCompare_eq]
  cases he1 : lookupT existing a.name <;> cases he2 : lookupT existing b.name <;>
    simp <;> (repeat' split) <;> simp_all [Trans.ordInt] <;> omega

-- T `trans_conflictingVersion`: Go's `conflictingVersion`, translated (`none` = the `panic` at its end),
-- is the model's.
theorem trans_conflictingVersion (con : Constraint) (conflict : Pkg) :
    Generated.Trans.conflictingVersion con conflict = conflictingVersion con conflict := by
  unfold Generated.Trans.conflictingVersion conflictingVersion
  by_cases h1 : con.version = []
  · by_cases h2 : conflict.name = con.name
    · simp [h1, h2]
    · simp only [h1, h2, bne_self_eq_false, Bool.false_eq_true, ↓reduceIte, beq_iff_eq, List.isEmpty_nil,
        Bool.not_true, provName]
      generalize conflict.provides = l
      induction l with
      | nil => simp
      | cons x xs ih =>
        simp only [List.findSome?_cons, List.find?_cons]
        by_cases hx : (parseConstraint x).name = con.name
        · by_cases hv : (parseConstraint x).version = [] <;> simp_all
        · simp_all
  · simp [h1]

-- every call site hands `nil` as `compare` (the branch on it is dead code today)
theorem tie_comparatorCallSites : Generated.comparatorCompareArgs = ["nil", "nil", "nil"] := by decide

/-- the statement is about non-trivial values: a preferred pin beats a higher version -/
example :
    let a : Pkg := ⟨0, "x".toList, "1.0-r0".toList, [], [], "edge".toList, 0, [], [], []⟩
    let b : Pkg := ⟨1, "x".toList, "2.0-r0".toList, [], [], [], 0, [], [], []⟩
    Generated.Trans.comparePackages none "x".toList [] [] "edge".toList a b = -1 ∧
    Generated.Trans.comparePackages none "x".toList [] [] [] a b = 1 := by decide

end Apko.TransResolver
