import Apko.Model.Path
import Apko.Model.FS
/-!
# C18 — nothing is written outside the designated roots

Executable models (core Lean only) of every place where an untrusted string becomes a host path:

* `isWithin`, `sanitizePath`, `sanitizeArchivePath`, `linkTargetOK` — the three lexical prefix checks
  (`pkg/apk/fs/rwosfs.go`, `pkg/apk/apk/common.go`), as written *after* the repair of F18a
  (separator-aware); `hasPrefixNaive…` are the pinned conditions, kept for the negation witnesses.
* `cachePathFromURL`, `cacheFileFromEtag`, `cacheDirFromFile`, `etagFromResponse` (`cache.go`) over
  an abstract URL: the path of the URL and `esc = url.QueryEscape(u2.String())` are inputs
  (`EscSafe esc`: no `/`, not empty, not `.`/`..` is the stated property of `QueryEscape` on a URL
  that has a scheme); base32 (`encoding/base32.StdEncoding`) is implemented here.
* key names: `keyringFile` (`InitKeyring`), `chainguardKeyFile`, `keyNameOK` (`parseRepositoryIndex`).
* `Host` — a small POSIX directory tree with real symlink-following resolution (`walk`), the `os.*`
  calls `dirFS` makes as functions on it.
* `dirFS` = (overlay : `Apko.FS.FS` (the `memfs` model of C17), host : `Host`); every method is a
  straight-line list of `Step`s in the code's order (name vetting, disk call, overlay call) with the
  source token(s) each step accounts for; `exec` runs them and records every host path handed to
  `os.*` (`trace`).  The token lists are tied to the regenerated `Generated.dirfsCalls`.
-/
namespace Apko.Confine
open Apko Apko.Path

def T (s : String) : Text := s.toList

/-! ## lexical checks -/

/-- `strings.HasPrefix s pre` -/
def hasPrefix (s pre : Text) : Bool := pre.isPrefixOf s

/-- `strings.HasSuffix s suf` -/
def hasSuffix (s suf : Text) : Bool := suf.reverse.isPrefixOf s.reverse

/-- `filepath.Join(elems...)`: empty elements are dropped, the rest joined with `/` and cleaned -/
def joinList (elems : List Text) : Text :=
  match elems.filter (· ≠ []) with
  | [] => []
  | es => clean (joinWith slash es)

/-- `isWithin(base, p)` (added by the F18a repair, same body in `pkg/apk/fs` and `pkg/apk/apk`):
`p` (already cleaned) is `Clean(base)` itself or lies below it — the separator is part of the prefix -/
def isWithin (base p : Text) : Bool :=
  let b := clean base
  if p = b then true
  else hasPrefix p (if hasSuffix b slash then b else b ++ slash)

/-- the pinned tree's condition: `strings.HasPrefix(p, base)` (F18a: accepts the sibling `base ++ "2"`) -/
def isWithinNaive (base p : Text) : Bool := hasPrefix p base

/-- `sanitizePath(base, p)` (`rwosfs.go`): `none` = "content filepath is tainted" -/
def sanitizePath (base p : Text) : Option Text :=
  let v := join2 base p
  if isWithin base (clean v) then some v else none

def sanitizePathNaive (base p : Text) : Option Text :=
  let v := join2 base p
  if isWithinNaive base (clean v) then some v else none

/-- `sanitizeArchivePath(d, t)` (`common.go`) -/
def sanitizeArchivePath (d t : Text) : Option Text :=
  let v := join2 d t
  if isWithin d v then some v else none

def sanitizeArchivePathNaive (d t : Text) : Option Text :=
  let v := join2 d t
  if isWithinNaive (clean d) v then some v else none

/-- `dirFS.Link`: `target := filepath.Clean(filepath.Join(f.base, oldname))`, then the prefix test -/
def linkTarget (base old : Text) : Text := clean (join2 base old)
def linkTargetOK (base old : Text) : Bool := isWithin base (linkTarget base old)
def linkTargetOKNaive (base old : Text) : Bool := isWithinNaive base (linkTarget base old)

/-! ## cache naming (`cache.go`) -/

/-- the stated property of `url.QueryEscape(u2.String())` for a URL with a scheme -/
def EscSafe (esc : Text) : Prop := esc ≠ [] ∧ '/' ∉ esc ∧ esc ≠ dot ∧ esc ≠ dotdot

instance (esc : Text) : Decidable (EscSafe esc) := by unfold EscSafe; infer_instance

/-- `cachePathFromURL(root, u)` with `path = u.Path` and `esc = url.QueryEscape(u2.String())` -/
def cachePathFromURL (root path esc : Text) : Option Text :=
  let filename := base path
  let archDir := dir path
  let d := base archDir
  let cacheFile := clean (joinList [root, esc, d, filename])
  let cleanroot := clean root
  if cacheFile = cleanroot ∨ !hasPrefix cacheFile cleanroot then none else some cacheFile

/-- `cacheDirFromFile` -/
def cacheDirFromFile (cacheFile : Text) : Text :=
  if hasSuffix cacheFile (T "APKINDEX.tar.gz") then join2 (dir cacheFile) (T "APKINDEX") else dir cacheFile

/-- `cacheFileFromEtag(cacheFile, etag)` for an absolute `cacheFile` (then `filepath.Abs` = `Clean`) -/
def cacheFileFromEtag (cacheFile etag : Text) : Option Text :=
  let idx := hasSuffix cacheFile (T "APKINDEX.tar.gz")
  let cacheDir := if idx then join2 (dir cacheFile) (T "APKINDEX") else dir cacheFile
  let ext := if idx then T ".tar.gz" else T ".etag"
  let absPath := clean (join2 cacheDir (etag ++ ext))
  if !hasPrefix absPath cacheDir then none else some absPath

/-- the directory component `cacheFileFromEtag` places its files in -/
def etagDir (cacheFile : Text) : Text := cacheDirFromFile cacheFile
def etagExt (cacheFile : Text) : Text :=
  if hasSuffix cacheFile (T "APKINDEX.tar.gz") then T ".tar.gz" else T ".etag"

/-! ### the package cache entry (`cacheDirForPackage`, `expandPackage`, `cachePackage`, `cachedPackage`) -/

/-- what follows the last separator -/
def lastSeg (p : Text) : Text := (p.reverse.takeWhile (· ≠ '/')).reverse

/-- `filepath.Ext`: the suffix of the last element starting at its last `.` (empty when there is none) -/
def ext (p : Text) : Text :=
  let seg := lastSeg p
  if '.' ∈ seg then '.' :: (seg.reverse.takeWhile (· ≠ '.')).reverse else []

/-- `strings.TrimSuffix` -/
def trimSuffix (s suf : Text) : Text :=
  if hasSuffix s suf then (s.reverse.drop suf.length).reverse else s

/-- `cacheDirForPackage(root, pkg)` with `path`, `esc` of `packageAsURL(pkg)` as in `cachePathFromURL`;
`none`: the URL is rejected or "unexpected ext" -/
def cacheDirForPackage (root path esc : Text) : Option Text :=
  match cachePathFromURL root path esc with
  | none => none
  | some p => if ext p = T ".apk" then some (trimSuffix p (T ".apk")) else none

/-- what an index entry or a lock-file entry says about a package, verbatim (nothing of it is vetted before it
gets here): the URL (as `url.Parse(packageAsURL(pkg))` splits it: path, and the escaped repository part), the
package name, the checksum string, and the fields that only the index has -/
structure PkgRec where
  urlPath : Text := []
  urlEsc : Text := []
  name : Text := []
  version : Text := []
  arch : Text := []
  origin : Text := []
  checksum : Text := []
  deriving DecidableEq, Repr, Inhabited

/-- `cacheDirForPackage(root, pkg)` on a package record: the URL is the only field the entry is derived from -/
def cacheDirForPkg (root : Text) (pkg : PkgRec) : Option Text := cacheDirForPackage root pkg.urlPath pkg.urlEsc

def hexDigits : List Char := ['0','1','2','3','4','5','6','7','8','9','a','b','c','d','e','f']

/-- `hex.EncodeToString` -/
def hexEncode : List Nat → Text
  | [] => []
  | b :: rest => hexDigits.getD (b / 16 % 16) '0' :: hexDigits.getD (b % 16) '0' :: hexEncode rest

/-- the suffixes of the files of one package entry (`cachePackage` / `cachedPackage`; `.dat.tar` is
`strings.TrimSuffix(<dat>, ".gz")`, regenerated by `PackageData` through `<dat.tar>.<random>.tmp`) -/
def pkgEntrySuffixes : List Text := [T ".ctl.tar.gz", T ".sig.tar.gz", T ".dat.tar.gz", T ".dat.tar"]

/-- `filepath.Join(cacheDir, <hex>+suffix)` -/
def pkgEntryFile (cacheDir hexName suffix : Text) : Text := join2 cacheDir (hexName ++ suffix)

/-- every host path the package route of the cache names for one package: the entry directory
(`os.MkdirAll`, `os.MkdirTemp(cacheDir, "expand-apk")`), then the advertised files of `cachePackage`
(control hash `ctl`, data hash `dat` — both `hex.EncodeToString` of digests apko computed itself) -/
def pkgCacheWrites (root : Text) (pkg : PkgRec) (ctl dat : List Nat) : Option (List Text) :=
  match cacheDirForPkg root pkg with
  | none => none
  | some d => some (d :: [pkgEntryFile d (hexEncode ctl) (T ".ctl.tar.gz"), pkgEntryFile d (hexEncode ctl) (T ".sig.tar.gz"),
      pkgEntryFile d (hexEncode dat) (T ".dat.tar.gz"), pkgEntryFile d (hexEncode dat) (T ".dat.tar")])

/-- `cachedPackage`: the data section is looked up under the `datahash` string of the cached control section's
`.PKGINFO` — a string, not a digest apko computed -/
def pkgDatFile (cacheDir datahash : Text) : Text := pkgEntryFile cacheDir datahash (T ".dat.tar.gz")

/-! ### output files named after the architecture -/

/-- `filepath.Join(s.OutputDir, "sbom-"+arch+"."+ext)` (`GenerateImageSBOM`) -/
def sbomFile (outDir arch extn : Text) : Text := join2 outDir (T "sbom-" ++ arch ++ T "." ++ extn)

/-- `filepath.Join(o.TempDir(), "apko-"+arch+".tar.gz")` (`TarballFileName`) -/
def layerTarFile (tmpDir arch : Text) : Text := join2 tmpDir (T "apko-" ++ arch ++ T ".tar.gz")

/-- `filepath.Join(wd, arch)`: the per-architecture working directory of `apko lock` / `show-packages` / `dot` -/
def archWorkDir (wd arch : Text) : Text := join2 wd arch

/-- `strings.NewReplacer("/", "%2F", ".", "%2E").Replace` -/
def escapeArch (s : Text) : Text :=
  s.flatMap fun c => if c = '/' then T "%2F" else if c = '.' then T "%2E" else [c]

/-- `types.ParseArchitecture` after the repair of F18f: the apk-style and OCI-style names of the known
architectures, then any other string — escaped when it is not one plain path element -/
def parseArch (s : Text) : Text :=
  if s = T "x86" then T "386"
  else if s = T "x86_64" ∨ s = T "amd64" then T "amd64"
  else if s = T "aarch64" ∨ s = T "arm64" then T "arm64"
  else if s = T "armhf" ∨ s = T "arm/v6" then T "arm/v6"
  else if s = T "armv7" ∨ s = T "arm/v7" then T "arm/v7"
  else if s = T "loong64" ∨ s = T "loongarch64" then T "loong64"
  else if s = dot ∨ s = dotdot ∨ '/' ∈ s then escapeArch s else s

/-- `Architecture.ToAPK`: what every file and directory name derived from an architecture is made of; `a` is
the value as it is held (parsed before or not: `ToAPK` parses again) -/
def toAPK (a : Text) : Text :=
  let p := parseArch a
  if p = T "386" then T "x86"
  else if p = T "amd64" then T "x86_64"
  else if p = T "arm64" then T "aarch64"
  else if p = T "arm/v6" then T "armhf"
  else if p = T "arm/v7" then T "armv7"
  else if p = T "loong64" then T "loongarch64"
  else p

/-! ### base32 (`encoding/base32.StdEncoding`, RFC 4648 with `=` padding) -/

def b32Alphabet : List Char :=
  ['A','B','C','D','E','F','G','H','I','J','K','L','M','N','O','P','Q','R','S','T','U','V','W','X','Y','Z',
   '2','3','4','5','6','7']

def b32Char (n : Nat) : Char := b32Alphabet.getD (n % 32) 'A'

/-- one block of 1–5 bytes → 8 characters -/
def b32Block (bs : List Nat) : List Char :=
  let k := bs.length
  let v := (bs ++ List.replicate (5 - k) 0).foldl (fun a b => a * 256 + b % 256) 0
  let chars := (List.range 8).map fun i => b32Char (v / 32 ^ (7 - i))
  let keep := match k with | 1 => 2 | 2 => 4 | 3 => 5 | 4 => 7 | _ => 8
  chars.take keep ++ List.replicate (8 - keep) '='

def b32 : List Nat → List Char
  | a :: b :: c :: d :: e :: rest => b32Block [a, b, c, d, e] ++ b32 rest
  | [] => []
  | l => b32Block l

def base32 (t : Text) : Text := b32 (t.map Char.toNat)

/-- `strings.Trim(s, "\"")` -/
def trimQuotes (s : Text) : Text :=
  ((s.dropWhile (· = '"')).reverse.dropWhile (· = '"')).reverse

/-- `etagFromResponse`: `hdr` is `resp.Header["Etag"]` (`none`: key absent); `none` = `("", false)` -/
def etagFromResponse (hdr : Option (List Text)) : Option Text :=
  match hdr with
  | none => none
  | some [] => none
  | some (v :: _) =>
    if v = [] then none else
    let e := base32 (trimQuotes v)
    if e = [] then none else some e

/-! ## key names -/

def keysDir : Text := T "etc/apk/keys"

/-- `InitKeyring`: `filepath.Join("etc", "apk", "keys", filepath.Base(element))` -/
def keyringFile (element : Text) : Text := joinList [T "etc", T "apk", T "keys", base element]

/-- `fetchChainguardKeys`: `filepath.Join(keysDirPath, key.ID)` with `key.ID = kid + ".rsa.pub"` -/
def chainguardKeyFile (kid : Text) : Text := join2 keysDir (kid ++ T ".rsa.pub")

/-- `parseRepositoryIndex`: a key name containing `/` is rejected before any key is used -/
def keyNameOK (k : Text) : Bool := !k.contains '/'

/-! ## the host: a POSIX tree with symlinks -/

abbrev HPath := List Name

inductive HNode
  | dir (perm uid gid : Nat)
  | file (ino : Nat)
  | link (target : Text)
  deriving DecidableEq, Repr, Inhabited

structure HInode where
  data : Text := []
  perm : Nat := 0
  mtime : Int := 0
  uid : Nat := 0
  gid : Nat := 0
  deriving DecidableEq, Repr, Inhabited

structure Host where
  /-- association list, absolute component paths; the root `[]` is an implicit directory -/
  ents : List (HPath × HNode) := []
  inodes : List HInode := []
  deriving DecidableEq, Repr, Inhabited

inductive HErr | noent | exist | notdir | isdir | loop | perm | notempty | inval
  deriving DecidableEq, Repr

def Host.get (h : Host) (p : HPath) : Option HNode :=
  if p = [] then some (.dir 0o755 0 0) else h.ents.lookup p

def Host.set (h : Host) (p : HPath) (n : HNode) : Host :=
  { h with ents := if (h.ents.lookup p).isSome then h.ents.map (fun e => if e.1 = p then (p, n) else e)
                   else h.ents ++ [(p, n)] }

def Host.del (h : Host) (p : HPath) : Host := { h with ents := h.ents.filter (·.1 ≠ p) }

def Host.inode (h : Host) (i : Nat) : HInode := h.inodes.getD i default

def Host.setInode (h : Host) (i : Nat) (n : HInode) : Host := { h with inodes := h.inodes.set i n }

def Host.newFile (h : Host) (p : HPath) (n : HInode) : Host :=
  { ents := h.ents ++ [(p, .file h.inodes.length)], inodes := h.inodes ++ [n] }

def Host.hasChild (h : Host) (p : HPath) : Bool := h.ents.any fun e => e.1.dropLast = p ∧ e.1 ≠ []

/-- the kernel's path walk from directory `cur` (a resolved directory) over components `cs`.
Intermediate symlinks are always followed, the last one iff `fl`.  The result is the resolved
location of the last component: it exists, or it is a missing name inside an existing directory.
Every step costs one unit of fuel (a loop ends in `loop`). -/
def walk (h : Host) : Nat → HPath → List Name → Bool → Except HErr HPath
  | 0, _, _, _ => .error .loop
  | _ + 1, cur, [], _ => .ok cur
  | f + 1, cur, c :: rest, fl =>
    if c = [] ∨ c = dot then walk h f cur rest fl
    else if c = dotdot then walk h f cur.dropLast rest fl
    else
      let p := cur ++ [c]
      let last := rest.all fun r => r = [] ∨ r = dot
      match h.get p with
      | none => if last then .ok p else .error .noent
      | some (.link t) =>
        if last ∧ !fl then .ok p
        else walk h f (if isAbs t then [] else cur) (splitOnChar '/' t ++ rest) fl
      | some (.dir _ _ _) => walk h f p rest fl
      | some (.file _) => if last then .ok p else .error .notdir

def walkFuel : Nat := 400

/-- where the kernel ends up for the path string `p` (absolute) -/
def Host.locate (h : Host) (p : Text) (followLast : Bool) : Except HErr HPath :=
  walk h walkFuel [] (splitOnChar '/' p) followLast

/-- the `os.*` / `unix.*` calls made by `dirFS` -/
inductive DiskOp
  | openRead | stat | openFile | create | remove | readDir | readFile | writeFile
  | link | symlink | mkdirAll | mkdir | chmod | chown | chtimes | mknod
  deriving DecidableEq, Repr

/-- the arguments of one `dirFS` method call -/
structure Call where
  name : Text := []          -- name / newname / path
  old : Text := []           -- oldname (Link), target (Symlink)
  data : Text := []          -- content (WriteFile; what the harness writes through an opened file)
  flag : Nat := 0            -- OpenFile
  perm : Nat := 0            -- permission bits / Mknod mode
  mtime : Int := 0           -- Chtimes
  uid : Nat := 0
  gid : Nat := 0
  dev : Nat := 0
  deriving DecidableEq, Repr, Inhabited

def writeAt0 (old new : Text) : Text := new ++ old.drop new.length

/-- write through an `open(2)`ed file: creation, truncation, data at offset 0 -/
def Host.openWrite (h : Host) (p : Text) (creat excl trunc wr : Bool) (data : Text) (perm : Nat) (now : Int) :
    Host × Option HErr :=
  match h.locate p (!(creat ∧ excl)) with
  | .error e => (h, some e)
  | .ok loc =>
    match h.get loc with
    | none =>
      if creat then (h.newFile loc { data := if wr then data else [], perm := perm, mtime := now }, none)
      else (h, some .noent)
    | some (.dir _ _ _) => if creat ∧ excl then (h, some .exist) else if wr ∨ creat then (h, some .isdir) else (h, none)
    | some (.link _) => (h, some (if creat ∧ excl then .exist else .loop))
    | some (.file i) =>
      if creat ∧ excl then (h, some .exist) else
      let n := h.inode i
      let d0 := if trunc then [] else n.data
      if wr ∨ trunc then
        let d1 := if wr then writeAt0 d0 data else d0
        (h.setInode i { n with data := d1, mtime := if d1 = n.data ∧ !trunc ∧ data = [] then n.mtime else now }, none)
      else (h, none)

def mkdirAllLoop (h : Host) (perm : Nat) : Nat → List Name → HPath → Host × Option HErr
  | 0, _, _ => (h, none)
  | _, [], _ => (h, none)
  | n + 1, c :: rest, pre =>
    let p := pre ++ [c]
    match walk h walkFuel [] p true with
    | .error .noent =>
      -- a dangling symlink on the way: Mkdir answers EEXIST and Lstat says "not a directory"
      (h, some .exist)
    | .error e => (h, some e)
    | .ok loc =>
      match h.get loc with
      | some (.dir _ _ _) => mkdirAllLoop h perm n rest p
      | some _ => (h, some .notdir)
      | none =>
        -- `loc` is where the kernel would create it; when `p` itself is a dangling link Mkdir says EEXIST
        match walk h walkFuel [] p false with
        | .ok loc' =>
          if (h.get loc').isSome then (h, some .exist)
          else mkdirAllLoop (h.set loc' (.dir perm 0 0)) perm n rest p
        | .error e => (h, some e)

def cleanComps (p : Text) : List Name := (splitOnChar '/' p).filter fun c => c ≠ [] ∧ c ≠ dot

/-- one disk call; `now` stamps the modification time of files that are written.  Returns the new
host and the error, if any. -/
def Host.disk (h : Host) (op : DiskOp) (path : Text) (target : Text) (c : Call) (now : Int) : Host × Option HErr :=
  match op with
  | .openRead | .readFile =>
    match h.locate path true with
    | .error e => (h, some e)
    | .ok loc => match h.get loc with
      | none => (h, some .noent)
      | some (.dir _ _ _) => (h, if op = .readFile then some .isdir else none)
      | some _ => (h, none)
  | .stat =>
    match h.locate path true with
    | .error e => (h, some e)
    | .ok loc => (h, if (h.get loc).isSome then none else some .noent)
  | .readDir =>
    match h.locate path true with
    | .error e => (h, some e)
    | .ok loc => match h.get loc with
      | some (.dir _ _ _) => (h, none)
      | none => (h, some .noent)
      | some _ => (h, some .notdir)
  | .openFile =>
    let wr := FS.oWronly c.flag || FS.oRdwr c.flag
    h.openWrite path (FS.oCreate c.flag) (c.flag.testBit 7) (FS.oTrunc c.flag) wr (if wr then c.data else []) c.perm now
  | .create => h.openWrite path true false true true c.data 0o666 now
  | .writeFile => h.openWrite path true false true true c.data c.perm now
  | .mknod =>
    -- unix.Mknod, and on failure os.WriteFile(path, nil, 0)
    match h.locate path false with
    | .error e => (h, some e)
    | .ok loc =>
      if (h.get loc).isNone then (h.newFile loc { perm := c.perm % 512, mtime := now }, none)
      else h.openWrite path true false true true [] 0 now
  | .remove =>
    match h.locate path false with
    | .error e => (h, some e)
    | .ok loc => match h.get loc with
      | none => (h, some .noent)
      | some (.dir _ _ _) => if loc = [] ∨ h.hasChild loc then (h, some .notempty) else (h.del loc, none)
      | some _ => (h.del loc, none)
  | .mkdir =>
    match h.locate path false with
    | .error e => (h, some e)
    | .ok loc => if (h.get loc).isSome then (h, some .exist) else (h.set loc (.dir c.perm 0 0), none)
  | .mkdirAll =>
    let cs := cleanComps path
    mkdirAllLoop h c.perm (cs.length + 1) cs []
  | .symlink =>
    match h.locate path false with
    | .error e => (h, some e)
    | .ok loc => if (h.get loc).isSome then (h, some .exist) else (h.set loc (.link c.old), none)
  | .link =>
    match h.locate target false with
    | .error e => (h, some e)
    | .ok src => match h.get src with
      | none => (h, some .noent)
      | some (.dir _ _ _) => (h, some .perm)
      | some n =>
        match h.locate path false with
        | .error e => (h, some e)
        | .ok loc => if (h.get loc).isSome then (h, some .exist) else (h.set loc n, none)
  | .chmod =>
    match h.locate path true with
    | .error e => (h, some e)
    | .ok loc => match h.get loc with
      | none => (h, some .noent)
      | some (.dir _ u g) => (h.set loc (.dir (c.perm % 4096) u g), none)
      | some (.file i) => (h.setInode i { h.inode i with perm := c.perm % 4096 }, none)
      | some (.link _) => (h, some .loop)
  | .chown =>
    match h.locate path true with
    | .error e => (h, some e)
    | .ok loc => match h.get loc with
      | none => (h, some .noent)
      | some (.dir p _ _) => (h.set loc (.dir p c.uid c.gid), none)
      | some (.file i) => (h.setInode i { h.inode i with uid := c.uid, gid := c.gid }, none)
      | some (.link _) => (h, some .loop)
  | .chtimes =>
    match h.locate path true with
    | .error e => (h, some e)
    | .ok loc => match h.get loc with
      | none => (h, some .noent)
      | some (.dir _ _ _) => (h, none)
      | some (.file i) => (h.setInode i { h.inode i with mtime := c.mtime }, none)
      | some (.link _) => (h, some .loop)

/-! ## dirFS -/

inductive Arg | name | old
  deriving DecidableEq, Repr

inductive OnErr | stop | ignore
  deriving DecidableEq, Repr

inductive StepKind
  /-- `f.sanitizePath(arg)`; failure returns "content filepath is tainted" -/
  | san (a : Arg)
  /-- `Link`: the prefix test on `Clean(Join(base, oldname))` -/
  | linkCond
  /-- an `os.*` call on `Join(base, name)` (for `link`: from the vetted target) -/
  | disk (op : DiskOp) (e : OnErr)
  /-- the overlay call of the method; failure returns its error -/
  | ov
  /-- tokens that are never executed under the stated assumptions (case-sensitive disk: `caseMap = nil`,
      so every gate is true; running as a user that can read every file it created) -/
  | dead
  deriving DecidableEq, Repr

structure Step where
  kind : StepKind
  /-- the source tokens this step accounts for (`Generated.dirfsCalls`) -/
  toks : List String
  deriving Repr

/-- the methods of `dirFS`, `OpenFile` split by `flag & O_CREATE` -/
inductive Method
  | readlink | open_ | openFileCreate | openFileNoCreate | openReaderAt | stat | lstat | create | remove | readDir
  | readFile | writeFile | readnod | link | symlink | mkdirAll | mkdir | chmod | chown | chtimes | mknod
  | setXattr | getXattr | removeXattr | listXattrs
  deriving DecidableEq, Repr

inductive Res | ok | err | tainted | outside
  deriving DecidableEq, Repr

structure DState where
  ov : FS.FS := FS.FS.empty
  host : Host := {}
  deriving Repr

def ovCfg : FS.Cfg := FS.Cfg.impl .memfs

/-- the overlay call of a method (what `f.overrides.X(...)` receives) -/
def ovOps (m : Method) (c : Call) : List FS.Op :=
  match m with
  | .readlink => [.readlink c.name]
  | .open_ | .openReaderAt => []
  | .openFileCreate => [.openFile c.name c.flag c.perm]
  | .openFileNoCreate => []
  | .stat => [.stat c.name]
  | .lstat => [.lstat c.name]
  | .create => [.create c.name]
  | .remove => [.remove c.name]
  | .readDir => [.readDir c.name]
  | .readFile => []
  | .writeFile => [.writeFile c.name [] c.perm]
  | .readnod => [.readnod c.name]
  | .link => [.link c.old c.name]
  | .symlink => [.symlink c.old c.name]
  | .mkdirAll => [.mkdirAll c.name (FS.modeDir ||| c.perm)]
  | .mkdir => [.mkdir c.name (FS.modeDir ||| c.perm)]
  | .chmod => [.chmod c.name c.perm]
  | .chown => [.chown c.name c.uid c.gid]
  | .chtimes => [.chtimes c.name c.mtime]
  | .mknod => [.mknod c.name c.perm c.dev]
  | .setXattr => [.setXattr c.name (T "user.x") c.data]
  | .getXattr => [.getXattr c.name (T "user.x")]
  | .removeXattr => [.removeXattr c.name (T "user.x")]
  | .listXattrs => [.listXattrs c.name]

/-- run the overlay call; an opened overlay file is closed again (the disk file is the one handed out) -/
def runOv (fs : FS.FS) (m : Method) (c : Call) : FS.FS × Bool :=
  match ovOps m c with
  | [] => (fs, true)
  | op :: _ =>
    let (fs1, out) := FS.step ovCfg fs op
    match out with
    | .ok (.handle hi) => ((FS.step ovCfg fs1 (.close hi)).1, true)
    | .ok _ => (fs1, true)
    | _ => (fs1, false)

def argOf (c : Call) : Arg → Text
  | .name => c.name
  | .old => c.old

/-- the trace: every host path handed to an `os.*` / `unix.*` call (a symlink's *content* is not a path) -/
abbrev Trace := List Text

/-- run the steps of one method in order -/
def exec (base : Text) (m : Method) (c : Call) (now : Int) : List Step → DState → Trace → DState × Res × Trace
  | [], st, tr => (st, .ok, tr)
  | s :: rest, st, tr =>
    match s.kind with
    | .san a =>
      match sanitizePath base (argOf c a) with
      | none => (st, .tainted, tr)
      | some _ => exec base m c now rest st tr
    | .linkCond => if linkTargetOK base c.old then exec base m c now rest st tr else (st, .outside, tr)
    | .disk op e =>
      let path := join2 base c.name
      let target := linkTarget base c.old
      let (h1, err) := st.host.disk op path target c now
      let tr1 := tr ++ (if op = .link then [target, path] else [path])
      match err, e with
      | some _, .stop => ({ st with host := h1 }, .err, tr1)
      | _, _ => exec base m c now rest { st with host := h1 } tr1
    | .ov =>
      let (fs1, ok) := runOv st.ov m c
      if ok then exec base m c now rest { st with ov := fs1 } tr else ({ st with ov := fs1 }, .err, tr)
    | .dead => exec base m c now rest st tr

/-- syntactic discipline: every disk step comes after the vetting of the argument(s) it uses -/
def guardedFrom : Bool → Bool → List Step → Bool
  | _, _, [] => true
  | sn, so, s :: rest =>
    match s.kind with
    | .san .name => guardedFrom true so rest
    | .san .old => guardedFrom sn so rest
    | .linkCond => guardedFrom sn true rest
    | .disk op _ => sn && (op != .link || so) && guardedFrom sn so rest
    | _ => guardedFrom sn so rest

def guarded (p : List Step) : Bool := guardedFrom false false p

end Apko.Confine

namespace Apko.Confine
open Apko Apko.Path

/-! ## the programs of the `dirFS` methods (tied to `Generated.dirfsCalls`) -/

def S (k : StepKind) (toks : List String) : Step := ⟨k, toks⟩

def program : Method → List Step
  | .readlink => [S .ov ["ov.Readlink(name)"]]
  | .open_ | .openReaderAt =>
    [S (.san .name) ["san(name)"],
     S (.disk .openRead .stop) ["gate(name)", "os.Open(fullpath)"],
     -- permission repair (only after EACCES) and the case-insensitive branch
     S .dead ["os.Stat(fullpath)", "os.Chmod(fullpath, 0o600)", "os.Open(fullpath)", "ov.OpenReaderAt(name)"]]
  | .openFileCreate =>
    [S (.san .name) ["san(name)"],
     S .ov ["ov.OpenFile(name, flag, perm)"],
     S (.disk .openFile .stop) ["gate(name)", "os.OpenFile(filepath.Join(f.base, name), flag, perm)"]]
  | .openFileNoCreate =>
    [S (.san .name) [],   -- the vetting statement is shared with the O_CREATE branch
     S (.disk .openFile .stop) ["gate(name)", "os.OpenFile(filepath.Join(f.base, name), flag, perm)"],
     S .dead ["ov.OpenFile(name, flag, perm)"]]
  | .stat =>
    [S (.san .name) ["san(name)"], S .ov ["ov.Stat(name)"],
     S (.disk .stat .stop) ["gate(name)", "os.Stat(filepath.Join(f.base, name))"]]
  | .lstat => [S .ov ["ov.Lstat(name)"]]
  | .create =>
    [S (.san .name) ["san(name)"], S .ov ["ov.Create(name)"],
     S (.disk .create .stop) ["gate(name)", "os.Create(filepath.Join(f.base, name))"]]
  | .remove =>
    [S (.san .name) ["san(name)"], S .ov ["ov.Remove(name)"],
     S (.disk .remove .stop) ["gate(name)", "os.Remove(filepath.Join(f.base, name))"]]
  | .readDir =>
    [S (.san .name) ["san(name)"],
     S (.disk .readDir .stop) ["gate(name)", "os.ReadDir(filepath.Join(f.base, name))"],
     S .ov ["ov.ReadDir(name)"]]
  | .readFile =>
    [S (.san .name) ["san(name)"],
     S (.disk .readFile .stop) ["gate(name)", "os.ReadFile(filepath.Join(f.base, name))"],
     S .dead ["ov.ReadFile(name)"]]
  | .writeFile =>
    [S (.san .name) ["san(name)"],
     S (.disk .writeFile .stop) ["gate(name)", "os.WriteFile(filepath.Join(f.base, name), b, mode)"],
     S .ov ["ov.WriteFile(name, memContent, mode)"]]
  | .readnod =>
    [S (.san .name) ["san(name)"],
     S (.disk .stat .stop) ["gate(name)", "os.Stat(filepath.Join(f.base, name))"],
     S .ov ["ov.Readnod(name)"]]
  | .link =>
    [S (.san .name) ["san(newname)"],
     S .linkCond ["cond:isWithin(f.base, target)"],
     S (.disk .link .stop) ["gate(newname)", "os.Link(target, filepath.Join(f.base, newname))"],
     S .ov ["ov.Link(oldname, newname)"]]
  | .symlink =>
    [S (.san .name) ["san(newname)"],
     S (.disk .symlink .stop) ["gate(newname)", "os.Symlink(oldname, filepath.Join(f.base, newname))"],
     S .ov ["ov.Symlink(oldname, newname)"]]
  | .mkdirAll =>
    [S (.san .name) ["san(name)"],
     S (.disk .mkdirAll .stop) ["gate(name)", "os.MkdirAll(filepath.Join(f.base, name), fullPerm)"],
     S .ov ["ov.MkdirAll(name, fullPerm)"]]
  | .mkdir =>
    [S (.san .name) ["san(name)"],
     S (.disk .mkdir .stop) ["gate(name)", "os.Mkdir(filepath.Join(f.base, name), fullPerm)"],
     S .ov ["ov.Mkdir(name, fullPerm)"]]
  | .chmod =>
    [S (.san .name) ["san(path)"],
     S (.disk .chmod .ignore) ["gate(path)", "os.Chmod(filepath.Join(f.base, path), perm)"],
     S .ov ["ov.Chmod(path, perm)"]]
  | .chown =>
    [S (.san .name) ["san(path)"],
     S (.disk .chown .ignore) ["gate(path)", "os.Chown(filepath.Join(f.base, path), uid, gid)"],
     S .ov ["ov.Chown(path, uid, gid)"]]
  | .chtimes =>
    [S (.san .name) ["san(path)"],
     S (.disk .chtimes .stop) ["os.Chtimes(filepath.Join(f.base, path), atime, mtime)"],
     S .ov ["ov.Chtimes(path, atime, mtime)"]]
  | .mknod =>
    [S (.san .name) ["san(name)"],
     S (.disk .mknod .stop) ["gate(name)", "unix.Mknod(filepath.Join(f.base, name), mode, dev)",
                              "os.WriteFile(filepath.Join(f.base, name), nil, 0)"],
     S .ov ["ov.Mknod(name, mode, dev)"]]
  | .setXattr => [S .ov ["ov.SetXattr(path, attr, data)"]]
  | .getXattr => [S .ov ["ov.GetXattr(path, attr)"]]
  | .removeXattr => [S .ov ["ov.RemoveXattr(path, attr)"]]
  | .listXattrs => [S .ov ["ov.ListXattrs(path)"]]

def toksOf (m : Method) : List String := (program m).flatMap (·.toks)

/-- what the extractor must find in `rwosfs.go` (method name ↦ calls in source order) -/
def expectedCalls : List (String × List String) :=
  [("Readlink", toksOf .readlink), ("Open", ["open(name)"]), ("open", toksOf .open_),
   ("OpenFile", toksOf .openFileCreate ++ toksOf .openFileNoCreate), ("OpenReaderAt", ["open(name)"]),
   ("Stat", toksOf .stat), ("Lstat", toksOf .lstat), ("Create", toksOf .create), ("Remove", toksOf .remove),
   ("ReadDir", toksOf .readDir), ("ReadFile", toksOf .readFile), ("WriteFile", toksOf .writeFile),
   ("Readnod", toksOf .readnod), ("Link", toksOf .link), ("Symlink", toksOf .symlink),
   ("MkdirAll", toksOf .mkdirAll), ("Mkdir", toksOf .mkdir), ("Chmod", toksOf .chmod), ("Chown", toksOf .chown),
   ("Chtimes", toksOf .chtimes), ("Mknod", toksOf .mknod), ("SetXattr", toksOf .setXattr),
   ("GetXattr", toksOf .getXattr), ("RemoveXattr", toksOf .removeXattr), ("ListXattrs", toksOf .listXattrs),
   ("Sub", ["ov.Sub(path)"])]

def allMethods : List Method :=
  [.readlink, .open_, .openFileCreate, .openFileNoCreate, .openReaderAt, .stat, .lstat, .create, .remove, .readDir,
   .readFile, .writeFile, .readnod, .link, .symlink, .mkdirAll, .mkdir, .chmod, .chown, .chtimes, .mknod,
   .setXattr, .getXattr, .removeXattr, .listXattrs]

/-- one `dirFS` method call -/
def dirStep (base : Text) (m : Method) (c : Call) (now : Int) (st : DState) : DState × Res × Trace :=
  exec base m c now (program m) st []

/-! ## the canary tree and the observation -/

/-- what an observer sees of one host entry -/
def obsNode (h : Host) : HNode → List Text
  | .dir p u g => [T "d", T (toString p), T (toString u), T (toString g)]
  | .file i =>
    let n := h.inode i
    [T "f", n.data, T (toString n.perm), T (toString n.mtime), T (toString n.uid), T (toString n.gid)]
  | .link t => [T "l", t]

def kindOf : HNode → Text
  | .dir _ _ _ => T "d"
  | .file _ => T "f"
  | .link _ => T "l"

def isUnder (root p : HPath) : Bool := root.isPrefixOf p

/-- entries outside every designated root, with what is observable of them -/
def outside (h : Host) (roots : List HPath) : List (HPath × HNode × List Text) :=
  (h.ents.filter fun e => !(roots.any fun r => isUnder r e.1)).map fun e => (e.1, e.2, obsNode h e.2)

def relS (top : HPath) (p : HPath) : Text :=
  if p.drop top.length = [] then dot else joinWith slash (p.drop top.length)

/-- created / deleted / modified entries outside the designated roots, as sorted text lines -/
def diffOutside (top : HPath) (roots : List HPath) (h0 h1 : Host) : List String :=
  let o0 := outside h0 roots
  let o1 := outside h1 roots
  let created := o1.filterMap fun e => match o0.lookup e.1 with
    | none => some (String.ofList (T "C:" ++ relS top e.1 ++ T ":" ++ kindOf e.2.1))
    | some _ => none
  let deleted := o0.filterMap fun e => match o1.lookup e.1 with
    | none => some (String.ofList (T "D:" ++ relS top e.1))
    | some _ => none
  let modified := o1.filterMap fun e => match o0.lookup e.1 with
    | some x => if x.2 = e.2.2 then none else some (String.ofList (T "M:" ++ relS top e.1))
    | none => none
  (created ++ deleted ++ modified).mergeSort (fun a b => decide (a ≤ b))

def sentinelTime : Int := 1000000000

def topP : HPath := [T "T"]
def baseP : HPath := [T "T", T "w", T "r", T "root"]
def baseT : Text := T "/T/w/r/root"

/-- the scratch tree every case of the suite runs in (the harness builds the same tree on disk) -/
def canaryHost : Host :=
  let d (p : List String) : HPath × HNode := (p.map T, .dir 0o755 0 0)
  let f (p : List String) (i : Nat) : HPath × HNode := (p.map T, .file i)
  let ino (s : String) : HInode := { data := T s, perm := 0o640, mtime := sentinelTime }
  { ents := [d ["T"], d ["T", "w"], d ["T", "w", "r"], d ["T", "w", "r", "root"], d ["T", "w", "r", "root2"],
             d ["T", "w", "r", "canary"], d ["T", "w", "canary2"], d ["T", "cache"], d ["T", "tmp"], d ["T", "out"],
             f ["T", "w", "r", "root2", "secret"] 0, f ["T", "w", "r", "canary", "sentinel"] 1,
             f ["T", "w", "canary2", "s2"] 2, f ["T", "top-sentinel"] 3],
    inodes := [ino "secret", ino "sentinel", ino "s2", ino "top"] }

def resS : Res → String
  | .ok => "ok" | .err => "err" | .tainted => "tainted" | .outside => "outside"

/-- run a sequence of calls on a fresh `DirFS(base)` in the canary tree; per call: result, outside
diff, and whether every host path handed to `os.*` was lexically inside `base` -/
def runSeq (ops : List (Method × Call)) : List (Res × List String × Bool) :=
  let rec go : List (Method × Call) → Nat → DState → List (Res × List String × Bool)
    | [], _, _ => []
    | (m, c) :: rest, i, st =>
      let (st1, r, tr) := dirStep baseT m c (2000000000 + i) st
      let lex := tr.all fun p => isWithin baseT p
      (r, diffOutside topP [baseP] st.host st1.host, lex) :: go rest (i + 1) st1
  go ops 0 { host := canaryHost }

end Apko.Confine
