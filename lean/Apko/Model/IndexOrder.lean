/-
How `GetRepositoryIndexes` (pkg/apk/apk/index.go) collects the parsed indexes of the configured repository
lines, with the goroutine COMPLETION ORDER as an explicit adversarial parameter (`schedule`: the list of the
positions whose goroutine finishes, in the order in which they finish).

    indexes := make([]NamedIndex, len(repos))          -- `initSlots`
    for i, repo := range repos { eg.Go(func() error {
        index, err := globalIndexCache.get(…)          -- `fetch i`  (`none`: a missing local index, `return nil`)
        indexes[i] = index                             -- `complete`
    }) }
    eg.Wait()
    indexes = slices.DeleteFunc(indexes, idx == nil)   -- `compact`

and the scratch-directory part of pkg/build (`Build`): the build repositories used during the resolution carry the
materialised index of the base image, a path inside the scratch directory; what is serialised into the image is
the image configuration and the runtime repositories.

Core only.
-/
import Apko.Model.Glue

namespace Apko.IndexOrder
open Apko

variable {α : Type}

/-- `make([]NamedIndex, n)`: one nil slot per repository line -/
def initSlots (n : Nat) : List (Option α) := List.replicate n none

/-- the goroutine of position `i` finishes: it stores what it fetched at ITS position; a missing local index
stores nothing -/
def complete (fetch : Nat → Option α) (slots : List (Option α)) (i : Nat) : List (Option α) :=
  match fetch i with
  | some x => slots.set i (some x)
  | none => slots

/-- `slices.DeleteFunc(indexes, func(idx) bool { return idx == nil })` -/
def compact (slots : List (Option α)) : List α := slots.filterMap id

/-- the code: position-indexed stores in completion order, then the compaction -/
def collectPositional (n : Nat) (fetch : Nat → Option α) (schedule : List Nat) : List α :=
  compact (schedule.foldl (complete fetch) (initSlots n))

/-- the specification: the indexes that exist, in the order of the repository lines -/
def inLineOrder (n : Nat) (fetch : Nat → Option α) : List α := (List.range n).filterMap fetch

/-- the alternative `mu.Lock(); indexes = append(indexes, index)`: completion order -/
def collectAppend (fetch : Nat → Option α) (schedule : List Nat) : List α := schedule.filterMap fetch

/-- a schedule of `n` goroutines: every position finishes (errgroup.Wait returned), nothing else does -/
def IsSchedule (n : Nat) (schedule : List Nat) : Prop :=
  (∀ i, i < n → i ∈ schedule) ∧ (∀ i ∈ schedule, i < n)

/-- what `NewPkgResolver` is handed for the repository lines as written (`lines[k]` publishes `u[k]`): the lines of
`/etc/apk/repositories` are the sorted set of what is written (`Glue.sortedSet`), each fetched by its own
goroutine -/
def resolverInput (lines : List Text) (u : Universe) (schedule : List Nat) : Universe :=
  collectPositional (Glue.sortedSet lines).length
    (fun i => (Glue.sortedSet lines)[i]?.bind (Glue.indexOf lines u)) schedule

/-! ## the scratch directory -/

/-- what a build is a function of: the declared inputs, and the scratch directory of this run -/
structure BuildIn where
  buildRepos : List Text      -- contents.build_repositories (+ appended)
  runtimeRepos : List Text    -- contents.repositories (+ appended)
  hasBase : Bool              -- contents.baseimage set
  scratch : Text              -- Options.TempDir(): NOT a declared input

/-- `BaseImage.APKIndexPath()` -/
def apkIndexPath (scratch : Text) : Text := scratch ++ "/base_image_apkindex".toList

/-- `initializeApk`: the lines of /etc/apk/repositories while the world is resolved and installed -/
def resolveRepos (b : BuildIn) : List Text :=
  Glue.sortedSet (b.buildRepos ++ b.runtimeRepos) ++ (if b.hasBase then [apkIndexPath b.scratch] else [])

/-- what the image carries: /etc/apk/repositories as `postBuildSetApk` leaves it, and the two repository lists of
/etc/apko.json (`WriteEtcApkoConfig` serialises `bc.ic`) -/
structure Emitted where
  etcRepositories : List Text
  apkoJsonBuildRepos : List Text
  apkoJsonRuntimeRepos : List Text
deriving DecidableEq

def emitted (b : BuildIn) : Emitted :=
  ⟨b.runtimeRepos, b.buildRepos, b.runtimeRepos⟩

/-- the alternative that registers the base image's index as a build repository of the configuration -/
def emittedRegistered (b : BuildIn) : Emitted :=
  ⟨b.runtimeRepos, b.buildRepos ++ (if b.hasBase then [apkIndexPath b.scratch] else []), b.runtimeRepos⟩

end Apko.IndexOrder
