/-
C08 — aliasing of the values handed out by the process-wide caches (heap model).

Go: `resolverCache.Get` returns `pr.Clone()`, `disqualifyCache.Get` returns `maps.Clone(dq)`.
`Clone()` makes a NEW struct whose fields are, one by one,
  * `share`    the same reference (plain assignment: `indexes: p.indexes`),
  * `shallow`  a new container with the same entries (`maps.Clone(p.nameMap)`): the container is
               private, whatever its entries refer to is still shared,
  * `fresh`    a new empty container (`selected: map[…]…{}`).
The heap below has three kinds of addresses: everything that existed when the value was published
(`pub n`), the struct of the j-th clone (`root j`) and the private container the j-th clone got for its
i-th field (`fld j i`).  That an allocation returns an address nobody else holds is the one property of
the Go allocator used; it is built into the address type.

A mutating statement of the resolution path is a write to (address, key): `store j i k v` is
"the j-th clone executes `p.f_i[k] = v`" (also `delete`, `append` into the container, a sort of it …).
-/
import Apko.Generated.Alias

namespace Apko.Alias

inductive CloneKind
  | share | shallow | fresh | other
deriving DecidableEq, Repr

/-- the kind of one statement of `Clone()` as the extractor names it -/
def cloneKindOf (s : String) : CloneKind :=
  if s = "share" then .share
  else if s = "maps.Clone" || s = "slices.Clone" then .shallow
  else if s = "fresh" then .fresh
  else .other

def CloneKind.isPrivate : CloneKind → Bool
  | .shallow => true
  | .fresh => true
  | _ => false

abbrev CloneTable := List (String × CloneKind)

def cloneTable (stmts : List (String × String × String)) : CloneTable :=
  stmts.map fun s => (s.1, cloneKindOf s.2.1)

/-- the fields whose container a clone owns (maps.Clone / new literal) -/
def deepCopied (t : CloneTable) : List String :=
  (t.filter fun p => p.2.isPrivate).map (·.1)

def kinds (t : CloneTable) : List CloneKind := t.map (·.2)

def fieldIndex (t : CloneTable) (f : String) : Option Nat :=
  let i := t.findIdx (·.1 = f)
  if i < t.length then some i else none

/-! ### heap -/

inductive Addr
  | pub (n : Nat)            -- allocated before publication (the prototype and everything it reaches)
  | root (j : Nat)           -- struct of the j-th clone
  | fld (j : Nat) (i : Nat)  -- private container of the j-th clone for field i
deriving DecidableEq, Repr

abbrev Key := Nat

inductive Val
  | nil
  | data (n : Nat)
  | ptr (a : Addr)
deriving DecidableEq, Repr

/-- values found in the published world refer to the published world only -/
inductive PVal
  | nil
  | data (n : Nat)
  | ptr (n : Nat)
deriving DecidableEq, Repr

def PVal.toVal : PVal → Val
  | .nil => .nil
  | .data n => .data n
  | .ptr n => .ptr (.pub n)

abbrev Cells := Addr → Key → Val

structure State where
  heap : Cells
  nclones : Nat

/-- the moment of publication: the published heap `ph`, no clone yet -/
def init (ph : Nat → Key → PVal) : State :=
  { heap := fun a k => match a with
      | .pub n => (ph n k).toVal
      | _ => .nil
    nclones := 0 }

def kindAt (tbl : List CloneKind) (i : Nat) : CloneKind := tbl.getD i .other

/-- what field `i` of a new clone `j` of the prototype at `p` holds -/
def cloneField (tbl : List CloneKind) (h : Cells) (p : Addr) (j i : Nat) : Val :=
  if i < tbl.length then
    match kindAt tbl i with
    | .share => h p i
    | .shallow => .ptr (.fld j i)
    | .fresh => .ptr (.fld j i)
    | .other => .nil
  else .nil

/-- the entries of the private container of field `i` of a new clone -/
def cloneEntries (tbl : List CloneKind) (h : Cells) (p : Addr) (i : Nat) (k : Key) : Val :=
  match kindAt tbl i with
  | .shallow => match h p i with
    | .ptr m => h m k
    | _ => .nil
  | _ => .nil

/-- `Clone()` of the prototype at `p` -/
def clone (tbl : List CloneKind) (p : Addr) (s : State) : State :=
  let j := s.nclones
  { heap := fun a k => match a with
      | .root j' => if j' = j then cloneField tbl s.heap p j k else s.heap a k
      | .fld j' i => if j' = j then cloneEntries tbl s.heap p i k else s.heap a k
      | .pub _ => s.heap a k
    nclones := j + 1 }

def setCell (h : Cells) (a : Addr) (k : Key) (v : Val) : Cells :=
  fun a' k' => if a' = a ∧ k' = k then v else h a' k'

/-- clone `j` executes `p.f_i[k] = v` (a nil container panics in Go: no write) -/
def store (j i : Nat) (k : Key) (v : Val) (s : State) : State :=
  match s.heap (.root j) i with
  | .ptr a => { s with heap := setCell s.heap a k v }
  | _ => s

inductive Action
  | clone
  | store (j i : Nat) (k : Key) (v : Val)
deriving Repr

def step (tbl : List CloneKind) (p : Addr) (s : State) : Action → State
  | .clone => clone tbl p s
  | .store j i k v => store j i k v s

def run (tbl : List CloneKind) (p : Addr) (acts : List Action) (s : State) : State :=
  acts.foldl (step tbl p) s

/-- an action is legal for a clone table when every store goes through a field the clone owns -/
def Action.legal (tbl : List CloneKind) : Action → Bool
  | .clone => true
  | .store _ i _ _ => (kindAt tbl i).isPrivate

/-- what clone `j` sees in its own containers -/
def view (s : State) (j : Nat) : Nat → Key → Val := fun i k => s.heap (.fld j i) k

/-- the stores clone `j` itself made, in order -/
def ownStores (j : Nat) : List Action → List (Nat × Key × Val)
  | [] => []
  | .store j' i k v :: rest => if j' = j then (i, k, v) :: ownStores j rest else ownStores j rest
  | .clone :: rest => ownStores j rest

def applyOwn (f : Nat → Key → Val) : List (Nat × Key × Val) → (Nat → Key → Val)
  | [] => f
  | (i, k, v) :: rest => applyOwn (fun i' k' => if i' = i ∧ k' = k then v else f i' k') rest

/-! ### judgement of one regenerated write site -/

open Apko.Generated (AliasWrite)

inductive Verdict
  | privateFresh        -- the root is a local holding an object made in this function, written at top level
  | construction         -- construction of a value nobody else can see yet (audited list of functions)
  | untrackedType       -- the written object has a type no published value contains
  | ownedField (f : String)  -- a clone writes into a container it owns
  | cloneTop            -- the top-level container of a shallow copy handed out by a cache getter
  | cacheInternal       -- the cache's own structure, under its lock
  | atomicMemo          -- sync.Map step (Model/Memo.lean)
  | deferred            -- rooted at a parameter: judged at every call site (the table lists them)
  | auditedGlobal       -- package-level variable outside the resolution state
  | reject (why : String)
deriving DecidableEq, Repr

/-- functions that build a value before it is published -/
def constructors : List String :=
  ["newPkgResolver", "disqualifyDifference", "Repository.WithIndex", "NewNamedRepositoryWithIndex", "NewRepositoryPackage",
   "ParsePackageIndex", "ParseInstalled", "IndexFromArchive", "packageInfo", "ParsePackage", "ResolvePackageNameVersionPin",
   "ParseVersion", "parseRepositoryIndex"]

/-- struct types whose objects are shared by every clone (and every architecture's resolver) -/
def sharedStructs : List String :=
  ["repositoryPackage", "RepositoryPackage", "Package", "RepositoryWithIndex", "Repository", "namedRepositoryWithIndex",
   "APKIndex", "Version", "ParsedConstraint", "indexResult"]

/-- types of the objects a published value reaches -/
def reachableTypes : List String :=
  sharedStructs ++ ["PkgResolver", "[]NamedIndex", "map[string][]*repositoryPackage", "[]*repositoryPackage",
    "map[string]*RepositoryPackage", "map[*RepositoryPackage]string", "[]*RepositoryPackage", "[]*Package", "[]string",
    "[]byte", "[]int"]

def cacheTypes : List String :=
  ["resolverCache", "disqualifyCache", "indexCache", "apkCache", "map[NamedIndex]*resolverCache", "map[NamedIndex]*disqualifyCache",
   "map[string]time.Time", "map[string]string"]

def cacheGlobals : List String :=
  ["globalResolverCache", "globalDisqualifyCache", "globalIndexCache", "globalApkCache", "parsedVersions", "parsedConstraints"]

def auditedGlobals : List (String × String) :=
  [("APK.InitDB", "initFiles"), ("APK.ListInitFiles", "initFiles")]

/-- local aliases whose origin is audited by hand: (function, origin) -/
def auditedOrigins : List (String × String × String) :=
  [("parseRepositoryIndex", "call", "IndexFromArchive")]

abbrev Ret := String × String × String × String   -- function, result index, origin kind, origin argument

/-- does every return of `f` hand out a new object (`fresh`)? -/
def returnsFresh (rets : List Ret) (f : String) : Bool :=
  let rs := rets.filter fun r => r.1 = f && r.2.1 = "0"
  !rs.isEmpty && rs.all fun r => r.2.2.1 = "fresh"

/-- does `f` hand out nothing but clones (`Clone()` of something)? -/
def returnsClone (rets : List Ret) : Nat → String → Bool
  | 0, _ => false
  | fuel + 1, f =>
    let rs := rets.filter fun r => r.1 = f && r.2.1 = "0"
    !rs.isEmpty && rs.all fun r =>
      r.2.2.1 = "call" &&
        (r.2.2.2 = "PkgResolver.Clone" || (r.2.2.2 != f && returnsClone rets fuel r.2.2.2))

structure Env where
  tbl : CloneTable
  rets : List Ret

def privateFieldOf (tbl : CloneTable) (loc : List String) : Option String :=
  match loc with
  | [f] => if (deepCopied tbl).contains f then some f else none
  | _ => none

def judge (e : Env) (w : AliasWrite) : Verdict :=
  if w.root = "param" then .deferred
  else if w.root = "global" then
    if cacheGlobals.contains w.rootName && w.obj = "sync.Map" then .atomicMemo
    else if cacheGlobals.contains w.rootName && cacheTypes.contains w.obj then .cacheInternal
    else if auditedGlobals.contains (w.fn, w.rootName) then .auditedGlobal
    else .reject "package-level variable"
  else if w.root = "recv" then
    if w.recv = "PkgResolver" then
      match privateFieldOf e.tbl w.loc with
      | some f => .ownedField f
      | none => .reject "resolver method writes outside the containers a clone owns"
    else if cacheTypes.contains w.recv then
      if cacheTypes.contains w.obj || w.obj = "sync.Map" then .cacheInternal else .reject "cache method writes into a cached value"
    else if sharedStructs.contains w.recv then .reject "method of a shared object writes through its receiver (lazily filled field)"
    else if reachableTypes.contains w.obj then .reject "write into an object of a published type"
    else .untrackedType
  else if w.root = "local" || w.root = "result" then
    if w.originKind = "fresh" && w.loc.isEmpty then .privateFresh
    else if constructors.contains w.fn &&
        (w.originKind = "fresh" || w.originKind = "fresh→" || auditedOrigins.contains (w.fn, w.originKind, w.originArg)) then .construction
    else if w.originKind = "call" then
      if returnsClone e.rets 4 w.originArg then
        match privateFieldOf e.tbl w.loc with
        | some g => .ownedField g
        | none => .reject "write through a clone outside the containers it owns"
      else if returnsFresh e.rets w.originArg && w.loc.isEmpty then
        (if w.originArg = "disqualifyCache.Get" then .cloneTop else .privateFresh)
      else if !reachableTypes.contains w.obj then .untrackedType
      else .reject "write through the result of a function that may return shared state"
    else if !reachableTypes.contains w.obj then .untrackedType
    else .reject "write through a local that may alias shared state"
  else .reject "unrecognised root"

def Verdict.ok : Verdict → Bool
  | .reject _ => false
  | _ => true

def env (stmts : List (String × String × String)) (rets : List Ret) : Env :=
  { tbl := cloneTable stmts, rets := rets }

/-- the fields written by resolver methods / through clones, according to the regenerated table -/
def cloneFieldsWritten (e : Env) (ws : List AliasWrite) : List String :=
  (ws.filterMap fun w => match judge e w with | .ownedField f => some f | _ => none).eraseDups

end Apko.Alias
