/-
Prelude of the Go → Lean translator (extract/trans.go): the Lean functions that whitelisted Go callees
and Go's integer results are mapped to.  Part of the trusted mapping (DESIGN.md §9.6); core only, linked
into the driver.
-/
import Apko.Model.Version
import Apko.Model.Path

namespace Apko.Trans

/-- Go's three-way results (`-1`, `0`, `+1`) -/
def ordInt : Ordering → Int
  | .lt => -1
  | .eq => 0
  | .gt => 1

/-- `cmp.Compare` on strings: byte-wise lexicographic -/
def cmpCompare (a b : Text) : Int := if a < b then -1 else if b < a then 1 else 0

/-- `cmp.Compare` on unsigned integers -/
def cmpCompareNat (a b : Nat) : Int := if a < b then -1 else if b < a then 1 else 0

/-- `cmp.Or(x, y)`: the first argument that is not zero -/
def cmpOr (x y : Int) : Int := if x != 0 then x else y

/-- `filepath.Abs` of a path that is absolute already: `Clean`, no error (the cache files of
`cacheFileFromEtag` are absolute: `Model/Confine.lean`) -/
def absOfAbsolute (p : Text) : Option Text := some (Path.clean p)

/-- one pass of a Go loop body over the loop-carried state `σ`: `return r`, `break`, or go on -/
inductive Loop (ρ σ : Type) where
  | ret (r : ρ)
  | brk (s : σ)
  | next (s : σ)

/-- `for _, x := range l { body }` with loop-carried variables `σ`: `.inl r` = the function returned `r`
from inside the loop, `.inr s` = the loop ended (or was left by `break`) with state `s` -/
def forRange {α ρ σ : Type} : List α → σ → (σ → α → Loop ρ σ) → Sum ρ σ
  | [], s, _ => .inr s
  | x :: xs, s, f =>
    match f s x with
    | .ret r => .inl r
    | .brk s' => .inr s'
    | .next s' => forRange xs s' f

/-- what the translator emits for a function outside its subset (the fact is then reported as broken) -/
def untranslatable {α : Type} [Inhabited α] (_why : String) : α := default

end Apko.Trans
