/-
Prelude of the Go → Lean translator (extract/trans.go): the Lean functions that whitelisted Go callees
and Go's integer results are mapped to.  Part of the trusted mapping (DESIGN.md §9.6); core only, linked
into the driver.
-/
import Apko.Model.Version

namespace Apko.Trans

/-- Go's three-way results (`-1`, `0`, `+1`) -/
def ordInt : Ordering → Int
  | .lt => -1
  | .eq => 0
  | .gt => 1

/-- `cmp.Compare` on strings: byte-wise lexicographic -/
def cmpCompare (a b : Text) : Int := if a < b then -1 else if b < a then 1 else 0

/-- `CompareVersions` (its own tie is the statement-list fact `stmts_CompareVersions` of C03) -/
def compareVersionsInt (a b : Version) : Int := ordInt (compareVersions a b)

/-- what the translator emits for a function outside its subset (the fact is then reported as broken) -/
def untranslatable {α : Type} [Inhabited α] (_why : String) : α := default

end Apko.Trans
