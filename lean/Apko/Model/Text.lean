/-
Text helpers shared by all models.  Go strings are byte strings; the models see them as
`List Char` with every `Char` below 256 (Latin-1 view of the bytes).  The driver converts
with hex encoding at the boundary, so no UTF-8 decoding is involved anywhere.
-/
namespace Apko

abbrev Text := List Char

def isDigit (c : Char) : Bool := decide ('0' ≤ c) && decide (c ≤ '9')
def isLower (c : Char) : Bool := decide ('a' ≤ c) && decide (c ≤ 'z')
def isUpper (c : Char) : Bool := decide ('A' ≤ c) && decide (c ≤ 'Z')
def isAlnum (c : Char) : Bool := isDigit c || isLower c || isUpper c

/-- value of a digit string, most significant first (`strconv.Atoi` on `[0-9]+`, unbounded). -/
def digitsToNat (ds : Text) : Nat := ds.foldl (fun a c => a * 10 + (c.toNat - 48)) 0

/-- `strings.HasPrefix`, returning the remainder. -/
def stripPrefix : Text → Text → Option Text
  | [], s => some s
  | _ :: _, [] => none
  | p :: ps, c :: cs => if p = c then stripPrefix ps cs else none

theorem stripPrefix_eq_some {p s r : Text} : stripPrefix p s = some r ↔ s = p ++ r := by
  induction p generalizing s with
  | nil => simp [stripPrefix, eq_comm]
  | cons a p ih =>
    cases s with
    | nil => simp [stripPrefix]
    | cons c cs =>
      simp only [stripPrefix]
      split
      · next h => subst h; simp [ih]
      · next h => simp; intro h'; exact absurd h'.symm h

def hexVal (c : Char) : Nat :=
  if isDigit c then c.toNat - 48 else if 'a' ≤ c ∧ c ≤ 'f' then c.toNat - 87 else 0

/-- decode a hex string into bytes-as-chars -/
def unhex : List Char → Text
  | a :: b :: rest => Char.ofNat (hexVal a * 16 + hexVal b) :: unhex rest
  | _ => []

def hexDigit (n : Nat) : Char := if n < 10 then Char.ofNat (48 + n) else Char.ofNat (87 + n)

def hex (t : Text) : List Char :=
  t.flatMap fun c => [hexDigit (c.toNat / 16 % 16), hexDigit (c.toNat % 16)]

def unhexS (s : String) : Text := unhex s.toList
def hexS (t : Text) : String := String.ofList (hex t)

/-- split on a separator character (`strings.Split(s, sep)` for a one-byte separator) -/
def splitOnChar (sep : Char) : Text → List Text
  | [] => [[]]
  | c :: cs =>
    if c = sep then [] :: splitOnChar sep cs
    else match splitOnChar sep cs with
      | [] => [[c]]
      | h :: t => (c :: h) :: t

def joinWith (sep : Text) : List Text → Text
  | [] => []
  | [a] => a
  | a :: b :: rest => a ++ sep ++ joinWith sep (b :: rest)

end Apko
