/-
C15 — hang-freedom models: the member loops of the .apk / APKINDEX stream readers and the include
chain of image configurations.

gzip, deflate and the tar byte format are library code.  What the loops of `Split`, `ExpandApk`,
`ParsePackageInfo`, `controlValue` and `IndexFromArchive` see of the input is abstracted as a list of
*members* (what `gzip.NewReader` / `Reset` and reading one member to its end do at each member
boundary) and a list of tar *entries*.  Every member has `size ≥ 1` compressed bytes (a gzip header
alone is ten), every entry at least one 512-byte block; the models consume exactly one member / entry
per iteration, so the number of bytes still unread is an explicit measure that strictly decreases.

The loop of `ExpandApk` is modelled twice: `expandStep` is one iteration as the Go code states it
(counters `streamId` / `maxStreams` with the initial values and the comparison regenerated from the
source), `expandRun` iterates it with fuel.  `Proofs/C15Stream.lean` shows that the fuel `bytes + 1`
is never exhausted and that three iterations always suffice.

Core only (linked into the driver).
-/
import Apko.Model.Robust

namespace Apko.Robust
open Apko Apko.Formats

/-! ## gzip members -/

structure Member where
  size : Nat               -- compressed bytes of the member
  headerOk : Bool          -- gzip.NewReader / Reset accepts the member's header
  bodyOk : Bool            -- the member reads to its end (deflate data, CRC-32, length)
  firstName : Option Text  -- name of the first tar entry of the payload; none = tar.Next fails
  tarOk : Bool             -- tarfs.New accepts the payload
  restOk : Bool            -- reading from this member's start in multistream mode reaches a clean end
  restSumsOk : Bool        -- checkSums accepts the concatenated payloads from here on
  restTarOk : Bool         -- tarfs.New accepts the concatenated payloads from here on
  deriving Repr, DecidableEq

/-- bytes of input not yet consumed -/
def bytes : List Member → Nat
  | [] => 0
  | m :: ms => m.size + bytes ms

/-- a section of the package as the readers hand it on: one buffered member, or the rest of the stream -/
inductive Stream where
  | one (m : Member)
  | tail (ms : List Member)
  deriving Repr, DecidableEq

def hasSignPrefix (pgs : PrefixList) (name : Text) : Bool :=
  match findPrefix pgs "hdr.Name" with
  | some (lit, _) => lit.isPrefixOf name
  | none => true

/-! ## `expandapk.Split` -/

/-- `Split`: no loop; two or three sections -/
def splitG (pgs : PrefixList) (ms : List Member) : Res (List Stream) :=
  match ms with
  | [] => .err                                        -- gzip.NewReader: EOF
  | m :: rest =>
    if !m.headerOk then .err else
    match m.firstName with
    | none => .err                                    -- reading first tar header
    | some name =>
      if hasSignPrefix pgs name then
        if !m.bodyOk then .err else                   -- copying signature stream
        match rest with
        | [] => .err                                  -- gzi.Reset: EOF
        | c :: rest2 =>
          if !c.headerOk then .err else
          if !c.bodyOk then .err else
          .ok [.one m, .one c, .tail rest2]
      else
        if !m.bodyOk then .err else
        .ok [.one m, .tail rest]

/-- `ParsePackageInfo`: which section is the control section -/
def controlOf (gs : GuardList) (split : List Stream) : Res Stream :=
  (idx split 0).bind fun c =>
  if enters (findLen gs "split") split.length then idx split 1 else .ok c

/-! ## `ExpandApk` -/

structure ExpSt where
  streamId : Int
  maxStreams : Int
  first : Option Member       -- what was written to stream 0 (re-opened by `Next` when streamId == 0)
  streams : List Stream       -- gzipStreams / hashes (appended together, one entry per section)
  deriving Repr, DecidableEq

def expInit : ExpSt :=
  { streamId := Generated.expandInitStreamId, maxStreams := Generated.expandInitMaxStreams,
    first := none, streams := [] }

inductive Step where
  | done (r : Res (List Stream × Bool)) -- `break` (ok; the flag: left through the data branch) or an error return
  | more (st : ExpSt) (rest : List Member)
  deriving Repr, DecidableEq

/-- `expandApkWriter.Next`: the counters afterwards and whether the last stream was reached; `none` = an
error return (the first stream does not start with a tar header) -/
def expNext (pgs : PrefixList) (st : ExpSt) : Option (ExpSt × Bool) :=
  let probed : Option Int :=
    if st.streamId = 0 then
      match st.first with
      | none => none
      | some m => match m.firstName with
        | none => none
        | some name => some (if hasSignPrefix pgs name then 3 else st.maxStreams)
    else some st.maxStreams
  match probed with
  | none => none
  | some mx =>
    let id := st.streamId + 1
    some ({ st with streamId := id, maxStreams := mx }, decide (id + 1 ≥ mx))

/-- one iteration of the `for { … }` loop of `ExpandApk` -/
def expandStep (pgs : PrefixList) (st : ExpSt) (ms : List Member) : Step :=
  match expNext pgs st with
  | none => .done .err
  | some (st1, last) =>
    match ms with
    | [] => .done (.ok (st1.streams, false))          -- gzip.NewReader / Reset: io.EOF → break
    | m :: rest =>
      if !m.headerOk then .done .err else
      if !last then
        if !m.bodyOk then .done .err else
        .more { st1 with first := (match st1.first with | some f => some f | none => some m),
                         streams := st1.streams ++ [.one m] } rest
      else
        if !m.restSumsOk then .done .err else
        if !m.restOk then .done .err else
        .done (.ok (st1.streams ++ [.tail (m :: rest)], true))

/-- the loop; `none` = the fuel ran out (the Go loop would still be running) -/
def expandRun (pgs : PrefixList) : Nat → ExpSt → List Member → Option (Res (List Stream × Bool))
  | 0, _, _ => none
  | fuel + 1, st, ms =>
    match expandStep pgs st ms with
    | .done r => some r
    | .more st' rest => expandRun pgs fuel st' rest

def streamTarOk : Stream → Bool
  | .one m => m.tarOk
  | .tail [] => false
  | .tail (m :: _) => m.restTarOk

/-- the `dataRead` flag as the source handles it (regenerated statement list): is it set where the data
branch leaves the loop, and is it tested right after the switch on the number of streams? -/
structure DataFlag where
  setInDataBranch : Bool
  setElsewhere : Bool
  tested : Bool
  deriving Repr, DecidableEq

def dataFlagOf (l : List (String × String)) : DataFlag :=
  { setInDataBranch := l.contains ("data-branch", "dataRead = true"),
    setElsewhere := l.any fun p => p.2 = "dataRead = true" && p.1 != "data-branch",
    tested := l.contains ("after-switch", "if !dataRead { return nil, <error> }") }

def expandDataFlag : DataFlag := dataFlagOf Generated.expandDataRead

/-- the value of `dataRead` after the loop -/
def DataFlag.value (d : DataFlag) (viaData : Bool) : Bool := (d.setInDataBranch && viaData) || d.setElsewhere

/-- after the loop: the `switch numGzipStreams`, the `if !dataRead` test and the index expressions that
follow; the answer is (signed, number of sections) -/
def expandFinish (cases : List (Nat × Int × Int × Int)) (d : DataFlag) (res : List Stream × Bool) :
    Res (Bool × Nat) :=
  let streams := res.1
  match cases.find? (fun c => c.1 = streams.length) with
  | none => .err                                      -- default: invalid number of tar streams
  | some (_, sig, ctl, pkg) =>
    if d.tested && !d.value res.2 then .err else      -- apk has no data section
    (idxInt streams ctl).bind fun c =>
    (idxInt streams pkg).bind fun p =>
    (if sig ≥ 0 then (idxInt streams sig).bind fun _ => .ok () else .ok ()).bind fun _ =>
    if !streamTarOk c then .err else
    if !streamTarOk p then .err else .ok (decide (sig ≥ 0), streams.length)

/-- `ExpandApk` on a stream of members -/
def expandApkG (pgs : PrefixList) (cases : List (Nat × Int × Int × Int)) (d : DataFlag) (ms : List Member) :
    Option (Res (Bool × Nat)) :=
  match expandRun pgs (bytes ms + 1) expInit ms with
  | none => none
  | some r => some (r.bind (expandFinish cases d))

/-! ## tar entry loops -/

structure Entry where
  name : Text
  readOk : Bool        -- the entry's body reads to its end
  parseOk : Bool       -- the body's parser (ParsePackageIndex, ini) accepts it
  deriving Repr, DecidableEq

/-- how `tar.Next` ends after the last complete entry -/
inductive TarEnd where
  | eof | err
  deriving Repr, DecidableEq

/-- `IndexFromArchive`: the `for { tarReader.Next() … }` loop; one entry per iteration -/
def indexFromArchiveG (pgs : PrefixList) : List Entry → TarEnd → Res Unit
  | [], .eof => .ok ()
  | [], .err => .err
  | e :: rest, fin =>
    if e.name = "APKINDEX".toList then
      (if e.parseOk then indexFromArchiveG pgs rest fin else .err)
    else if e.name = "DESCRIPTION".toList then
      (if e.readOk then indexFromArchiveG pgs rest fin else .err)
    else if hasSignPrefix pgs e.name then
      (if e.readOk then indexFromArchiveG pgs rest fin else .err)
    else .err

/-- `ParsePackageInfo` / `controlValue`: look for the entry `.PKGINFO`; every end of the archive is an
error (not found) -/
def findPkginfoG : List Entry → TarEnd → Res Unit
  | [], _ => .err
  | e :: rest, fin =>
    if e.name = ".PKGINFO".toList then (if e.readOk && e.parseOk then .ok () else .err)
    else findPkginfoG rest fin

/-! ## include chains of image configurations (`parseIncluding`) -/

/-- the file system as the include chain sees it: what a path resolves to (`paths.ResolvePath` +
`os.ReadFile`), whether the YAML decodes, and the `include:` string of the document ("" = none) -/
structure ConfFile where
  decodes : Bool
  incl : Text
  deriving Repr, DecidableEq

abbrev ConfFS := List (Text × ConfFile)     -- include string ↦ file (absent = cannot be read)

/-- `parseIncluding` on the document `f` with the chain `including`; `none` = fuel exhausted (the Go
recursion would still be descending).  `checked` = the cycle test is in the source. -/
def parseIncludingG (checked : Bool) (fs : ConfFS) : Nat → ConfFile → List Text → Option Bool
  | 0, _, _ => none
  | fuel + 1, f, including =>
    if !f.decodes then some false else
    if f.incl = [] then some true else
    if checked && including.contains f.incl then some false else     -- include cycle
    match fs.lookup f.incl with
    | none => some false                                    -- failed to read include file
    | some g =>
      match parseIncludingG checked fs fuel g (including ++ [f.incl]) with
      | none => none
      | some false => some false
      | some true => some true

/-- does the source refuse an include string that is already on the chain, before anything else in the
include block, and does the recursive call extend the chain by that string? (regenerated statement list) -/
def includeChecked : Bool :=
  Generated.includeBlock.head? = some "if slices.Contains(including, ic.Include) { return }" &&
  Generated.includeBlock.contains
    "if err := included.parseIncluding(ctx, data, includePaths, configHasher, append(including, ic.Include)); err != nil { return }"

/-- `ImageConfiguration.Load` -/
def loadConfigG (checked : Bool) (fs : ConfFS) (path : Text) : Option Bool :=
  match fs.lookup path with
  | none => some false
  | some f => parseIncludingG checked fs (fs.length + 2) f []

end Apko.Robust
