/-
Model of pkg/build/oci/image.go (BuildImageFromLayers), pkg/build/oci/index.go
(generateIndexWithMediaType, BuildIndex) and the architecture tables of
pkg/build/types/types.go (ParseArchitecture / ToAPK / ToOCIPlatform).

Core only (no Mathlib): this file is linked into the driver executable.

The append-offset arithmetic, the environment defaults, the string constants and the
architecture tables come from `Apko.Generated.Oci`, which the extractor rewrites from /repo on
every run; theorems about them are therefore about what the code says now.

Trusted / parameters: `archive/tar`'s byte encoding of a header block (the model is at block
level: header / data / zero blocks of 512 bytes), SHA-256, JSON encoding, `time.Format`,
`shlex.Split` (a parameter of the config model).
-/
import Apko.Model.Text
import Apko.Generated.Oci
import Apko.Generated.GlueLayer

namespace Apko.Oci

/-! ## 1. The append offset of BuildIndex -/

/-- what the property needs: the least multiple of 512 that is ≥ x -/
def Spec.nextBoundary (x : Nat) : Nat := (x + 511) / 512 * 512

/-- what the code computes: the generated expression, on the non-negative values the header scan produces -/
def Impl.newOffset (pos size : Nat) : Nat := (Generated.newOffset (pos : Int) (size : Int)).toNat

/-- the expression of the pinned tree before the repair (`x + (512 - x % 512)`), kept for the F12a witness -/
def pinnedOffset (pos size : Nat) : Nat := pos + size + (512 - (pos + size) % 512)

/-! ## 2. Block-level tar model -/

inductive Block where
  | hdr (name : Text) (size : Nat)
  | data
  | zero
deriving DecidableEq, Repr

structure Entry where
  name : Text
  size : Nat
deriving DecidableEq, Repr

def dataBlocks (size : Nat) : Nat := (size + 511) / 512

/-- `tar.Writer.WriteHeader` + `Write` of `size` bytes (+ padding on the next header / Close) -/
def enc (e : Entry) : List Block := .hdr e.name e.size :: List.replicate (dataBlocks e.size) .data

def encAll : List Entry → List Block
  | [] => []
  | e :: es => enc e ++ encAll es

/-- `tar.Writer.Close`: two zero blocks -/
def trailer : List Block := [.zero, .zero]

/-- `archive/tar` `Reader.Next` loop at block level, also recording for every entry the byte
position of the stream after its header (what `f.Seek(0, io.SeekCurrent)` returns in BuildIndex).
`none` = the reader fails (`invalid tar header` / unexpected EOF). -/
def readPos : Nat → Nat → List Block → Option (List (Entry × Nat))
  | 0, _, _ => none
  | _ + 1, _, [] => some []
  | f + 1, i, b :: rest =>
    match b with
    | .zero =>
      match rest with
      | [] => some []
      | .zero :: _ => some []
      | _ :: _ => none
    | .data => none
    | .hdr n s =>
      if rest.length < dataBlocks s then none
      else (readPos f (i + 1 + dataBlocks s) (rest.drop (dataBlocks s))).map
        (fun l => ((⟨n, s⟩ : Entry), 512 * (i + 1)) :: l)

def readWithPos (bs : List Block) : Option (List (Entry × Nat)) := readPos (bs.length + 1) 0 bs

/-- a standard reader reading the archive to its end -/
def readArchive (bs : List Block) : Option (List Entry) := (readWithPos bs).map (·.map (·.1))

/-- writing `new` at block `k` of an existing file (seek + write; a hole reads as zeros) -/
def overwriteAt (file : List Block) (k : Nat) (new : List Block) : List Block :=
  file.take k ++ List.replicate (k - file.length) .zero ++ new ++ file.drop (k + new.length)

/-- the values the header scan of BuildIndex leaves in `lastStreamPos`, `lastFileSize` -/
def lastPosSize (ps : List (Entry × Nat)) : Nat × Nat :=
  match ps.getLast? with
  | some (e, p) => (p, e.size)
  | none => (0, 0)

/-- BuildIndex after `v1tar.MultiWrite`: scan the file, compute the offset, seek, append the
manifests and index.json with a fresh tar writer, close it.  `imgs` are the entries MultiWrite wrote
(configs, layers, manifest.json).  `none` = BuildIndex fails or the offset is not block aligned
(outside the block model). -/
def bundle (offset : Nat → Nat → Nat) (imgs appended : List Entry) : Option (List Block) :=
  let file0 := encAll imgs ++ trailer
  match readWithPos file0 with
  | none => none
  | some ps =>
    let off := offset (lastPosSize ps).1 (lastPosSize ps).2
    if off % 512 = 0 then some (overwriteAt file0 (off / 512) (encAll appended ++ trailer)) else none

def Impl.bundle := Oci.bundle Impl.newOffset
def Spec.bundle := Oci.bundle (fun p s => Spec.nextBoundary (p + s))

/-! ## 3. Platforms (generated tables) -/

structure Platform where
  arch : Text
  variant : Text
deriving DecidableEq, Repr

def parseArchTable : List (Text × Text) := Generated.parseArchTable.map fun p => (p.1.toList, p.2.toList)
def toAPKTable : List (Text × Text) := Generated.toAPKTable.map fun p => (p.1.toList, p.2.toList)
def toOCITable : List (Text × Platform) := Generated.toOCITable.map fun p => (p.1.toList, ⟨p.2.1.toList, p.2.2.toList⟩)
def allArchs : List Text := Generated.allArchs.map String.toList

def lookupT {β : Type} (k : Text) : List (Text × β) → Option β
  | [] => none
  | (k', v) :: rest => if k' = k then some v else lookupT k rest

/-- split at the first slash -/
def splitSlash : Text → Option (Text × Text)
  | [] => none
  | c :: cs =>
    if c = '/' then some ([], cs)
    else match splitSlash cs with
      | some (a, b) => some (c :: a, b)
      | none => none

/-- `strings.NewReplacer("/", "%2F", ".", "%2E").Replace` -/
def escapeArch (s : Text) : Text :=
  s.flatMap fun c => if c = '/' then "%2F".toList else if c = '.' then "%2E".toList else [c]

/-- an architecture is one path element (it names the architecture directory of a repository, the per-architecture
working directory and files such as `apko-<arch>.tar.gz`): `.`, `..` and anything with a separator is escaped
(C18, F18f) -/
def plainArch (s : Text) : Text :=
  if s = ".".toList ∨ s = "..".toList ∨ '/' ∈ s then escapeArch s else s

/-- `types.ParseArchitecture`: the names in the switch, then any other string as one plain path element -/
def parseArch (s : Text) : Text := (lookupT s parseArchTable).getD (plainArch s)
/-- `Architecture.ToAPK` -/
def toAPK (a : Text) : Text := (lookupT (parseArch a) toAPKTable).getD (parseArch a)
/-- `Architecture.ToOCIPlatform` (OS is the constant "linux") -/
def toOCIPlatform (a : Text) : Platform := (lookupT (parseArch a) toOCITable).getD ⟨parseArch a, []⟩

/-! ### the platform the property expects, written down independently of the code's tables -/

/-- apk-style spellings and the OCI architecture they denote -/
def Spec.aliases : List (Text × Text) :=
  [("x86".toList, "386".toList), ("x86_64".toList, "amd64".toList), ("aarch64".toList, "arm64".toList),
   ("armhf".toList, "arm/v6".toList), ("armv7".toList, "arm/v7".toList), ("loongarch64".toList, "loong64".toList)]

/-- the architectures apko supports, as OCI `architecture[/variant]` strings -/
def Spec.knownArchs : List Text :=
  ["386", "amd64", "arm64", "arm/v6", "arm/v7", "loong64", "ppc64le", "riscv64", "s390x"].map String.toList

/-- an alias denotes its architecture, a supported `architecture/variant` string denotes itself; any other name is kept as
ONE plain path element (a name that is not one — `.`, `..`, anything with a separator — is escaped: C18) -/
def Spec.canonArch (s : Text) : Text :=
  (lookupT s Spec.aliases).getD (if s ∈ Spec.knownArchs then s else plainArch s)

/-- the apk name of an architecture: the alias table read backwards -/
def Spec.apkNames : List (Text × Text) := Spec.aliases.map fun p => (p.2, p.1)
def Spec.toAPK (s : Text) : Text := (lookupT (Spec.canonArch s) Spec.apkNames).getD (Spec.canonArch s)

/-- `architecture/variant` of a supported architecture splits at the slash; any other string is
taken as the architecture itself -/
def Spec.platformOf (s : Text) : Platform :=
  let a := Spec.canonArch s
  if a ∈ Spec.knownArchs then
    match splitSlash a with
    | some (x, v) => ⟨x, v⟩
    | none => ⟨a, []⟩
  else ⟨a, []⟩

/-! ## 4. Sorting of byte strings (`sort.Strings`) -/

def leText (a b : Text) : Bool := decide (a ≤ b)
def sortText (l : List Text) : List Text := l.mergeSort leText

/-! ## 5. generateIndexWithMediaType -/

def leKey {β : Type} (a b : Text × β) : Bool := decide (a.1 ≤ b.1)

/-- the manifests of the index: architectures sorted by their string, each with its platform.
`imgs` is the Go map `imgs` in any iteration order (keys distinct); the value is an image id. -/
def Impl.indexEntries (imgs : List (Text × Nat)) : List (Nat × Platform) :=
  (imgs.mergeSort leKey).map fun p => (p.2, toOCIPlatform p.1)

/-- one entry per requested architecture, carrying that architecture's platform -/
def Spec.IndexOk (imgs : List (Text × Nat)) (entries : List (Nat × Platform)) : Prop :=
  entries.length = imgs.length ∧ ∀ p ∈ imgs, (p.2, Spec.platformOf p.1) ∈ entries

instance (imgs entries) : Decidable (Spec.IndexOk imgs entries) := by
  unfold Spec.IndexOk; infer_instance

/-! ## 6. BuildIndex: tags → images -/

def replaceChar (a b : Char) (s : Text) : Text := s.map fun c => if c = a then b else c

/-- the per-architecture tag suffix of the pinned tree: `strings.ReplaceAll(m.Platform.Architecture, "/", "_")` -/
def pinnedArchSuffix (p : Platform) : Text := replaceChar '/' '_' p.arch

/-- the per-architecture tag suffix of BuildIndex (mirrors `Generated.tagLoopStmts`) -/
def Impl.archSuffix (p : Platform) : Text :=
  replaceChar '/' '_' (if p.variant ≠ [] then p.arch ++ '/' :: p.variant else p.arch)

/-- Go map assignment `m[k] = v` on an association list -/
def setKV {β : Type} (m : List (Text × β)) (k : Text) (v : β) : List (Text × β) :=
  (k, v) :: m.filter (fun p => p.1 ≠ k)

/-- the assignments `tagsToImages[ref] = img` in loop order -/
def tagPairs (suffix : Platform → Text) (tags : List Text) (ms : List (Platform × Nat)) : List (Text × Nat) :=
  ms.flatMap fun m => tags.map fun t => (t ++ '-' :: suffix m.1, m.2)

/-- `tagsToImages` after the loop -/
def tagsToImages (suffix : Platform → Text) (tags : List Text) (ms : List (Platform × Nat)) : List (Text × Nat) :=
  (tagPairs suffix tags ms).foldl (fun acc kv => setKV acc kv.1 kv.2) []

/-- the images whose config and layers `v1tar.MultiWrite` puts into the bundle -/
def bundledImages (suffix : Platform → Text) (tags : List Text) (ms : List (Platform × Nat)) : List Nat :=
  (tagsToImages suffix tags ms).map (·.2)

/-- every manifest listed in index.json has its image (config + layers) in the bundle -/
def Spec.BundleComplete (ms : List (Platform × Nat)) (bundled : List Nat) : Prop :=
  ∀ m ∈ ms, m.2 ∈ bundled

instance (ms bundled) : Decidable (Spec.BundleComplete ms bundled) := by
  unfold Spec.BundleComplete; infer_instance

/-! ## 6b. v1tar.MultiWrite: the entries written for a set of images -/

/-- an image as MultiWrite sees it: config blob name and size, layer file names (`<hex>.tar.gz`) and sizes -/
structure Img where
  cfgName : Text
  cfgSize : Nat
  layers : List (Text × Nat)
deriving DecidableEq, Repr

/-- the layer loop: a layer whose digest was seen before is skipped (`seenLayerDigests`) -/
def writeLayers : List Text → List (Text × Nat) → List Entry × List Text
  | seen, [] => ([], seen)
  | seen, l :: ls =>
    if l.1 ∈ seen then writeLayers seen ls
    else ((⟨l.1, l.2⟩ : Entry) :: (writeLayers (l.1 :: seen) ls).1, (writeLayers (l.1 :: seen) ls).2)

/-- the image loop (in the iteration order of the map) -/
def writeImages : List Text → List Img → List Entry
  | _, [] => []
  | seen, im :: rest =>
    (⟨im.cfgName, im.cfgSize⟩ : Entry) :: (writeLayers seen im.layers).1 ++ writeImages (writeLayers seen im.layers).2 rest

def manifestJson : Text := "manifest.json".toList

/-- everything MultiWrite writes before closing the tar writer -/
def multiWrite (imgs : List Img) (manifestSize : Nat) : List Entry :=
  writeImages [] imgs ++ [⟨manifestJson, manifestSize⟩]

/-- the blobs of an image can be found in an entry list -/
def Spec.HoldsImage (names : List Text) (im : Img) : Prop :=
  im.cfgName ∈ names ∧ ∀ l ∈ im.layers, l.1 ∈ names

instance (names im) : Decidable (Spec.HoldsImage names im) := by
  unfold Spec.HoldsImage; infer_instance

/-! ## 7. BuildImageFromLayers: the image config -/

structure ImageCfg where
  epShell : Text := []
  epCmd : Text := []
  cmd : Text := []
  workdir : Text := []
  stopSignal : Text := []
  vcsUrl : Text := []
  runAs : Text := []
  volumes : List Text := []
  env : List (Text × Text) := []          -- Go map: keys distinct, any order
  annotations : List (Text × Text) := []  -- Go map: keys distinct, any order
deriving DecidableEq, Repr

structure OciConfig where
  entrypoint : List Text
  cmd : List Text
  workingDir : Text
  stopSignal : Text
  user : Text
  volumes : List Text              -- keys of the JSON object, in encoding order
  env : List Text
  labels : List (Text × Text)      -- in encoding order
  author : Text
  os : Text
  created : Text
  architecture : Text
  variant : Text
deriving DecidableEq, Repr

def keySource : Text := "org.opencontainers.image.source".toList
def keyRevision : Text := "org.opencontainers.image.revision".toList
def keyCreated : Text := "org.opencontainers.image.created".toList

def envDefaults : List (Text × Text) := Generated.envDefaults.map fun p => (p.1.toList, p.2.toList)
def shellPrefix : List Text := Generated.shellPrefix.map String.toList

/-- `strings.Cut(s, sep)` for a one-byte separator -/
def cutAt (sep : Char) : Text → Option (Text × Text)
  | [] => none
  | c :: cs =>
    if c = sep then some ([], cs)
    else match cutAt sep cs with
      | some (a, b) => some (c :: a, b)
      | none => none

def renderEnv (kv : Text × Text) : Text := kv.1 ++ '=' :: kv.2

def keysOf {β : Type} (m : List (Text × β)) : List Text := m.map (·.1)

/-- defaults that are not declared -/
def missingDefaults (env : List (Text × Text)) : List (Text × Text) :=
  envDefaults.filter fun d => !(keysOf env).contains d.1

/-- `cfg.Config.Env`: clone, add unset defaults, format, `sort.Strings` -/
def Impl.envList (env : List (Text × Text)) : List Text :=
  sortText ((env ++ missingDefaults env).map renderEnv)

/-- the `annotations` map after the vcs-url and created assignments -/
def Impl.annotationMap (ic : ImageCfg) (created : Text) : List (Text × Text) :=
  let a := ic.annotations
  let a := match cutAt '@' ic.vcsUrl with
    | some (url, hash) => setKV (setKV a keySource url) keyRevision hash
    | none => a
  setKV a keyCreated created

/-- labels as encoded (`encoding/json` sorts map keys) -/
def Impl.labels (ic : ImageCfg) (created : Text) : List (Text × Text) :=
  (Impl.annotationMap ic created).mergeSort leKey

def dedup : List Text → List Text
  | [] => []
  | a :: l => if a ∈ l then dedup l else a :: dedup l

/-- `cfg.Config.Volumes` as encoded (a set; sorted keys) -/
def Impl.volumes (vs : List Text) : List Text := sortText (dedup vs)

def Impl.entrypoint (shlex : Text → Option (List Text)) (ic : ImageCfg) : Option (List Text) :=
  if ic.epShell ≠ [] then some (shellPrefix ++ [ic.epShell])
  else if ic.epCmd ≠ [] then shlex ic.epCmd
  else some []

def Impl.cmd (shlex : Text → Option (List Text)) (ic : ImageCfg) : Option (List Text) :=
  if ic.cmd ≠ [] then shlex ic.cmd else some []

/-- BuildImageFromLayers' config; `none` = the build fails (shlex error). `arch` is the
architecture string the build runs for, `created` the RFC 3339 creation time. -/
def Impl.buildConfig (shlex : Text → Option (List Text)) (ic : ImageCfg) (created : Text) (arch : Text) :
    Option OciConfig :=
  match Impl.entrypoint shlex ic, Impl.cmd shlex ic with
  | some ep, some cmd =>
    some { entrypoint := ep, cmd := cmd, workingDir := ic.workdir, stopSignal := ic.stopSignal,
           user := ic.runAs, volumes := Impl.volumes ic.volumes, env := Impl.envList ic.env,
           labels := Impl.labels ic created, author := Generated.cfgAuthor.toList,
           os := Generated.cfgOS.toList, created := created,
           architecture := (toOCIPlatform arch).arch, variant := (toOCIPlatform arch).variant }
  | _, _ => none

/-! ### what the property demands of the config -/

def Spec.EntrypointOk (shlex : Text → Option (List Text)) (ic : ImageCfg) (o : OciConfig) : Prop :=
  (if ic.epShell ≠ [] then o.entrypoint = ["/bin/sh".toList, "-c".toList, ic.epShell]
   else if ic.epCmd ≠ [] then shlex ic.epCmd = some o.entrypoint
   else o.entrypoint = []) ∧
  (if ic.cmd ≠ [] then shlex ic.cmd = some o.cmd else o.cmd = [])

/-- Env is sorted, holds every declared pair, holds a default exactly when its key is not
declared, and nothing else -/
def Spec.EnvOk (env : List (Text × Text)) (out : List Text) : Prop :=
  out.Pairwise (· ≤ ·) ∧
  (∀ kv ∈ env, renderEnv kv ∈ out) ∧
  (∀ d ∈ envDefaults, d.1 ∉ keysOf env → renderEnv d ∈ out) ∧
  (∀ s ∈ out, s ∈ env.map renderEnv ∨ ∃ d ∈ envDefaults, d.1 ∉ keysOf env ∧ s = renderEnv d) ∧
  out.length = env.length + (envDefaults.filter fun d => !(keysOf env).contains d.1).length

instance (env out) : Decidable (Spec.EnvOk env out) := by
  unfold Spec.EnvOk; infer_instance

def Spec.VolumesOk (vs out : List Text) : Prop :=
  out.Pairwise (· ≤ ·) ∧ out.Nodup ∧ (∀ v ∈ out, v ∈ vs) ∧ (∀ v ∈ vs, v ∈ out)

instance (vs out) : Decidable (Spec.VolumesOk vs out) := by
  unfold Spec.VolumesOk; infer_instance

/-- which key/value pairs the labels must hold: created; the two vcs keys when vcs-url has an
`@`; and every declared annotation under another key -/
def Spec.expectedLabel (ic : ImageCfg) (created : Text) (kv : Text × Text) : Prop :=
  kv = (keyCreated, created) ∨
  match cutAt '@' ic.vcsUrl with
  | some uh => kv = (keySource, uh.1) ∨ kv = (keyRevision, uh.2) ∨
      (kv ∈ ic.annotations ∧ kv.1 ≠ keyCreated ∧ kv.1 ≠ keySource ∧ kv.1 ≠ keyRevision)
  | none => kv ∈ ic.annotations ∧ kv.1 ≠ keyCreated

instance (ic created kv) : Decidable (Spec.expectedLabel ic created kv) := by
  unfold Spec.expectedLabel; split <;> infer_instance

/-- the vcs-url `url@hash` shows as source / revision labels -/
def Spec.VcsLabelsOk (ic : ImageCfg) (out : List (Text × Text)) : Prop :=
  match cutAt '@' ic.vcsUrl with
  | some uh => (keySource, uh.1) ∈ out ∧ (keyRevision, uh.2) ∈ out
  | none => True

instance (ic out) : Decidable (Spec.VcsLabelsOk ic out) := by
  unfold Spec.VcsLabelsOk; split <;> infer_instance

def Spec.LabelsOk (ic : ImageCfg) (created : Text) (out : List (Text × Text)) : Prop :=
  (keysOf out).Pairwise (· ≤ ·) ∧ (keysOf out).Nodup ∧
  (∀ kv ∈ out, Spec.expectedLabel ic created kv) ∧
  (keyCreated, created) ∈ out ∧
  Spec.VcsLabelsOk ic out ∧
  (∀ kv ∈ ic.annotations, Spec.expectedLabel ic created kv → kv ∈ out)

instance (ic created out) : Decidable (Spec.LabelsOk ic created out) := by
  unfold Spec.LabelsOk; infer_instance

def Spec.ScalarsOk (ic : ImageCfg) (created arch : Text) (o : OciConfig) : Prop :=
  o.workingDir = ic.workdir ∧ o.stopSignal = ic.stopSignal ∧ o.user = ic.runAs ∧
  o.author = "github.com/chainguard-dev/apko".toList ∧ o.os = "linux".toList ∧ o.created = created ∧
  o.architecture = (Spec.platformOf arch).arch ∧ o.variant = (Spec.platformOf arch).variant

def Spec.ConfigOk (shlex : Text → Option (List Text)) (ic : ImageCfg) (created arch : Text) (o : OciConfig) : Prop :=
  Spec.EntrypointOk shlex ic o ∧ Spec.EnvOk ic.env o.env ∧ Spec.VolumesOk ic.volumes o.volumes ∧
  Spec.LabelsOk ic created o.labels ∧ Spec.ScalarsOk ic created arch o

instance (ic created arch o) : Decidable (Spec.ScalarsOk ic created arch o) := by
  unfold Spec.ScalarsOk; infer_instance

instance (shlex ic o) : Decidable (Spec.EntrypointOk shlex ic o) := by
  unfold Spec.EntrypointOk; infer_instance

/-- executable form of the oracle used by the driver: the first part of `Spec.ConfigOk` that fails -/
def Spec.configVerdict (shlex : Text → Option (List Text)) (ic : ImageCfg) (created arch : Text) (o : OciConfig) : String :=
  if ¬ Spec.EntrypointOk shlex ic o then "fail:entrypoint-cmd"
  else if ¬ Spec.EnvOk ic.env o.env then "fail:env"
  else if ¬ Spec.VolumesOk ic.volumes o.volumes then "fail:volumes"
  else if ¬ Spec.LabelsOk ic created o.labels then "fail:labels"
  else if ¬ Spec.ScalarsOk ic created arch o then "fail:scalars"
  else "pass"

/-! ## 8. The configuration as the build resolves it

`apko build` does not hand the configuration it was given to `BuildImageFromLayers`: `Validate` fills in the
command of a `service-bundle` entrypoint, and `mutateAccounts` replaces a `run-as` that names a user of the
image's `/etc/passwd` (shipped by a package or configured) by that user's id.  The image config mirrors the
configuration *as resolved*; `passwd` is the `(name, uid)` column pair of the image's own passwd file. -/

def serviceBundleType : Text := "service-bundle".toList
/-- the command `ValidateServiceBundle` fills in (regenerated from /repo) -/
def serviceBundleCommand : Text := Generated.serviceBundleCommand.toList

/-- first passwd entry with that name wins; an unknown name (or a number) stays as written -/
def Spec.resolveRunAs (passwd : List (Text × Text)) (runAs : Text) : Text :=
  match passwd.find? (fun e => e.1 = runAs) with
  | some e => e.2
  | none => runAs

def Spec.resolveCfg (epType : Text) (passwd : List (Text × Text)) (ic : ImageCfg) : ImageCfg :=
  { ic with
    epCmd := if epType = serviceBundleType then serviceBundleCommand else ic.epCmd
    runAs := if ic.runAs = [] then [] else Spec.resolveRunAs passwd ic.runAs }

/-- the end-to-end oracle: the emitted config against the configuration as resolved -/
def Spec.e2eVerdict (shlex : Text → Option (List Text)) (epType : Text) (passwd : List (Text × Text))
    (ic : ImageCfg) (created arch : Text) (o : OciConfig) : String :=
  Spec.configVerdict shlex (Spec.resolveCfg epType passwd ic) created arch o

end Apko.Oci
