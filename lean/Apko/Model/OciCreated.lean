import Apko.Generated.OciCreated
/-! # C12 — which creation time a whole `apko build` stamps

Three places decide (statement lists regenerated into `Apko.Generated.OciCreated`):

* `build.New` and `build.NewOptions` (both through `applySourceDateEpoch`, after the options) fold an exported,
  non-blank `SOURCE_DATE_EPOCH` into `Options.SourceDateEpoch` (the value the `--build-date` flag /
  `WithSourceDateEpoch` option left there; default 0) and fail on a malformed one;
* `Context.GetBuildDateEpoch`: when `SOURCE_DATE_EPOCH` is exported (`os.LookupEnv` says ok) the option value as it
  is; otherwise the loop `if p.BuildTime.After(bde) { bde = p.BuildTime }` over the installed packages, starting
  from the option value.  The result is handed to `oci.BuildImageFromLayers` as `created` (config `created`, every
  history entry, the `org.opencontainers.image.created` annotation and label);
* `buildImageComponents`: `multiArchBDE` starts from `Options.SourceDateEpoch` of `build.NewOptions`, is raised to
  every per-architecture result, and is handed to `oci.GenerateIndex` (created annotation of the index).  On the
  pinned tree `NewOptions` did not look at the environment (`Pinned.indexCreated`, F12f): with a `--build-date`
  later than the declared SOURCE_DATE_EPOCH the index carried the build date.

Times are whole seconds (`Int`, Unix). -/
namespace Apko.OciCreated

/-- what the process environment says about `SOURCE_DATE_EPOCH` -/
inductive Env where
  /-- not exported -/
  | unset
  /-- exported, white space only -/
  | blank
  /-- exported, a decimal integer -/
  | value (n : Int)
  /-- exported, anything else (`strconv.ParseInt` fails) -/
  | malformed
deriving DecidableEq, Repr

/-- the `ok` of `os.LookupEnv("SOURCE_DATE_EPOCH")` -/
def Env.exported : Env → Bool
  | .unset => false
  | _ => true

/-- `build.New` / `build.NewOptions`: `Options.SourceDateEpoch` after the options (`opt`) and the environment;
`none` = the constructor fails -/
def Impl.newEpoch (env : Env) (opt : Int) : Option Int :=
  match env with
  | .value n => some n
  | .malformed => none
  | _ => some opt

/-- the loop of `GetBuildDateEpoch`: `for _, p := range pl { if p.BuildTime.After(bde) { bde = p.BuildTime } }` -/
def Impl.foldPkgs (bde : Int) : List Int → Int
  | [] => bde
  | p :: ps => Impl.foldPkgs (if p > bde then p else bde) ps

/-- `Context.GetBuildDateEpoch`; `sde` is `bc.o.SourceDateEpoch`, `pkgs` the build dates of the installed packages
in the order `GetInstalled` returns them -/
def Impl.getBuildDateEpoch (exported : Bool) (sde : Int) (pkgs : List Int) : Int :=
  if exported then sde else Impl.foldPkgs sde pkgs

/-- the creation time of one architecture's image in a whole build -/
def Impl.imageCreated (env : Env) (opt : Int) (pkgs : List Int) : Option Int :=
  match Impl.newEpoch env opt with
  | none => none
  | some sde => some (Impl.getBuildDateEpoch env.exported sde pkgs)

/-- the creation time of the index: `multiArchBDE := o.SourceDateEpoch`, then `if bde.After(multiArchBDE)
{ multiArchBDE = bde }` for every architecture (in any order: the fold is a maximum) -/
def Impl.indexCreated (env : Env) (opt : Int) (archPkgs : List (List Int)) : Option Int :=
  match Impl.newEpoch env opt with
  | none => none
  | some sde => some (Impl.foldPkgs sde (archPkgs.map (Impl.getBuildDateEpoch env.exported sde)))

/-- the same before the repair F12f: `NewOptions` left the environment out, the fold started from the bare option -/
def Pinned.indexCreated (env : Env) (opt : Int) (archPkgs : List (List Int)) : Option Int :=
  match Impl.newEpoch env opt with
  | none => none
  | some sde => some (Impl.foldPkgs opt (archPkgs.map (Impl.getBuildDateEpoch env.exported sde)))

/-! ## the demand -/

/-- the greatest of `base` and the members of `l` -/
def Spec.maxOf (base : Int) (l : List Int) : Int := l.foldl max base

/-- `m` is the greatest of `base` and the members of `l` -/
def Spec.IsMax (m base : Int) (l : List Int) : Prop :=
  base ≤ m ∧ (∀ p ∈ l, p ≤ m) ∧ (m = base ∨ m ∈ l)

/-- The creation time of an image: a declared `SOURCE_DATE_EPOCH` wins over everything; exported but blank, the
build-date option is the declared time; nothing exported, the documented rule: the newest of the build-date
option and the build dates of the installed packages.  `none`: the build must fail. -/
def Spec.imageCreated (env : Env) (opt : Int) (pkgs : List Int) : Option Int :=
  match env with
  | .value n => some n
  | .malformed => none
  | .blank => some opt
  | .unset => some (Spec.maxOf opt pkgs)

/-- The creation time of the index: the declared time; without one the newest creation time of its images. -/
def Spec.indexCreated (env : Env) (opt : Int) (archPkgs : List (List Int)) : Option Int :=
  match env with
  | .value n => some n
  | .malformed => none
  | .blank => some opt
  | .unset => some (Spec.maxOf opt archPkgs.flatten)

/-- the verdict on what a build emitted: `imgs` = per architecture the installed packages' build dates and every
creation-time field read back from that image (config created, history entries, created label, created
annotation of the manifest); `idx` = the created annotation of the index (`none` when it has none) -/
def Spec.createdVerdict (env : Env) (opt : Int) (imgs : List (List Int × List Int)) (idx : Option Int) : String :=
  if imgs.any (fun a => a.2.isEmpty) then "fail:an image without creation time"
  else if imgs.any (fun a => a.2.any fun t => some t ≠ Spec.imageCreated env opt a.1) then
    "fail:image-created"
  else if idx ≠ Spec.indexCreated env opt (imgs.map (·.1)) then "fail:index-created"
  else "pass"

end Apko.OciCreated
