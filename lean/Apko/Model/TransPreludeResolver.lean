/-
Prelude of the Go → Lean translator for the resolver targets (needs `Pkg`): see Model/TransPrelude.lean.
-/
import Apko.Model.Resolver
import Apko.Model.TransPrelude

namespace Apko.Trans

/-- `filterOptions` of `filterPackages` after the functional options were applied -/
structure FilterOpts where
  allowPin : Text
  preferPin : Text
  version : Text
  installed : Option Pkg
  compare : Dep

end Apko.Trans
