import Apko.Model.FS
import Apko.Model.Formats
/-!
# The layer tarball (`pkg/build/tarball.go`, `pkg/build/build_implementation.go: newLayerWriter`)

Entry-level model of what `writeTar` puts into a layer for a state of the in-memory file systems
(`Model/FS.lean`), of what a standard extractor makes of such an entry list, and of the
digest / diff-id / size tee of `newLayerWriter`.

* `header` mirrors the callback of `walkFS` line by line (`tar.FileInfoHeader` included); it reads
  the node the directory entry refers to (`d.Info()`), which is also the node the path-based
  accessors of the callback (`Readlink`, `Readnod`, `ListXattrs`, `Open`) reach for a walk path.
* `writeTar` = `walk` (the `fs.WalkDir` order of `Model/FS.lean`, root skipped) mapped through `header`.
  The byte encoding of headers (ustar / PAX) is `archive/tar`'s and is trusted; an entry is the
  header as `archive/tar` reads it back plus the body.
* `extract` is what a standard extractor does with an entry list: every path once, the parent
  directory must have been extracted already, a hard link needs its target to exist already and
  then shares its inode.
* `observeTree` is the built file system as an observer sees it through the interface (per path:
  type, content, permission bits, owner, link target, device numbers, xattrs, mtime, inode identity).
  `SameTree` is the comparison `≈` of the property.

Paths are component lists (`List Name`); the entry name is `joinNames path`.
-/
namespace Apko.Tar
open Apko Apko.Path Apko.FS

/-! ## entries -/

/-- tar type flags the walker can produce ('0' '1' '2' '3' '4' '6' '5'); `other` = `FileInfoHeader`
fails (socket, unknown mode) and with it the whole `writeTar` -/
inductive Kind | reg | link | symlink | char | block | fifo | dir | other
  deriving DecidableEq, Repr, Inhabited

structure Entry where
  path : List Name
  kind : Kind
  /-- tar mode: permission bits and 0o4000 / 0o2000 / 0o1000 -/
  mode : Nat
  uid : Int
  gid : Int
  uname : Text := []
  gname : Text := []
  size : Nat := 0
  linkname : Text := []
  devmajor : Nat := 0
  devminor : Nat := 0
  mtime : Int := 0
  /-- `SCHILY.xattr.*` PAX records, sorted by name (`archive/tar` writes PAX records sorted) -/
  xattrs : List (Name × Text) := []
  content : Text := []
  deriving DecidableEq, Repr, Inhabited

/-! ## `tar.FileInfoHeader` and the `walkFS` callback -/

/-- `fs.FileMode.IsRegular`: no bit of `fs.ModeType` is set -/
def isRegularMode (m : Nat) : Bool :=
  !m.testBit 31 && !m.testBit 27 && !m.testBit 26 && !m.testBit 25 && !m.testBit 24 && !m.testBit 21 && !m.testBit 19

/-- the type switch of `tar.FileInfoHeader` on (`fi.Mode()`, `fi.IsDir()`) -/
def fihKind (n : Inode) : Kind :=
  if isRegularMode n.mode then .reg
  else if n.dir then .dir
  else if n.mode.testBit 27 then .symlink
  else if n.mode.testBit 26 then (if n.mode.testBit 21 then .char else .block)
  else if n.mode.testBit 25 then .fifo
  else .other

/-- `int64(fm.Perm())` or'd with `c_ISUID` / `c_ISGID` / `c_ISVTX` -/
def tarMode (m : Nat) : Nat :=
  (m &&& 0o777) ||| (if m.testBit 23 then 0o4000 else 0) ||| (if m.testBit 22 then 0o2000 else 0)
    ||| (if m.testBit 20 then 0o1000 else 0)

/-- `archive/tar` writes a zero `time.Time` as the epoch (`templateV7Plus`) -/
def tarTime (t : Int) : Int := if t = zeroTime then 0 else t

/-- `Sys().(*tar.Header)`: hard-link flag and target of a name registered through `WriteHeader`
(`tarfs` only; the key is `path.Join(parent, name)`) -/
def hlOf (b : Backend) (n : Inode) (p : List Name) : Option Text :=
  if b = .tarfs then n.hardlinks.lookup (joinNames p) else none

/-- what `Open(path)` + read delivers for a regular node -/
def fileData (b : Backend) (n : Inode) : Text :=
  match (if b = .tarfs then teLive (Cfg.impl b) n else none) with
  | some te => te.content
  | none => n.data

/-- `users[uid]` of the maps built from `etc/passwd` / `etc/group` (later entries overwrite earlier ones) -/
def nameOf (tbl : List (Nat × Text)) (id : Int) : Option Text :=
  (tbl.reverse.find? fun e => decide ((e.1 : Int) = id)).map (·.2)

/-- canonical order of an attribute list: insertion sort by name (stable; names are distinct, so
any sort gives this list — `archive/tar` writes PAX records sorted by key) -/
def insertX (e : Name × Text) : List (Name × Text) → List (Name × Text)
  | [] => [e]
  | x :: xs => if e.1 ≤ x.1 then e :: x :: xs else x :: insertX e xs

def sortX (l : List (Name × Text)) : List (Name × Text) := l.foldr insertX []

/-- `link`: `if info.Mode()&os.ModeSymlink == os.ModeSymlink { link = fsys.Readlink(path) }` -/
def hdrLink (n : Inode) : Text := if n.isSymlink then n.target else []

/-- the type flag: `tar.FileInfoHeader`'s switch, then `if sys.Typeflag == TypeLink { h.Typeflag = TypeLink }`,
then (back in `walkFS`) `if link != "" { header.Typeflag = tar.TypeSymlink }` -/
def hdrKind (hl : Option Text) (n : Inode) : Kind :=
  if hdrLink n ≠ [] then .symlink else if hl.isSome then .link else fihKind n

/-- `h.Size = fi.Size()` for regular files, `h.Size = 0` for a hard link -/
def hdrSize (b : Backend) (hl : Option Text) (n : Inode) : Nat :=
  if hl.isSome then 0 else if fihKind n = .reg then effectiveSize (Cfg.impl b) n else 0

/-- `h.Linkname = link` for symlinks, `h.Linkname = sys.Linkname` for a hard link -/
def hdrLinkname (hl : Option Text) (n : Inode) : Text :=
  match hl with
  | some l => l
  | none => if fihKind n = .symlink then hdrLink n else []

/-- `if info.Mode()&os.ModeCharDevice == os.ModeCharDevice { dev = fsys.Readnod(path) }` -/
def hdrDev (n : Inode) : Nat × Nat :=
  let dev := unixMkdev n.major n.minor
  if n.mode.testBit 21 then (unixMajor dev, unixMinor dev) else (0, 0)

/-- "only capture xattrs for real objects in the FS": `ListXattrs` for `TypeReg` / `TypeDir` -/
def hdrXattrs (k : Kind) (n : Inode) : List (Name × Text) :=
  if k = .reg ∨ k = .dir then sortX n.xattrs else []

/-- `writeTar`: `if f.info.Mode().IsRegular() && f.header.Size > 0 { io.CopyBuffer(tw, fsys.Open(f.path), buf) }` -/
def hdrContent (b : Backend) (size : Nat) (n : Inode) : Text :=
  if isRegularMode n.mode ∧ size > 0 then fileData b n else []

/-- the header `walkFS` yields for the directory entry `p ↦ i` (with the body `writeTar` copies) -/
def header (b : Backend) (fs : FS) (users groups : List (Nat × Text)) (p : List Name) (i : Ino) : Entry :=
  let n := fs.node i
  let hl := hlOf b n p
  { path := p,                                  -- header.Name = path
    kind := hdrKind hl n,
    mode := tarMode n.mode,
    uid := n.uid, gid := n.gid,                -- from Sys()
    uname := (nameOf users n.uid).getD [],     -- if name, ok := users[header.Uid]; ok { header.Uname = name }
    gname := (nameOf groups n.gid).getD [],
    size := hdrSize b hl n,
    linkname := hdrLinkname hl n,
    devmajor := (hdrDev n).1, devminor := (hdrDev n).2,
    mtime := tarTime n.mtime,                  -- header.ModTime = info.ModTime()
    xattrs := hdrXattrs (hdrKind hl n) n,
    content := hdrContent b (hdrSize b hl n) n }

/-! ## the image's passwd / group as `walkFS` reads them -/

/-- the entries `UserFile.Load` has appended when it returns (it stops at the first line that does
not parse, `walkFS` ignores the error and uses what is there) -/
def loadPrefix {α : Type} (parse : Text → Option α) : List Text → List α
  | [] => []
  | l :: rest => match parse l with
    | some a => a :: loadPrefix parse rest
    | none => []

def passwdPath : Text := "etc/passwd".toList
def groupPath : Text := "etc/group".toList

/-- `fsys.Open(path)` and read to the end; `none` when the open fails -/
def readAll (b : Backend) (fs : FS) (path : Text) : Option Text :=
  match (step (Cfg.impl b) fs (.readFile path)).2 with
  | .ok (.bytes d _) => some d
  | _ => none

/-- the (uid, name) table of a passwd text, in file order -/
def usersOfText (t : Text) : List (Nat × Text) :=
  (loadPrefix Formats.parseUser (Formats.scanLines Formats.defaultTokenMax t).1).map fun u => (u.uid, u.name)

/-- the (gid, name) table of a group text, in file order -/
def groupsOfText (t : Text) : List (Nat × Text) :=
  (loadPrefix Formats.parseGroup (Formats.scanLines Formats.defaultTokenMax t).1).map fun g => (g.gid, g.name)

def usersOf (b : Backend) (fs : FS) : List (Nat × Text) :=
  match readAll b fs passwdPath with
  | none => []
  | some t => usersOfText t

def groupsOf (b : Backend) (fs : FS) : List (Nat × Text) :=
  match readAll b fs groupPath with
  | none => []
  | some t => groupsOfText t

/-- the entry list of the layer `writeTar` emits for `fs` -/
def writeTar (b : Backend) (fs : FS) : List Entry :=
  (walk fs).map fun w => header b fs (usersOf b fs) (groupsOf b fs) w.1 w.2

/-! ## extraction -/

/-- what an extractor sets on the object it creates (everything but the inode identity) -/
structure Attrs where
  kind : Kind
  mode : Nat
  uid : Int
  gid : Int
  mtime : Int
  size : Nat
  content : Text
  target : Text
  devmajor : Nat
  devminor : Nat
  xattrs : List (Name × Text)
  deriving DecidableEq, Repr, Inhabited

structure XNode where
  attrs : Attrs
  /-- inode identity: two paths are hard links of each other iff they carry the same identity -/
  ident : Nat
  deriving DecidableEq, Repr, Inhabited

abbrev Tree := List (List Name × XNode)

inductive XErr
  | duplicate (p : List Name)
  | rootEntry
  | orphan (p : List Name)
  | linkTarget (p : List Name)
  | badKind (p : List Name)
  deriving DecidableEq, Repr

/-- the object a non-link entry creates -/
def attrsOfEntry (e : Entry) : Attrs :=
  { kind := e.kind, mode := e.mode, uid := e.uid, gid := e.gid, mtime := e.mtime,
    size := if e.kind = .reg then e.size else 0,
    content := if e.kind = .reg then e.content else [],
    target := if e.kind = .symlink then e.linkname else [],
    devmajor := if e.kind = .char ∨ e.kind = .block then e.devmajor else 0,
    devminor := if e.kind = .char ∨ e.kind = .block then e.devminor else 0,
    xattrs := e.xattrs }

/-- the parent directory was extracted before (top-level entries hang off the extraction root) -/
def parentOK (t : Tree) (p : List Name) : Bool :=
  p.dropLast = [] || (match t.lookup p.dropLast with
    | some x => decide (x.attrs.kind = .dir)
    | none => false)

/-- one entry: the path must be new, its parent an extracted directory; a hard link needs its target
(a non-directory) to exist already and becomes another name of that inode -/
def extractStep (t : Tree) (e : Entry) : Except XErr Tree :=
  if e.path = [] then .error .rootEntry else
  if (t.lookup e.path).isSome then .error (.duplicate e.path) else
  if !parentOK t e.path then .error (.orphan e.path) else
  match e.kind with
  | .other => .error (.badKind e.path)
  | .link =>
    match t.lookup (parts e.linkname) with
    | some x => if x.attrs.kind = .dir then .error (.linkTarget e.path) else .ok (t ++ [(e.path, x)])
    | none => .error (.linkTarget e.path)
  | _ => .ok (t ++ [(e.path, { attrs := attrsOfEntry e, ident := t.length })])

def extractFrom : Tree → List Entry → Except XErr Tree
  | t, [] => .ok t
  | t, e :: es =>
    match extractStep t e with
    | .ok t' => extractFrom t' es
    | .error x => .error x

def extract (es : List Entry) : Except XErr Tree := extractFrom [] es

/-! ## the built file system as observed -/

/-- the type of a node as an observer of the file system sees it (from the mode bits) -/
def obsKind (n : Inode) : Kind :=
  if n.mode.testBit 31 then .dir
  else if n.mode.testBit 27 then .symlink
  else if n.mode.testBit 26 then (if n.mode.testBit 21 then .char else .block)
  else if n.mode.testBit 25 then .fifo
  else if isRegularMode n.mode then .reg
  else .other

/-- per path: type, permission bits incl. setuid/setgid/sticky, owner, mtime (a time that was never
set reads as the epoch), size and content (regular files), link target (symlinks), device numbers
(what `Readnod` reports, split into major and minor), extended attributes -/
def obsAttrs (b : Backend) (n : Inode) : Attrs :=
  let k := obsKind n
  let dev := unixMkdev n.major n.minor
  { kind := k, mode := tarMode n.mode, uid := n.uid, gid := n.gid, mtime := tarTime n.mtime,
    size := if k = .reg then effectiveSize (Cfg.impl b) n else 0,
    content := if k = .reg then fileData b n else [],
    target := if k = .symlink then n.target else [],
    devmajor := if k = .char ∨ k = .block then unixMajor dev else 0,
    devminor := if k = .char ∨ k = .block then unixMinor dev else 0,
    xattrs := sortX n.xattrs }

/-- the built tree: every walk path with what is observable of its node; the identity is the node -/
def observeTree (b : Backend) (fs : FS) : Tree :=
  (walk fs).map fun w => (w.1, { attrs := obsAttrs b (fs.node w.2), ident := w.2 })

/-- `≈`: same paths (in the same order) with the same attributes, and the same hard-link structure -/
def SameTree (x o : Tree) : Prop :=
  x.map (fun e => (e.1, e.2.attrs)) = o.map (fun e => (e.1, e.2.attrs)) ∧
  ∀ a ∈ x.zip o, ∀ c ∈ x.zip o, (a.1.2.ident = c.1.2.ident ↔ a.2.2.ident = c.2.2.ident)

instance (x o : Tree) : Decidable (SameTree x o) := by unfold SameTree; infer_instance

/-! ## the hypotheses under which today's `writeTar` is faithful (their negations are the finding classes) -/

/-- `ok pre x` for every element `x` of `l` with the elements before it -/
def scanAll {α : Type} (ok : List α → α → Bool) : List α → List α → Bool
  | _, [] => true
  | pre, x :: rest => ok pre x && scanAll ok (pre ++ [x]) rest

/-- a name registered as a hard link is emitted after the path its header names, and that path is
still another name of the same (non-directory) node -/
def latOK (b : Backend) (fs : FS) (pre : List (List Name × Ino)) (w : List Name × Ino) : Bool :=
  match hlOf b (fs.node w.2) w.1 with
  | none => true
  | some l => pre.any fun y => decide (y.1 = parts l) && decide (y.2 = w.2) && !(fs.node y.2).dir

def linksAfterTargets (b : Backend) (fs : FS) : Bool := scanAll (latOK b fs) [] (walk fs)

/-- every further name of a node is registered as a hard link (names made by `Link` are not) -/
def lregOK (b : Backend) (fs : FS) (pre : List (List Name × Ino)) (w : List Name × Ino) : Bool :=
  (hlOf b (fs.node w.2) w.1).isSome || pre.all fun y => decide (y.2 ≠ w.2)

def linksRegistered (b : Backend) (fs : FS) : Bool := scanAll (lregOK b fs) [] (walk fs)

/-- only regular files and directories carry extended attributes -/
def xattrsCaptured (fs : FS) : Bool :=
  (walk fs).all fun w =>
    let n := fs.node w.2
    obsKind n = .reg || obsKind n = .dir || n.xattrs.isEmpty

/-- shape of the nodes the walk meets: the `dir` flag is the mode bit, the type is one the walker
supports, links are not directories, only character devices have the device bit, package
entries have the size they announce, and directories / symlinks are not registered as hard links -/
def nodeOK (n : Inode) : Bool :=
  (n.dir == n.mode.testBit 31) &&
  (obsKind n = .reg || obsKind n = .dir || obsKind n = .symlink || obsKind n = .char) &&
  (!n.mode.testBit 21 || obsKind n = .char) &&
  (!n.isSymlink || (obsKind n = .symlink && n.target ≠ [])) &&
  (match n.te with | some te => te.size == te.content.length | none => true) &&
  (n.hardlinks.isEmpty || obsKind n = .reg || obsKind n = .char)

/-- well-formedness of a state for the purposes of the layer: the structural invariant of
`Model/FS.lean` and `nodeOK` for every node -/
structure WF (fs : FS) : Prop where
  inv : Inv fs
  nodes : ∀ i : Nat, nodeOK (fs.node i) = true

/-- `Inv` and `nodeOK` checked node by node (nodes beyond the table are the default node) -/
def wfCheck (fs : FS) : Bool :=
  (fs.node 0).dir && nodeOK (default : Inode) &&
  (List.range fs.nodes.length).all fun i =>
    let n := fs.node i
    decide ((n.children.map (·.1)).Nodup) && n.children.all (fun e => decide (e.2 < fs.nodes.length)) &&
    (n.dir || n.children.isEmpty) && nodeOK n

/-- decidable part of `WF` used by the driver to tag cases (`Inv` is preserved by every operation:
`C17.inv_step`) -/
def wfNodes (fs : FS) : Bool := (walk fs).all fun w => nodeOK (fs.node w.2)

/-! ## the layer's bodies against the FS interface

What `ReadFile(path)` and `Stat(path).Size()` of the file system the layer was written from deliver for the path
of a regular entry.  The property's "extracting the layer yields the file system that was built" includes: the
header's size is the size `Stat` reports, the body is what `ReadFile` returns, and the two agree. -/

structure Readback where
  path : List Name
  /-- `Stat(path).Size()` -/
  statSize : Nat
  /-- `ReadFile(path)` (as a content key in the driver) -/
  content : Text
  /-- `len(ReadFile(path))` -/
  readLen : Nat
  deriving DecidableEq, Repr, Inhabited

inductive RbErr
  | missing (p : List Name)        -- the interface cannot read a file the layer contains
  | size (p : List Name)           -- header size ≠ Stat size
  | content (p : List Name)        -- body ≠ ReadFile
  | statVsRead (p : List Name)     -- Stat size ≠ number of bytes ReadFile returns
  deriving DecidableEq, Repr

/-- judge one regular entry -/
def readbackEntry (rbs : List Readback) (e : Entry) : Option RbErr :=
  match rbs.find? (fun r => r.path = e.path) with
  | none => some (.missing e.path)
  | some r =>
    if e.size ≠ r.statSize then some (.size e.path)
    else if e.content ≠ r.content then some (.content e.path)
    else if r.statSize ≠ r.readLen then some (.statVsRead e.path)
    else none

/-- the first regular entry of the layer that is not what the interface reads -/
def readbackCheck (es : List Entry) (rbs : List Readback) : Option RbErr :=
  (es.filter (·.kind = .reg)).findSome? (readbackEntry rbs)

/-- what the interface of the model delivers for the walk path `p ↦ i`: `Stat` reports `effectiveSize`,
`ReadFile` the bytes of `fileData` -/
def readbackOf (b : Backend) (fs : FS) (w : List Name × Ino) : Readback :=
  let n := fs.node w.2
  { path := w.1, statSize := effectiveSize (Cfg.impl b) n, content := fileData b n, readLen := (fileData b n).length }

/-! ## order -/

/-- paths strictly increase in `fs.WalkDir`'s component-wise order -/
def strictlySorted : List (List Name) → Bool
  | a :: b :: rest => decide (a < b) && strictlySorted (b :: rest)
  | _ => true

/-- every path's parent is the root or an earlier path -/
def parentsFirst (ps : List (List Name)) : Bool :=
  scanAll (fun pre p => p.dropLast = [] || pre.contains p.dropLast) [] ps

/-! ## the digest / diff-id / size tee of `newLayerWriter` -/

abbrev Bytes := List UInt8

/-- a streaming hash (`sha256.New()`): state, `Write`, `Sum` -/
structure Hasher (σ δ : Type) where
  init : σ
  write : σ → Bytes → σ
  sum : σ → δ

/-- one-shot digest of a byte string -/
def Hasher.digest {σ δ : Type} (h : Hasher σ δ) (b : Bytes) : δ := h.sum (h.write h.init b)

/-- a streaming compressor (`pgzip.Writer`): `Write` may emit any amount of output, `Close` the rest -/
structure Compressor (γ : Type) where
  init : γ
  write : γ → Bytes → γ × Bytes
  close : γ → Bytes

/-- state of the tee: `diffid` hash, gzip writer, `digest` hash, the output file (behind the bufio writer) -/
structure Tee (σ γ : Type) where
  diffid : σ
  gz : γ
  digest : σ
  file : Bytes

/-- one `Write` of the tar writer: `io.MultiWriter(diffid, gzw)`, and `gzw` writes into
`io.MultiWriter(digest, buf)` -/
def Tee.write {σ δ γ : Type} (h : Hasher σ δ) (z : Compressor γ) (t : Tee σ γ) (chunk : Bytes) : Tee σ γ :=
  let (g', out) := z.write t.gz chunk
  { diffid := h.write t.diffid chunk, gz := g', digest := h.write t.digest out, file := t.file ++ out }

structure Layer (δ : Type) where
  digest : δ
  diffid : δ
  size : Nat
  file : Bytes

/-- `finalize`: close the tar writer (its trailer is one more chunk), close gzip, flush, stat -/
def Tee.finalize {σ δ γ : Type} (h : Hasher σ δ) (z : Compressor γ) (t : Tee σ γ) : Layer δ :=
  let out := z.close t.gz
  let file := t.file ++ out
  { digest := h.sum (h.write t.digest out), diffid := h.sum t.diffid, size := file.length, file := file }

/-- the layer produced for the sequence of chunks the tar writer emits -/
def layerOf {σ δ γ : Type} (h : Hasher σ δ) (z : Compressor γ) (chunks : List Bytes) : Layer δ :=
  (chunks.foldl (Tee.write h z) { diffid := h.init, gz := z.init, digest := h.init, file := [] }).finalize h z

/-- everything the compressor emits for a chunk sequence -/
def Compressor.run {γ : Type} (z : Compressor γ) : γ → List Bytes → Bytes
  | g, [] => z.close g
  | g, c :: cs => (z.write g c).2 ++ z.run (z.write g c).1 cs

end Apko.Tar
