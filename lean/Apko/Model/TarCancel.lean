import Apko.Model.Tar
import Apko.Generated.Tar
/-!
# The layer writer under a context that becomes done (`walkFS`, `writeTar`, `ImageLayoutToLayer`, `splitLayers`)

`walkFS` looks at the context once per invocation of its `fs.WalkDir` callback (first statement of the callback); the
consumers of the walk (`writeTar` → `ImageLayoutToLayer` → `BuildLayer`, or `splitLayers` → `buildLayers`) propagate the
error the walk yields and may look at the context themselves before and after the walk.

* `Ctx` — the context as this code sees it: its `k`-th `ctx.Err()` call (counted from 0 over the whole call) returns nil
  while `k < live`, the error `err` afterwards (a done context stays done; `none` = never done).
* `OnDone` — what the callback's first statement does with a done context, read off the regenerated statement
  (`onDoneOf`): return the error (today), `fs.SkipAll` (the walk ends *normally*), no check at all.
* `CtxPlan` — `OnDone` plus the number of `if err := ctx.Err(); err != nil { return … }` statements of the callers before
  and after the walk (`ctxReturns` of the regenerated statement lists).
* `layerCtx plan ctx es` — the outcome for the entry list `es` of the complete walk: the context's error, or the list of
  entries that reach the layer(s).

The property (C06: the layer holds exactly the paths of the file system) for a call that returns no error demands the
complete list; `Proofs/C06.lean: walk_cancel_error_or_complete` proves "error or complete" for the plan regenerated
from the source, `walk_cancel_skipall_partial` that the `SkipAll` variant without a check after the walk emits a strict
prefix with a nil error.
-/
namespace Apko.Tar

/-- `ctx.Err()` of a done context: `context.Canceled` / `context.DeadlineExceeded` -/
inductive CtxErr | canceled | deadline
  deriving DecidableEq, Repr, Inhabited

structure Ctx where
  /-- number of `ctx.Err()` calls that still return nil -/
  live : Nat
  err : CtxErr
  deriving DecidableEq, Repr, Inhabited

/-- the `k`-th `ctx.Err()` -/
def errAt (ctx : Option Ctx) (k : Nat) : Option CtxErr :=
  match ctx with
  | none => none
  | some c => if k < c.live then none else some c.err

/-- what the first statement of the `walkFS` callback does when the context is done -/
inductive OnDone
  | returnErr   -- `if err := ctx.Err(); err != nil { return err }`: `fs.WalkDir` stops and returns the error
  | skipAll     -- `… { return fs.SkipAll }`: `fs.WalkDir` stops and returns nil
  | noCheck     -- the callback does not look at the context
  | unknown     -- it mentions the context in a way this model does not know
  deriving DecidableEq, Repr, Inhabited

structure CtxPlan where
  onDone : OnDone
  /-- `if err := ctx.Err(); err != nil { return … }` statements of the callers before the walk starts -/
  before : Nat
  /-- … and after the walk has ended -/
  after : Nat
  deriving DecidableEq, Repr, Inhabited

/-! ## reading the plan off regenerated Go statements -/

def hasInfix (pat : List Char) : List Char → Bool
  | [] => pat.isEmpty
  | c :: cs => pat.isPrefixOf (c :: cs) || hasInfix pat cs

def mentionsCtx (s : String) : Bool :=
  hasInfix "ctx.Err()".toList s.toList || hasInfix "ctx.Done()".toList s.toList

/-- a statement of a caller that ends the call with an error when the context is done -/
def isCtxReturn (s : String) : Bool := "if err := ctx.Err(); err != nil { return ".toList.isPrefixOf s.toList

def ctxReturns (stmts : List String) : Nat := (stmts.filter isCtxReturn).length

/-- the callback's first statement -/
def onDoneOf (callback : List String) : OnDone :=
  match callback with
  | [] => .noCheck
  | s :: rest =>
    if s = "if err := ctx.Err(); err != nil { return err }" then .returnErr
    else if s = "if ctx.Err() != nil { return fs.SkipAll }" || s = "if err := ctx.Err(); err != nil { return fs.SkipAll }" then .skipAll
    else if (s :: rest).any mentionsCtx then .unknown
    else .noCheck

/-- the statements that follow the one containing the walk (`for … range walkFS(…)`) -/
def afterWalk (stmts : List String) : List String :=
  (stmts.dropWhile fun s => !"for f, err := range walkFS(".toList.isPrefixOf s.toList).drop 1

/-! ## the walk -/

/-- what the walk hands to its consumer: the entries yielded, the error yielded last (if any), and the index of the next
`ctx.Err()` call -/
structure WalkRes where
  yielded : List Entry
  err : Option CtxErr
  next : Nat
  deriving DecidableEq, Repr, Inhabited

inductive CbCheck
  | stop (err : Option CtxErr)   -- the callback returns `err` / `fs.SkipAll` (`none`)
  | go (next : Nat)

/-- first statement of the callback at `ctx.Err()` call number `k` -/
def cbCheck (od : OnDone) (ctx : Option Ctx) (k : Nat) : CbCheck :=
  match od with
  | .returnErr => (match errAt ctx k with | some e => .stop (some e) | none => .go (k + 1))
  | .skipAll => (match errAt ctx k with | some _ => .stop none | none => .go (k + 1))
  | _ => .go k

/-- the callback for one directory entry after the other (`fs.WalkDir` order): check, then build the header and yield -/
def walkItems (od : OnDone) (ctx : Option Ctx) : Nat → List Entry → WalkRes
  | k, [] => { yielded := [], err := none, next := k }
  | k, e :: es =>
    match cbCheck od ctx k with
    | .stop err => { yielded := [], err := err, next := k + 1 }
    | .go k' => let r := walkItems od ctx k' es; { r with yielded := e :: r.yielded }

/-- `walkFS`: the callback runs for the root first (`if path == "." { return nil }` comes after the check) -/
def walkFSCtx (od : OnDone) (ctx : Option Ctx) (k : Nat) (es : List Entry) : WalkRes :=
  match cbCheck od ctx k with
  | .stop err => { yielded := [], err := err, next := k + 1 }
  | .go k' => walkItems od ctx k' es

/-- the first error among `n` consecutive checks of a caller, starting at call number `k` -/
def firstErr (ctx : Option Ctx) : Nat → Nat → Option CtxErr
  | _, 0 => none
  | k, n + 1 => match errAt ctx k with
    | some e => some e
    | none => firstErr ctx (k + 1) n

/-- the whole call: the callers' checks before the walk, the walk (its error is propagated by every consumer:
`if err != nil { return err }`), the callers' checks after it, then the layer(s) are finalized from what was yielded -/
def layerCtx (p : CtxPlan) (ctx : Option Ctx) (es : List Entry) : Except CtxErr (List Entry) :=
  match firstErr ctx 0 p.before with
  | some e => .error e
  | none =>
    let r := walkFSCtx p.onDone ctx p.before es
    match r.err with
    | some e => .error e
    | none =>
      match firstErr ctx r.next p.after with
      | some e => .error e
      | none => .ok r.yielded

/-- a plan for which a done context never yields a short layer without an error -/
def CtxPlan.safe (p : CtxPlan) : Bool :=
  p.onDone = .returnErr || p.onDone = .noCheck || (p.onDone = .skipAll && 0 < p.after)

/-! ## the plans of the code as it is now (regenerated statements) -/

/-- single layer: `BuildLayer` → `ImageLayoutToLayer` → `writeTar` → `walkFS` -/
def singlePlan : CtxPlan :=
  { onDone := onDoneOf Generated.tarWalkCallback,
    before := ctxReturns Generated.tarBuildLayerBeforeWalk + ctxReturns Generated.tarLayerBeforeWalk,
    after := ctxReturns (afterWalk Generated.tarWriteTar) + ctxReturns (Generated.tarLayerFromWalk.drop 1)
      + ctxReturns (Generated.tarBuildLayerFromWalk.drop 1) }

/-- `writeTar` alone (what the harness calls with a plain tar writer) -/
def writeTarPlan : CtxPlan :=
  { onDone := onDoneOf Generated.tarWalkCallback, before := 0, after := ctxReturns (afterWalk Generated.tarWriteTar) }

/-- several layers: `buildLayers` → `splitLayers` → `walkFS` -/
def multiPlan : CtxPlan :=
  { onDone := onDoneOf Generated.tarWalkCallback,
    before := ctxReturns Generated.tarBuildLayersBeforeWalk + ctxReturns Generated.tarSplitBeforeWalk,
    after := ctxReturns (Generated.tarSplitFromWalk.drop 1) + ctxReturns (Generated.tarBuildLayersFromWalk.drop 1) }

end Apko.Tar
