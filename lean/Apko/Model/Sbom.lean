/-
Model of apko's SPDX assembler (pkg/sbom/generator/spdx/spdx.go) for property C11.

Text is `List Char`, one `Char` per *byte* (Latin-1 view).  `stringToIdentifier` works on bytes:
Go first replaces ":" by "-" and then rewrites every maximal run of bytes matched by
`validIDCharsRe` (`[^a-zA-Z0-9-.]+`) byte by byte into `C<decimal byte value>`; every byte
>= 0x80 is matched by the negated class (multi-byte runes and invalid UTF-8 alike), so the
byte-wise map below is exact.  Which bytes the regular expression leaves alone is *not* written
here: it is `Generated.sbomValidIdBytes`, recomputed by the extractor on every run by compiling the
regex literal found in spdx.go and testing all 256 one-byte strings.

A document is reduced to the parts the property speaks about: `documentDescribes`, the packages
(`SPDXID`, `name`, `versionInfo`, `checksums`), the relationships and the extracted licensing infos
(`mergeLicensingInfos` can make `Generate` fail).  purls, suppliers, descriptions, timestamps are
not modelled.  Package-embedded SBOMs are abstract documents of the same shape; the image file
system is reduced to the directory `/var/lib/db/sbom` (file stem ↦ document | directory | junk).

`ProcessInternalApkSBOM` ranges over a Go map (`for id := range targetElementIDs`); the model takes
the iteration order as a parameter `ord` (any function returning a rearrangement of the targets).
With at most one target the order is irrelevant.
-/
import Apko.Model.Text
import Apko.Generated.Sbom
namespace Apko.Sbom

abbrev Id := Text

/-! ### stringToIdentifier -/

/-- the regular expression does *not* match this byte (table regenerated from spdx.go) -/
def tableValid (c : Char) : Bool := Generated.sbomValidIdBytes.contains c.toNat

/-- `fmt.Sprintf("C%d", b)` -/
def escapeByte (c : Char) : Text := 'C' :: Nat.toDigits 10 c.toNat

/-- one byte of `stringToIdentifier`: `strings.ReplaceAll(in, ":", "-")`, then the regex rewrite -/
def idByte (c : Char) : Text :=
  let c' := if c = ':' then '-' else c
  if tableValid c' then [c'] else escapeByte c'

def stringToIdentifier : Text → Text
  | [] => []
  | c :: cs => idByte c ++ stringToIdentifier cs

/-- the SPDX identifier alphabet `[a-zA-Z0-9.-]` -/
def idChar (c : Char) : Bool := isAlnum c || c = '.' || c = '-'

/-- `SPDXRef-[a-zA-Z0-9.-]+` -/
def validSpdxId (s : Text) : Bool :=
  match stripPrefix "SPDXRef-".toList s with
  | some rest => !rest.isEmpty && rest.all idChar
  | none => false

/-! ### documents -/

structure Pkg where
  id : Id
  name : Text
  version : Text
  checksums : List (Text × Text)
deriving DecidableEq, Repr

structure Rel where
  element : Id
  type : Text
  related : Id
deriving DecidableEq, Repr

structure Doc where
  describes : List Id
  packages : List Pkg
  rels : List Rel
  lics : List (Text × Text)
deriving DecidableEq, Repr

def Doc.ids (d : Doc) : List Id := d.packages.map (·.id)

inductive Err where
  | noLayers      -- `opts.ImageInfo.Layers[0]` on an empty slice (a panic in Go)
  | sbomIsDir     -- "directory found at SBOM path"
  | missing       -- copySBOMElements: "unable to find N elements in source document"
  | licConflict   -- mergeLicensingInfos: same LicenseID, different text
  | fuel          -- the closure loop of the model ran out of fuel (never observed; see `closure`)
  | noImages      -- GenerateIndex without images
deriving DecidableEq, Repr

/-! ### replacePackage -/

/-- `for i := range doc.DocumentDescribes { if == originalID { = newID; break } }` -/
def replaceFirst (a b : Id) : List Id → List Id
  | [] => []
  | x :: xs => if x = a then b :: xs else x :: replaceFirst a b xs

def renameRel (a b : Id) (r : Rel) : Rel :=
  { r with element := if r.element = a then b else r.element,
           related := if r.related = a then b else r.related }

/-- the body of `replacePackage` (describes, relationships, package list with the `replaced` flag) -/
def replaceBody (doc : Doc) (a b : Id) : Doc :=
  let kept := doc.packages.filter (fun p => p.id ≠ a)
  { doc with
    describes := replaceFirst a b doc.describes,
    rels := doc.rels.map (renameRel a b),
    packages := if kept.isEmpty then doc.packages else kept }

/-- `replacePackage(doc, originalID, newID)`.  It starts with `if originalID == newID { return }` since
the repair of F11b; the pinned code ran `replaceBody` unconditionally, which deletes every element
carrying the id when both ids are equal. -/
def replacePackage (doc : Doc) (a b : Id) : Doc := if a = b then doc else replaceBody doc a b

/-! ### copySBOMElements -/

def isFileRef (s : Id) : Bool := (stripPrefix "SPDXRef-File-".toList s).isSome

def insertNew (t : List Id) (x : Id) : List Id := if t.contains x then t else t ++ [x]

def passStep (t : List Id) (r : Rel) : List Id :=
  if isFileRef r.related then t else if t.contains r.element then insertNew t r.related else t

/-- one sweep over the relationships (the map is mutated while sweeping) -/
def pass (rels : List Rel) (todo : List Id) : List Id := rels.foldl passStep todo

/-- `for prev, next := 0, len(todo); next != prev; prev, next = next, len(todo) { sweep }`.
Each sweep that is not the last adds at least one id that is the `related` end of a relationship,
so `rels.length + 1` sweeps always suffice; `none` = out of fuel. -/
def closure (rels : List Rel) : Nat → Nat → List Id → Option (List Id)
  | 0, prev, todo => if todo.length = prev then some todo else none
  | fuel + 1, prev, todo =>
    if todo.length = prev then some todo else closure rels fuel todo.length (pass rels todo)

def copyElements (src tgt : Doc) (todo0 : List Id) : Except Err Doc :=
  match closure src.rels (src.rels.length + 1) 0 todo0 with
  | none => .error .fuel
  | some todo =>
    let pkgs := src.packages.filter (fun p => todo.contains p.id)
    let rels := src.rels.filter (fun r => todo.contains r.element && !isFileRef r.related)
    -- `len(todo) - len(done) != 0`: done ⊆ todo are sets, so this is "some wanted id was not found"
    if todo.all (fun t => src.packages.any (fun p => p.id = t)) then
      .ok { tgt with packages := tgt.packages ++ pkgs, rels := tgt.rels ++ rels }
    else .error .missing

/-! ### mergeLicensingInfos -/

def mergeLics : List (Text × Text) → List (Text × Text) → Except Err (List (Text × Text))
  | [], tgt => .ok tgt
  | s :: ss, tgt =>
    match tgt.find? (fun t => t.1 = s.1) with
    | some t => if t.2 ≠ s.2 then .error .licConflict else mergeLics ss tgt
    | none => mergeLics ss (tgt ++ [s])

/-! ### locateApkSBOM / ProcessInternalApkSBOM -/

inductive FsEntry where
  | doc (d : Doc)
  | dir
  | junk     -- a file that does not parse as JSON: silently ignored
deriving DecidableEq, Repr

/-- `/var/lib/db/sbom/<stem>.spdx.json` -/
abbrev SbomDir := List (Text × FsEntry)

/-- `regexp.MustCompile("-r\\d+$").ReplaceAllString(v, "")` -/
def stripRevision (v : Text) : Text :=
  let r := v.reverse
  let ds := r.takeWhile isDigit
  match r.dropWhile isDigit with
  | 'r' :: '-' :: rest => if ds.isEmpty then v else rest.reverse
  | _ => v

def sbomStems (name version : Text) : List Text :=
  [name ++ '-' :: version, name ++ '-' :: stripRevision version, name]

def locate (fs : SbomDir) : List Text → Except Err (Option FsEntry)
  | [] => .ok none
  | s :: rest =>
    match fs.lookup s with
    | none => locate fs rest
    | some .dir => .error .sbomIsDir
    | some e => .ok (some e)

/-- the "searching for a 1st level package" loop, with its early exit -/
def targetsLoop (name : Text) (descr : List Id) (n : Nat) : List Pkg → List Id → List Id
  | [], acc => acc
  | p :: ps, acc =>
    if p.name ≠ name then targetsLoop name descr n ps acc
    else if !descr.contains p.id then targetsLoop name descr n ps acc
    else
      let acc' := insertNew acc p.id
      if acc'.length = n then acc' else targetsLoop name descr n ps acc'

def targets (emb : Doc) (name : Text) : List Id :=
  targetsLoop name emb.describes emb.describes.eraseDups.length emb.packages []

/-- one round of the "TODO: This loop seems very wrong" loop -/
def replaceRound (name : Text) (doc : Doc) (id : Id) : Doc :=
  match doc.packages.find? (fun q => q.name = name) with
  | some q => replacePackage doc q.id id
  | none => doc

def processInternal (fs : SbomDir) (ord : List Id → List Id) (doc : Doc) (name version : Text) :
    Except Err Doc :=
  match locate fs (sbomStems name version) with
  | .error e => .error e
  | .ok none => .ok doc
  | .ok (some .dir) => .ok doc          -- unreachable (locate reports it)
  | .ok (some .junk) => .ok doc
  | .ok (some (.doc emb)) =>
    let ts := targets emb name
    match copyElements emb doc ts with
    | .error e => .error e
    | .ok doc1 =>
      match mergeLics emb.lics doc1.lics with
      | .error e => .error e
      | .ok lics => .ok ((ord ts).foldl (replaceRound name) { doc1 with lics := lics })

/-! ### Generate -/

structure Apk where
  name : Text
  version : Text
  checksum : Text      -- lower-case hex of the installed db's `C:` (fmt "%x")
deriving DecidableEq, Repr

structure Opts where
  imageDigest : Text        -- "" or "sha256:<hex>"
  layers : List Text        -- hashToString of every layer digest ("" for the zero hash)
  vcsUrl : Text
  osVersion : Text
  apks : List Apk
deriving DecidableEq, Repr

def pfx : Text := "SPDXRef-Package-".toList

def trimPrefix (p s : Text) : Text := (stripPrefix p s).getD s

def imageId (digest : Text) : Id := stringToIdentifier (pfx ++ digest)

def imagePackage (digest : Text) : Pkg :=
  { id := imageId digest, name := digest, version := digest,
    checksums := [("SHA256".toList, trimPrefix "sha256:".toList digest)] }

def layerId (layer : Text) : Id := pfx ++ stringToIdentifier layer

def layerPackage (osVersion layer : Text) : Pkg :=
  { id := layerId layer, name := layer, version := osVersion, checksums := [] }

/-- `strings.Cut(s, "@")` -/
def cutAt : Text → Option (Text × Text)
  | [] => none
  | c :: cs => if c = '@' then some ([], cs) else (cutAt cs).map fun (a, b) => (c :: a, b)

def sourceId (vcs : Text) : Id := pfx ++ stringToIdentifier vcs

def sourcePackage (vcs : Text) : Pkg :=
  let (name, version, sums) := match cutAt vcs with
    | some (url, commit) => (url, commit, [("SHA1".toList, commit)])
    | none => (vcs, [], [])
  let name := trimPrefix "https://".toList (trimPrefix "git://".toList (trimPrefix "git+ssh://".toList name))
  { id := sourceId vcs, name := name, version := version, checksums := sums }

def addSourcePackage (vcs : Text) (doc : Doc) (parent : Id) : Doc :=
  { doc with packages := doc.packages ++ [sourcePackage vcs],
             rels := doc.rels ++ [⟨parent, "GENERATED_FROM".toList, sourceId vcs⟩] }

def nonceOf (digest : Text) : Text :=
  if digest.isEmpty then "thismakestestspass".toList else imageId digest

def apkId (nonce : Text) (a : Apk) : Id :=
  stringToIdentifier (pfx ++ nonce ++ '-' :: a.name ++ '-' :: a.version)

def apkPackage (nonce : Text) (a : Apk) : Pkg :=
  { id := apkId nonce a, name := a.name, version := a.version,
    checksums := [("SHA1".toList, a.checksum)] }

def layerPackages (o : Opts) : List Pkg := o.layers.map (layerPackage o.osVersion)

/-- the document before the first apk is added: image, layers, source -/
def header (o : Opts) : Doc :=
  if o.imageDigest.isEmpty then
    { describes := match o.layers.getLast? with | some l => [layerId l] | none => [],
      packages := layerPackages o, rels := [], lics := [] }
  else
    let d : Doc :=
      { describes := [imageId o.imageDigest],
        packages := imagePackage o.imageDigest :: layerPackages o,
        rels := o.layers.map fun l => ⟨imageId o.imageDigest, "CONTAINS".toList, layerId l⟩,
        lics := [] }
    if o.vcsUrl.isEmpty then d else addSourcePackage o.vcsUrl d (imageId o.imageDigest)

def addApk (fs : SbomDir) (ord : List Id → List Id) (nonce : Text) (doc : Doc) (a : Apk) :
    Except Err Doc :=
  processInternal fs ord { doc with packages := doc.packages ++ [apkPackage nonce a] } a.name a.version

def addApks (fs : SbomDir) (ord : List Id → List Id) (nonce : Text) : List Apk → Doc → Except Err Doc
  | [], doc => .ok doc
  | a :: as, doc =>
    match addApk fs ord nonce doc a with
    | .error e => .error e
    | .ok doc' => addApks fs ord nonce as doc'

/-- the de-dup pass: keep the first package of every id -/
def dedupLoop : List Pkg → List Id → List Pkg
  | [], _ => []
  | p :: ps, seen => if seen.contains p.id then dedupLoop ps seen else p :: dedupLoop ps (p.id :: seen)

def dedup (ps : List Pkg) : List Pkg := dedupLoop ps []

def generate (o : Opts) (fs : SbomDir) (ord : List Id → List Id) : Except Err Doc :=
  if o.layers.isEmpty then .error .noLayers else
  match addApks fs ord (nonceOf o.imageDigest) o.apks (header o) with
  | .error e => .error e
  | .ok doc => .ok { doc with packages := dedup doc.packages }

/-! ### GenerateIndex -/

structure Hash where
  alg : Text
  hex : Text
deriving DecidableEq, Repr

/-- `v1.Hash.String()` -/
def Hash.str (h : Hash) : Text := h.alg ++ ':' :: h.hex

structure IndexOpts where
  indexDigest : Hash
  images : List Hash       -- per-architecture image digests, in the order of `opts.ImageInfo.Images`
  vcsUrl : Text
deriving DecidableEq, Repr

def indexId (o : IndexOpts) : Id := pfx ++ stringToIdentifier o.indexDigest.str

def indexPackage (o : IndexOpts) : Pkg :=
  { id := indexId o, name := o.indexDigest.str, version := o.indexDigest.str,
    checksums := [("SHA256".toList, o.indexDigest.hex)] }

def archImagePackage (h : Hash) : Pkg :=
  { id := pfx ++ stringToIdentifier h.str, name := "sha256:".toList ++ h.hex,
    version := "sha256:".toList ++ h.hex, checksums := [("SHA256".toList, h.hex)] }

def generateIndex (o : IndexOpts) : Except Err Doc :=
  if o.images.isEmpty then .error .noImages else
  let d : Doc :=
    { describes := [indexId o],
      packages := indexPackage o :: o.images.map archImagePackage,
      rels := o.images.map fun h =>
        ⟨stringToIdentifier (indexId o), "VARIANT_OF".toList, pfx ++ stringToIdentifier h.str⟩,
      lics := [] }
  .ok (if o.vcsUrl.isEmpty then d else addSourcePackage o.vcsUrl d (indexId o))

/-! ### Spec: the structural oracle of C11, evaluated on a document (Go's or the model's) -/

def Doc.allIds (d : Doc) : List Id := "SPDXRef-DOCUMENT".toList :: d.ids

/-- every relationship endpoint and every described id is an element of the document -/
def refsResolve (d : Doc) : Bool :=
  d.rels.all (fun r => d.ids.contains r.element && d.ids.contains r.related) &&
  d.describes.all (fun i => d.ids.contains i)

def idsUnique (d : Doc) : Bool := d.ids.eraseDups.length = d.ids.length

/-- ids of elements that may legitimately come from package-embedded SBOMs -/
def embeddedIds (fs : SbomDir) : List Id :=
  fs.flatMap fun e => match e.2 with | .doc d => d.ids | _ => []

def embeddedPkgs (fs : SbomDir) : List Pkg :=
  fs.flatMap fun e => match e.2 with | .doc d => d.packages | _ => []

def matchesApk (a : Apk) (p : Pkg) : Bool :=
  p.name = a.name && p.version = a.version && p.checksums.contains ("SHA1".toList, a.checksum)

/-- the image element: described, named by the digest, SHA256 = hex part -/
def imageOk (o : Opts) (d : Doc) : Bool :=
  if o.imageDigest.isEmpty then true else
  match d.describes with
  | [i] => d.packages.any fun p =>
      p.id = i && p.name = o.imageDigest &&
      p.checksums.contains ("SHA256".toList, trimPrefix "sha256:".toList o.imageDigest)
  | _ => false

/-- every layer has an element named by its digest which the described element CONTAINS -/
def layersOk (o : Opts) (d : Doc) : Bool :=
  o.layers.all fun l =>
    d.packages.any fun p => p.name = l &&
      (o.imageDigest.isEmpty ||
       d.rels.any fun r => r.related = p.id && r.type = "CONTAINS".toList && d.describes.contains r.element)

/-- one element per installed apk carrying the db's name, version and checksum: at least one, and at
most one that is not a verbatim import from an embedded SBOM -/
def apksOk (o : Opts) (fs : SbomDir) (d : Doc) : Bool :=
  o.apks.all fun a =>
    let ms := d.packages.filter (matchesApk a)
    !ms.isEmpty && (ms.filter fun p => !(embeddedPkgs fs).contains p).length ≤ 1

/-- an element that is neither the image, a layer, the source, an installed apk nor imported from an
embedded SBOM -/
def strayElements (o : Opts) (fs : SbomDir) (d : Doc) : List Pkg :=
  d.packages.filter fun p =>
    !(p.name = o.imageDigest || o.layers.contains p.name || p.id = sourceId o.vcsUrl ||
      o.apks.any (fun a => matchesApk a p) || (embeddedPkgs fs).contains p)

def idsValid (fs : SbomDir) (d : Doc) : Bool :=
  d.packages.all fun p => validSpdxId p.id || (embeddedIds fs).contains p.id

/-- the oracle; `none` = pass, `some why` = the first failing clause -/
def oracle (o : Opts) (fs : SbomDir) (d : Doc) : Option String :=
  if !idsValid fs d then some "id-syntax"
  else if !idsUnique d then some "id-duplicate"
  else if !refsResolve d then some "dangling-reference"
  else if !imageOk o d then some "image-digest"
  else if !layersOk o d then some "layer-digest"
  else if !apksOk o fs d then some "apk-element"
  else if !(strayElements o fs d).isEmpty then some "stray-element"
  else none

def indexOracle (o : IndexOpts) (d : Doc) : Option String :=
  if !(d.packages.all fun p => validSpdxId p.id) then some "id-syntax"
  else if !idsUnique d then some "id-duplicate"
  else if !refsResolve d then some "dangling-reference"
  else if !(match d.describes with
      | [i] => d.packages.any fun p => p.id = i && p.name = o.indexDigest.str &&
                 p.checksums.contains ("SHA256".toList, o.indexDigest.hex)
      | _ => false) then some "index-digest"
  else if !(o.images.all fun h => d.packages.any fun p =>
      p.checksums.contains ("SHA256".toList, h.hex) && p.name = "sha256:".toList ++ h.hex &&
      d.rels.any fun r => r.related = p.id && r.type = "VARIANT_OF".toList && d.describes.contains r.element)
    then some "image-digest"
  else if d.packages.length ≠ 1 + o.images.length + (if o.vcsUrl.isEmpty then 0 else 1) then some "stray-element"
  else none

/-! ### finding classes (decidable predicates over the input) -/

/-- F11a: two different installed apks, or an apk and a header element, get the same identifier -/
def idCollision (o : Opts) : Bool :=
  let n := nonceOf o.imageDigest
  let hdr := (header o).ids
  let rec go : List Apk → List Id → Bool
    | [], _ => false
    | a :: as, seen => seen.contains (apkId n a) || go as (apkId n a :: seen)
  go o.apks.eraseDups hdr

def targetCount (fs : SbomDir) (a : Apk) : Nat :=
  match locate fs (sbomStems a.name a.version) with
  | .ok (some (.doc emb)) => (targets emb a.name).length
  | _ => 0

/-- F11c: an installed apk ships an SBOM (found by locateApkSBOM) with a target element -/
def embeddedTarget (o : Opts) (fs : SbomDir) : Bool := o.apks.any fun a => targetCount fs a ≥ 1

/-- F11d: an embedded SBOM describes two or more elements named like its apk -/
def multiTarget (o : Opts) (fs : SbomDir) : Bool := o.apks.any fun a => targetCount fs a ≥ 2

/-- the byte-wise specification of the sanitiser, with the alphabet written out (not the table) -/
def Spec.idByte (c : Char) : Text :=
  let c' := if c = ':' then '-' else c
  if idChar c' then [c'] else escapeByte c'

def Spec.stringToIdentifier (s : Text) : Text := s.flatMap Spec.idByte

end Apko.Sbom
