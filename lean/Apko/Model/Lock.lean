/-
Model of pkg/build/lock.go: `unify` (statement by statement) and the `resolved` values
`LockImageConfiguration` builds from every architecture's resolution; the byte ranges `LockCmd`
records for a package; `installablePackagesForArch`.

Go sets (`sets.Set[string]`) are lists read as sets, Go maps are association lists with distinct keys
(`lookupT`/`setT` of the resolver model; a missing key reads as the zero value, as in Go).
`LockImageConfiguration` builds `inputs` by ranging over a Go map, so the order of `inputs` is an
explicit parameter here (`unify_perm_*` in Proofs/C09.lean).  All maps are non-nil (they are created with
`make` in `LockImageConfiguration`), which matters only to `reflect.DeepEqual`.

Core only; linked into the driver.
-/
import Apko.Model.Resolver

namespace Apko.Lock
open Apko Apko.Resolver

/-! ### sets and maps -/

def subset (a b : List Text) : Bool := a.all (b.contains ·)
/-- `sets.Set.Equal` -/
def setEq (a b : List Text) : Bool := subset a b && subset b a
/-- `sets.Set.Intersection` -/
def inter (a b : List Text) : List Text := a.filter (b.contains ·)
/-- `sets.Set.Difference` -/
def diff (a b : List Text) : List Text := a.filter (!b.contains ·)

abbrev SMap (α : Type) := List (Text × α)

def keys {α} (m : SMap α) : List Text := m.map (·.1)
/-- `m[k]` on a `map[string]string` -/
def mget (m : SMap Text) (k : Text) : Text := (lookupT m k).getD []
/-- `m[k]` on a `map[string]sets.Set[string]` (a missing key is the nil set) -/
def sget (m : SMap (List Text)) (k : Text) : List Text := (lookupT m k).getD []
/-- `delete(m, k)` -/
def mdel {α} (m : SMap α) (k : Text) : SMap α := m.filter (·.1 != k)

/-- `reflect.DeepEqual` on two non-nil `map[string]string` -/
def mapEq (a b : SMap Text) : Bool :=
  setEq (keys a) (keys b) && (keys a).all fun k => mget a k = mget b k
/-- `reflect.DeepEqual` on two non-nil `map[string]sets.Set[string]` whose values are non-nil -/
def provEq (a b : SMap (List Text)) : Bool :=
  setEq (keys a) (keys b) && (keys a).all fun k => setEq (sget a k) (sget b k)

/-- `sort.Strings`: ascending byte-wise -/
def sortS (l : List Text) : List Text := l.mergeSort (fun a b => !decide (b < a))

/-! ### the `resolved` struct -/

structure RArch where
  arch : Text
  packages : List Text
  versions : SMap Text
  provided : SMap (List Text)
deriving Repr, Inhabited

/-- what `LockImageConfiguration` derives from one architecture's package list -/
def resolvedOf (arch : Text) (pkgs : List Pkg) : RArch :=
  pkgs.foldl (fun r p =>
    let r1 : RArch := { r with
      packages := if r.packages.contains p.name then r.packages else r.packages ++ [p.name],
      versions := setT r.versions p.name p.version }
    p.provides.foldl (fun r2 prov =>
      match matchPackageName prov with
      | none => r2
      | some (n, _) =>
        let ps := sget r2.provided p.name
        { r2 with provided := setT r2.provided p.name (if ps.contains n then ps else ps ++ [n]) }) r1)
    ⟨arch, [], [], []⟩

/-! ### parsing of the requested package strings -/

/-- `strings.IndexAny(s, chars)`, returning the split at the first hit -/
def splitAtAny (chars : Text) : Text → Option (Text × Text)
  | [] => none
  | c :: cs =>
    if chars.contains c then some ([], c :: cs)
    else (splitAtAny chars cs).map fun (a, b) => (c :: a, b)

/-- `strings.TrimSuffix` -/
def trimSuffix (s suf : Text) : Text :=
  if suf.isSuffixOf s then s.take (s.length - suf.length) else s

structure Orig where
  name : Text
  version : Text       -- the rest of the constraint including the operator
  pinned : Text        -- including the `@`
deriving Repr, DecidableEq

def parseOrig (orig : Text) : Orig :=
  let (name, version) := match splitAtAny "=<>~".toList orig with
    | some (a, b) => (a, b)
    | none => (orig, [])
  let pinned := match splitAtAny "@".toList orig with
    | some (_, b) => b
    | none => []
  ⟨trimSuffix name pinned, trimSuffix version pinned, pinned⟩

/-- `originalPackages.packages` -/
def origNames (originals : List Text) : List Text := originals.map fun o => (parseOrig o).name
/-- `originalPackages.versions` (later entries overwrite earlier ones) -/
def origVersions (originals : List Text) : SMap Text :=
  originals.foldl (fun m o => setT m (parseOrig o).name (parseOrig o).version) []
/-- `originalPackages.pinned` -/
def origPinned (originals : List Text) : SMap Text :=
  originals.foldl (fun m o => setT m (parseOrig o).name (parseOrig o).pinned) []

/-! ### the accumulator loop -/

structure Acc where
  packages : List Text
  versions : SMap Text
  provided : SMap (List Text)
deriving Repr, Inhabited

/-- body of `for _, pkg := range acc.packages.UnsortedList()`: only key `pkg` is touched, so the
iteration order is irrelevant -/
def stepPkg (next : RArch) (acc : Acc) (pkg : Text) : Acc :=
  let acc1 : Acc :=
    if mget acc.versions pkg != mget next.versions pkg then
      { packages := acc.packages.filter (· != pkg), versions := mdel acc.versions pkg,
        provided := mdel acc.provided pkg }
    else acc
  if !setEq (sget acc1.provided pkg) (sget next.provided pkg) then
    { acc1 with provided := setT acc1.provided pkg (inter (sget acc1.provided pkg) (sget next.provided pkg)) }
  else acc1

/-- body of `for _, next := range inputs[1:]` -/
def stepArch (acc : Acc) (next : RArch) : Acc :=
  if mapEq acc.versions next.versions && provEq acc.provided next.provided then acc else
  let acc1 : Acc := { acc with packages := inter acc.packages next.packages }
  acc1.packages.foldl (stepPkg next) acc1

/-- `for _, provider := range acc.provided { if provider.HasAny(missing...) { missing = missing.Difference(provider) } }`
in the order of the association list (the Go order is the map's; `hideProvided_eq` shows it is irrelevant) -/
def hideProvided (provided : SMap (List Text)) (missing : List Text) : List Text :=
  provided.foldl (fun m e => if e.2.any (m.contains ·) then diff m e.2 else m) missing

/-- `name=version` plus the pin of the *requested* entry of that name, if any -/
def entry (pinned : SMap Text) (versions : SMap Text) (pkg : Text) : Text :=
  pkg ++ ['='] ++ mget versions pkg ++ mget pinned pkg

/-- the loop over `sets.List(missing)` below the error return, with its `versions`/`pinned` mix-up
(`pin := originalPackages.versions[pkg]`); `unify_missing_dead`: it only ever sees the empty set -/
def missingEntries (ov : SMap Text) (missing : List Text) : List Text :=
  missing.map fun pkg =>
    let ver := mget ov pkg
    if ver != [] then
      let pin := mget ov pkg
      if pin != [] then pkg ++ ver ++ pin else pkg ++ ver
    else pkg

inductive UR where
  | err
  | ok (byArch : SMap (List Text)) (missingByArch : SMap (List Text))
deriving Repr

def indexKey : Text := "index".toList

/-- the accumulator after the loop over `inputs[1:]` -/
def accOf (first : RArch) (rest : List RArch) : Acc :=
  rest.foldl stepArch ⟨first.packages, first.versions, first.provided⟩

/-- the `missing` set that reaches the code below the error return -/
def missingOf (originals : List Text) (acc : Acc) : List Text :=
  let m0 := diff (origNames originals) acc.packages
  if m0.isEmpty then m0 else hideProvided acc.provided m0

def archList (pinned : SMap Text) (a : RArch) : List Text :=
  sortS (a.packages.map (entry pinned a.versions))

def unify (originals : List Text) (inputs : List RArch) : UR :=
  if originals.isEmpty then .ok [(indexKey, [])] [] else
  match inputs with
  | [] => .err          -- `inputs[0]` panics; `LockImageConfiguration` always has an architecture
  | first :: rest =>
    let acc := accOf first rest
    let missing := missingOf originals acc
    if !missing.isEmpty then .err else
    let pinned := origPinned originals
    let pl := sortS (missingEntries (origVersions originals) missing ++ acc.packages.map (entry pinned acc.versions))
    let byArch := inputs.foldl (fun m a => setT m a.arch (archList pinned a)) [(indexKey, pl)]
    let mba := inputs.foldl (fun (m : SMap (List Text)) a =>
      let mh := diff (diff a.packages acc.packages) missing
      if mh.isEmpty then m else setT m a.arch (sortS mh)) []
    .ok byArch mba

/-! ### Spec -/

/-- the packages every architecture resolved to the same version -/
def common (inputs : List RArch) : List Text :=
  match inputs with
  | [] => []
  | first :: _ =>
    first.packages.filter fun n => inputs.all fun a => a.packages.contains n && mget a.versions n = mget first.versions n

/-- a lock must be produced (no "unable to lock" error) at least when every requested name is either locked
under its own name, or provided on every architecture by a package that is ("virtual packages requested by
provided name") -/
def mustLock (originals : List Text) (inputs : List RArch) : Bool :=
  (origNames originals).all fun n =>
    (common inputs).contains n ||
    (common inputs).any fun p => inputs.all fun a => (sget a.provided p).contains n

/-- the shared ("index") list the property demands -/
def specIndex (originals : List Text) (inputs : List RArch) : List Text :=
  match inputs with
  | [] => []
  | first :: _ => sortS ((common inputs).map (entry (origPinned originals) first.versions))

/-- decidable oracle evaluated on Go's output: the index list is the sorted common set and every
per-architecture list is that architecture's sorted resolution -/
def specCheck (originals : List Text) (inputs : List RArch) (byArch : SMap (List Text)) : Option String :=
  if originals.isEmpty then none else
  if lookupT byArch indexKey != some (specIndex originals inputs) then some "index-not-common" else
  match inputs.find? (fun a => lookupT byArch a.arch != some (archList (origPinned originals) a)) with
  | some a => some ("arch-not-exact:" ++ String.ofList a.arch)
  | none => none

/-! ### the lock of one resolution and its re-resolution (`apko build` per architecture) -/

/-- the per-architecture locked package list of a resolution `s` of world `w` -/
def lockOf (w : List Text) (s : List Pkg) : List Text :=
  archList (origPinned w) (resolvedOf [] s)

/-! ### classes of configurations on which the pinned tree's lock does not reproduce the resolution -/

def lockEntryPin (w : List Text) (name : Text) : Text := (mget (origPinned w) name).drop 1

/-- F09a: a member comes from a pinned repository but some lock entry does not carry that pin: the member's
own entry (a dependency pulled from the pinned repository is locked without `@pin`), or another member's
(in the original resolution the dependencies of `x@pin` were allowed to use the pinned repository; as a
world entry of its own each of them is resolved without that allowance) -/
def pinLost (w : List Text) (s : List Pkg) : Bool :=
  s.any fun p => !p.pin.isEmpty && s.any fun q => lockEntryPin w q.name != p.pin

/-- F09b: some package of the universe provides the *name* of a locked package (the re-resolution's
`constrain` disqualifies an unversioned or differently versioned provider even if it is itself locked, and the
top-level pick may prefer a foreign provider of the locked name and version) -/
def providesLockedName (u : Universe) (s : List Pkg) : Bool :=
  u.all.any fun q => q.provides.any fun pr => s.any fun p => p.name = provName pr && p.name != q.name

/-- F09c: an install_if package exists (its triggers are evaluated per world entry, and the locked world has
one entry per member) -/
def hasInstallIf (u : Universe) : Bool := u.all.any fun q => !q.installIf.isEmpty

/-- F09d: a member's (name, version) exists twice in the universe; the lock cannot say which -/
def dupNameVersion (u : Universe) (s : List Pkg) : Bool :=
  s.any fun p => u.all.any fun q => q.id != p.id && q.name = p.name &&
    (q.version = p.version ||
      match pv q.version, pv p.version with
      | some a, some b => compareVersions a b = .eq
      | _, _ => false)

/-- F09e: a member's version does not parse (`name=version` is then an unusable constraint) -/
def unparsableVersion (s : List Pkg) : Bool := s.any fun p => (pv p.version).isNone

/-- a `!x` entry of the world or of a member's dependencies is violated by a member (C02's `Valid` does not
look at conflicts; the resolver only applies them to picks made *after* the conflicting package was visited) -/
def conflictViolated (w : List Text) (s : List Pkg) : Bool :=
  let bad (d : Text) : Bool := match d with | '!' :: x => s.any (fun q => sat q x) | _ => false
  w.any bad || s.any fun p => p.deps.any bad

/-- the original resolution is not a valid install set (C02's findings F02a–F02e, or a violated conflict) -/
def invalidOriginal (u : Universe) (w : List Text) (s : List Pkg) : Bool :=
  !validB u w s || conflictViolated w s

/-- F09h: a version-constrained dependency (or world entry) on a name that a *differently named* member
provides with a version.  Once that member is `selected`, the shortcut in `getPackageDependencies` tests the
provide with the provide's own operator (`=`) and then the member's own version — the root of F02d — so whether
the dependency is accepted depends on the order in which the members are visited, which the lock changes. -/
def versionedDepOnProvided (w : List Text) (s : List Pkg) : Bool :=
  let hit (d : Text) : Bool :=
    !isConflict d &&
    let con := parseConstraint d
    !con.version.isEmpty && s.any fun q => q.name != con.name &&
      q.provides.any fun pr => provName pr = con.name && !(parseConstraint pr).version.isEmpty
  w.any hit || s.any fun p => p.deps.any hit

/-- F09l: a member's dependency whose operator run is not an operator (`b==x`, `b><x`, …): it reads as "any
version" but keeps the version text, and the text does not parse.  The candidate filter and `constrain` ignore the
text; the `selected` shortcut of `getPackageDependencies` parses it and fails — so whether the resolution succeeds
depends on whether the dependency's name is already selected, i.e. on the visiting order, which the lock changes. -/
def anyOpJunkVersion (s : List Pkg) : Bool :=
  s.any fun p => p.deps.any fun d =>
    !isConflict d &&
    let con := parseConstraint d
    con.dep = .any && !con.version.isEmpty && (pv con.version).isNone

/-- does the loop over a package's own provides inside `pick` run into a name the package has taken itself:
an earlier provide of the same name with a version -/
def provTwice : List Text → Bool
  | [] => false
  | a :: rest =>
    (!(parseConstraint a).version.isEmpty && rest.any (fun b => provName b = provName a)) || provTwice rest

/-- F09m: a member provides its own name, or one name twice (the first time with a version).  `pick` of such a
package reports a conflict of the package with itself; `pick` only runs when the package has a dependency that is not
already selected — which depends on the visiting order, and the lock changes it. -/
def selfConflictingProvides (s : List Pkg) : Bool :=
  s.any fun m => m.provides.any (fun pr => provName pr = m.name) || provTwice m.provides

/-- F09n: a `!x` dependency of a member reaches a member through `disqualifyProviders`, whose candidate filter is
loose — for a provided name it tests the package's OWN version and any of its provides' versions — although no member
satisfies `x` (that is `conflictViolated`, F09f).  The resolver applies a conflict only to later picks, and the lock
changes the order. -/
def conflictHitsMember (s : List Pkg) : Bool :=
  s.any fun p => p.deps.any fun d =>
    match d with
    | '!' :: x =>
      let con := parseConstraint x
      s.any fun q => (q.name = con.name || q.provides.any (fun pr => provName pr = con.name)) &&
        acceptsOne [] con.version con.dep [] con.pin none q
    | _ => false

/-- F09o: two different members provide one name, at least one of them with a version.  Picking either of them as a
dependency or in the first loop of `GetPackagesWithDependencies` disqualifies the other (`disqualifyConflicts`); the
second loop re-picks a world entry WITHOUT `disqualifyConflicts`, so both can end up in one resolution (when the
candidates of the first loop were disqualified in between).  In the lock every member is picked in the first loop. -/
def twoMembersProvideVersioned (s : List Pkg) : Bool :=
  s.any fun m1 => s.any fun m2 => decide (m1 ≠ m2) &&
    m1.provides.any fun pr1 => m2.provides.any fun pr2 =>
      provName pr1 = provName pr2 && !((parseConstraint pr1).version.isEmpty && (parseConstraint pr2).version.isEmpty)

/-- first class that applies, in a fixed order; `unlisted` when none does -/
def relockClass (u : Universe) (w : List Text) (s : List Pkg) : String :=
  if pinLost w s then "F09a"
  else if invalidOriginal u w s then "F09f"
  else if unparsableVersion s then "F09e"
  else if providesLockedName u s then "F09b"
  else if versionedDepOnProvided w s then "F09h"
  else if hasInstallIf u then "F09c"
  else if dupNameVersion u s then "F09d"
  else if anyOpJunkVersion s then "F09l"
  else if selfConflictingProvides s then "F09m"
  else if conflictHitsMember s then "F09n"
  else if twoMembersProvideVersioned s then "F09o"
  else "unlisted"

/-! ### byte ranges recorded by `LockCmd` (expressions regenerated from the source, see Generated/Lock.lean) -/

structure Range where
  first : Int
  last : Int
deriving Repr, DecidableEq

/-! ### `installablePackagesForArch` -/

structure LockPkg where
  name : Text
  url : Text
  arch : Text
  checksum : Text
deriving Repr, DecidableEq

/-- `none` = error (a listed package of that architecture without checksum) -/
def installableForArch (pkgs : List LockPkg) (arch : Text) : Option (List LockPkg) :=
  let mine := pkgs.filter (·.arch = arch)
  -- the Go loop returns at the first package of this architecture whose checksum is empty
  if mine.any (·.checksum.isEmpty) then none else some mine

end Apko.Lock
