/-
A field of a SHARED object that is filled on first use (C08).

The objects all clones of a cached resolver share (Package, RepositoryPackage, the `repositoryPackage`
wrappers in the prototype's nameMap slices) carry no such field today — that is a regenerated fact
(`AliasTable.shared_object_methods_read_only`, `shared_objects_never_written`).  This model says what
happens when one appears: `if x.f == nil { x.f = compute() }; return x.f` with `f` a slice.  The
assignment of a slice stores a header of several words (data pointer, length); nothing orders the
stores for a concurrent reader.  A goroutine is a little program over the shared cell:

  start     read the header;  pointer nil → `sawNil`, otherwise finished with what the header shows
  sawNil    compute `v`, store the pointer word
  wrotePtr  store the length word, finished with `v`

`stepAtomic` is the same with the assignment as ONE step (sync.Once, atomic.Pointer, under a lock).
Core Lean only.
-/
namespace Apko.LazyCell

/-- the header: data pointer and length are separate words -/
structure Cell (α : Type) where
  ptr : Option (List α)
  len : Nat
deriving DecidableEq, Repr

def Cell.empty {α : Type} : Cell α := ⟨none, 0⟩

/-- what a reader makes of the header when it finds the pointer set -/
def Cell.view {α : Type} (c : Cell α) : Option (List α) := c.ptr.map (·.take c.len)

inductive PC (α : Type) where
  | start
  | sawNil
  | wrotePtr
  | done (r : List α)
deriving DecidableEq, Repr

/-- one step of the accessor as written, without synchronisation -/
def stepUnsync {α : Type} (v : List α) (c : Cell α) : PC α → Cell α × PC α
  | .start =>
    match c.view with
    | none => (c, .sawNil)
    | some r => (c, .done r)
  | .sawNil => (⟨some v, c.len⟩, .wrotePtr)
  | .wrotePtr => (⟨c.ptr, v.length⟩, .done v)
  | .done r => (c, .done r)

/-- the accessor with the assignment as one step -/
def stepAtomic {α : Type} (v : List α) (c : Cell α) : PC α → Cell α × PC α
  | .start =>
    match c.view with
    | none => (c, .sawNil)
    | some r => (c, .done r)
  | .sawNil => (⟨some v, v.length⟩, .done v)
  | .wrotePtr => (⟨some v, v.length⟩, .done v)
  | .done r => (c, .done r)

/-- a pool of goroutines over one cell; the schedule says who moves next -/
def run {α : Type} (step : Cell α → PC α → Cell α × PC α) :
    List Nat → Cell α → List (PC α) → Cell α × List (PC α)
  | [], c, ps => (c, ps)
  | i :: rest, c, ps =>
    match ps[i]? with
    | none => run step rest c ps
    | some p =>
      let (c', p') := step c p
      run step rest c' (ps.set i p')

/-- one goroutine from `start` to its result with nobody in between (three steps) -/
def complete {α : Type} (v : List α) (c : Cell α) : Cell α × PC α :=
  let (c1, p1) := stepUnsync v c .start
  let (c2, p2) := stepUnsync v c1 p1
  stepUnsync v c2 p2

/-- `n` accessor calls one after the other (any sequential history) -/
def sequential {α : Type} (v : List α) : Nat → Cell α → Cell α × List (PC α)
  | 0, c => (c, [])
  | n + 1, c =>
    let (c', p) := complete v c
    let (c'', ps) := sequential v n c'
    (c'', p :: ps)

end Apko.LazyCell
