/-
Model of pkg/build/layers.go: groupByOriginAndSize / replacesGroup / merge and
splitLayers / alignStacks (C10).  Core only (no Mathlib): linked into the driver.

Go maps are association lists (keys in first-insertion order); every `range` over a map takes
the iteration order as an explicit adversarial parameter (`Order`, applied to the key list).
Go `*group` pointers are indices into an append-only heap of package lists, so that pointer
identity (`replacee == g`, the `seen` set) is index equality.

The model mirrors the repaired tree: a negative budget is rejected with an error (it used to
panic in `make([]*group, 0, budget)`).

splitLayers is modelled over an abstract walk (what `walkFS` yields): path components,
directory flag, owning package (what `memFileInfo.Package()` answers), ModTime, and an opaque
number standing for everything else in the header and the content.  `*file` pointers are
compared by path (a walk never yields a path twice; theorems assume `Nodup` paths).
The shared-header mutation `todo.header.ModTime = f.header.ModTime` is modelled by emitting the
directory with `f`'s ModTime: every read of a `todo` header is immediately preceded by that
write, and an entry is never a `todo` before its own visit, so `f.header` is still pristine
when `f` itself is written.
-/
import Apko.Model.Version

namespace Apko.Layers
open Apko

/-! ## association lists -/

def aget {α : Type} : List (Text × α) → Text → Option α
  | [], _ => none
  | (k', v) :: r, k => if k' = k then some v else aget r k

def aset {α : Type} : List (Text × α) → Text → α → List (Text × α)
  | [], k, v => [(k, v)]
  | (k', v') :: r, k, v => if k' = k then (k, v) :: r else (k', v') :: aset r k v

def akeys {α : Type} (m : List (Text × α)) : List Text := m.map (·.1)

/-- iteration order of one `range` over a map: applied to the key list -/
abbrev Order := List Text → List Text

/-! ## packages and groups -/

structure LPkg where
  name : Text
  origin : Text
  version : Text
  replaces : List Text
  size : Nat
deriving DecidableEq, Repr, Inhabited

/-- Go's `max` on strings (byte order = code-point order of the Latin-1 view) -/
def tmax (a b : Text) : Text := if a < b then b else a

def u64 : Nat := 18446744073709551616
/-- `uint64` addition -/
def addU64 (a b : Nat) : Nat := (a + b) % u64

structure Grp where
  pkgs : List LPkg
  size : Nat
  tb : Text
deriving DecidableEq, Repr, Inhabited

/-- `merge(groups...)` -/
def mergeGrps (gs : List Grp) : Grp :=
  gs.foldl (fun m g => ⟨m.pkgs ++ g.pkgs, addU64 m.size g.size, tmax m.tb g.tb⟩) ⟨[], 0, []⟩

/-- the loop that fills `size` and `tiebreaker` of a collected group -/
def mkGrp (pkgs : List LPkg) : Grp :=
  pkgs.foldl (fun g p => ⟨g.pkgs, addU64 g.size p.size, tmax g.tb p.name⟩) ⟨pkgs, 0, []⟩

/-- the `slices.SortFunc` comparator on groups as a `≤`: descending size, then ascending tiebreaker -/
def gle (a b : Grp) : Bool := decide (b.size < a.size) || (a.size == b.size && decide (a.tb ≤ b.tb))

def ple (a b : LPkg) : Bool := decide (a.name ≤ b.name)

/-! ## replacesGroup -/

/-- `none` = error.  `c` is `ResolvePackageNameVersionPin(rep)`. -/
def replacesGroupGo (c : Constraint) : List LPkg → Option Bool
  | [] => some false
  | p :: r =>
    if p.name ≠ c.name then replacesGroupGo c r
    else match Impl.parseVersion p.version with
      | none => none
      | some v =>
        match c.satisfiedBy Impl.parseVersion v with
        | none => none
        | some true => some true
        | some false => replacesGroupGo c r

def replacesGroup (rep : Text) (g : List LPkg) : Option Bool :=
  replacesGroupGo (parseConstraint rep) g

/-! ## groupByOriginAndSize -/

structure GState where
  heap : List (List LPkg)            -- `*group` = index
  byOrigin : List (Text × Nat)
  byPackage : List (Text × Nat)
deriving Repr, Inhabited

def GState.grp (st : GState) (i : Nat) : List LPkg := st.heap.getD i []

/-- first loop: `byOrigin[origin].pkgs = append(.., pkg)` -/
def addPkg (st : GState) (p : LPkg) : GState :=
  match aget st.byOrigin p.origin with
  | some i => { st with heap := st.heap.modify i (· ++ [p]) }
  | none => { st with heap := st.heap ++ [[p]], byOrigin := aset st.byOrigin p.origin st.heap.length }

def phase1 (pkgs : List LPkg) : GState := pkgs.foldl addPkg ⟨[], [], []⟩

/-- `for _, g := range byOrigin { for _, pkg := range g.pkgs { byPackage[pkg.Name] = g } }` -/
def phase2 (o1 : Order) (st : GState) : GState :=
  { st with byPackage :=
      (o1 (akeys st.byOrigin)).foldl (fun bp k =>
        match aget st.byOrigin k with
        | none => bp
        | some i => (st.grp i).foldl (fun bp p => aset bp p.name i) bp) [] }

/-- `for _, g := range byPackage { for _, pkg := range g.pkgs { replaceMap[pkg.Name] = pkg.Replaces } }` -/
def phase3 (o2 : Order) (st : GState) : List (Text × List Text) :=
  (o2 (akeys st.byPackage)).foldl (fun rm k =>
    match aget st.byPackage k with
    | none => rm
    | some i => (st.grp i).foldl (fun rm p =>
        if p.replaces.isEmpty then rm else aset rm p.name p.replaces) rm) []

inductive Res (α : Type) where
  | ok (a : α)
  | err            -- `return nil, fmt.Errorf(..)`
  | panic          -- `panic(..)` / runtime panic
deriving Repr, DecidableEq, Inhabited

def Res.bind {α β : Type} : Res α → (α → Res β) → Res β
  | .ok a, f => f a
  | .err, _ => .err
  | .panic, _ => .panic

/-- the update loop after a merge: every member of the merged group is re-pointed in both maps -/
def repoint (st : GState) (id : Nat) (members : List LPkg) : GState :=
  members.foldl (fun s p =>
    { s with byPackage := aset s.byPackage p.name id, byOrigin := aset s.byOrigin p.origin id }) st

/-- body of the inner loop `for _, rep := range replaces` for the package named `pkg` -/
def mergeStep (pkg : Text) (st : GState) (rep : Text) : Res GState :=
  let c := parseConstraint rep
  match aget st.byPackage c.name with
  | none => .ok st                                  -- replaced package is not in the image
  | some r =>
    match replacesGroupGo c (st.grp r) with
    | none => .err
    | some false => .ok st
    | some true =>
      match aget st.byPackage pkg with
      | none => .panic                              -- byPackage[pkg] missing
      | some g =>
        if r = g then .ok st
        else
          let merged := st.grp g ++ st.grp r         -- merge(g, replacee)
          let id := st.heap.length
          .ok (repoint { st with heap := st.heap ++ [merged] } id merged)

def foldRes {α β : Type} (f : α → β → Res α) : α → List β → Res α
  | a, [] => .ok a
  | a, b :: bs => (f a b).bind fun a' => foldRes f a' bs

/-- `for pkg, replaces := range replaceMap { for _, rep := range replaces { … } }` -/
def phase4 (o3 : Order) (rm : List (Text × List Text)) (st : GState) : Res GState :=
  foldRes (fun s k =>
    match aget rm k with
    | none => .ok s
    | some reps => foldRes (mergeStep k) s reps) st (o3 (akeys rm))

/-- `for v := range maps.Values(byOrigin)` with the `seen` set -/
def dedupNat : List Nat → List Nat → List Nat
  | _, [] => []
  | seen, i :: r => if i ∈ seen then dedupNat seen r else i :: dedupNat (i :: seen) r

def collect (o4 : Order) (st : GState) : List Grp :=
  (dedupNat [] ((o4 (akeys st.byOrigin)).filterMap (aget st.byOrigin))).map fun i => mkGrp (st.grp i)

/-- `if len(groups) > budget { cutoff := max(budget-1, 0); … append(groups[:cutoff], merge(remainder...)) }` -/
def cutGroups (budget : Nat) (gs : List Grp) : List Grp :=
  if gs.length > budget then
    let cutoff := budget - 1
    gs.take cutoff ++ [mergeGrps (gs.drop cutoff)]
  else gs

def sortPkgs (g : Grp) : Grp := { g with pkgs := g.pkgs.mergeSort ple }

/-- everything after the merge loop, for a non-negative budget -/
def finish (o4 : Order) (budget : Nat) (st : GState) : List Grp :=
  (cutGroups budget ((collect o4 st).mergeSort gle)).map sortPkgs

/-- `groupByOriginAndSize(pkgs, budget)`; the four map iteration orders are parameters -/
def groupByOriginAndSize (pkgs : List LPkg) (budget : Int) (o1 o2 o3 o4 : Order) : Res (List Grp) :=
  if budget < 0 then .err                             -- "invalid layering budget" (was: panic in make)
  else
    let st2 := phase2 o1 (phase1 pkgs)
    (phase4 o3 (phase3 o2 st2) st2).bind fun st4 => .ok (finish o4 budget.toNat st4)

/-! ## splitLayers -/

abbrev Path := List Text

structure Entry where
  path : Path
  isDir : Bool
  mtime : Nat
  hdr : Nat                -- rest of the header and the content, opaque
deriving DecidableEq, Repr, Inhabited

structure WEntry extends Entry where
  owner : Option Text      -- `f.info.(interface{Package()}).Package().Name`
deriving DecidableEq, Repr, Inhabited

/-- `path.Dir` on component lists (`"."` is `[]`) -/
def parentOf (p : Path) : Path := p.dropLast

structure LayerSt where
  stack : List Path        -- `w.stack` (pointers compared by path)
  out : List Entry         -- headers written to `w.w`, in order
deriving Repr, Inhabited

/-- the pop loop: scan from the top, stop at the first element whose path is `path.Dir(f.path)` -/
def popTo (parent : Path) (stack : List WEntry) : List WEntry :=
  (stack.reverse.dropWhile (fun e => e.path != parent)).reverse

def pushDir (stack : List WEntry) (f : WEntry) : List WEntry :=
  if f.isDir then popTo (parentOf f.path) stack ++ [f] else stack

/-- `alignStacks`: returns the new `w.stack` and the returned slice.  The recursion is the loop
with `i` implicit: the consumed prefixes of both stacks are equal. -/
def alignStacks : List Path → List WEntry → List Path × List WEntry
  | _, [] => ([], [])                                  -- i ≥ len(stack): w.stack = w.stack[:i]; return nil
  | [], e :: s => ((e :: s).map (·.path), e :: s)      -- i ≥ len(w.stack): append stack[i:], return it
  | w :: ws, e :: s =>
    if w = e.path then
      let r := alignStacks ws s
      (w :: r.1, r.2)
    else ((e :: s).map (·.path), e :: s)

/-- length of the longest common prefix of a layer stack and the main stack -/
def lcp : List Path → List WEntry → Nat
  | w :: ws, e :: s => if w = e.path then lcp ws s + 1 else 0
  | _, _ => 0

/-- what one iteration of the walk loop writes to the chosen layer -/
def emitted (todo : List WEntry) (f : WEntry) : List Entry :=
  (todo.filter (fun d => d.path != f.path)).map (fun d => { d.toEntry with mtime := f.mtime })
    ++ [f.toEntry]

structure SplitSt where
  stack : List WEntry
  layers : List LayerSt
deriving Repr, Inhabited

/-- index of the writer: `top` (= n) for unowned entries, else `packageToWriter[pkg.Name]` -/
def target (layerOf : Text → Nat) (n : Nat) (f : WEntry) : Nat :=
  match f.owner with
  | none => n
  | some p => layerOf p

def step (layerOf : Text → Nat) (n : Nat) (st : SplitSt) (f : WEntry) : SplitSt :=
  let stack := pushDir st.stack f
  let w := target layerOf n f
  let L := st.layers.getD w default
  let r := alignStacks L.stack stack
  { stack := stack, layers := st.layers.set w ⟨r.1, L.out ++ emitted r.2 f⟩ }

/-- the walk loop over `n` group layers plus the top layer (index `n`, finalised last) -/
def splitCore (layerOf : Text → Nat) (n : Nat) (walk : List WEntry) : SplitSt :=
  walk.foldl (step layerOf n) ⟨[], List.replicate (n + 1) ⟨[], []⟩⟩

def splitOuts (layerOf : Text → Nat) (n : Nat) (walk : List WEntry) : List (List Entry) :=
  (splitCore layerOf n walk).layers.map (·.out)

/-- `packageToWriter`: later groups overwrite earlier ones -/
def layerOfGroups (groups : List (List Text)) (name : Text) : Option Nat :=
  (groups.zipIdx.foldl (fun acc (g, i) => if name ∈ g then some i else acc) none)

/-- `splitLayers(fsys, groups)`: `none` = `panic(packageToWriter[..] missing)` -/
def splitLayers (groups : List (List Text)) (walk : List WEntry) : Option (List (List Entry)) :=
  if walk.all (fun f => match f.owner with
      | none => true | some p => (layerOfGroups groups p).isSome) then
    some (splitOuts (fun p => (layerOfGroups groups p).getD 0) groups.length walk)
  else none

/-- `writeTar`: the single-layer build writes every walk entry once, in walk order -/
def singleLayer (walk : List WEntry) : List Entry := walk.map (·.toEntry)

/-! ## Spec side: decidable predicates used as oracles and as theorem statements -/

/-- extracting a sequence of tar entries: the last entry written for a path wins -/
def lastFor (es : List Entry) (p : Path) : Option Entry := es.reverse.find? (fun e => e.path = p)

/-- main stacks after each walk step (independent of the layers) -/
def mainStacks : List WEntry → List WEntry → List (WEntry × List WEntry)
  | _, [] => []
  | stack, f :: r => let s := pushDir stack f; (f, s) :: mainStacks s r

/-- what `fs.WalkDir` guarantees and the pop loop relies on: when an entry is visited its parent
directory is on the main stack (or the entry is top-level) -/
def StackOK (walk : List WEntry) : Bool :=
  (mainStacks [] walk).all fun (f, s) =>
    parentOf f.path = [] || s.any (fun d => d.path = parentOf f.path)

/-- preorder property of a walk stated without the stack: every entry's parent directory was
visited earlier and every directory visited in between lies below that parent -/
def WellNestedAt (pre : List WEntry) (f : WEntry) : Bool :=
  parentOf f.path = [] ||
    (match pre.reverse.dropWhile (fun d => !(d.isDir && d.path = parentOf f.path)) with
     | [] => false
     | _ :: _ => true) &&
    (pre.reverse.takeWhile (fun d => !(d.isDir && d.path = parentOf f.path))).all
      (fun d => !d.isDir || (parentOf f.path).isPrefixOf d.path)

def WellNestedGo : List WEntry → List WEntry → Bool
  | _, [] => true
  | pre, f :: r => WellNestedAt pre f && WellNestedGo (pre ++ [f]) r

def WellNested (walk : List WEntry) : Bool := WellNestedGo [] walk

/-- each entry's parent precedes it (as a directory) and no path occurs twice -/
def ParentsFirst : List Entry → List Entry → Bool
  | _, [] => true
  | pre, e :: r =>
    (parentOf e.path = [] || pre.any (fun d => d.isDir && d.path = parentOf e.path)) &&
      ParentsFirst (pre ++ [e]) r

def layerWellFormed (es : List Entry) : Bool :=
  ParentsFirst [] es && decide ((es.map (·.path)).Nodup)

/-- the version-checked replaces edge used by the merge loop: `a` lists `rep`, a package named
like the constraint is present and its version satisfies the constraint -/
def replacesEdge (pkgs : List LPkg) (a b : LPkg) : Bool :=
  a.replaces.any fun rep =>
    let c := parseConstraint rep
    c.name = b.name && b ∈ pkgs &&
      (match Impl.parseVersion b.version with
       | none => false
       | some v => c.satisfiedBy Impl.parseVersion v == some true)

/-- some replaces entry pointing at a present package cannot be evaluated (→ error) -/
def replacesError (pkgs : List LPkg) : Bool :=
  pkgs.any fun a => a.replaces.any fun rep =>
    let c := parseConstraint rep
    pkgs.any fun b => c.name = b.name &&
      (match Impl.parseVersion b.version with
       | none => true
       | some v => (c.satisfiedBy Impl.parseVersion v).isNone)

def sameGroup (gs : List Grp) (a b : LPkg) : Bool := gs.any fun g => a ∈ g.pkgs && b ∈ g.pkgs

end Apko.Layers
