/-
C15 — panic-freedom models with checked accessors.

Every Go index expression `x[i]` and slice expression `x[lo:]` of the readers of externally supplied
data is mirrored by an accessor (`idx`, `sliceFrom`) whose out-of-range outcome is `Res.oob` (= the Go
run-time panic).  The length checks that protect them are NOT written into the models: they are looked
up in the guard lists the extractor regenerates from /repo on every run
(`Generated.lenGuards_<fn>`, `Generated.prefixGuards_<fn>`: variable, operator, number, what the branch
does).  A check that is dropped or loosened in the source therefore changes what these models compute
(the driver then answers `oob` where the Go code panics) and the `*_no_oob` theorems of
`Proofs/C15Readers.lean`, which are stated over the regenerated lists, stop checking.

The slices a regular expression returns are abstract: the models take the submatch list as input and
the theorems assume only what the `regexp` documentation promises — a match has one entry per
capturing group plus one.  The number of groups is *computed from the regenerated literal*
(`countGroups`).

Core only (linked into the driver).
-/
import Apko.Model.Formats
import Apko.Model.Version
import Apko.Generated.Robust

namespace Apko.Robust
open Apko Apko.Formats

/-! ## checked accessors -/

/-- `l[i]` -/
def idx {α : Type} (l : List α) (i : Nat) : Res α :=
  match l[i]? with
  | some a => .ok a
  | none => .oob

/-- `l[lo:]` -/
def sliceFrom {α : Type} (l : List α) (lo : Nat) : Res (List α) :=
  if lo ≤ l.length then .ok (l.drop lo) else .oob

/-- `l[i]` for a signed index variable (a negative index panics) -/
def idxInt {α : Type} (l : List α) (i : Int) : Res α :=
  if i < 0 then .oob else idx l i.toNat

/-! ## guards, as the source states them -/

inductive Op where
  | eq | ne | lt | le | gt | ge
  deriving Repr, DecidableEq

def Op.ofGo : String → Option Op
  | "==" => some .eq | "!=" => some .ne | "<" => some .lt | "<=" => some .le
  | ">" => some .gt | ">=" => some .ge | _ => none

def Op.holds : Op → Nat → Nat → Bool
  | .eq, a, b => a == b
  | .ne, a, b => a != b
  | .lt, a, b => decide (a < b)
  | .le, a, b => decide (a ≤ b)
  | .gt, a, b => decide (a > b)
  | .ge, a, b => decide (a ≥ b)

structure LenGuard where
  op : Op
  n : Nat
  how : String      -- "return" / "continue" / "break": the branch leaves; "then": the branch is entered
  deriving Repr, DecidableEq

abbrev GuardList := List (String × String × Nat × String)

/-- the first `len(x) OP n` test on `x` in the function -/
def findLen : GuardList → String → Option LenGuard
  | [], _ => none
  | (y, op, n, how) :: rest, x =>
    if y = x then (match Op.ofGo op with
      | some o => some ⟨o, n, how⟩
      | none => findLen rest x)
    else findLen rest x

/-- `if len(x) OP n { return … }`: does a slice of this length get past the test?  Without a test in
the source every length gets past. -/
def passes (g : Option LenGuard) (len : Nat) : Bool :=
  match g with
  | none => true
  | some g => if g.how = "then" then true else !g.op.holds len g.n

/-- `if len(x) OP n { … x[i] … }`: is the branch entered?  Without a test in the source it always is. -/
def enters (g : Option LenGuard) (len : Nat) : Bool :=
  match g with
  | none => true
  | some g => if g.how = "then" then g.op.holds len g.n else true

/-- what an early exit does: `continue` skips the item, everything else is an error return -/
def skips (g : Option LenGuard) : Bool :=
  match g with
  | some g => g.how = "continue"
  | none => false

abbrev PrefixList := List (String × String × String)

/-- the literal of the first `strings.HasPrefix(x, "lit")` test on `x` -/
def findPrefix : PrefixList → String → Option (Text × String)
  | [], _ => none
  | (y, lit, how) :: rest, x => if y = x then some (lit.toList, how) else findPrefix rest x

/-- `x[k:]` where the source reaches the slice expression only when `strings.HasPrefix(x, lit)` holds
(either `if HasPrefix { … x[k:] … }` or `if !HasPrefix { return }; … x[k:]`).  `none` = the test says
the value does not have the prefix (the site is not reached).  Without a test in the source the slice
is taken of every value. -/
def prefixSlice (g : Option (Text × String)) (k : Nat) (x : Text) : Option (Res Text) :=
  match g with
  | none => some (sliceFrom x k)
  | some (lit, _) => if lit.isPrefixOf x then some (sliceFrom x k) else none

/-! ## passwd / group (`UserEntry.Parse`, `GroupEntry.Parse`) -/

def userParse (gs : GuardList) (line : Text) : Res User :=
  let parts := splitOnChar ':' (trimEOL line)
  if !passes (findLen gs "parts") parts.length then .err else
  (idx parts 0).bind fun n =>
  (idx parts 1).bind fun pw =>
  (idx parts 2).bind fun uid =>
  match parseIntB 10 uid with
  | none => .err
  | some u =>
    (idx parts 3).bind fun gid =>
    match parseIntB 10 gid with
    | none => .err
    | some g =>
      (idx parts 4).bind fun info =>
      (idx parts 5).bind fun home =>
      (idx parts 6).bind fun sh => .ok ⟨n, pw, toU32 u, toU32 g, info, home, sh⟩

def groupParse (gs : GuardList) (line : Text) : Res Group :=
  let parts := splitOnChar ':' (trimEOL line)
  if !passes (findLen gs "parts") parts.length then .err else
  (idx parts 0).bind fun n =>
  (idx parts 1).bind fun pw =>
  (idx parts 2).bind fun gid =>
  match parseIntB 10 gid with
  | none => .err
  | some g =>
    -- `if parts[3] != "" { … strings.Split(parts[3], ",") }`: both index expressions behind the same length check
    (idx parts 3).bind fun mem => (idx parts 3).bind fun _ => .ok ⟨n, pw, toU32 g, splitMembers mem⟩

def mapAllRes {α β : Type} (f : α → Res β) : List α → Res (List β)
  | [] => .ok []
  | a :: rest => (f a).bind fun b => (mapAllRes f rest).bind fun bs => .ok (b :: bs)

/-- `UserFile.Load` / `GroupFile.Load`: the first line that does not parse ends the loop with an error;
the scanner's own error (a line of 64 KiB or more) is returned after the lines before it were parsed -/
def loadRes {α : Type} (parse : Text → Res α) (t : Text) : Res (List α) :=
  let (ls, tooLong) := scanLines defaultTokenMax t
  (mapAllRes parse ls).bind fun es => if tooLong then .err else .ok es

/-! ## os-release (`readReleaseData`) -/

/-- `strings.Trim(s, "\"")` -/
def trimQuotes (t : Text) : Text :=
  ((t.dropWhile (· = '"')).reverse.dropWhile (· = '"')).reverse

/-- one iteration of the scan loop: `none` = error return, `some kv` = the map afterwards (as an
association list, newest first) -/
def releaseStep (pgs : PrefixList) (kv : List (Text × Text)) (line : Text) : Option (List (Text × Text)) :=
  if line = [] then some kv else
  let comment := match findPrefix pgs "line" with
    | some (lit, _) => lit.isPrefixOf line
    | none => false
  if comment then some kv else
  match cut '=' line with
  | none => none
  | some (k, v) => some ((k, trimQuotes v) :: kv)

def releaseFold (pgs : PrefixList) : List (Text × Text) → List Text → Option (List (Text × Text))
  | kv, [] => some kv
  | kv, l :: ls => match releaseStep pgs kv l with
    | none => none
    | some kv' => releaseFold pgs kv' ls

def kvGet (kv : List (Text × Text)) (k : Text) : Text := (kv.lookup k).getD []

/-- `readReleaseData` on the file's bytes: ID, NAME, VERSION_ID -/
def readRelease (pgs : PrefixList) (t : Text) : Res (Text × Text × Text) :=
  let (ls, tooLong) := scanLines defaultTokenMax t
  match releaseFold pgs [] ls with
  | none => .err
  | some kv => if tooLong then .err else
    .ok (kvGet kv "ID".toList, kvGet kv "NAME".toList, kvGet kv "VERSION_ID".toList)

/-! ## .PKGINFO text (`controlValue`, `datahash`) -/

/-- the `for _, line := range lines` loop of `controlValue`: the values of the wanted keys in file order -/
def controlLine (gs : GuardList) (want : List Text) (line : Text) : Res (Option (Text × Text)) :=
  let parts := splitOnChar '=' line
  let g := findLen gs "parts"
  if !passes g parts.length then (if skips g then .ok none else .err) else
  (idx parts 0).bind fun k =>
  let key := trimSpace k
  if !want.contains key then .ok none else
  (idx parts 1).bind fun v => .ok (some (key, trimSpace v))

def controlValues (gs : GuardList) (want : List Text) (t : Text) : Res (List (Text × Text)) :=
  (mapAllRes (controlLine gs want) (splitOnChar '\n' t)).bind fun l => .ok (l.filterMap id)

/-- `APK.datahash` on the values found for the key -/
def datahashOf (gs : GuardList) (values : List Text) : Res Text :=
  if !passes (findLen gs "values") values.length then .err else idx values 0

/-! ## permission triples (`parseInstalledPerms`) -/

def installedPerms (gs : GuardList) (val : Text) : Res (Int × Int × Int) :=
  let parts := splitOnChar ':' val
  if !passes (findLen gs "permParts") parts.length then .err else
  (idx parts 0).bind fun a =>
  match parseIntB 10 a with
  | none => .err
  | some u =>
    (idx parts 1).bind fun b =>
    match parseIntB 10 b with
    | none => .err
    | some g =>
      (idx parts 2).bind fun m =>
      match parseIntB 8 m with
      | none => .err
      | some p => .ok (u, g, p)

/-! ## `strings.Fields`, world and repositories lines -/

/-- `strings.Fields`: split around runs of white space (`unicode.IsSpace`, UTF-8 encoded), no empty
fields.  `skip` = bytes of a space sequence still to drop; `cur` = the field being collected, reversed. -/
def fieldsAux : Nat → Text → Text → List Text
  | _, cur, [] => if cur = [] then [] else [cur.reverse]
  | skip + 1, cur, _ :: cs => fieldsAux skip cur cs
  | 0, cur, c :: cs =>
    match leadSpace (c :: cs) with
    | some n =>
      if cur = [] then fieldsAux (n - 1) [] cs else cur.reverse :: fieldsAux (n - 1) [] cs
    | none => fieldsAux 0 (c :: cur) cs

def fields (t : Text) : List Text := fieldsAux 0 [] t

/-- `APK.GetWorld` on the file's bytes -/
def world (t : Text) : List Text := fields t

/-- `APK.GetRepositories` on the file's bytes: the scanned lines; the scanner's error is not looked at -/
def repositories (t : Text) : List Text := (scanLines defaultTokenMax t).1

def isTagged (pgs : PrefixList) (repo : Text) : Bool :=
  match findPrefix pgs "repo" with
  | some (lit, _) => lit.isPrefixOf repo
  | none => true

/-- the `@tag url` decision of `GetRepositoryIndexes` for one repositories line: (name, url) -/
def repoLine (gs : GuardList) (pgs : PrefixList) (repo : Text) : Res (Text × Text) :=
  if !isTagged pgs repo then .ok ([], repo) else
  let parts := fields repo
  if !passes (findLen gs "parts") parts.length then .err else
  (idx parts 0).bind fun p0 =>
  (sliceFrom p0 1).bind fun name =>
  (idx parts 1).bind fun url => .ok (name, url)

/-! ## regular expressions: the number of capturing groups of a literal -/

/-- scanner states of the group counter -/
inductive ReSt where
  | normal              -- outside a character class
  | esc                 -- after a backslash, outside a class
  | cls (fresh : Bool)  -- inside `[…]`; fresh = the next `]` is a literal (just after `[` or `[^`)
  | clsEsc              -- after a backslash inside a class
  | clsNamed (colon : Bool)  -- inside `[:name:]` within a class; colon = the previous character was `:`
  | paren               -- just after `(`
  | parenQ              -- just after `(?`
  | parenQP             -- just after `(?P`
  deriving Repr, DecidableEq

/-- what a character does outside a class -/
def normalStep (c : Char) : ReSt :=
  if c = '\\' then .esc else if c = '[' then .cls true else if c = '(' then .paren else .normal

/-- does `:]` occur in the text (the end of a `[:name:]` item) -/
def hasNamedEnd : Text → Bool
  | ':' :: ']' :: _ => true
  | _ :: cs => hasNamedEnd cs
  | [] => false

/-- one character (`rest` = what follows it): the new state and whether a capturing group was just
recognised -/
def reStep : ReSt → Char → Text → ReSt × Bool
  | .normal, c, _ => (normalStep c, false)
  | .esc, _, _ => (.normal, false)
  | .cls fresh, c, rest =>
    if c = '\\' then (.clsEsc, false)
    else if c = ']' && !fresh then (.normal, false)
    else if c = '^' && fresh then (.cls true, false)
    else if c = '[' && (match rest with | ':' :: r => hasNamedEnd r | _ => false) then (.clsNamed false, false)
    else (.cls false, false)
  | .clsEsc, _, _ => (.cls false, false)
  | .clsNamed colon, c, _ =>
    if c = ']' && colon then (.cls false, false) else (.clsNamed (c = ':'), false)
  | .paren, c, _ => if c = '?' then (.parenQ, false) else (normalStep c, true)
  | .parenQ, c, _ =>
    if c = 'P' then (.parenQP, false) else if c = '<' then (.normal, true) else (normalStep c, false)
  | .parenQP, c, _ => if c = '<' then (.normal, true) else (normalStep c, false)

def countGroupsAux : ReSt → Text → Nat
  | st, [] => if st = .paren then 1 else 0
  | st, c :: cs => (if (reStep st c cs).2 then 1 else 0) + countGroupsAux (reStep st c cs).1 cs

/-- `regexp.MustCompile(lit).NumSubexp()` -/
def countGroups (lit : Text) : Nat := countGroupsAux .normal lit

/-- the length of every slice `FindStringSubmatch` / each element of `FindAllStringSubmatch` returns -/
def submatchLen (lit : String) : Nat := countGroups lit.toList + 1

/-! ## `ParseVersion` from the submatch list -/

def lookupSwitch (tbl : List (String × Nat)) (t : Text) : Option Nat := tbl.lookup (String.ofList t)

/-- `strconv.Atoi` on a digit string (the expression only lets digits through): error above 2^63-1 -/
def atoiDigits (t : Text) : Option Nat :=
  (parseIntB 10 t).bind fun i => if 0 ≤ i then some i.toNat else none

/-- `for _, s := range strings.Split(actuals[2], ".")`: empty pieces are skipped -/
def dotNumbers : List Text → Option (List Nat)
  | [] => some []
  | s :: rest =>
    if s = [] then dotNumbers rest else
    match atoiDigits s, dotNumbers rest with
    | some n, some ns => some (n :: ns)
    | _, _ => none

def optNumber (t : Text) : Option Nat := if t = [] then some 0 else atoiDigits t

/-- `ParseVersion` after `versionRegex.FindAllStringSubmatch(version, -1)` returned `all` -/
def parseVersionG (gs : GuardList) (all : List (List Text)) : Res Version :=
  if !passes (findLen gs "parts") all.length then .err else
  (idx all 0).bind fun actuals =>
  if !passes (findLen gs "actuals") actuals.length then .err else
  (idx actuals 1).bind fun a1 =>
  match atoiDigits a1 with
  | none => .err
  | some n1 =>
    (idx actuals 2).bind fun a2 =>
    match (if a2 = [] then some [] else dotNumbers (splitOnChar '.' a2)) with
    | none => .err
    | some more =>
      (idx actuals 4).bind fun a4 =>
      (if enters (findLen gs "actuals[4]") a4.length then (idx a4 0).bind fun c => .ok c.toNat
       else .ok 0).bind fun letter =>
      (idx actuals 6).bind fun a6 =>
      match lookupSwitch Generated.preSwitch a6 with
      | none => .err
      | some pre =>
        (idx actuals 7).bind fun a7 =>
        match optNumber a7 with
        | none => .err
        | some preNum =>
          (idx actuals 9).bind fun a9 =>
          match lookupSwitch Generated.postSwitch a9 with
          | none => .err
          | some post =>
            (idx actuals 10).bind fun a10 =>
            match optNumber a10 with
            | none => .err
            | some postNum =>
              (idx actuals 13).bind fun a13 =>
              match optNumber a13 with
              | none => .err
              | some rev => .ok ⟨n1 :: more, letter, pre, preNum, post, postNum, rev⟩

/-! ## `ResolvePackageNameVersionPin` from the submatch list -/

/-- (name, version, pin, matcher) -/
def resolvePinG (gs : GuardList) (all : List (List Text)) : Res (Option (Text × Text × Text × Text)) :=
  if !passes (findLen gs "parts") all.length then .ok none else
  (idx all 0).bind fun m =>
  if !passes (findLen gs "parts[0]") m.length then .ok none else
  (idx m 1).bind fun name =>
  (idx m 4).bind fun ver =>
  (idx m 6).bind fun pin =>
  (idx m 3).bind fun op => .ok (some (name, ver, pin, op))

/-! ## `parseAlpineVersion`, signature member names (`parseRepositoryIndex`) -/

/-- `FindStringSubmatch` returns nil (length 0) when there is no match -/
def alpineVersionG (gs : GuardList) (m : List Text) : Res (Option Text) :=
  if !passes (findLen gs "parts") m.length then .ok none else
  (idx m 1).bind fun v => .ok (some v)

/-- (key file, signature type) -/
def signatureNameG (gs : GuardList) (m : List Text) : Res (Text × Text) :=
  if !passes (findLen gs "matches") m.length then .err else
  (idx m 2).bind fun key =>
  (idx m 1).bind fun ty => .ok (key, ty)

end Apko.Robust
