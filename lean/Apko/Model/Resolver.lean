/-
Model of the greedy resolver in pkg/apk/apk/repo.go (+ filterPackages in version.go):
newPkgResolver (nameMap / installIfMap), nextPackage, resolvePackage, constrain,
disqualifyProviders, disqualifyConflicts, conflictingVersion, pick, comparePackages,
bestPackage (slices.MinFunc = first minimum), getPackageDependencies,
GetPackageWithDependencies, GetPackagesWithDependencies, disqualifyDifference.

Pointer identity of `*RepositoryPackage` is the field `id` (unique within a universe).
Go maps are association lists.  The one place where Go's map iteration order can reach the
result — the order in which differently named providers are appended to `nameMap[virtual]` —
is the explicit parameter `order` of `nameMap` (a list of the package names; the canonical
choice is ascending).  Errors are one value `.err` (messages are never compared).

Core only; linked into the driver.
-/
import Apko.Model.Version

namespace Apko

structure Pkg where
  id : Nat
  name : Text
  version : Text
  origin : Text
  repo : Text              -- repository URI
  pin : Text               -- pinnedName = NamedIndex.Name()
  priority : Nat
  deps : List Text
  provides : List Text
  installIf : List Text
deriving Repr, Inhabited, DecidableEq

/-- one index: pin name, repository URI, packages in index order -/
structure Index where
  pin : Text
  uri : Text
  pkgs : List Pkg
deriving Repr, Inhabited

abbrev Universe := List Index

def Universe.all (u : Universe) : List Pkg := u.flatMap (·.pkgs)

inductive Res (α : Type) where
  | ok (a : α)
  | err
  | outOfFuel
deriving Repr

def Res.bind {α β} (r : Res α) (f : α → Res β) : Res β :=
  match r with
  | .ok a => f a
  | .err => .err
  | .outOfFuel => .outOfFuel

instance : Monad Res where
  pure := .ok
  bind := Res.bind

namespace Resolver

/-- the parser the code uses (memoised `ParseVersion`); memoisation is transparent (C08) -/
abbrev pv (s : Text) : Option Version := Impl.parseVersion s

def Pkg.url (p : Pkg) : Text := p.repo ++ ['/'] ++ p.name ++ ['-'] ++ p.version ++ ".apk".toList

def provName (prov : Text) : Text := (parseConstraint prov).name

/-! ### nameMap / installIfMap -/

def dedup (l : List Text) : List Text :=
  l.foldl (fun acc x => if acc.contains x then acc else acc ++ [x]) []

/-- insertion sort of names, ascending bytes (canonical `order`) -/
def insertName (x : Text) : List Text → List Text
  | [] => [x]
  | y :: ys => if x < y then x :: y :: ys else if x = y then y :: ys else y :: insertName x ys

def sortNames (l : List Text) : List Text := l.foldr insertName []

def ownNames (u : Universe) : List Text := sortNames (u.all.map (·.name))

/-- `nameMap[name]`: first every package of that name in index order, then — for every own name in
`order` — every package of that name once per provide whose name is `name`. -/
def nameMap (u : Universe) (order : List Text) (name : Text) : List Pkg :=
  u.all.filter (·.name = name) ++
  order.flatMap fun n =>
    (u.all.filter (·.name = n)).flatMap fun p =>
      (p.provides.filter (fun pr => provName pr = name)).map fun _ => p

def hasName (u : Universe) (name : Text) : Bool :=
  u.all.any fun p => p.name = name || p.provides.any (fun pr => provName pr = name)

/-- `installIfMap[key]`: packages (index order) one of whose install_if strings is `key` -/
def installIfMap (u : Universe) (key : Text) : List Pkg :=
  u.all.flatMap fun p => (p.installIf.filter (· = key)).map fun _ => p

/-! ### filterPackages -/

def filterPackages (cands : List Pkg) (dq : List Nat) (version : Text) (dep : Dep)
    (allowPin preferPin : Text) (installed : Option Pkg) : List Pkg :=
  let pinOk (p : Pkg) : Bool :=
    !((!p.pin.isEmpty && p.pin != allowPin && p.pin != preferPin) &&
      (match installed with | none => true | some i => Pkg.url i != Pkg.url p))
  let survivors := cands.filter fun p => !dq.contains p.id && pinOk p
  if dep = .any then survivors
  else match pv version with
    | none => []
    | some req =>
      survivors.filter fun p =>
        match pv p.version with
        | none => false
        | some act =>
          dep.satisfies act req ||
          p.provides.any fun prov =>
            let v := (parseConstraint prov).version
            if v.isEmpty then false
            else match pv v with
              | none => false
              | some a => dep.satisfies a req

/-- the verdict of `filterPackages` on one candidate taken alone -/
def acceptsOne (dq : List Nat) (version : Text) (dep : Dep) (allowPin preferPin : Text)
    (installed : Option Pkg) (p : Pkg) : Bool :=
  !(filterPackages [p] dq version dep allowPin preferPin installed).isEmpty

/-! ### comparePackages / bestPackage -/

def getDepVersionForName (p : Pkg) (name : Text) : Text :=
  if name.isEmpty || name = p.name then p.version
  else
    match p.provides.find? (fun prov => provName prov = name) with
    | some prov =>
      let v := (parseConstraint prov).version
      if v.isEmpty then p.version else v
    | none => []

def lookupT {α} (m : List (Text × α)) (k : Text) : Option α :=
  (m.find? (fun e => e.1 = k)).map (·.2)

def setT {α} (m : List (Text × α)) (k : Text) (v : α) : List (Text × α) :=
  if m.any (fun e => e.1 = k) then m.map (fun e => if e.1 = k then (k, v) else e) else m ++ [(k, v)]

def cmpText (a b : Text) : Ordering := if a < b then .lt else if b < a then .gt else .eq

/-- one version step of `comparePackages`: higher version first, an unparsable side loses;
`none` = equal, keep looking.  Both unparsable: the pinned code returns "b is better" in both
directions (`bothBad = .gt`, F08b); the repaired code falls through (`bothBad = .eq`). -/
def verStep (bothBad : Ordering) (a b : Text) : Option Ordering :=
  match pv a, pv b with
  | none, none => if bothBad = .eq then none else some bothBad
  | none, some _ => some .gt
  | some _, none => some .lt
  | some x, some y =>
    let c := (compareVersions x y).swap
    if c = .eq then none else some c

/-- `.lt` = `a` is preferred. -/
def comparePackages (bothBad : Ordering) (name pin : Text) (existing : List (Text × Pkg))
    (origins : List Text) (a b : Pkg) : Ordering :=
  let iMatch := match lookupT existing a.name with | some e => e.version = a.version | none => false
  let jMatch := match lookupT existing b.name with | some e => e.version = b.version | none => false
  if iMatch && !jMatch then .lt else if jMatch && !iMatch then .gt else
  let io := origins.contains a.origin
  let jo := origins.contains b.origin
  if io && !jo then .lt else if jo && !io then .gt else
  if a.pin = pin && b.pin != pin then .lt else if a.pin != pin && b.pin = pin then .gt else
  if a.priority != b.priority then (if a.priority > b.priority then .lt else .gt) else
  let iv := getDepVersionForName a name
  let jv := getDepVersionForName b name
  match verStep bothBad iv jv with
  | some o => o
  | none =>
    match (if iv != a.version || jv != b.version then verStep bothBad a.version b.version else none) with
    | some o => o
    | none => cmpText a.name b.name

/-- `slices.MinFunc`: the first minimal element -/
def minFunc (cmp : Pkg → Pkg → Ordering) : List Pkg → Option Pkg
  | [] => none
  | x :: xs => some (xs.foldl (fun m y => if cmp y m = .lt then y else m) x)

/-! ### resolver state -/

structure St where
  dq : List Nat                       -- disqualified package ids (a set)
  selected : List (Text × Pkg)        -- PkgResolver.selected
  /-- ghost: the unsound shortcuts of the greedy algorithm that fired during this run
  (F02a…F02e, see `KNOWN_FINDINGS.txt`); not part of the Go state, never read by the algorithm -/
  flags : List String := []
deriving Repr, Inhabited

def St.flag (s : St) (f : String) : St := if s.flags.contains f then s else { s with flags := s.flags ++ [f] }

structure Cfg where
  u : Universe
  order : List Text
  bothBad : Ordering                   -- see `comparePackages`
  installIfFixed : Bool                -- install_if scan over the ordered slice (repaired) …
  addedOrder : List Text → List Text   -- … or over the `added` map in this (adversarial) order

def Cfg.nm (c : Cfg) (name : Text) : List Pkg := nameMap c.u c.order name

def dqAdd (dq : List Nat) (id : Nat) : List Nat := if dq.contains id then dq else dq ++ [id]

/-- `disqualifyProviders` (for `!x` constraints) -/
def disqualifyProviders (c : Cfg) (constraint : Text) (dq : List Nat) : List Nat :=
  let p := parseConstraint constraint
  if !hasName c.u p.name then dq else
  let conflicting := filterPackages (c.nm p.name) dq p.version p.dep [] p.pin none
  conflicting.foldl (fun d q => dqAdd d q.id) dq

/-- `constrain`; `none` = error (unparsable constraint version) -/
def constrain (c : Cfg) : List Text → List Nat → Option (List Nat)
  | [], dq => some dq
  | con :: rest, dq =>
    match con with
    | '!' :: x => constrain c rest (disqualifyProviders c x dq)
    | _ =>
      let p := parseConstraint con
      if p.dep = .any then constrain c rest dq
      else if !hasName c.u p.name then constrain c rest dq
      else match pv p.version with
        | none => none
        | some req =>
          let dq' := (c.nm p.name).foldl (fun d prov =>
            if prov.name = p.name then
              match pv prov.version with
              | none => dqAdd d prov.id
              | some act => if !p.dep.satisfies act req then dqAdd d prov.id else d
            else
              prov.provides.foldl (fun d' pr =>
                let pp := parseConstraint pr
                if pp.name != p.name then d'
                else match pv pp.version with
                  | none => dqAdd d' prov.id
                  | some act => if !p.dep.satisfies act req then dqAdd d' prov.id else d') d) dq
          constrain c rest dq'

/-- `conflictingVersion`; `none` = the Go code would panic (unreachable through nameMap) -/
def conflictingVersion (con : Constraint) (conflict : Pkg) : Option Bool :=
  if !con.version.isEmpty then some true
  else if conflict.name = con.name then some (conflict.version != con.version)
  else
    match conflict.provides.find? (fun pr => provName pr = con.name) with
    | some pr => some ((parseConstraint pr).version != con.version)
    | none => none

/-- `disqualifyConflicts`; `none` = panic -/
def disqualifyConflicts (c : Cfg) (pkg : Pkg) (dq : List Nat) : Option (List Nat) :=
  pkg.provides.foldlM (fun d prov =>
    let con := parseConstraint prov
    if !hasName c.u con.name then some d else
    (c.nm con.name).foldlM (fun d' conflict =>
      if conflict.id = pkg.id then some d'
      else if d'.contains conflict.id then some d'
      else match conflictingVersion con conflict with
        | none => none
        | some false => some d'
        | some true => some (dqAdd d' conflict.id)) d) dq

/-- `pick`; `none` = error -/
def pick (pkg : Pkg) (sel : List (Text × Pkg)) : Option (List (Text × Pkg)) :=
  match lookupT sel pkg.name with
  | some conflict => if conflict.id = pkg.id then some sel else none
  | none =>
    let sel1 := setT sel pkg.name pkg
    pkg.provides.foldlM (fun s prov =>
      let con := parseConstraint prov
      match lookupT s con.name with
      | some _ => none
      | none => if con.version.isEmpty then some s else some (setT s con.name pkg)) sel1

/-- `resolvePackage` / `ResolvePackage` share the candidate filter -/
def candidates (c : Cfg) (pkgName : Text) (dq : List Nat) : Option (List Pkg) :=
  let con := parseConstraint pkgName
  if !hasName c.u con.name then none else
  let l := filterPackages (c.nm con.name) dq con.version con.dep [] con.pin none
  if l.isEmpty then none else some l

def resolvePackage (c : Cfg) (pkgName : Text) (dq : List Nat) : Option Pkg :=
  match candidates c pkgName dq with
  | none => none
  | some l =>
    let con := parseConstraint pkgName
    minFunc (comparePackages c.bothBad con.name con.pin [] []) l

/-- `nextPackage`: the entry with the fewest candidates, first wins ties; `none` = error -/
def nextPackage (c : Cfg) (packages : List Text) (dq : List Nat) : Option Text :=
  let rec go : List Text → Option (Text × Nat) → Option (Option (Text × Nat))
    | [], best => some best
    | p :: ps, best =>
      match candidates c p dq with
      | none => none
      | some l =>
        match best with
        | none => go ps (some (p, l.length))
        | some (b, n) =>
          -- `next == ""` also restarts the choice (an empty package string)
          if b.isEmpty then go ps (some (p, l.length))
          else if l.length < n then go ps (some (p, l.length)) else go ps (some (b, n))
  match go packages none with
  | none => none
  | some none => some []
  | some (some (b, _)) => some b

/-! ### Spec predicate `sat` (also used by the ghost flags below) -/

/-- does `p` satisfy constraint string `dep` — by name or by a provided name, honouring the operator -/
def sat (p : Pkg) (dep : Text) : Bool :=
  let con := parseConstraint dep
  let versionOk (v : Text) : Bool :=
    con.version.isEmpty || con.dep = .any ||
      (match pv v, pv con.version with
       | some a, some r => con.dep.satisfies a r
       | _, _ => false)
  (p.name = con.name && versionOk p.version) ||
  p.provides.any fun pr =>
    let pp := parseConstraint pr
    pp.name = con.name && (con.version.isEmpty || con.dep = .any || (!pp.version.isEmpty && versionOk pp.version))

def isConflict (dep : Text) : Bool := match dep with | '!' :: _ => true | _ => false

/-! ### getPackageDependencies -/

structure DepSt where
  st : St
  existing : List (Text × Pkg)
  origins : List Text
deriving Inhabited

inductive Opt where
  | skip                               -- nothing to solve for this dependency
  | skipF (flag : String)              -- skipped through a shortcut that does not establish `sat` (ghost flag)
  | conflict (name : Text)             -- `!name`
  | options (dep : Text) (pkgs : List Pkg)
  | fail

/-- what one dependency string contributes in one pass of the loop -/
def depOption (c : Cfg) (pkg : Pkg) (allowPin : Text) (ds : DepSt) (dep : Text) : Opt :=
  match dep with
  | '!' :: x => .conflict x
  | _ =>
    let con := parseConstraint dep
    let name := con.name
    let myProvides (k : Text) : Bool := pkg.provides.any fun pr => pr = k || provName pr = k
    if myProvides name || myProvides dep then (if sat pkg dep then .skip else .skipF "F02c") else
    let selfOk : Bool :=
      pkg.name = name &&
      (match pv pkg.version with
       | none => false
       | some act =>
         if con.dep = .any then true
         else match pv con.version with
           | none => false
           | some req => con.dep.satisfies act req)
    if selfOk then .skip else
    match lookupT ds.st.selected name with
    | some picked =>
      if con.version.isEmpty then .skip else
      match pv picked.version, pv con.version with
      | some act, some req =>
        -- provides of the picked package, in order; a versioned provide of that name that fails
        -- to parse is an error, the first satisfying one ends the scan
        let rec scan : List Text → Option Bool
          | [] => some false
          | pr :: rest =>
            let p := parseConstraint pr
            if p.name != name then scan rest
            else if p.version.isEmpty then scan rest
            else match pv p.version with
              | none => none
              | some prover => if p.dep.satisfies prover req then some true else scan rest
        match scan picked.provides with
        | none => .fail
        | some true => if sat picked dep then .skip else .skipF "F02d"
        | some false =>
          if con.dep.satisfies act req then (if sat picked dep then .skip else .skipF "F02d") else .fail
      | _, _ => .fail
    | none =>
      if !hasName c.u name then .fail else
      let pkgs := filterPackages (c.nm name) ds.st.dq con.version con.dep allowPin []
        (lookupT ds.existing name)
      if pkgs.isEmpty then .fail else .options dep pkgs

/-- fewest options, ties broken by the smaller key -/
def lowestOption : List (Text × List Pkg) → Option (Text × List Pkg)
  | [] => none
  | x :: xs => some (xs.foldl (fun m y =>
      if y.2.length < m.2.length then y
      else if y.2.length = m.2.length && y.1 < m.1 then y else m) x)

structure DepOut where
  deps : List Pkg
  conflicts : List Text
  ds : DepSt

/-- the `for len(constraints) != 0` loop; `rec` is the recursive call into the chosen package -/
def depLoop (c : Cfg) (rec : Pkg → List (Text × Nat) → DepSt → Res DepOut) (pkg : Pkg) (allowPin : Text)
    (parents : List (Text × Nat)) : Nat → List Text → DepOut → Res DepOut
  | 0, _, _ => .outOfFuel
  | fuel + 1, constraints, acc =>
    if constraints.isEmpty then .ok acc else
    -- one pass
    let step (s : Option (List (Text × List Pkg) × List Text × List String)) (dep : Text) :=
      match s with
      | none => none
      | some (opts, confs, fl) =>
        match depOption c pkg allowPin acc.ds dep with
        | .skip => some (opts, confs, fl)
        | .skipF f => some (opts, confs, fl ++ [f])
        | .conflict x => some (opts, confs ++ [x], fl)
        | .fail => none
        | .options d pkgs => some (setT opts d pkgs, confs, fl)
    match constraints.foldl step (some ([], acc.conflicts, [])) with
    | none => .err
    | some (opts, confs, fl) =>
      let acc := { acc with ds := { acc.ds with st := fl.foldl St.flag acc.ds.st } }
      match lowestOption opts with
      | none => .ok { acc with conflicts := confs }
      | some (lowest, pkgs) =>
        let name := (parseConstraint lowest).name
        let rest := (opts.map (·.1)).filter (· != lowest)
        match minFunc (comparePackages c.bothBad name [] acc.ds.existing acc.ds.origins) pkgs with
        | none => .err
        | some best =>
          match disqualifyConflicts c best acc.ds.st.dq with
          | none => .err
          | some dq1 =>
            match pick pkg acc.ds.st.selected with
            | none => .err
            | some sel1 =>
              let ds1 : DepSt := { acc.ds with st := { acc.ds.st with dq := dq1, selected := sel1 } }
              match rec best (parents ++ [(pkg.name, pkg.id)]) ds1 with
              | .err => .err
              | .outOfFuel => .outOfFuel
              | .ok sub =>
                let ex := sub.deps.foldl (fun e d => setT e d.name d) sub.ds.existing
                let og := sub.deps.foldl (fun o d => if o.contains d.origin then o else o ++ [d.origin])
                  sub.ds.origins
                depLoop c rec pkg allowPin parents fuel rest
                  { deps := acc.deps ++ sub.deps ++ [best],
                    conflicts := confs ++ sub.conflicts,
                    ds := { st := sub.ds.st, existing := ex, origins := og } }

def getDeps (c : Cfg) : Nat → Pkg → Text → List (Text × Nat) → DepSt → Res DepOut
  | 0, _, _, _, _ => .outOfFuel
  | fuel + 1, pkg, allowPin, parents, ds =>
    -- the cycle guard is by *name*: a different version of an ancestor is skipped too (ghost F02e)
    if parents.any (·.1 = pkg.name) then
      .ok ⟨[], [], if parents.any (fun a => a.1 = pkg.name && a.2 != pkg.id)
                   then { ds with st := ds.st.flag "F02e" } else ds⟩ else
    match constrain c pkg.deps ds.st.dq with
    | none => .err
    | some dq1 =>
      let ds1 : DepSt := { ds with st := { ds.st with dq := dq1 } }
      depLoop c (fun p ps d => getDeps c fuel p allowPin ps d) pkg allowPin parents
        (pkg.deps.length + 1) pkg.deps ⟨[], [], ds1⟩

/-! ### GetPackageWithDependencies -/

def dedupByName (l : List Pkg) : List Pkg :=
  l.foldl (fun acc p => if acc.any (·.name = p.name) then acc else acc ++ [p]) []

/-- ghost: does de-duplication by name drop a package while keeping a *different* one of that name? -/
def dedupDropsOther (kept : List Pkg) (l : List Pkg) : Bool :=
  (l.foldl (fun (st : List Pkg × Bool) p =>
    match st.1.find? (·.name = p.name) with
    | some q => (st.1, st.2 || q.id != p.id)
    | none => (st.1 ++ [p], st.2)) (kept, false)).2

/-- is the install_if package `ip` triggered by the packages in `added`? -/
def installIfMatches (added : List Pkg) (ip : Pkg) : Bool :=
  ip.installIf.all fun sub =>
    let con := parseConstraint sub
    added.any (fun a => a.name = sub) || added.any (fun a => a.name = con.name && a.version = con.version)

/-- scan one trigger `dep` (a member of `added`) -/
def installIfStep (c : Cfg) (deps : List Pkg) (dep : Pkg) : List Pkg :=
  let l1 := installIfMap c.u dep.name
  let l := if !l1.isEmpty then l1 else installIfMap c.u (dep.name ++ ['='] ++ dep.version)
  l.foldl (fun acc ip =>
    if installIfMatches acc ip && !acc.any (·.name = ip.name) then acc ++ [ip] else acc) deps

/-- repaired code: index loop over the growing slice -/
def installIfFixedLoop (c : Cfg) : Nat → Nat → List Pkg → List Pkg
  | 0, _, deps => deps
  | fuel + 1, i, deps =>
    match deps[i]? with
    | none => deps
    | some d => installIfFixedLoop c fuel (i + 1) (installIfStep c deps d)

/-- pinned code: `for dep, depPkg := range added` in map order (entries inserted during the range
may or may not be visited — `addedOrder` chooses the visiting order of the *initial* entries; the
model does not visit entries added during the loop) -/
def installIfMapLoop (c : Cfg) (deps : List Pkg) : List Pkg :=
  let names := c.addedOrder (deps.map (·.name))
  names.foldl (fun acc n =>
    match deps.find? (·.name = n) with
    | some d => installIfStep c acc d
    | none => acc) deps

structure WithDeps where
  pkg : Pkg
  deps : List Pkg
  conflicts : List Text
  st : St

def getPackageWithDependencies (c : Cfg) (fuel : Nat) (pkgName : Text)
    (existing : List (Text × Pkg)) (st : St) : Res WithDeps :=
  let origins := existing.foldl (fun o e =>
    if !e.2.origin.isEmpty && !o.contains e.2.origin then o ++ [e.2.origin] else o) []
  match resolvePackage c pkgName st.dq with
  | none => .err
  | some pkg =>
    let pin := (parseConstraint pkgName).pin
    match getDeps c fuel pkg pin [] ⟨st, existing, origins⟩ with
    | .err => .err
    | .outOfFuel => .outOfFuel
    | .ok out =>
      let deps := dedupByName out.deps
      let deps' := if c.installIfFixed then installIfFixedLoop c (c.u.all.length + deps.length + 1) 0 deps
                   else installIfMapLoop c deps
      let st1 := if dedupDropsOther [] out.deps then out.ds.st.flag "F02a" else out.ds.st
      let st2 := if deps'.length != deps.length then st1.flag "F02b" else st1
      .ok ⟨pkg, deps', out.conflicts, st2⟩

/-! ### GetPackagesWithDependencies -/

/-- the first loop: pick the best candidate for every world entry, fewest candidates first -/
def worldLoop (c : Cfg) : Nat → List Text → List (Text × Pkg) → List Nat →
    Res (List (Text × Pkg) × List Nat)
  | 0, _, _, _ => .outOfFuel
  | fuel + 1, constraints, depMap, dq =>
    if constraints.isEmpty then .ok (depMap, dq) else
    match nextPackage c constraints dq with
    | none => .err
    | some next =>
      match resolvePackage c next dq with
      | none => .err
      | some pkg =>
        match disqualifyConflicts c pkg dq with
        | none => .err
        | some dq1 =>
          let rest := constraints.filter (· != next)
          -- `next == ""` can only be returned for an all-empty list, which then fails to resolve
          worldLoop c fuel rest (setT depMap pkg.name pkg) dq1

structure Resolution where
  install : List Pkg
  conflicts : List Text
  flags : List String := []            -- ghost, see `St.flags`
deriving Inhabited

def fuelFor (u : Universe) : Nat := u.all.length + 3

def resolve (c : Cfg) (world : List Text) (dq0 : List Nat) : Res Resolution :=
  match constrain c world dq0 with
  | none => .err
  | some dq1 =>
    match worldLoop c (world.length + 1) world [] dq1 with
    | .err => .err
    | .outOfFuel => .outOfFuel
    | .ok (depMap, dq2) =>
      let rec go : List Text → List (Text × Pkg) → St → List Pkg → List Text → Res Resolution
        | [], _, st, inst, confs => .ok ⟨inst, dedup confs, st.flags⟩
        | w :: ws, depMap, st, inst, confs =>
          match getPackageWithDependencies c (fuelFor c.u) w depMap st with
          | .err => .err
          | .outOfFuel => .outOfFuel
          | .ok r =>
            let addAll := (r.deps ++ [r.pkg])
            let inst' := addAll.foldl (fun acc p =>
              if acc.any (·.name = p.name) then acc else acc ++ [p]) inst
            let depMap' := addAll.foldl (fun m p =>
              if (lookupT m p.name).isSome then m else m ++ [(p.name, p)]) depMap
            let st' := if dedupDropsOther inst addAll then r.st.flag "F02a" else r.st
            go ws depMap' st' inst' (confs ++ r.conflicts)
      go world depMap ⟨dq2, [], []⟩ [] []

/-! ### disqualifyDifference (C14) -/

/-- packages of `self` (name, version) that are missing from some *other* architecture -/
def disqualifyDifference (archs : List (Text × Universe)) (self : Text) : List Nat :=
  if archs.length = 1 then [] else
  match lookupT archs self with
  | none => []
  | some u =>
    (u.all.filter fun p =>
      archs.any fun (a, other) =>
        a != self && !(other.all.any fun q => q.name = p.name && q.version = p.version)).map (·.id)

/-! ### Spec: what C02 demands of a successful resolution -/

/-- first violated clause of `Valid`, if any: ("world"|"dep"|"dup"|"foreign", package name, dep) -/
def firstInvalid (u : Universe) (world : List Text) (s : List Pkg) : Option (String × Pkg × Text) :=
  match world.find? (fun w => !isConflict w && !s.any (fun p => sat p w)) with
  | some w => some ("world", default, w)
  | none =>
    match s.findSome? (fun p => (p.deps.find? (fun d => !isConflict d && !s.any (fun q => sat q d))).map (fun d => (p, d))) with
    | some (p, d) => some ("dep", p, d)
    | none =>
      let rec dup : List Pkg → Option Pkg
        | [] => none
        | p :: ps => if ps.any (·.name = p.name) then some p else dup ps
      match dup s with
      | some p => some ("dup", p, [])
      | none =>
        match s.find? (fun p => !u.all.any (fun q => q.id = p.id && q.name = p.name && q.version = p.version)) with
        | some p => some ("foreign", p, [])
        | none => none

def validB (u : Universe) (world : List Text) (s : List Pkg) : Bool := (firstInvalid u world s).isNone

end Resolver
end Apko
