/-
C04, end-to-end layer — how repository indexes reach `parseRepositoryIndex` in a build / lock /
package-list operation, and with which keys and options.

Modelled Go (all in /repo):
* `build.New` (pkg/build/build.go): the apk options it appends (`plumb`);
* `apk.New` / `APK.GetRepositoryIndexes` (pkg/apk/apk/implementation.go, repo.go): keys are the files of
  the APK's own /etc/apk/keys, `noSignatureIndexes` are the APK's own, `ignoreSignatures` is the
  argument of the call;
* `APK.ResolveWorld`: the APK's own indexes, then the indexes of every `ByArch` sibling, each fetched
  through the *sibling's* `GetRepositoryIndexes` with the *reader's* `ignoreSignatures`
  (`resolveLoad`); any rejected / unreachable index fails the resolution, a missing local index file is
  skipped;
* `indexCache.get` (index.go): the process-wide memo of parsed indexes (`Memo`), keyed by index URL +
  ETag (remote) or path + mtime (local) — and, since the repair of F04b, by what the verdict of
  `parseRepositoryIndex` depends on besides the bytes (`Mode`: verification off, or on with this key set).
  `Keying.legacy` is the code before the repair (URL + token only);
* the cache transport (cache.go `cacheTransport.fetchAndCache`, `fetchOffline`): a downloaded APKINDEX is
  stored in the cache directory under its ETag *before* it is parsed; a stored file is served instead of
  a download when the ETag matches; offline mode serves the newest stored file of the index' directory
  (`CacheDir`, `probe`, `get`).

History: a scenario is a list of `Run`s that share the cache directory; runs of the same process also
share the memo.  Every index read of the whole history is appended to `State.log` with the keys and
options it was parsed (or remembered) under; the theorems in Proofs/C04Glue are about that log.

Not modelled: the resolver (C02/C14), package download, the HTTP/TLS layer, file-system timestamps (a
token per file version stands for the mtime; the harness makes mtimes strictly increasing).
-/
import Apko.Model.IndexSig

namespace Apko.IndexSig.Glue
open Apko Apko.IndexSig

/-! ## the objects `build.New` / `apk.New` create -/

/-- the fields of an `apk.APK` that matter here -/
structure Apk where
  arch : Text
  repos : List Text
  keys : Keys
  ignore : Bool
  noSig : List Text
  deriving Repr

/-- the user-facing options of a build (`pkg/options.Options` + the image configuration) -/
structure BuildOpts where
  ignoreSignatures : Bool
  keyring : Keys
  repos : List Text
  /-- `APKIndexPath()` of the base image, if one is configured (the only source of `WithNoSignatureIndexes`) -/
  baseIndex : Option Text
  deriving Repr

/-- `build.New`: `apk.WithIgnoreIndexSignatures(bc.o.IgnoreSignatures)`, nothing else touches the switch;
`apk.WithNoSignatureIndexes(bc.baseimg.APKIndexPath())` only with a base image -/
def plumb (o : BuildOpts) (arch : Text) : Apk :=
  { arch := arch
    repos := o.repos ++ (match o.baseIndex with | some p => [p] | none => [])
    keys := o.keyring
    ignore := o.ignoreSignatures
    noSig := match o.baseIndex with | some p => [p] | none => [] }

/-- options of one `GetRepositoryIndexes` call: `otherAPK.GetRepositoryIndexes(ctx, a.ignoreSignatures)` →
`WithIgnoreSignatures(ignoreSignatures)`, `WithIgnoreSignatureForIndexes(otherAPK.noSignatureIndexes...)` -/
def readOpts (reader owner : Apk) : Opts := ⟨reader.ignore, owner.noSig⟩

/-! ## where the bytes come from -/

def isRemote (url : Text) : Bool :=
  "https://".toList.isPrefixOf url || "http://".toList.isPrefixOf url

/-- the world during one run -/
structure Net where
  /-- `--offline` (only meaningful with a cache directory) -/
  offline : Bool
  /-- a cache directory is configured -/
  cacheOn : Bool
  /-- local repositories: index URL ↦ (version token standing for the mtime, content); `none` = no such file -/
  file : Text → Option (Text × Bytes)
  /-- remote repositories: index URL ↦ (ETag of the HEAD answer if any, body of a GET); `none` = not 200 -/
  remote : Text → Option (Option Text × Bytes)

/-- one `APKINDEX/<etag>.tar.gz` of the cache directory -/
structure Stored where
  url : Text
  etag : Text
  body : Bytes
  deriving Repr

/-- the index files of the cache directory, oldest first (offline mode serves the newest by mtime) -/
abbrev CacheDir := List Stored

inductive Probe
  | absent                      -- local index file does not exist (skipped with a warning)
  | fail                        -- HEAD not 200
  | found (tok : Option Text)   -- token under which the parsed index is remembered (`none`: not remembered)
  deriving Repr

/-- HEAD (through the cache transport) / `os.Stat` -/
def probe (n : Net) (cd : CacheDir) (url : Text) : Probe :=
  if isRemote url then
    if n.offline then
      -- nothing was ever stored for this index: the listing error is an `fs.ErrNotExist`; since the repair of
      -- F19f `GetRepositoryIndexes` skips only LOCAL repositories on that error, so the read fails
      -- (before the repair the repository was skipped with a warning, like a missing local index)
      if cd.any (fun s => s.url == url) then .found none else .fail
    else
      match n.remote url with
      | none => .fail
      | some (e, _) => .found e
  else
    match n.file url with
    | none => .absent
    | some (tok, _) => .found (some tok)

/-- GET (through the cache transport) / `os.ReadFile`: the bytes handed to `parseRepositoryIndex`, and the
cache directory afterwards.  A download is stored *before* anybody has verified it. -/
def get (n : Net) (cd : CacheDir) (url : Text) (tok : Option Text) : Option Bytes × CacheDir :=
  if isRemote url then
    if n.offline then
      (((cd.filter (fun s => s.url == url)).getLast?).map (·.body), cd)
    else
      match n.remote url with
      | none => (none, cd)
      | some (_, b) =>
        match tok with
        | none => (some b, cd)
        | some e =>
          if n.cacheOn then
            match cd.find? (fun s => s.url == url && s.etag == e) with
            | some s => (some s.body, cd)
            | none => (some b, cd ++ [⟨url, e, b⟩])
          else (some b, cd)
  else
    ((n.file url).map (·.2), cd)

/-! ## the process-wide memo of parsed indexes -/

/-- everything the verdict of `parseRepositoryIndex` depends on besides the bytes -/
inductive Mode
  | off                 -- `shouldCheckSignatureForIndex` = false
  | on (keys : Keys)    -- verification on, with this key set
  deriving DecidableEq, Repr

def modeOf (keys : Keys) (o : Opts) (url arch : Text) : Mode :=
  if checkOn o url arch then .on keys else .off

inductive Keying
  | legacy    -- before the repair: URL + token
  | byMode    -- now: URL + token + mode
  deriving DecidableEq, Repr

/-- the keying of the code as it is now (tied to the key expressions of `indexCache.get` in Proofs/C04Glue) -/
def implKeying : Keying := .byMode

structure MemoKey where
  url : Text
  tok : Text
  mode : Option Mode
  deriving DecidableEq, Repr

structure MemoEnt where
  key : MemoKey
  res : Res
  deriving Repr

abbrev Memo := List MemoEnt

def memoKey (K : Keying) (keys : Keys) (o : Opts) (url arch tok : Text) : MemoKey :=
  ⟨url, tok, match K with | .legacy => none | .byMode => some (modeOf keys o url arch)⟩

def Memo.find (m : Memo) (k : MemoKey) : Option Res :=
  match m.find? (fun e => e.key == k) with
  | some e => some e.res
  | none => none

/-- a result under a new token replaces what was remembered for the same URL and mode -/
def Memo.put (m : Memo) (k : MemoKey) (r : Res) : Memo :=
  ⟨k, r⟩ :: m.filter (fun e => !(e.key.url == k.url && e.key.mode == k.mode))

/-! ## one index read -/

inductive Outcome
  | skipped
  | failed
  | res (r : Res)
  deriving DecidableEq, Repr

/-- one read of one index, as logged: what it was parsed (or remembered) under, and what came back -/
structure Event where
  url : Text
  arch : Text
  keys : Keys
  opts : Opts
  out : Outcome
  deriving DecidableEq, Repr

structure State where
  memo : Memo
  cd : CacheDir
  log : List Event

def State.push (st : State) (e : Event) : State := { st with log := st.log ++ [e] }

/-- `globalIndexCache.get(ctx, repoName, repoURL, keys, arch, opts)` for one repository of `owner`, called on
behalf of `reader` -/
def readIndex (K : Keying) (C : Crypto) (R : Codec) (n : Net) (reader owner : Apk) (st : State) (repo : Text) :
    Outcome × State :=
  let url := indexURL repo owner.arch
  let o := readOpts reader owner
  let ev := fun out => (⟨url, owner.arch, owner.keys, o, out⟩ : Event)
  match probe n st.cd url with
  | .absent => (.skipped, st.push (ev .skipped))
  | .fail => (.failed, st.push (ev .failed))
  | .found tok =>
    let key := tok.map (memoKey K owner.keys o url owner.arch)
    match key.bind st.memo.find with
    | some r => (.res r, st.push (ev (.res r)))
    | none =>
      match get n st.cd url tok with
      | (none, cd) => (.failed, { st with cd := cd }.push (ev .failed))
      | (some b, cd) =>
        let r := parseIndex C R owner.keys o url owner.arch b
        let memo := match key with | some k => st.memo.put k r | none => st.memo
        (.res r, { st with memo := memo, cd := cd }.push (ev (.res r)))

def Outcome.loaded : Outcome → Bool
  | .skipped => true
  | .failed => false
  | .res (.ok _) => true
  | .res (.rej _) => false

/-- `GetRepositoryIndexes`: every repository is read (an errgroup without cancellation), the call fails if
any read failed -/
def loadRepos (K : Keying) (C : Crypto) (R : Codec) (n : Net) (reader owner : Apk) : State → List Text → Bool × State
  | st, [] => (true, st)
  | st, r :: rs =>
    let (o, st1) := readIndex K C R n reader owner st r
    let (ok, st2) := loadRepos K C R n reader owner st1 rs
    (o.loaded && ok, st2)

/-- the loop over `a.ByArch`: returns at the first sibling whose indexes do not load -/
def loadSiblings (K : Keying) (C : Crypto) (R : Codec) (n : Net) (reader : Apk) : State → List Apk → Bool × State
  | st, [] => (true, st)
  | st, s :: ss =>
    match loadRepos K C R n reader s st s.repos with
    | (false, st1) => (false, st1)
    | (true, st1) => loadSiblings K C R n reader st1 ss

/-- one `ResolveWorld` call -/
structure Resn where
  reader : Apk
  sibs : List Apk
  deriving Repr

/-- the index-loading part of `APK.ResolveWorld` -/
def resolveLoad (K : Keying) (C : Crypto) (R : Codec) (n : Net) (st : State) (x : Resn) : Bool × State :=
  match loadRepos K C R n x.reader x.reader st x.reader.repos with
  | (false, st1) => (false, st1)
  | (true, st1) => loadSiblings K C R n x.reader st1 x.sibs

/-- an operation: resolutions that either all run (concurrent: `BuildPackageLists`, the two phases of
`BuildCmd`) or run one after the other until the first failure (`LockCmd`) -/
structure Op where
  stop : Bool
  resns : List Resn
  deriving Repr

def runResns (K : Keying) (C : Crypto) (R : Codec) (n : Net) (stop : Bool) : State → List Resn → Bool × State
  | st, [] => (true, st)
  | st, x :: xs =>
    let (ok, st1) := resolveLoad K C R n st x
    if stop && !ok then (false, st1)
    else
      let (ok2, st2) := runResns K C R n stop st1 xs
      (ok && ok2, st2)

structure Run where
  /-- a new process: the memo starts empty -/
  newProcess : Bool
  net : Net
  ops : List Op

def runOps (K : Keying) (C : Crypto) (R : Codec) (n : Net) : State → List Op → List Bool × State
  | st, [] => ([], st)
  | st, op :: ops =>
    let (ok, st1) := runResns K C R n op.stop st op.resns
    let (oks, st2) := runOps K C R n st1 ops
    (ok :: oks, st2)

def runRun (K : Keying) (C : Crypto) (R : Codec) (st : State) (r : Run) : List Bool × State :=
  runOps K C R r.net (if r.newProcess then { st with memo := [] } else st) r.ops

/-- the whole history: per run, per operation, whether every index loaded -/
def runAll (K : Keying) (C : Crypto) (R : Codec) : State → List Run → List (List Bool) × State
  | st, [] => ([], st)
  | st, r :: rs =>
    let (oks, st1) := runRun K C R st r
    let (rest, st2) := runAll K C R st1 rs
    (oks :: rest, st2)

/-! ## Spec -/

/-- an accepted index is *justified*: there are bytes that `Spec.Acceptable` allows to be read as this index
under the keys and options of the read (exempted by the run's own options and parsed as is, or signed by
one of the run's keys over exactly the parsed bytes) -/
def Justified (C : Crypto) (R : Codec) (e : Event) : Prop :=
  ∀ idx, e.out = .res (.ok idx) → ∃ archive, Spec.Acceptable C R e.keys e.opts e.url e.arch archive (.ok idx)

/-! ## tables shared between reads (sequential or in flight at the same time)

`indexCache` hands the result of one read to another read through tables: the map of parsed indexes and the per-key
`sync.Once` (both under `key = u@etag#mode`; a reader that arrives while the first one is still downloading waits on
the `Once` and then loads the first one's result), `urlToEtag` / `modtimes` (under `um = u#mode`).  `Share` is any
such table: a key function and the entries published so far.  A concurrent execution is a sequence of `sharedRead`s in
the order in which the readers reach the table (joining something in flight = a hit on the entry the leader is going
to publish), each reader with the bytes its own download would have returned. -/

/-- what one read brings to a lookup in a shared table -/
structure ReadCtx where
  keys : Keys
  opts : Opts
  url : Text
  arch : Text
  tok : Text
  deriving DecidableEq, Repr

def ReadCtx.mode (c : ReadCtx) : Mode := modeOf c.keys c.opts c.url c.arch

structure Share (κ : Type) where
  kf : ReadCtx → κ
  ents : List (κ × Res)

def Share.find {κ : Type} [DecidableEq κ] (s : Share κ) (c : ReadCtx) : Option Res :=
  match s.ents.find? (fun e => e.1 == s.kf c) with
  | some e => some e.2
  | none => none

def Share.put {κ : Type} (s : Share κ) (c : ReadCtx) (r : Res) : Share κ := { s with ents := (s.kf c, r) :: s.ents }

/-- one read through a shared table: a hit returns what the table holds, a miss parses the reader's bytes under the
reader's own keys and options and publishes the result -/
def sharedRead {κ : Type} [DecidableEq κ] (C : Crypto) (R : Codec) (s : Share κ) (c : ReadCtx) (b : Bytes) : Res × Share κ :=
  match s.find c with
  | some r => (r, s)
  | none =>
    let r := parseIndex C R c.keys c.opts c.url c.arch b
    (r, s.put c r)

def sharedReads {κ : Type} [DecidableEq κ] (C : Crypto) (R : Codec) : Share κ → List (ReadCtx × Bytes) → List (ReadCtx × Res) × Share κ
  | s, [] => ([], s)
  | s, (c, b) :: rest =>
    let (r, s1) := sharedRead C R s c b
    let (rs, s2) := sharedReads C R s1 rest
    ((c, r) :: rs, s2)

/-- the key `u@etag#mode` of `indexes` / `onces` -/
def codeKey (c : ReadCtx) : MemoKey := memoKey implKeying c.keys c.opts c.url c.arch c.tok

/-- the key `u#mode` of `urlToEtag` / `modtimes` -/
def codeUm (c : ReadCtx) : Text × Mode := (c.url, c.mode)

/-- a key that leaves the mode out: the index URL alone (with or without the token) -/
def urlKey (c : ReadCtx) : Text := c.url
def urlTokKey (c : ReadCtx) : Text × Text := (c.url, c.tok)

/-! ## the key set of an APK: the files directly in the keys directory of its root file system -/

/-- a regular file of the root file system: directory, name, content -/
structure RootFile where
  dir : Text
  name : Text
  body : Bytes
  deriving DecidableEq, Repr

/-- `keysDirPath` (const.go; tied in Proofs/C04Share) -/
def keysDirPath : Text := "etc/apk/keys".toList

/-- `APK.GetRepositoryIndexes`: `a.fs.ReadDir(keysDirPath)`; every entry that is not a directory is read and put into
the map under its file name.  Nothing else of the root is looked at: not `usr/share/apk/keys/<arch>`, not
subdirectories of the keys directory, not `etc/apk/keys.d`. -/
def keysOfRoot (root : List RootFile) : Keys :=
  (root.filter (fun f => f.dir == keysDirPath)).map (fun f => (f.name, f.body))

end Apko.IndexSig.Glue
