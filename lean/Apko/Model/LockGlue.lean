/-
Model of the plumbing between `apko lock`, the lock file and `apko build --lockfile`:

* `expandPkg`   – `(*APK).expandPackage`: no package cache → fetch + `ExpandApk` + `verifyExpanded`; with a package
                  cache → in-process memo (`globalApkCache`, answers only the checksum it ran for), then the on-disk
                  entry (`cachedPackage`: sizes by `stat`, control hash = the requested checksum, data hash = the name of
                  the data file, signature section re-read and re-hashed whenever it is there), then fetch;
* `lockPkg`     – the entry `LockCmd` writes for one resolved package (ranges through the expressions regenerated from
                  `LockCmd`, sizes and hashes as `NewAPKResolved` copies them);
* `lockFile`    – `LockCmd` over every architecture's resolved list (`CalculateWorld`: one failure fails the lock);
* `buildFromLock` – the Lockfile branch of `buildImage`: `installablePackagesForArch`, `InstallPackages` (every package
                  expanded, installed in list order, a name that is already installed is skipped), *then the error check*.

The options of a run (`Opts`: package cache on/off, ignore-signatures, transport) and the state it finds (`St`: disk
entries and memo) are explicit; `Proofs/Lemmas/LockGlue.lean` shows that under the cache invariant neither changes
the lock nor the installed set.  `ignoreSignatures` is carried and never read: the tie `tie_ignoreSignaturesReaders`
pins the functions of pkg/apk/apk that read it.

Hashes are outside the model: a file is given by the sizes of its gzip members and their digests.
Core only; linked into the driver.
-/
import Apko.Model.Lock
import Apko.Generated.Lock

namespace Apko.LockGlue
open Apko Apko.Resolver Apko.Lock

/-! ### files, index entries -/

/-- the file behind a URL: sizes of its gzip members (`sig = 0`: no signature member) and their digests in the
spelling of the lock file; `name`/`version`/`arch` are what the control section's .PKGINFO says -/
structure Sections where
  sig : Nat
  ctl : Nat
  dat : Nat
  sigSum : Text      -- "sha1-…" of the signature member
  ctlSum : Text      -- "sha1-…" of the control member
  datSum : Text      -- "sha256-…" of the data member
  q1 : Text          -- "Q1…" of the control member (the apk-style checksum)
  name : Text
  version : Text
  arch : Text
deriving Repr, DecidableEq, Inhabited

/-- what the index (for `apko lock`) or the lock file (for `build --lockfile`) says about a package -/
structure PkgRef where
  name : Text
  version : Text
  arch : Text
  url : Text
  checksum : Text
deriving Repr, DecidableEq, Inhabited

abbrev Repo := Text → Option Sections

/-- the fields of `expandapk.APKExpanded` that `NewAPKResolved` and `packageInfo` read -/
structure Expanded where
  sigSize : Nat
  ctlSize : Nat
  datSize : Nat
  sigSum : Text
  ctlSum : Text
  datSum : Text
  q1 : Text
  name : Text
  version : Text
  arch : Text
deriving Repr, DecidableEq, Inhabited

/-- `ExpandApk` on the fetched bytes (`SignatureHash` stays nil without a signature member) -/
def expandFresh (s : Sections) : Expanded :=
  { sigSize := s.sig, ctlSize := s.ctl, datSize := s.dat,
    sigSum := if s.sig = 0 then [] else s.sigSum, ctlSum := s.ctlSum, datSum := s.datSum,
    q1 := s.q1, name := s.name, version := s.version, arch := s.arch }

/-- fetch + `ExpandApk` + `verifyExpanded` (the control section must have the promised checksum) -/
def fetchVerify (repo : Repo) (p : PkgRef) : Option Expanded :=
  match repo p.url with
  | none => none
  | some s => if s.q1 = p.checksum then some (expandFresh s) else none

/-! ### the package cache -/

/-- one on-disk entry below the cache directory of a URL: `<hex>.ctl.tar.gz`, `<datahash>.dat.tar.gz` and, for a signed
package, `<hex>.sig.tar.gz`; `ctlName` is the checksum the entry is stored under -/
structure DiskEntry where
  ctlName : Text
  ctlSize : Nat
  ctlSum : Text
  datSize : Nat
  datSum : Text
  sigFile : Option (Nat × Text)     -- size and "sha1-…" of the signature file
  name : Text
  version : Text
  arch : Text
deriving Repr, DecidableEq, Inhabited

/-- what `cachePackage` leaves behind for a file -/
def diskEntryOf (s : Sections) : DiskEntry :=
  { ctlName := s.q1, ctlSize := s.ctl, ctlSum := s.ctlSum, datSize := s.dat, datSum := s.datSum,
    sigFile := if s.sig = 0 then none else some (s.sig, s.sigSum),
    name := s.name, version := s.version, arch := s.arch }

/-- `cachedPackage`: the hit reconstruction.  The signature section is loaded whenever its file exists — no option
is consulted. -/
def expandCached (e : DiskEntry) : Expanded :=
  { sigSize := (e.sigFile.map (·.1)).getD 0, ctlSize := e.ctlSize, datSize := e.datSize,
    sigSum := (e.sigFile.map (·.2)).getD [], ctlSum := e.ctlSum, datSum := e.datSum,
    q1 := e.ctlName, name := e.name, version := e.version, arch := e.arch }

inductive CacheMode where
  | off | on
deriving Repr, DecidableEq

structure Opts where
  cache : CacheMode
  ignoreSignatures : Bool
  http : Bool
deriving Repr, DecidableEq

/-- what a run finds: disk entries per URL, and the memo of this process per URL (with the checksum it ran for) -/
structure St where
  disk : List (Text × DiskEntry)
  memo : List (Text × Text × Expanded)
deriving Repr, Inhabited

def St.empty : St := ⟨[], []⟩

def diskHit (st : St) (p : PkgRef) : Option DiskEntry :=
  (st.disk.find? fun e => e.1 = p.url && e.2.ctlName = p.checksum).map (·.2)

def memoHit (st : St) (p : PkgRef) : Option Expanded :=
  (st.memo.find? fun e => e.1 = p.url && e.2.1 = p.checksum).map (·.2.2)

/-- `(*APK).expandPackage` -/
def expandPkg (o : Opts) (st : St) (repo : Repo) (p : PkgRef) : Option Expanded :=
  match o.cache with
  | .off => fetchVerify repo p
  | .on =>
    match memoHit st p with
    | some x => some x
    | none =>
      match diskHit st p with
      | some e => some (expandCached e)
      | none => fetchVerify repo p

/-! ### the lock file -/

structure LockEntry where
  name : Text
  url : Text
  version : Text
  arch : Text
  sigRange : Text
  sigSum : Text
  ctlRange : Text
  ctlSum : Text
  datRange : Text
  datSum : Text
  checksum : Text
deriving Repr, DecidableEq, Inhabited

def intText (i : Int) : Text := (toString i).toList

/-- `fmt.Sprintf("bytes=%d-%d", first, last)` -/
def rangeText (first last : Int) : Text := ['b', 'y', 't', 'e', 's', '='] ++ intText first ++ ['-'] ++ intText last

/-- the entry `LockCmd` appends for one resolved package -/
def lockPkg (p : PkgRef) (x : Expanded) : LockEntry :=
  let sig : Int := x.sigSize
  let ctl : Int := x.ctlSize
  let dat : Int := x.datSize
  { name := p.name, url := p.url, version := p.version, arch := p.arch,
    sigRange := if x.sigSize ≠ 0 then
        rangeText (Generated.signatureFirst sig ctl dat) (Generated.signatureLast sig ctl dat) else [],
    sigSum := if x.sigSize ≠ 0 then x.sigSum else [],
    ctlRange := rangeText (Generated.controlFirst sig ctl dat) (Generated.controlLast sig ctl dat),
    ctlSum := x.ctlSum,
    datRange := rangeText (Generated.dataFirst sig ctl dat) (Generated.dataLast sig ctl dat),
    datSum := x.datSum,
    checksum := p.checksum }

/-- Spec: what the property demands of the entry for a package whose file has sections `s` — the three ranges tile
the file in member order, every checksum is its member's -/
def specEntry (p : PkgRef) (s : Sections) : LockEntry :=
  { name := p.name, url := p.url, version := p.version, arch := p.arch,
    sigRange := if s.sig = 0 then [] else rangeText 0 ((s.sig : Int) - 1),
    sigSum := if s.sig = 0 then [] else s.sigSum,
    ctlRange := rangeText s.sig ((s.sig : Int) + s.ctl - 1),
    ctlSum := s.ctlSum,
    datRange := rangeText ((s.sig : Int) + s.ctl) ((s.sig : Int) + s.ctl + s.dat - 1),
    datSum := s.datSum,
    checksum := s.q1 }

/-- `CalculateWorld` + the loop of `LockCmd` for one architecture's resolved list: one failing expansion fails the lock -/
def lockArch (o : Opts) (st : St) (repo : Repo) : List PkgRef → Option (List LockEntry)
  | [] => some []
  | p :: rest =>
    match expandPkg o st repo p, lockArch o st repo rest with
    | some x, some l => some (lockPkg p x :: l)
    | _, _ => none

/-- `LockCmd`: the architectures in order, their entries appended -/
def lockFile (o : Opts) (st : St) (repo : Repo) : List (List PkgRef) → Option (List LockEntry)
  | [] => some []
  | a :: rest =>
    match lockArch o st repo a, lockFile o st repo rest with
    | some l, some r => some (l ++ r)
    | _, _ => none

/-- class F09k: the run uses a package cache, and for some locked package the disk entry it hits was made from a file
with the same control section but another signature section than the file at the URL now (no memo entry in the way) -/
def staleSignature (o : Opts) (st : St) (repo : Repo) (ps : List PkgRef) : Bool :=
  o.cache = .on && ps.any fun p =>
    (memoHit st p).isNone &&
    match diskHit st p, repo p.url with
    | some e, some s => e.sigFile != (diskEntryOf s).sigFile
    | _, _ => false

/-! ### building from a lock -/

structure Installed where
  name : Text
  version : Text
  arch : Text
  checksum : Text
  size : Nat
deriving Repr, DecidableEq, Inhabited

def refOfEntry (e : LockEntry) : PkgRef := ⟨e.name, e.version, e.arch, e.url, e.checksum⟩

/-- `packageInfo`: the installed record comes from the expanded package (its .PKGINFO, control hash, total size) -/
def installedOf (x : Expanded) : Installed := ⟨x.name, x.version, x.arch, x.q1, x.sigSize + x.ctlSize + x.datSize⟩

/-- the installer goroutine of `InstallPackages`: in list order, `expansion of … failed` ends it with an error, a
name that is already installed is skipped -/
def installSeq (o : Opts) (st : St) (repo : Repo) : List PkgRef → List Installed → Option (List Installed)
  | [], db => some db
  | p :: rest, db =>
    match expandPkg o st repo p with
    | none => none
    | some x =>
      if db.any (·.name = p.name) then installSeq o st repo rest db
      else installSeq o st repo rest (db ++ [installedOf x])

/-- the expansion goroutines of `InstallPackages`: every listed package is expanded, whatever the installer does -/
def expandAll (o : Opts) (st : St) (repo : Repo) (l : List PkgRef) : Bool :=
  l.all fun p => (expandPkg o st repo p).isSome

/-- `InstallPackages`: `g.Wait()` returns the first error of any goroutine -/
def installPackages (o : Opts) (st : St) (repo : Repo) (l : List PkgRef) : Option (List Installed) :=
  if expandAll o st repo l then installSeq o st repo l [] else none

/-- the Lockfile branch of `buildImage` for one architecture; `none` = the build fails.
`installablePackagesForArch` → `InstallPackages` → `if err != nil { return nil, … }` (tie `tie_lockBranch`). -/
def buildFromLock (o : Opts) (st : St) (repo : Repo) (lock : List LockEntry) (arch : Text) : Option (List Installed) :=
  let mine := lock.filter (·.arch = arch)
  if mine.any (·.checksum.isEmpty) then none          -- "locked package … has missing checksum"
  else
    match installPackages o st repo (mine.map refOfEntry) with
    | none => none                                      -- "failed installation from lockfile …"
    | some db => some db

/-- `apko build --lockfile` over several architectures: one failing architecture fails the command -/
def buildAll (o : Opts) (st : St) (repo : Repo) (lock : List LockEntry) : List Text → Option (List (Text × List Installed))
  | [] => some []
  | a :: rest =>
    match buildFromLock o st repo lock a, buildAll o st repo lock rest with
    | some db, some r => some ((a, db) :: r)
    | _, _ => none

/-- Spec of `build --lockfile`: the build fails, or the image of every architecture lists exactly what the lock lists
for it, in order, under the locked checksums -/
def exactFor (lock : List LockEntry) (arch : Text) (db : List Installed) : Bool :=
  db.map (fun i => (i.name, i.version, i.checksum)) =
    (lock.filter (·.arch = arch)).map fun e => (e.name, e.version, e.checksum)

end Apko.LockGlue
