/-
Model of pkg/apk/apk/version.go: ParseVersion, CompareVersions, includesVersion,
versionDependency.satisfies, ParsedConstraint.SatisfiedBy, ResolvePackageNameVersionPin.

Core only (no Mathlib): this file is linked into the driver executable.

The rank tables and operator table come from `Apko.Generated.Version`, which the extractor
rewrites from /repo on every run; theorems about them are therefore about what the code
says now.
-/
import Apko.Model.Text
import Apko.Generated.Version

namespace Apko

structure Version where
  numbers : List Nat
  letter  : Nat      -- 0 = absent, else the byte
  pre     : Nat      -- raw constant (packageVersionPreModifier*)
  preNum  : Nat
  post    : Nat      -- raw constant (packageVersionPostModifier*)
  postNum : Nat
  rev     : Nat
deriving DecidableEq, Repr, Inhabited

/-! ### comparison -/

/-- the loop over the common prefix followed by the two length tests -/
def cmpNums : List Nat → List Nat → Ordering
  | [], [] => .eq
  | [], _ :: _ => .lt
  | _ :: _, [] => .gt
  | a :: as, b :: bs => (compare a b).then (cmpNums as bs)

/-- `if x == None { x = Max }` -/
def preRank (p : Nat) : Nat := if p = Generated.preNone then Generated.preMax else p

def compareVersions (a b : Version) : Ordering :=
  (cmpNums a.numbers b.numbers).then <|
  (compare a.letter b.letter).then <|
  (compare (preRank a.pre) (preRank b.pre)).then <|
  (compare a.preNum b.preNum).then <|
  (compare a.post b.post).then <|
  (compare a.postNum b.postNum).then <|
  (compare a.rev b.rev)

/-- the apk scheme spelled as one lexicographic key -/
def Version.key (v : Version) : List Nat :=
  v.numbers.map (· + 1) ++ [0, v.letter, preRank v.pre, v.preNum, v.post, v.postNum, v.rev]

/-- `includesVersion` -/
def numsPrefix : List Nat → List Nat → Bool      -- required is a prefix of actual
  | [], _ => true
  | _ :: _, [] => false
  | r :: rs, a :: as => r == a && numsPrefix rs as

def includesVersion (actual required : Version) : Bool :=
  if actual.numbers.length < required.numbers.length then false
  else if !numsPrefix required.numbers actual.numbers then false
  else if actual.numbers.length > required.numbers.length then true
  else if required.letter != 0 && actual.letter != required.letter then false
  else if required.pre != Generated.preNone && actual.pre != required.pre then false
  else if required.preNum != 0 && actual.preNum != required.preNum then false
  else if required.post != Generated.postNone && actual.post != required.post then false
  else if required.postNum != 0 && actual.postNum != required.postNum then false
  else if required.rev != 0 && actual.rev != required.rev then false
  else true

inductive Dep | any | eq | gt | lt | ge | le | tilde
deriving DecidableEq, Repr, Inhabited

def Dep.ofName : String → Option Dep
  | "versionAny" => some .any
  | "versionEqual" => some .eq
  | "versionGreater" => some .gt
  | "versionLess" => some .lt
  | "versionGreaterEqual" => some .ge
  | "versionLessEqual" => some .le
  | "versionTilde" => some .tilde
  | _ => none

def Dep.toNat : Dep → Nat
  | .any => 0 | .eq => 1 | .gt => 2 | .lt => 3 | .ge => 4 | .le => 5 | .tilde => 6

def Dep.satisfies (d : Dep) (actual required : Version) : Bool :=
  match d with
  | .tilde => includesVersion actual required
  | .any => true
  | .eq => compareVersions actual required == .eq
  | .gt => compareVersions actual required == .gt
  | .lt => compareVersions actual required == .lt
  | .ge => compareVersions actual required == .gt || compareVersions actual required == .eq
  | .le => compareVersions actual required == .lt || compareVersions actual required == .eq

/-! ### parsing -/

def spanDigits : Text → Text × Text
  | [] => ([], [])
  | c :: cs => if isDigit c then let (d, r) := spanDigits cs; (c :: d, r) else ([], c :: cs)

/-- `(\.[0-9]+)*` : returns the further components and the rest; a dot that is not followed
by a digit is left in the rest (the caller then fails on it). -/
def parseDotNums : Nat → Text → List Text × Text
  | 0, s => ([], s)
  | fuel + 1, '.' :: c :: cs =>
    if isDigit c then
      let (d, r) := spanDigits (c :: cs)
      let (more, r') := parseDotNums fuel r
      (d :: more, r')
    else ([], '.' :: c :: cs)
  | _ + 1, s => ([], s)

/-- try the tokens of a generated switch table in order; `""` entries are skipped -/
def matchToken : List (String × Nat) → Text → Option (Nat × Text)
  | [], _ => none
  | (tok, val) :: rest, s =>
    if tok = "" then matchToken rest s
    else match stripPrefix tok.toList s with
      | some r => some (val, r)
      | none => matchToken rest s

structure RawVersion where
  nums : List Text
  letter : Nat
  pre : Nat
  preNum : Text
  post : Nat
  postNum : Text
  rev : Text
deriving Repr

/-- the anchored recogniser for `versionRegex`; `none` = no match -/
def recognise (s : Text) : Option RawVersion :=
  let (d1, r1) := spanDigits s
  if d1.isEmpty then none else
  let (more, r2) := parseDotNums s.length r1
  let (letter, r3) := match r2 with
    | c :: cs => if isLower c then (c.toNat, cs) else (0, r2)
    | [] => (0, r2)
  let (pre, preNum, r4) := match matchToken Generated.preSwitch r3 with
    | some (v, r) => let (d, r') := spanDigits r; (v, d, r')
    | none => (Generated.preNone, [], r3)
  let (post, postNum, r5) := match matchToken Generated.postSwitch r4 with
    | some (v, r) => let (d, r') := spanDigits r; (v, d, r')
    | none => (Generated.postNone, [], r4)
  match r5 with
  | [] => some ⟨d1 :: more, letter, pre, preNum, post, postNum, []⟩
  | '-' :: 'r' :: r6 =>
    let (d, r7) := spanDigits r6
    if d.isEmpty then none
    else if r7.isEmpty then some ⟨d1 :: more, letter, pre, preNum, post, postNum, d⟩
    else none
  | _ => none

def RawVersion.toVersion (r : RawVersion) : Version :=
  ⟨r.nums.map digitsToNat, r.letter, r.pre, digitsToNat r.preNum, r.post,
   digitsToNat r.postNum, digitsToNat r.rev⟩

def RawVersion.fields (r : RawVersion) : List Text := r.nums ++ [r.preNum, r.postNum, r.rev]

/-- what the property demands: every grammar-valid string is a version -/
def Spec.parseVersion (s : Text) : Option Version := (recognise s).map RawVersion.toVersion

def maxInt : Nat := 9223372036854775807

/-- what the code does today: `strconv.Atoi` rejects fields above 2^63-1 -/
def Impl.parseVersion (s : Text) : Option Version :=
  match recognise s with
  | none => none
  | some r => if r.fields.all (fun f => digitsToNat f ≤ maxInt) then some r.toVersion else none

/-! ### constraints (`ResolvePackageNameVersionPin`) -/

structure Constraint where
  name : Text
  version : Text
  dep : Dep
  pin : Text
deriving DecidableEq, Repr, Inhabited

def isNameChar (c : Char) : Bool := !(c = '@' || c = '=' || c = '>' || c = '<' || c = '~')
def isOpChar (c : Char) : Bool := c = '=' || c = '>' || c = '<' || c = '~'

def spanP (p : Char → Bool) : Text → Text × Text
  | [] => ([], [])
  | c :: cs => if p c then let (d, r) := spanP p cs; (c :: d, r) else ([], c :: cs)

def opOf (m : Text) : Dep :=
  match Generated.opSwitch.lookup (String.ofList m) with
  | some n => (Dep.ofName n).getD .any
  | none => .any

/-- `(@([a-zA-Z0-9]+))?$` applied to the text after the version: the whole remainder must be
`@` followed by one or more alphanumerics, or empty. -/
def pinSuffix : Text → Option Text
  | [] => some []
  | '@' :: p => if !p.isEmpty && p.all isAlnum then some p else none
  | _ => none

/-- `^([^@=><~]+)(([=><~]+)([^@]+))?(@([a-zA-Z0-9]+))?$`, Perl priority among full matches
(all full matches of an anchored expression have the same length, so leftmost-longest
decides nothing further): the operator run is as long as possible while leaving at least one
character for the version. -/
def matchPackageName (s : Text) : Option (Text × Text × Text × Text) :=
  let (name, r1) := spanP isNameChar s
  if name.isEmpty then none else
  match r1 with
  | [] => some (name, [], [], [])
  | '@' :: _ =>
    match pinSuffix r1 with
    | some p => some (name, [], [], p)
    | none => none
  | _ =>
    -- r1 starts with an operator character
    let (ops, r2) := spanP isOpChar r1
    -- version = [^@]+ ; the operator run gives back its last character when nothing else is left
    let (ver, r3) := spanP (fun c => c != '@') r2
    if !ver.isEmpty then
      match pinSuffix r3 with
      | some p => some (name, ops, ver, p)
      | none => none
    else
      -- r2 is empty or starts with '@': version must be taken from the tail of the operator run
      match ops.reverse with
      | last :: initRev =>
        if initRev.isEmpty then none
        else match pinSuffix r2 with
          | some p => some (name, initRev.reverse, [last], p)
          | none => none
      | [] => none

def endsWithRelease (v : Text) : Bool :=
  -- `-r\d+$`
  let (dsRev, rest) := spanDigits v.reverse
  !dsRev.isEmpty && (match rest with | 'r' :: '-' :: _ => true | _ => false)

def cut (sep : Char) : Text → Option (Text × Text)
  | [] => none
  | c :: cs => if c = sep then some ([], cs) else (cut sep cs).map fun (a, b) => (c :: a, b)

def soRewrite (s : Text) : Text :=
  match stripPrefix "so:".toList s with
  | none => s
  | some _ =>
    match cut '=' s with
    | some (n, v) => if !endsWithRelease v then n ++ "=0.".toList ++ v else s
    | none => s

def parseConstraint (s0 : Text) : Constraint :=
  let s := soRewrite s0
  match matchPackageName s with
  | none => ⟨s, [], .any, []⟩
  | some (name, ops, ver, pin) =>
    ⟨name, ver, if ops.isEmpty then .any else opOf ops, pin⟩

/-- `ParsedConstraint.SatisfiedBy`: `none` = error (unparsable constraint version) -/
def Constraint.satisfiedBy (parse : Text → Option Version) (c : Constraint) (v : Version) :
    Option Bool :=
  if c.version.isEmpty then some true
  else match parse c.version with
    | none => none
    | some pv => some (c.dep.satisfies v pv)

end Apko

/-! ### Spec: the apk order stated independently of the code's control flow -/
namespace Apko.Spec

open Apko

/-- the apk order: lexicographic order (core `List.lt` on `Nat`) of the keys -/
def compareVersions (a b : Version) : Ordering :=
  if a.key < b.key then .lt else if b.key < a.key then .gt else .eq

def satisfies (d : Dep) (a r : Version) : Bool :=
  match d with
  | .any => true
  | .eq => a.key = r.key
  | .lt => decide (a.key < r.key)
  | .gt => decide (r.key < a.key)
  | .le => !decide (r.key < a.key)
  | .ge => !decide (a.key < r.key)
  | .tilde =>
    r.numbers.isPrefixOf a.numbers &&
      (a.numbers.length != r.numbers.length ||
        ((r.letter = 0 || a.letter = r.letter) &&
         (r.pre = Generated.preNone || a.pre = r.pre) &&
         (r.preNum = 0 || a.preNum = r.preNum) &&
         (r.post = Generated.postNone || a.post = r.post) &&
         (r.postNum = 0 || a.postNum = r.postNum) &&
         (r.rev = 0 || a.rev = r.rev)))

end Apko.Spec
