/-
C05 — which bytes of the fetched stream get hashed, written and installed: the split-and-hash plumbing.

What is modelled (Go, `pkg/apk/expandapk`):
* `ExpandApk`                 the member loop: reader stack `gzip( bufio( Tee( Tee( expandApkReader(source), sw ), h ) ) )`,
                              `sw.Next()` per member, SHA-1 per control-side member, SHA-256 + `checkSums` + tee into
                              `stream-k.tar` for the data section, `gzipStreams` / `hashes` / `sizes`, the 2 / 3 switch,
                              `ControlData()`, `PackageData()`, the two `tarfs.New`                → `iter`, `loop`, `finish`, `expandStream`
* `expandApkWriter.Next`      new file per member; after the FIRST member its file is read back: first tar header
                              `.SIGN.*` → three streams, else two; `errExpandApkWriterMaxStreams`   → `swNext`, `detect`
* `expandApkReader.Read`      one byte per read until `EnableFastRead`                              → `pulled` with `Impl.slowChunk`
* `APKExpanded.PackageData`   the `.tar` next to the `.tar.gz` when it exists, else gunzip of the `.tar.gz` → `packageData`
* `Split`, `ResolveApk`       signature? / control buffered through `teeByteReader`, the rest is the data section → `splitParts`, `resolve`

The stream is a byte list.  Library calls are parameters: `Gz.member` (klauspost gzip: ONE member at the head of a
byte string — how many bytes it occupies, header to trailer, and what it decompresses to; `none` = header / deflate /
CRC error or truncation), `Gz.firstName` / `Gz.untar` / `Gz.pkginfoTar` (archive/tar over decompressed bytes), SHA-1 and
SHA-256 (`Hashes`).  Nothing is assumed about them in the model; the theorems about `ExpandApk` use ONE property of
gzip, `Gz.Local`: a member is recognised from its own bytes (what follows it does not matter) — the first stream file is
read back on its own by `expandApkWriter.Next`.

Read-ahead is explicit.  The gzip reader pulls from its `bufio.Reader`, which pulls from the tee: every byte PULLED goes
to the current stream file and to the current hash, whether or not the decompressor ever consumes it, and
`gzi.Reset` throws the unconsumed rest away.  The source answers reads in chunks of any sizes (`rd`: a function of the
bytes still unread), `expandApkReader` passes on at most `c` bytes of each; a member of `n` bytes costs `pulled c rd n avail`
bytes.  The code reads ONE byte at a time until the data section starts (`Impl.slowChunk = 1`, tied to the source), so
`pulled = n` whatever `rd` is; `read_ahead_hashes_beyond_control` (Proofs/C05Split) shows what any larger value does.  In the data
section the reader is drained to the end of the source (`io.Copy(io.Discard, tr)` until `io.EOF`; the gzip reader is in
multistream mode), so every remaining byte is pulled whatever the read sizes are: they do not appear.
-/
import Apko.Model.Authentic

namespace Apko.ExpandSplit
open Apko Apko.Authentic

structure Hashes where
  sha1 : Bytes → Digest
  sha256 : Bytes → Digest

structure Gz where
  /-- one gzip member at the head: (bytes it occupies, decompressed content) -/
  member : Bytes → Option (Nat × Bytes)
  /-- `tar.NewReader(r).Next()`: name of the first header; `none` = error (also: no header at all) -/
  firstName : Bytes → Option Text
  /-- archive/tar over an uncompressed section: the walk of `checkSums` and of `tarfs.New` -/
  untar : Bytes → Option (List Entry)
  /-- body of `.PKGINFO` in an uncompressed control section -/
  pkginfoTar : Bytes → Option Text

/-- the member at the head, when it is one: it occupies at least one byte and no more than there are -/
def memberAt (G : Gz) (bs : Bytes) : Option (Nat × Bytes) :=
  match G.member bs with
  | some (n, d) => if 0 < n ∧ n ≤ bs.length then some (n, d) else none
  | none => none

/-- a member is recognised from its own bytes -/
def Gz.Local (G : Gz) : Prop :=
  ∀ bs n d, memberAt G bs = some (n, d) → memberAt G (bs.take n) = some (n, d)

/-- a gzip given by a table of members (compressed bytes, decompressed bytes): the member at the head is the first entry
whose compressed bytes the input starts with.  This is how the driver of corr:split instantiates `Gz.member` from the
members the harness built; `tableGz_local` (Proofs/C05Split): every such gzip is `Local`. -/
def tableMember (ms : List (Bytes × Bytes)) (bs : Bytes) : Option (Nat × Bytes) :=
  ms.findSome? fun m => if m.1.isPrefixOf bs then some (m.1.length, m.2) else none

/-- multistream gunzip of everything that is left: members until the end of the input (end of input = clean end) -/
def gunzipRest (G : Gz) : Nat → Bytes → Option Bytes
  | 0, _ => none
  | fuel + 1, bs =>
    if bs = [] then some [] else
    match memberAt G bs with
    | none => none
    | some (n, d) => (gunzipRest G fuel (bs.drop n)).map (d ++ ·)

/-- `gzip.NewReader(f)` + read to the end (multistream is the default): an empty input is an error (`io.EOF`) -/
def gunzipAll (G : Gz) (bs : Bytes) : Option Bytes :=
  if bs = [] then none else gunzipRest G (bs.length + 1) bs

/-- the `Lib` of Model/Authentic that goes with a gzip / tar / hash library -/
def libOf (G : Gz) (H : Hashes) : Lib :=
  { sha1 := H.sha1, sha256 := H.sha256,
    untarData := fun d => (gunzipAll G d).bind G.untar,
    pkginfo := fun c => (gunzipAll G c).bind G.pkginfoTar }

/-- `strings.HasPrefix(hdr.Name, ".SIGN.")` -/
def isSign (n : Text) : Bool := (stripPrefix ".SIGN.".toList n).isSome

inductive SErr where
  | sign      -- `expandApk error 5`: the first stream file does not gunzip / has no first tar header
  | stream    -- gzip header / deflate / CRC / tar / per-file checksum error while reading the source
  | count     -- `invalid number of tar streams`
  | nodata    -- (repaired) the source ended before a data section was read
  | index     -- `ControlData`, `PackageData`, `tarfs.New` on the files written
  deriving DecidableEq, Repr

/-- size of the next read as the buffer of the decompressor sees it before `EnableFastRead`, when `left` bytes of the
source are unread: the source would answer with `rd left` bytes (any chunking of a source is such a function; at least
one byte), `expandApkReader` asks for — and passes on — at most `c` -/
def slowRead (c : Nat) (rd : Nat → Nat) (left : Nat) : Nat := max 1 (min c (rd left))

/-- read until `need` bytes are there (or the source is exhausted); the result is how many bytes were pulled -/
def pullLoop (c : Nat) (rd : Nat → Nat) (need avail : Nat) : Nat → Nat → Nat
  | 0, got => min got avail
  | fuel + 1, got =>
    if need ≤ got ∨ avail ≤ got then min got avail
    else pullLoop c rd need avail fuel (got + slowRead c rd (avail - got))

/-- bytes pulled from the source to let the decompressor consume `need` of them (every read delivers at least one byte,
so `need` reads are enough) -/
def pulled (c : Nat) (rd : Nat → Nat) (need avail : Nat) : Nat := pullLoop c rd need avail need 0

/-- state of the member loop of `ExpandApk` -/
structure St where
  src : Bytes                      -- not yet read from the source
  created : Nat := 0               -- stream files created so far (`sw.streamId + 1`)
  maxStreams : Nat := 2            -- `sw.maxStreams`
  first : Bytes := []              -- content of `stream-0.tar.gz` (read back by the second `Next`)
  streams : List Bytes := []       -- contents of the files in `gzipStreams`, in order
  hashes : List Digest := []       -- `hashes`
  tar : Option Bytes := none       -- content of `stream-k.tar`, written by the data branch only
  checked : Bool := false          -- the data branch ran (SHA-256, `checkSums`)
  deriving DecidableEq, Repr

/-- the second `Next`: `stream-0.tar.gz` is opened, gunzipped, its first tar header read -/
def detect (G : Gz) (first : Bytes) : Option Nat :=
  match memberAt G first with
  | none => none
  | some (_, d) =>
    match G.firstName d with
    | none => none
    | some n => some (if isSign n then 3 else 2)

/-- `sw.Next()`: the current file is closed, (second call) signature detection, a new file is created -/
def swNext (G : Gz) (st : St) : Option St :=
  match (if st.created = 1 then detect G st.first else some st.maxStreams) with
  | none => none
  | some ms => some { st with created := st.created + 1, maxStreams := ms }

/-- `errExpandApkWriterMaxStreams`: `streamId + 1 >= maxStreams` -/
def St.reached (st : St) : Bool := decide (st.maxStreams ≤ st.created)

/-- a control-side member: one-byte reads, `Multistream(false)`, `io.Copy(io.Discard, gzi)`; what was pulled is in
the file and in the SHA-1 -/
def readSlow (H : Hashes) (c : Nat) (rd : Nat → Nat) (st : St) (n : Nat) : St :=
  let got := st.src.take (pulled c rd n st.src.length)
  { st with src := st.src.drop (pulled c rd n st.src.length),
            first := if st.created = 1 then got else st.first,
            streams := st.streams ++ [got],
            hashes := st.hashes ++ [H.sha1 got] }

/-- the data section: fast reads, multistream, `checkSums` over the tee into `stream-k.tar`, drained to the end of the
source; everything that was left is in the file and in the SHA-256 -/
def readData (G : Gz) (H : Hashes) (st : St) : Except SErr St :=
  match gunzipRest G (st.src.length + 1) st.src with
  | none => .error .stream
  | some t =>
    match G.untar t with
    | none => .error .stream
    | some es =>
      if checkSums (libOf G H) es then
        .ok { st with src := [], streams := st.streams ++ [st.src], hashes := st.hashes ++ [H.sha256 st.src],
                      tar := some t, checked := true }
      else .error .stream

/-- one pass of the `for` loop; `true` = the loop is left -/
def iter (G : Gz) (H : Hashes) (c : Nat) (rd : Nat → Nat) (st : St) : Except SErr (St × Bool) :=
  match swNext G st with
  | none => .error .sign
  | some st =>
    if st.src = [] then .ok (st, true)                    -- `err == io.EOF` from `gzip.NewReader` / `gzi.Reset`: break
    else
      match memberAt G st.src with
      | none => .error .stream
      | some (n, _) =>
        if st.reached then
          match readData G H st with
          | .error e => .error e
          | .ok st' => .ok (st', true)
        else .ok (readSlow H c rd st n, false)

def loop (G : Gz) (H : Hashes) (c : Nat) (rd : Nat → Nat) : Nat → St → Except SErr St
  | 0, _ => .error .stream
  | fuel + 1, st =>
    match iter G H c rd st with
    | .error e => .error e
    | .ok (st', true) => .ok st'
    | .ok (st', false) => loop G H c rd fuel st'

/-- `maxStreams ≤ 3`: the fourth pass cannot start -/
def loopFuel : Nat := 4

/-- `APKExpanded` with the content of the files it names -/
structure Out where
  signed : Bool
  sigFile : Option Bytes
  controlFile : Bytes
  packageFile : Bytes
  tarFile : Bytes
  sigHash : Option Digest
  controlHash : Digest
  packageHash : Digest
  sigSize : Nat
  controlSize : Nat
  packageSize : Nat
  size : Nat
  control : Bytes          -- `ControlData()`: what `ControlFS` indexes
  files : List Entry       -- what `TarFS` indexes
  checked : Bool
  deriving DecidableEq, Repr

/-- `PackageData()`: the `.tar` when it is there, else (old caches; an expansion whose loop never reached the data
branch) the gunzip of the `.tar.gz`, written next to it -/
def packageData (G : Gz) (tarFile : Option Bytes) (packageFile : Bytes) : Option Bytes :=
  match tarFile with
  | some t => some t
  | none => gunzipAll G packageFile

def build (G : Gz) (st : St) (sig : Option (Bytes × Digest)) (c d : Bytes) (hc hd : Digest) : Except SErr Out :=
  match gunzipAll G c with
  | none => .error .index
  | some control =>
    if (G.untar control).isNone then .error .index else
    match packageData G st.tar d with
    | none => .error .index
    | some t =>
      match G.untar t with
      | none => .error .index
      | some es =>
        .ok { signed := sig.isSome, sigFile := sig.map (·.1), controlFile := c, packageFile := d, tarFile := t,
              sigHash := sig.map (·.2), controlHash := hc, packageHash := hd,
              sigSize := (sig.map (·.1.length)).getD 0, controlSize := c.length, packageSize := d.length,
              size := (sig.map (·.1.length)).getD 0 + c.length + d.length,
              control := control, files := es, checked := st.checked }

/-- after the loop.  `strict = true` is the repaired code: a source that ended before the data branch ran is refused;
`false` the pinned one: two (three) streams are taken for control and data (signature, control and data) whichever
branch read them. -/
def finish (G : Gz) (strict : Bool) (st : St) : Except SErr Out :=
  match st.streams, st.hashes with
  | [c, d], [hc, hd] => if strict && !st.checked then .error .nodata else build G st none c d hc hd
  | [s, c, d], [hs, hc, hd] => if strict && !st.checked then .error .nodata else build G st (some (s, hs)) c d hc hd
  | _, _ => .error .count

def expandStream (G : Gz) (H : Hashes) (c : Nat) (rd : Nat → Nat) (strict : Bool) (src : Bytes) : Except SErr Out :=
  match loop G H c rd loopFuel { src := src } with
  | .error e => .error e
  | .ok st => finish G strict st

namespace Impl
/-- size of the reads of `expandApkReader` before `EnableFastRead` (tied to `Generated.expandApkReaderBuf`) -/
def slowChunk : Nat := 1
/-- does today's `ExpandApk` refuse a source that ends before the data section? (tied to `Generated.expandApkRequiresData`) -/
def strict : Bool := true
def expandStream (G : Gz) (H : Hashes) (rd : Nat → Nat) := ExpandSplit.expandStream G H slowChunk rd strict
end Impl

/-! ### the byte ranges the apk format defines (Spec) -/

structure Ranges where
  sig : Option Bytes
  control : Bytes
  data : Bytes
  deriving DecidableEq, Repr

/-- first member; when its first tar header is `.SIGN.*` it is the signature and the next member is the control
section; everything after the control member is the data section -/
def ranges (G : Gz) (src : Bytes) : Option Ranges :=
  match memberAt G src with
  | none => none
  | some (n0, d0) =>
    match G.firstName d0 with
    | none => none
    | some nm =>
      if isSign nm then
        match memberAt G (src.drop n0) with
        | none => none
        | some (n1, _) => some { sig := some (src.take n0), control := (src.drop n0).take n1, data := (src.drop n0).drop n1 }
      else some { sig := none, control := src.take n0, data := src.drop n0 }

def Ranges.apk (r : Ranges) : Apk := { sig := r.sig, control := r.control, data := r.data }

def Out.expanded (o : Out) : Expanded :=
  { sig := o.sigFile, control := o.controlFile, controlFile := o.controlFile, data := o.packageFile,
    controlHash := o.controlHash, dataHash := o.packageHash, files := o.files }

/-! ### `Split` and `ResolveApk` -/

/-- `Split`: the gzip reader sits on a `teeByteReader` (an `io.ByteReader`: klauspost reads it directly, without a
buffer of its own, and is left just after the member), the buffer is swapped after the signature; the data part is the
`bufio.Reader` itself, i.e. the rest of the source -/
def splitParts (G : Gz) (src : Bytes) : Except SErr (List Bytes) :=
  match memberAt G src with
  | none => .error .stream
  | some (n0, d0) =>
    match G.firstName d0 with
    | none => .error .sign
    | some nm =>
      if isSign nm then
        match memberAt G (src.drop n0) with
        | none => .error .stream
        | some (n1, _) => .ok [src.take n0, (src.drop n0).take n1, (src.drop n0).drop n1]
      else .ok [src.take n0, src.drop n0]

/-- `APKResolved` -/
structure Resolved where
  sigHash : Option Digest
  sigSize : Nat
  controlHash : Digest
  controlSize : Nat
  dataHash : Digest
  dataSize : Nat
  deriving DecidableEq, Repr

def resolve (G : Gz) (H : Hashes) (src : Bytes) : Except SErr Resolved :=
  match splitParts G src with
  | .error e => .error e
  | .ok [c, d] => .ok { sigHash := none, sigSize := 0, controlHash := H.sha1 c, controlSize := c.length,
                        dataHash := H.sha256 d, dataSize := d.length }
  | .ok [s, c, d] => .ok { sigHash := some (H.sha1 s), sigSize := s.length, controlHash := H.sha1 c, controlSize := c.length,
                           dataHash := H.sha256 d, dataSize := d.length }
  | .ok _ => .error .count

/-! ### `expandPackage` on a fetched STREAM (composition with Model/Authentic) -/

def SErr.toErr : SErr → Err
  | _ => .decode

/-- `expandPackage` of Model/Authentic with `ExpandApk` run on the fetched bytes instead of a pre-split `Apk` -/
def expandPackageStream (verify strict : Bool) (G : Gz) (H : Hashes) (rd : Nat → Nat) (expected : Want) (cache : Option Cache)
    (fetched : Option Bytes) : Except Err (Expanded × Option Cache) :=
  match cache.bind (cachedPackage (libOf G H) expected.key) with
  | some e => .ok (e, cache)
  | none =>
    match fetched with
    | none => .error .fetch
    | some s =>
      match expandStream G H Impl.slowChunk rd strict s with
      | .error x => .error x.toErr
      | .ok o =>
        match (if verify then verifyExpanded (libOf G H) expected.digest o.expanded else .ok ()) with
        | .error x => .error x
        | .ok () =>
          match cache with
          | none => .ok (o.expanded, none)
          | some c =>
            match cachePackage (libOf G H) o.expanded c with
            | .error x => .error x
            | .ok (e', c') => .ok (e', some c')

/-! ### the `.dat.tar` next to the `.dat.tar.gz` in the cache directory of a package

`cachePackage` advertises the `.tar.gz` under `<hex of PackageHash>.dat.tar.gz` and then the `.tar` under the same name
without `.gz` (each: first writer wins); `cachedPackage` → `PackageData()` hands out the `.tar` when there is one and
otherwise gunzips the `.tar.gz` into place.  Nobody hashes or checks a `.tar` again: what is installed on a cache hit is
its content. -/

structure DatCache where
  gz : List (Text × Bytes) := []      -- `<name>.dat.tar.gz`
  tar : List (Text × Bytes) := []     -- `<name>.dat.tar`
  deriving DecidableEq, Repr

/-- the data part of `cachePackage` for an expansion (`PackageFile`, `TarFile`) whose data hash prints as `name` -/
def cacheData (name : Digest) (gzFile tarFile : Bytes) (c : DatCache) : DatCache :=
  { gz := advertise name gzFile c.gz, tar := advertise name tarFile c.tar }

/-- the data part of `cachedPackage`: the entry must exist; `PackageData()` -/
def cachedData (G : Gz) (name : Digest) (c : DatCache) : Option (Bytes × DatCache) :=
  match lookup name c.gz with
  | none => none
  | some d =>
    match lookup name c.tar with
    | some t => some (t, c)
    | none =>
      match gunzipAll G d with
      | none => none
      | some t => some (t, { c with tar := (name, t) :: c.tar })

/-- every `.tar` is the gunzip of the `.tar.gz` of its name -/
def DatInv (G : Gz) (c : DatCache) : Prop :=
  ∀ n t, lookup n c.tar = some t → ∃ d, lookup n c.gz = some d ∧ gunzipAll G d = some t

end Apko.ExpandSplit
