import Apko.Model.FS
import Apko.Model.Formats
import Apko.Model.Version
/-!
# C07 — file conflicts between packages and the installed-package database

`InstallPackages` (pkg/apk/apk/implementation.go) installs the packages in the given order and
then writes one record per package into `lib/apk/db/installed`.

* `decideLazy`   — `tarfs.writeHeader` (pkg/tarfs/fs.go): the conflict decision of the lazy backend,
* `decideStream` — `installRegularFile` (pkg/apk/apk/install.go): the decision of the streaming
  backends (memfs, DirFS),
* `decideSpec`   — the rule table of the property (the same for every backend),
* `stepEntry` / `installPkg` / `installAll` — the fold over packages and tar headers with the
  `installedFiles` map (`inst`), over a *flat* tree keyed by canonical component paths (symlinks are
  resolved the way `getNode` does: every component, lexical join of relative targets),
* `recordAll` — the pruning (`slices.DeleteFunc … owner != pkg`) + `AddInstalledPackage`
  (`Formats.sortHeaders`, `Formats.filesLines`),
* `idbTruth` — the oracle of the property as a decidable check of an observed (tree, db).

`Cfg.spec = false` is what the code does today (**Impl**), `Cfg.spec = true` replaces the decision by
the rule table (**Spec**).  The Impl run raises *ghost flags* at exactly the places where the code is
known to leave the property (F07b, F07c, F07d, F07g, F07h); the `…_partial` theorems are stated for
runs that raised none.

What is NOT modelled: xattrs, times, hard links, device nodes, the "hidden files before the data
section" rule.  Of a header's mode field only the nine permission bits reach the model's tree and the db;
the set-id / sticky bits and the `S_IF*` type bits are carried by `Entry.mode` and proved irrelevant
(`stepEntry_mode_field` in Proofs/C07.lean).
-/
namespace Apko.Conflict
open Apko Apko.Path

inductive Backend | lazy | memfs | dirfs
  deriving DecidableEq, Repr

inductive Kind | dir | reg | link
  deriving DecidableEq, Repr

/-- one tar header of a package's data section (or one pre-existing entry of the base tree) -/
structure Entry where
  name : Text
  kind : Kind
  mode : Nat := 0o644
  uid : Int := 0
  gid : Int := 0
  /-- 40 hex characters: SHA-1 of the content (reg) / of the link name (link), as in the PAX record -/
  sum : Text := []
  target : Text := []
  /-- only `= 0` matters (`existing.data == nil` in tarfs.writeHeader) -/
  size : Nat := 1
  deriving DecidableEq, Repr

structure Pkg where
  name : Text
  version : Text := []
  origin : Text := []
  replaces : List Text := []
  entries : List Entry := []
  deriving DecidableEq, Repr

instance : Inhabited Pkg := ⟨{ name := [] }⟩

/-! ## the decision -/

inductive Decision
  | keep        -- the existing file stays, the new one is not written (`return false, nil`)
  | overwrite   -- the new file replaces the existing one (`return true, nil`)
  | conflict    -- `FileConflictError`
  | exists_     -- the bare `FileExistsError` (streaming backends, empty origin)
  | error       -- any other error
  deriving DecidableEq, Repr

/-- `tarfs.writeHeader`, the part after `existing.te != nil` (statement order of the source) -/
def decideLazy (got : Pkg) (gotSum : Text) (want : Pkg) (wantSum : Text) : Decision :=
  if gotSum = wantSum then .keep
  else if got.replaces.any (fun r => decide (want.name = r)) then .keep
  else
    let replaces := want.replaces.any (fun r => decide (got.name = r))
    let sameOrigin := decide (got.origin = want.origin)
    if !sameOrigin && !replaces then .conflict else .overwrite

/-- `installRegularFile`, the part after `writeOneFile` returned a `FileExistsError` with the SHA-1
of what is there; `owner` = `a.installedFiles[header.Name]` -/
def decideStream (owner : Option Pkg) (gotSum : Text) (want : Pkg) (wantSum : Text) : Decision :=
  if want.origin = [] then .exists_
  else if wantSum = gotSum then .keep
  else match owner with
    | none => .error
    | some pk =>
      if pk.replaces.any (fun r => decide (want.name = r)) then .keep
      else
        let isReplaced := want.replaces.contains pk.name
        if pk.origin ≠ want.origin ∧ !isReplaced then .conflict else .overwrite

/-- does the `replaces` list `reps` name `other`?  An entry is an apk dependency: a name with an
optional version constraint that `other`'s version has to satisfy. -/
def replacesSpec (reps : List Text) (other : Pkg) : Bool :=
  reps.any fun r =>
    let c := parseConstraint r
    decide (c.name = other.name) &&
      (match Spec.parseVersion other.version with
       | some v => c.satisfiedBy Spec.parseVersion v == some true
       | none => c.version.isEmpty)

/-- the rule table of the property -/
def decideSpec (got : Pkg) (gotSum : Text) (want : Pkg) (wantSum : Text) : Decision :=
  if gotSum = wantSum then .keep
  else if replacesSpec got.replaces want then .keep
  else if replacesSpec want.replaces got || (decide (got.origin = want.origin) && !want.origin.isEmpty) then .overwrite
  else .conflict

structure Cfg where
  backend : Backend
  spec : Bool := false
  deriving DecidableEq, Repr

/-- the decision taken when the existing file was installed by package `got` (lazy: `te.pkg`) -/
def decideOwned (c : Cfg) (got : Pkg) (gotSum : Text) (want : Pkg) (wantSum : Text) : Decision :=
  if c.spec then decideSpec got gotSum want wantSum
  else match c.backend with
    | .lazy => decideLazy got gotSum want wantSum
    | _ => decideStream (some got) gotSum want wantSum

/-- streaming backends, existing file that no package is recorded for: outside the rule table, the
Spec keeps what the code does except that identical content coexists also with an empty origin -/
def decideUnowned (c : Cfg) (gotSum : Text) (want : Pkg) (wantSum : Text) : Decision :=
  if c.spec then (if wantSum = gotSum then .keep else .error)
  else decideStream none gotSum want wantSum

/-! ## ghost flags -/

inductive Flag
  | emptyOrigin (name : Text)      -- F07b: Impl and Spec decide differently, an origin is empty
  | versioned (name : Text)        -- F07h: Impl and Spec decide differently otherwise (replaces with a constraint)
  | linkUntracked (name : Text)    -- F07c: lazy backend, an overlap that involves a symlink was decided by the checksum rules,
                                   -- but installedFiles tracks only regular files that were written
  | throughLink (name : Text) (dest : Text)  -- F07d: memfs, the body was written through a dangling symlink
  | alias (name : Text)            -- F07g: the path was reached through a directory symlink
  | baseKept (name : Text)         -- F07i: kept because identical to a file no package installed (nobody becomes its owner)
  deriving DecidableEq, Repr

def decisionFlags (c : Cfg) (name : Text) (got : Pkg) (gotSum : Text) (want : Pkg) (wantSum : Text) : List Flag :=
  if decideOwned { c with spec := false } got gotSum want wantSum = decideSpec got gotSum want wantSum then []
  else if got.origin = [] ∨ want.origin = [] then [.emptyOrigin name] else [.versioned name]

/-! ## the flat tree -/

abbrev PathK := List Name

inductive Node
  | dir (perm : Nat)
  /-- `owner` = index of the package whose content this is (tarfs: `te.pkg`; streaming: ghost);
  `none` = not installed by a package -/
  | file (sum : Text) (perm : Nat) (owner : Option Nat) (empty : Bool)
  | link (target : Text) (sum : Text) (perm : Nat) (owner : Option Nat)
  deriving DecidableEq, Repr

abbrev Tree := List (PathK × Node)

/-- the uid/gid of an installed node.  No backend applies the owner a tar header carries: `installAPKFiles`,
`installRegularFile`, `writeOneFile`, `lazilyInstallAPKFiles` and tarfs `WriteHeader` / `writeHeader` never
call `Chown` (regenerated fact `Generated.installChownCalls`), so every node a package installs is 0:0
whatever the header (and the db record) says: F07e -/
def nodeOwner (_ : Node) : Int × Int := (0, 0)

def lookupT (t : Tree) (p : PathK) : Option Node := t.lookup p

def setT (t : Tree) (p : PathK) (n : Node) : Tree := (p, n) :: t.filter (fun e => e.1 ≠ p)

def removeT (t : Tree) (p : PathK) : Tree := t.filter (fun e => e.1 ≠ p)

def isDirAt (t : Tree) (p : PathK) : Bool :=
  p = [] || (match lookupT t p with | some (.dir _) => true | _ => false)

/-- where a link found under the lexical prefix `trav` leads (`filepath.Join(traversed, target)`; a
leading `..` of a relative result stays and is then looked up as a literal name, which fails) -/
def linkComps (trav : PathK) (target : Text) : PathK :=
  if isAbs target then cleanParts true (parts target) else cleanParts false (trav ++ parts target)

inductive Res
  | found (p : PathK)      -- the canonical path of the node the name resolves to (every link followed)
  | missing (p : PathK)    -- the last component does not exist, its directory does: where `O_CREATE` creates
  | fail
  deriving DecidableEq, Repr

/-- `getNode` over the flat tree (`trav` lexical prefix, `cur` canonical directory) -/
def resolveAux (t : Tree) : Nat → List Name → PathK → PathK → Res
  | 0, _, _, _ => .fail
  | _ + 1, [], _, cur => .found cur
  | f + 1, c :: rest, trav, cur =>
    match lookupT t (cur ++ [c]) with
    | none => if rest = [] then .missing (cur ++ [c]) else .fail
    | some (.dir _) => resolveAux t f rest (trav ++ [c]) (cur ++ [c])
    | some (.file ..) => if rest = [] then .found (cur ++ [c]) else .fail
    | some (.link tgt ..) =>
      match resolveAux t f (linkComps trav tgt) [] [] with
      | .found cn =>
        if rest = [] then .found cn
        else if isDirAt t cn then resolveAux t f rest (trav ++ [c]) cn else .fail
      | .missing p => if rest = [] then .missing p else .fail
      | .fail => .fail

def linkFuel : Nat := 64

def resolve (t : Tree) (comps : PathK) : Res := resolveAux t linkFuel comps [] []

/-- the canonical directory that holds the last component (`getNode(filepath.Dir(name))`) -/
def parentOf (t : Tree) (comps : PathK) : Option PathK :=
  match resolve t comps.dropLast with
  | .found d => if isDirAt t d then some d else none
  | _ => none

/-- `MkdirAll`: existing directories keep their permissions, a link must lead to a directory -/
def mkdirAllAux (perm : Nat) : List Name → Tree → PathK → PathK → Option Tree
  | [], t, _, _ => some t
  | c :: rest, t, trav, cur =>
    match lookupT t (cur ++ [c]) with
    | none => mkdirAllAux perm rest ((cur ++ [c], .dir perm) :: t) (trav ++ [c]) (cur ++ [c])
    | some (.dir _) => mkdirAllAux perm rest t (trav ++ [c]) (cur ++ [c])
    | some (.file ..) => none
    | some (.link tgt ..) =>
      match resolve t (linkComps trav tgt) with
      | .found cn => if isDirAt t cn then mkdirAllAux perm rest t (trav ++ [c]) cn else none
      | _ => none

def mkdirAll (t : Tree) (comps : PathK) (perm : Nat) : Option Tree := mkdirAllAux perm comps t [] []

/-! ## installation -/

inductive Outcome
  | ok
  | conflict (name : Text)
  | exists_
  | error
  deriving DecidableEq, Repr

structure St where
  tree : Tree
  /-- `installedFiles`: header name ↦ package index; the newest binding first (last writer wins) -/
  inst : List (Text × Nat) := []
  flags : List Flag := []
  /-- every decision that was taken: (canonical path, package, decision) -/
  log : List (PathK × Nat × Decision) := []
  deriving DecidableEq, Repr

def permOf (e : Entry) : Nat := e.mode % 512

/-! ## the mode FIELD of a header

`Entry.mode` is the whole mode field of the tar header.  Besides the nine permission bits it may carry the
set-id / sticky bits (`0o7000`) and the `S_IF*` file-type bits (`Mode &^ 0o7777`: c_ISREG `0o100000`, c_ISDIR
`0o40000`, c_ISLNK `0o120000`, c_ISCHR `0o20000`, c_ISBLK `0o60000`, c_ISFIFO `0o10000`, c_ISSOCK `0o140000`),
which `tar.Header.FileInfo().Mode()` decodes in addition to the typeflag.  What an entry IS is decided by its
typeflag (`Entry.kind`) on every path of the installation: tarfs masks the field (`entryMode`,
`Generated.stmtsEntryMode`), `writeOneFile` clears the type bits of the mode it creates the file with
(`Generated.streamCreateMode`), directories are made with `.Perm()`, and the ownership test of both install
loops reads the typeflag (`Generated.ownerTests`). -/

/-- the file-type bits of the mode field (`Mode &^ 0o7777`) -/
def modeTypeBits (e : Entry) : Nat := e.mode / 4096 * 4096

/-- the six values of the type bits that `FileInfo().Mode()` turns into a `fs.ModeType` bit -/
def fileInfoTypeBits : List Nat := [0o40000, 0o10000, 0o120000, 0o60000, 0o20000, 0o140000]

/-- `tar.Header.FileInfo().Mode().IsRegular()` (= `expandapk`'s `Entry.Type().IsRegular()`): typeflag '0' AND
no decoded type bit in the mode field.  NOT what the code asks — see `ownerTest`. -/
def fileInfoRegular (e : Entry) : Bool := e.kind == .reg && !fileInfoTypeBits.contains (modeTypeBits e)

/-- the ownership test of the install loops: `installed && file.Header.Typeflag == tar.TypeReg`
(`lazilyInstallAPKFiles`), `installed` inside `case tar.TypeReg` (`installAPKFiles`) -/
def ownerTest (installed : Bool) (e : Entry) : Bool := installed && e.kind == .reg

/-- the entry with another mode field -/
def Entry.withMode (e : Entry) (m : Nat) : Entry := { e with mode := m }

def fileNode (i : Nat) (e : Entry) : Node := .file e.sum (permOf e) (some i) (e.size == 0)

/-- F07g: the header name is not the canonical spelling of the node it reaches — the directory of the
entry is reached through a symlink, or the name itself is not a clean path (`s//f`: `installedFiles` is
keyed by the raw header name, every backend resolves it to the node `s/f`) -/
def aliasFlag (t : Tree) (e : Entry) : List Flag :=
  if joinNames (parts e.name) ≠ e.name then [.alias e.name] else
  match parentOf t (parts e.name) with
  | some d => if d = (parts e.name).dropLast then [] else [.alias e.name]
  | none => []

/-- F07d (second form): the streaming backends `Stat` through a symlink at the path and judge the
file it points to -/
def statThroughFlag (t : Tree) (e : Entry) : List Flag :=
  match resolve t (parts e.name), parentOf t (parts e.name) with
  | .found p, some d => if p = d ++ [(parts e.name).getLastD []] then [] else [.throughLink e.name (joinNames p)]
  | _, _ => []

def addFlags (fl : List Flag) : Except (Outcome × List Flag) (St × Bool) → Except (Outcome × List Flag) (St × Bool)
  | .ok (st, b) => .ok ({ st with flags := st.flags ++ fl }, b)
  | .error (o, f) => .error (o, f ++ fl)

/-- the outcome of a decision that does not write -/
def refuse (name : Text) : Decision → Outcome
  | .conflict => .conflict name
  | .exists_ => .exists_
  | _ => .error

/-- `tarfs.WriteHeader` for `TypeReg` / `TypeSymlink`.  Returns the new state and whether the header
is appended to the package's `files`. -/
def lazyFile (c : Cfg) (pkgs : List Pkg) (i : Nat) (e : Entry) (st : St) : Except (Outcome × List Flag) (St × Bool) :=
  let comps := parts e.name
  let want := pkgs.getD i default
  match parentOf st.tree comps with
  | none => .error (.error, st.flags)
  | some d =>
    let p := d ++ [comps.getLastD []]
    let newNode : Node := if e.kind = .link then .link e.target e.sum (permOf e) (some i) else fileNode i e
    let write (st : St) (fl : List Flag) (dec : Option Decision) : Except (Outcome × List Flag) (St × Bool) :=
      .ok ({ st with tree := setT st.tree p newNode,
                     inst := if e.kind = .reg then (e.name, i) :: st.inst else st.inst,
                     flags := st.flags ++ fl,
                     log := match dec with | some d => st.log ++ [(p, i, d)] | none => st.log }, true)
    let decided (j : Nat) (gotSum : Text) (isFile : Bool) : Except (Outcome × List Flag) (St × Bool) :=
      let got := pkgs.getD j default
      let dec := decideOwned c got gotSum want e.sum
      let fl := if c.spec then [] else decisionFlags c e.name got gotSum want e.sum
      let untracked : List Flag :=
        if !c.spec ∧ (e.kind = .link ∨ !isFile) ∧ ¬(dec = .overwrite ∧ e.kind = .reg) ∧
            ¬(e.kind = .link ∧ !isFile ∧ gotSum = e.sum) then [.linkUntracked e.name] else []
      match dec with
      | .keep => .ok ({ st with flags := st.flags ++ fl ++ untracked, log := st.log ++ [(p, i, dec)] }, true)
      | .overwrite => write st (fl ++ untracked) (some dec)
      | d => .error (refuse e.name d, st.flags ++ fl)
    match lookupT st.tree p with
    | none => write st [] none
    | some (.dir _) => .error (.error, st.flags)
    | some (.link tgt s _ owner) =>
      if e.kind = .link ∧ tgt = e.target then .ok (st, true)
      else match owner with
        | none => .error (.error, st.flags)
        | some j => decided j s false
    | some (.file s _ owner empty) =>
      match owner with
      | none =>
        if empty then .error (.error, st.flags)
        else if s = e.sum then .ok ({ st with flags := st.flags ++ (if c.spec then [] else [.baseKept e.name]) }, true)
        else .error (.error, st.flags)
      | some j => decided j s true

/-- `installRegularFile` + `writeOneFile` on the streaming backends -/
def streamReg (c : Cfg) (pkgs : List Pkg) (i : Nat) (e : Entry) (st : St) : Except (Outcome × List Flag) (St × Bool) :=
  let comps := parts e.name
  let want := pkgs.getD i default
  let installed (t : Tree) (p : PathK) (fl : List Flag) (dec : Option Decision) : Except (Outcome × List Flag) (St × Bool) :=
    .ok ({ st with tree := setT t p (fileNode i e), inst := (e.name, i) :: st.inst,
                   flags := st.flags ++ fl,
                   log := match dec with | some d => st.log ++ [(p, i, d)] | none => st.log }, true)
  /- `OpenFile(name, O_CREATE|O_EXCL|O_WRONLY)` when `Stat` failed -/
  let create (r : Res) : Except (Outcome × List Flag) (St × Bool) :=
    match r, parentOf st.tree comps with
    | .missing p, some d =>
      let own := d ++ [comps.getLastD []]
      if p = own then installed st.tree p [] none
      else if c.backend = .dirfs ∨ c.spec then .error (.error, st.flags)      -- O_EXCL on the disk: the dangling link exists
      else installed st.tree p [.throughLink e.name (joinNames p)] none
    | _, _ => .error (.error, st.flags)
  match resolve st.tree comps with
  | .found p =>
    match lookupT st.tree p with
    | some (.file s _ _ _) =>
      let owner := st.inst.lookup e.name
      let dec := match owner with
        | some j => decideOwned c (pkgs.getD j default) s want e.sum
        | none => decideUnowned c s want e.sum
      let fl := match owner with
        | some j => if c.spec then [] else decisionFlags c e.name (pkgs.getD j default) s want e.sum
        | none =>
          if c.spec then []
          else if dec = decideUnowned { c with spec := true } s want e.sum then (if dec = .keep then [.baseKept e.name] else [])
          else [.emptyOrigin e.name]
      match dec with
      | .keep => .ok ({ st with flags := st.flags ++ fl, log := st.log ++ [(p, i, dec)] }, true)
      | .overwrite =>
        -- `Remove(name)` unlinks the last component itself, then the file is created there
        match parentOf st.tree comps with
        | none => .error (.error, st.flags ++ fl)
        | some d =>
          let own := d ++ [comps.getLastD []]
          installed (removeT st.tree own) own fl (some dec)
      | d => .error (refuse e.name d, st.flags ++ fl)
    | _ => .error (.error, st.flags)       -- a directory: `Open` / the read fails
  | r => create r

/-- `installAPKFiles`, `tar.TypeSymlink` -/
def streamLink (_c : Cfg) (i : Nat) (e : Entry) (st : St) : Except (Outcome × List Flag) (St × Bool) :=
  let comps := parts e.name
  match parentOf st.tree comps with
  | none => .error (.error, st.flags)
  | some d =>
    let p := d ++ [comps.getLastD []]
    match lookupT st.tree p with
    | none =>
      .ok ({ st with tree := setT st.tree p (.link e.target e.sum 0o777 (some i)),
                     flags := st.flags }, true)
    | some (.link tgt ..) => if tgt = e.target then .ok (st, false) else .error (.error, st.flags)
    | some _ => .error (.error, st.flags)

/-- one tar header of package `i` -/
def stepEntry (c : Cfg) (pkgs : List Pkg) (i : Nat) (e : Entry) (st : St) : Except (Outcome × List Flag) (St × Bool) :=
  match e.kind with
  | .dir =>
    match mkdirAll st.tree (parts e.name) (permOf e) with
    | none => .error (.error, st.flags)
    | some t => .ok ({ st with tree := t }, true)
  | .reg =>
    if c.backend = .lazy then addFlags (if c.spec then [] else aliasFlag st.tree e) (lazyFile c pkgs i e st)
    else addFlags (if c.spec then [] else aliasFlag st.tree e ++ statThroughFlag st.tree e) (streamReg c pkgs i e st)
  | .link => addFlags (if c.spec then [] else aliasFlag st.tree e)
      (if c.backend = .lazy then lazyFile c pkgs i e st else streamLink c i e st)

/-- `lazilyInstallAPKFiles` / `installAPKFiles`: the headers in tar order; returns `files` -/
def installPkg (c : Cfg) (pkgs : List Pkg) (i : Nat) : List Entry → St → List Entry → Except (Outcome × List Flag) (St × List Entry)
  | [], st, files => .ok (st, files)
  | e :: rest, st, files =>
    match stepEntry c pkgs i e st with
    | .error o => .error o
    | .ok (st', app) => installPkg c pkgs i rest st' (if app then files ++ [e] else files)

/-- the sequential installer goroutine of `InstallPackages`: packages `i, i+1, …` -/
def installFrom (c : Cfg) (pkgs : List Pkg) : Nat → List Pkg → St → List (List Entry) → Except (Outcome × List Flag) (St × List (List Entry))
  | _, [], st, all => .ok (st, all)
  | i, p :: rest, st, all =>
    match installPkg c pkgs i p.entries st [] with
    | .error o => .error o
    | .ok (st', files) => installFrom c pkgs (i + 1) rest st' (all ++ [files])

/-- the tree before the first package: what the harness (or `InitDB`) wrote through the FS API -/
def baseStep (t : Tree) (e : Entry) : Tree :=
  match e.kind with
  | .dir => (mkdirAll t (parts e.name) (permOf e)).getD t
  | .reg => setT t (parts e.name) (.file e.sum (permOf e) none (e.size == 0))
  | .link => setT t (parts e.name) (.link e.target e.sum 0o777 none)

def baseTree (base : List Entry) : Tree := base.foldl baseStep []

def installAll (c : Cfg) (base : List Entry) (pkgs : List Pkg) : Except (Outcome × List Flag) (St × List (List Entry)) :=
  installFrom c pkgs 0 pkgs { tree := baseTree base } []

/-! ## the installed db -/

/-- `slices.DeleteFunc(files, owner != pkg)`: by header name, whatever the type of the header -/
def prune (inst : List (Text × Nat)) (i : Nat) (files : List Entry) : List Entry :=
  files.filter fun e => match inst.lookup e.name with
    | none => true
    | some o => o == i

def toRec (e : Entry) : Formats.FileRec :=
  { name := e.name, isDir := e.kind == .dir, mode := e.mode, uid := e.uid, gid := e.gid,
    csum := if e.kind == .dir then [] else e.sum }

/-- the file lines `AddInstalledPackage` writes for one package (`none`: it fails / never returns) -/
def recordLines (cd : Formats.Codec) (files : List Entry) : Option (List Text) :=
  match Formats.sortHeaders (files.map toRec) with
  | none => none
  | some sorted => match Formats.filesLines cd sorted with
    | .ok ls => some ls
    | _ => none

/-- the pruned `files` of every package -/
def recordAll (inst : List (Text × Nat)) (all : List (List Entry)) : List (List Entry) :=
  all.zipIdx.map fun (files, i) => prune inst i files

/-- the `P:`, `F:`, `M:`, `R:`, `a:`, `Z:` lines of `lib/apk/db/installed` -/
def dbText (cd : Formats.Codec) (pkgs : List Pkg) (recs : List (List Entry)) : Option Text :=
  (pkgs.zip recs).foldl (fun acc (p, files) =>
    match acc, recordLines cd files with
    | some a, some ls => some (a ++ Formats.unlines ((('P' :: ':' :: p.name) :: ls) ++ [[]]))
    | _, _ => none) (some [])

/-- entries of the pruned list that `sortTarHeaders` loses (F07a) -/
def droppedNames (files : List Entry) : List Text :=
  match Formats.sortHeaders (files.map toRec) with
  | none => files.map (·.name)
  | some sorted => (files.filter fun e => !(sorted.any fun r => r.name = e.name)).map (·.name)

/-! ## the oracle: `idb_truth` + "content decided by the rules" on an observed (tree, db) -/

/-- an observed node: joined path, kind, permission bits, owner, SHA-1 (reg) or link target -/
structure ONode where
  path : Text
  kind : Kind
  perm : Nat
  uid : Int
  gid : Int
  x : Text
  deriving DecidableEq, Repr

/-- an observed db record (what `ParseInstalled` returns for one `F:` / `R:` line) -/
structure ORec where
  name : Text
  isDir : Bool
  mode : Int
  uid : Int
  gid : Int
  deriving DecidableEq, Repr

def oTree (ns : List ONode) : Tree :=
  ns.map fun n => (parts n.path,
    match n.kind with
    | .dir => Node.dir n.perm
    | .reg => Node.file n.x n.perm none false
    | .link => Node.link n.x [] n.perm none)

def findO (ns : List ONode) (p : PathK) : Option ONode := ns.find? fun n => parts n.path = p

/-- reasons why an observed (tree, db) is not truthful -/
def idbTruth (base : List Entry) (pkgs : List Pkg) (tree : List ONode) (db : List (List ORec)) : List Text :=
  let t := oTree tree
  let shipsReg (k : Nat) (name : Text) (sum : Text) : Bool :=
    (pkgs.getD k default).entries.any fun e => e.kind == .reg && e.name == name && e.sum == sum
  let tag (s : String) (n : Text) : Text := s.toList ++ n
  -- (a) every packaged regular file that is present is recorded under exactly one package: its owner
  let a := tree.flatMap fun n =>
    if n.kind ≠ .reg then [] else
    let shipped := pkgs.any fun p => p.entries.any fun e => e.kind == .reg && e.name == n.path
    let inBase := base.any fun e => e.kind == .reg && e.name == n.path
    if !shipped then (if inBase then [] else [tag "stray:" n.path]) else
    let holders := db.zipIdx.filter fun (recs, _) => recs.any fun r => !r.isDir && r.name == n.path
    match holders with
    | [] => if inBase then [] else [tag "unrecorded:" n.path]
    | [(_, k)] => if shipsReg k n.path n.x then [] else [tag "stale:" n.path]
    | _ => [tag "multi:" n.path]
  -- (b) every recorded entry exists with the recorded permission bits and owner
  let b := db.zipIdx.flatMap fun (recs, k) => recs.flatMap fun r =>
    let comps := parts r.name
    let node : Option ONode :=
      if r.isDir then (match resolve t comps with | .found p => findO tree p | _ => none)
      else (match parentOf t comps with | some d => findO tree (d ++ [comps.getLastD []]) | none => none)
    match node with
    | none => [tag "missing:" r.name]
    | some n =>
      let kindOK : Bool :=
        if r.isDir then n.kind == .dir
        else (pkgs.getD k default).entries.any fun e => e.name == r.name &&
          ((e.kind == .reg && n.kind == .reg && e.sum == n.x) || (e.kind == .link && n.kind == .link && e.target == n.x))
      (if kindOK then [] else [tag "stale:" r.name]) ++
      (if n.kind ≠ .link ∧ (n.perm : Int) ≠ r.mode % 512 then [tag "mode:" r.name] else []) ++
      (if n.uid ≠ r.uid ∨ n.gid ≠ r.gid then [tag "owner:" r.name] else [])
  a ++ b

/-- outcome classes the property distinguishes -/
def Outcome.cls : Outcome → Outcome
  | .exists_ => .error
  | o => o

/-- the whole oracle: the observed outcome is the Spec's, the content of every regular file is the
one the rules choose, and the db tells the truth -/
def oracle (backend : Backend) (base : List Entry) (pkgs : List Pkg) (out : Outcome) (tree : List ONode)
    (db : List (List ORec)) : List Text :=
  match installAll { backend := backend, spec := true } base pkgs with
  | .error (o, _) => if out.cls = o.cls then [] else ["outcome".toList]
  | .ok (st, _) =>
    if out ≠ .ok then ["outcome".toList] else
    let content := st.tree.flatMap fun (p, n) =>
      match n with
      | .file s _ (some _) _ =>
        (match findO tree p with
         | some o => if o.kind == .reg && o.x == s then [] else ["content:".toList ++ joinNames p]
         | none => ["content:".toList ++ joinNames p])
      | _ => []
    content ++ idbTruth base pkgs tree db

end Apko.Conflict
