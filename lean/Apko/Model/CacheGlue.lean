/-
C19 — the glue around the ETag-addressed part of the cache (`pkg/apk/apk/cache.go`: `cacheTransport.head`,
`get`, `fetchAndCache`, `retrieveAndSaveFile`, `fetchOffline`; `pkg/options/options.go`: `Default.SharedCache`).

The directory protocol of one download (temp file, copy, advertise, crash points, concurrent writers) is
`Model/Cache.lean`.  This file models what sits around it and decides WHICH entry a request is answered
from, over whole histories of builds, processes and repository updates:

* the server: per URL the (ETag, body) it serves now, and everything it ever served (`srv`, newest first);
* the cache directory: a list of files, oldest first (list position = mtime order).  A file lives in an
  entry directory `dir` (`cacheDirFromFile`: `<arch>/APKINDEX/` for an index, the directory of the URL's
  cache file for everything else — all keys of one remote directory share it), is advertised under an ETag
  (`<base32 etag>.tar.gz` / `.etag`) or is an unadvertised temp file (`etag = none`), holds a body and is
  complete or cut short;
* the HEAD memo (`Cache.etagCache`): a table (cache object, memo key) ↦ ETag that lives in a `*apk.Cache`
  value — as long as that value, at most as long as the process (`exit` empties it);
* the process-wide table of parsed indexes (`globalIndexCache` in `index.go`): (URL, ETag) ↦ the parsed index
  or the ERROR of the first attempt, consulted after the HEAD and before anything is read from the disk cache or
  the network, by builds with and without the disk cache alike (`parsed`; `exit` empties it);
* `Cfg`: the choices the code makes and mutations change — the entry directory of a URL (`dirOf`), the key
  under which `head` remembers the HEAD answer of a URL (`memoKey`: the URL's cache file, i.e. the URL
  itself), whether `retrieveAndSaveFile` returns the error of `io.Copy` (`copyErrKept`), whether
  `fetchOffline` ignores unadvertised temp files (`offlineSkipsTmp`, fix F19e).

`fetch` is `cacheTransport.fetchAndCache` for one URL through one cache object: HEAD (memo or server), entry
look-up (`os.Stat(etagFile)`), GET + `retrieveAndSaveFile` + `AdvertiseCachedFile`, `os.Open` of the
entry.  HEAD and GET of one fetch see the same server state here (an update between them is part of the
directory protocol: `indexOnline hk gk` in `Model/Cache.lean`).  A connection cut (`cut`) makes `io.Copy` fail.
-/
namespace Apko.CacheGlue

abbrev Url := Nat
abbrev Etag := Nat
abbrev Body := Nat
abbrev Dir := Nat
abbrev CacheId := Nat
abbrev MemoKey := Nat

structure Cfg where
  dirOf : Url → Dir
  memoKey : Url → MemoKey
  copyErrKept : Bool
  offlineSkipsTmp : Bool

structure File where
  dir : Dir
  etag : Option Etag
  body : Body
  complete : Bool
  deriving DecidableEq, Repr

structure St where
  srv : List (Url × Etag × Body) := []
  files : List File := []
  memo : List ((CacheId × MemoKey) × Etag) := []
  parsed : List ((Url × Etag) × Option Body) := []
  deriving Repr

/-- a response body as the caller reads it: the body and whether it is complete; `none` = an error -/
abbrev Res := Option (Body × Bool)

/-- what the server answers now for `u` (`none`: 404) -/
def St.cur (s : St) (u : Url) : Option (Etag × Body) := (s.srv.find? fun t => t.1 = u).map (·.2)

/-- `os.Stat(etagFile)` / `os.Open(etagFile)`: the entry of directory `d` advertised under ETag `e` -/
def St.entry (s : St) (d : Dir) (e : Etag) : Option File :=
  s.files.find? fun f => f.dir = d && f.etag == some e

def St.memoGet (s : St) (c : CacheId) (k : MemoKey) : Option Etag :=
  (s.memo.find? fun m => m.1 = (c, k)).map (·.2)

/-- `cacheTransport.head`: the memo of the cache object (when it has one), else a HEAD request, whose
answer is remembered (when it has one) -/
def head (cfg : Cfg) (s : St) (c : CacheId) (hasMemo : Bool) (u : Url) : Option (Etag × St) :=
  match (if hasMemo then s.memoGet c (cfg.memoKey u) else none) with
  | some e => some (e, s)
  | none =>
    match s.cur u with
    | none => none
    | some (e, _) =>
      some (e, if hasMemo then { s with memo := s.memo ++ [((c, cfg.memoKey u), e)] } else s)

/-- `AdvertiseCachedFile(tmp, etagFile)` + `os.Open(etagFile)`: an existing entry wins (the temp file is
removed), otherwise the temp file becomes the entry -/
def advertise (s : St) (d : Dir) (e : Etag) (b : Body) (complete : Bool) : St × Res :=
  match s.entry d e with
  | some f => (s, some (f.body, f.complete))
  | none => ({ s with files := s.files ++ [⟨d, some e, b, complete⟩] }, some (b, complete))

/-- `cacheTransport.fetchAndCache` (online) -/
def fetch (cfg : Cfg) (s : St) (c : CacheId) (hasMemo : Bool) (u : Url) (cut : Bool) : St × Res :=
  match head cfg s c hasMemo u with
  | none => (s, none)
  | some (e, s1) =>
    match s1.entry (cfg.dirOf u) e with
    | some f => (s1, some (f.body, f.complete))
    | none =>
      match s1.cur u with
      | none => (s1, none)
      | some (e2, b2) =>
        if cut then
          if cfg.copyErrKept then
            -- the copy error is returned: nothing is advertised, the partial temp file stays behind
            ({ s1 with files := s1.files ++ [⟨cfg.dirOf u, none, b2, false⟩] }, none)
          else advertise s1 (cfg.dirOf u) e2 b2 false
        else advertise s1 (cfg.dirOf u) e2 b2 true

def St.parsedGet (s : St) (u : Url) (e : Etag) : Option (Option Body) :=
  (s.parsed.find? fun p => p.1 = (u, e)).map (·.2)

/-- what `fetchAndParse` makes of a response: a complete body parses, a cut one does not (gzip trailer, signature) -/
def parseRes : Res → Option Body
  | some (b, true) => some b
  | _ => none

/-- `indexCache.get` for a remote index through the caching transport: HEAD (through `cacheTransport.head`), the
process-wide table of parsed indexes keyed by URL@ETag, else `fetchRepositoryIndex` (the ETag travels in a request
header, `fetchAndCache` does not ask again) and parse; the outcome — also an error — is remembered -/
def fetchIndex (cfg : Cfg) (s : St) (c : CacheId) (hasMemo : Bool) (u : Url) (cut : Bool) : St × Res :=
  match head cfg s c hasMemo u with
  | none => (s, none)
  | some (e, s1) =>
    match s1.parsedGet u e with
    | some r => (s1, r.map fun b => (b, true))
    | none =>
      let r := fetch cfg s1 c hasMemo u cut
      ({ r.1 with parsed := r.1.parsed ++ [((u, e), parseRes r.2)] }, (parseRes r.2).map fun b => (b, true))

/-- the same without the disk cache: a HEAD request, the table of parsed indexes, else a GET -/
def fetchIndexDirect (s : St) (u : Url) : St × Res :=
  match s.cur u with
  | none => (s, none)
  | some (e, b) =>
    match s.parsedGet u e with
    | some r => (s, r.map fun b => (b, true))
    | none => ({ s with parsed := s.parsed ++ [((u, e), some b)] }, some (b, true))

/-- is `f` a candidate of `fetchOffline` for directory `d` -/
def offlineCand (cfg : Cfg) (d : Dir) (f : File) : Bool :=
  f.dir = d && (f.etag.isSome || !cfg.offlineSkipsTmp)

/-- `cacheTransport.fetchOffline`: the newest file of the URL's entry directory -/
def fetchOffline (cfg : Cfg) (s : St) (u : Url) : Res :=
  ((s.files.filter (offlineCand cfg (cfg.dirOf u))).getLast?).map fun f => (f.body, f.complete)

inductive Ev where
  | publish (u : Url) (e : Etag) (b : Body)                     -- the server starts to serve (e, b) under u
  | fetch (c : CacheId) (hasMemo : Bool) (u : Url) (cut : Bool)  -- a request through the caching transport
  | index (c : CacheId) (hasMemo : Bool) (u : Url) (cut : Bool)  -- an index request of a build with the disk cache
  | indexDirect (u : Url)                                        -- an index request of a build without it
  | offline (u : Url)                                            -- the same request of an offline build
  | exit                                                         -- a process ends: its cache objects and tables are gone
  deriving DecidableEq, Repr

def step (cfg : Cfg) (s : St) : Ev → St
  | .publish u e b => { s with srv := (u, e, b) :: s.srv }
  | .fetch c m u cut => (fetch cfg s c m u cut).1
  | .index c m u cut => (fetchIndex cfg s c m u cut).1
  | .indexDirect u => (fetchIndexDirect s u).1
  | .offline _ => s
  | .exit => { s with memo := [], parsed := [] }

/-- what the caller of the event gets (`none` for events that are no requests) -/
def answer (cfg : Cfg) (s : St) : Ev → Option Res
  | .fetch c m u cut => some (fetch cfg s c m u cut).2
  | .index c m u cut => some (fetchIndex cfg s c m u cut).2
  | .indexDirect u => some (fetchIndexDirect s u).2
  | .offline u => some (fetchOffline cfg s u)
  | _ => none

def run (cfg : Cfg) : List Ev → St → St
  | [], s => s
  | ev :: rest, s => run cfg rest (step cfg s ev)

/-- the answers of all requests of a history, in order -/
def answers (cfg : Cfg) : List Ev → St → List Res
  | [], _ => []
  | ev :: rest, s => (answer cfg s ev).toList ++ answers cfg rest (step cfg s ev)

/-- several requests of one build through one cache object, one after the other (the keyring entries, then
the index) -/
def fetchAll (cfg : Cfg) (c : CacheId) (hasMemo : Bool) : List (Url × Bool) → St → St × List Res
  | [], s => (s, [])
  | (u, cut) :: rest, s =>
    let r := fetch cfg s c hasMemo u cut
    let rs := fetchAll cfg c hasMemo rest r.1
    (rs.1, r.2 :: rs.2)

/-- what the same request gives without the disk cache: the body the server serves now -/
def direct (s : St) (u : Url) : Res := (s.cur u).map fun eb => (eb.2, true)

/-- the code as it is (after the fix F19e): HEAD answers are remembered per URL, the copy error is
returned, offline look-ups ignore temp files -/
def cfgReal (dirOf : Url → Dir) : Cfg := ⟨dirOf, id, true, true⟩

/-! ### a server that sends no ETag (`etagFromResponse` answers `false`)

`cacheTransport.fetchAndCache` hands the request to the wrapped transport (`return t.wrapped.Do(request)`) and
`indexCache.get` fetches and parses without consulting or filling its table: nothing is looked up, nothing is stored,
whatever other validators (`Last-Modified`, `Content-Length`) the response carries.  The only header that may name an
entry is `ETag` (`tie_etag_is_the_only_validator`). -/

/-- a request for a URL that is served without an ETag, through the caching transport or not (a cut connection on
this path is resumed by the range-retry reader exactly as in the build without the disk cache: C20) -/
def fetchNoEtag (s : St) (u : Url) : St × Res := (s, direct s u)

/-! ### several repositories: `GetRepositoryIndexes` of an offline build

`GetRepositoryIndexes` asks `indexCache.get` for every configured repository and DROPS a repository whose error
satisfies a condition (`SkipRule`) instead of failing the build.  Offline, a remote index is answered by `fetchOffline`
from the entry directory of its URL; when that directory does not exist (the repository was never cached) `os.ReadDir`
fails with an error that wraps `fs.ErrNotExist`, which reaches `GetRepositoryIndexes` unchanged (`fmt.Errorf("%w")`,
`*url.Error`). -/

/-- what `indexCache.get` gives for one repository when nothing can be downloaded -/
inductive OffIdx where
  | notExist            -- an error that wraps `fs.ErrNotExist` (the entry directory / the local index file is not there)
  | failed              -- any other error (no advertised entry in the directory; an entry that does not parse)
  | index (b : Body)    -- a parsed index
  deriving DecidableEq, Repr

/-- the entry directory exists: `retrieveAndSaveFile` made it (`os.MkdirAll`) before it created its first temp file
there, and nothing removes it -/
def St.dirExists (s : St) (d : Dir) : Bool := s.files.any fun f => f.dir = d

/-- `indexCache.get` for a remote repository of an offline build: HEAD and GET are both answered by `fetchOffline` -/
def offlineIndex (cfg : Cfg) (s : St) (u : Url) : OffIdx :=
  if s.dirExists (cfg.dirOf u) then
    match parseRes (fetchOffline cfg s u) with
    | some b => .index b
    | none => .failed
  else .notExist

/-- the condition of the `if` in `GetRepositoryIndexes` under which a repository is dropped -/
inductive SkipRule where
  | anyNotExist     -- `errors.Is(err, fs.ErrNotExist)`: the code before the fix F19f
  | localNotExist   -- `!remote && errors.Is(err, fs.ErrNotExist)`: only a local (non-http) repository is dropped
  deriving DecidableEq, Repr

def SkipRule.skips : SkipRule → (remote : Bool) → OffIdx → Bool
  | .anyNotExist, _, .notExist => true
  | .localNotExist, false, .notExist => true
  | _, _, _ => false

/-- one turn of the loop of `GetRepositoryIndexes`: repository `u` gave `r`, the others gave `rest` -/
def offlineCons (rule : SkipRule) (u : Url) (isRemote : Bool) (r : OffIdx) (rest : Option (List (Url × Body))) :
    Option (List (Url × Body)) :=
  match r with
  | .index b => rest.map fun l => (u, b) :: l
  | .notExist => if rule.skips isRemote .notExist then rest else none
  | .failed => if rule.skips isRemote .failed then rest else none

/-- `GetRepositoryIndexes` of an offline build over `repos` (`remote u`: an http(s) repository, read through the
cache; otherwise a local one, read from the file system: `loc u`): the indexes the resolver gets, each with the
repository it belongs to, or `none` — the build fails -/
def offlineIndexes (rule : SkipRule) (cfg : Cfg) (s : St) (remote : Url → Bool) (loc : Url → OffIdx) :
    List Url → Option (List (Url × Body))
  | [] => some []
  | u :: rest =>
    offlineCons rule u (remote u) (if remote u then offlineIndex cfg s u else loc u)
      (offlineIndexes rule cfg s remote loc rest)

/-- the same repositories read without the disk cache while the server is reachable (what the offline build has to
reproduce): every remote repository contributes the index it serves now -/
def directIndexes (s : St) (remote : Url → Bool) (loc : Url → OffIdx) : List Url → Option (List (Url × Body))
  | [] => some []
  | u :: rest =>
    if remote u then
      match s.cur u with
      | some (_, b) => (directIndexes s remote loc rest).map fun l => (u, b) :: l
      | none => none
    else
      match loc u with
      | .index b => (directIndexes s remote loc rest).map fun l => (u, b) :: l
      | .notExist => directIndexes s remote loc rest
      | .failed => none

/-- the rule of the code as it is (after the fix F19f) -/
def skipReal : SkipRule := .localNotExist

/-! ### the branch without a validator (`if !t.etagRequired` in `cacheTransport.RoundTrip`)

Package downloads and key DISCOVERY (`(*APK).DiscoverKeys`: the repository's `apk-configuration` document, then the
JWKS it points to) go through `a.cache.client(client, false)`: the request is answered from a file under the URL's own
path when `os.Open(cacheFile)` succeeds — no ETag in the name, nothing is revalidated, ever — and otherwise handed to
the network.  `Stores` says for which URLs that branch SAVES the answer of a miss under the URL's path: the code as it
is saves nothing there (`storesReal`; packages are stored later, section by section under their content hashes, by
`cachePackage`).  A URL class may only be stored on this branch when it is immutable (a `*.apk` is, by its name:
name-version-release; a discovery document and a key set are not: keys rotate). -/

abbrev Stores := Url → Bool

structure PSt where
  srv : List (Url × Body) := []      -- what the server serves / served, newest first
  plain : List (Url × Body) := []    -- files under a URL's own path (newest first)
  deriving Repr

/-- what the server answers now for `u` (`none`: 404) -/
def PSt.cur (s : PSt) (u : Url) : Option Body := s.srv.lookup u
/-- `os.Open(cacheFile)` -/
def PSt.file (s : PSt) (u : Url) : Option Body := s.plain.lookup u

/-- the branch online: a file under the URL's path answers; a miss goes to the network and is saved iff `stores u` -/
def plainFetch (stores : Stores) (s : PSt) (u : Url) : PSt × Option Body :=
  match s.file u with
  | some b => (s, some b)
  | none =>
    match s.cur u with
    | none => (s, none)
    | some b => (if stores u then { s with plain := (u, b) :: s.plain } else s, some b)

/-- the branch offline: the file or an error -/
def plainOffline (s : PSt) (u : Url) : Option Body := s.file u

/-- the same request without the disk cache -/
def plainDirect (s : PSt) (u : Url) : Option Body := s.cur u

inductive PEv where
  | publish (u : Url) (b : Body)   -- the server starts to serve `b` under `u` (a key rotation: a new JWKS body)
  | get (u : Url)                  -- a request through the branch, online
  deriving DecidableEq, Repr

def pstep (stores : Stores) (s : PSt) : PEv → PSt
  | .publish u b => { s with srv := (u, b) :: s.srv }
  | .get u => (plainFetch stores s u).1

/-- the answers of the requests of a history through the cache, in order -/
def panswers (stores : Stores) : List PEv → PSt → List (Option Body)
  | [], _ => []
  | .get u :: rest, s => (plainFetch stores s u).2 :: panswers stores rest (pstep stores s (.get u))
  | ev :: rest, s => panswers stores rest (pstep stores s ev)

/-- the answers of the same requests without the disk cache -/
def pdirect : List PEv → PSt → List (Option Body)
  | [], _ => []
  | .get u :: rest, s => plainDirect s u :: pdirect rest s
  | .publish u b :: rest, s => pdirect rest { s with srv := (u, b) :: s.srv }

/-- a history in which every URL of a stored class is immutable: what is published under it is what it serves already -/
def PLegal (stores : Stores) : List PEv → PSt → Prop
  | [], _ => True
  | .publish u b :: rest, s =>
    (stores u = true → ∀ b0, s.cur u = some b0 → b0 = b) ∧ PLegal stores rest (pstep stores s (.publish u b))
  | ev :: rest, s => PLegal stores rest (pstep stores s ev)

/-- the code as it is: a miss on this branch is never saved -/
def storesReal : Stores := fun _ => false

/-- `(*APK).DiscoverKeys` of one build: the memo of the cache object (`Cache.discoverKeys`, a `flightCache`: the
successful answer per repository is kept as long as the object lives), else the discovery document `conf` and then
the key set `jwks` through the branch; `none` = an error, which `fetchChainguardKeys` only logs -/
def discover (stores : Stores) (s : PSt) (memo : Option Body) (conf jwks : Url) : PSt × Option Body :=
  match memo with
  | some k => (s, some k)
  | none =>
    match plainFetch stores s conf with
    | (s1, none) => (s1, none)
    | (s1, some _) => plainFetch stores s1 jwks

/-- the same of an offline build -/
def discoverOffline (s : PSt) (memo : Option Body) (conf jwks : Url) : Option Body :=
  match memo with
  | some k => some k
  | none =>
    match plainOffline s conf with
    | none => none
    | some _ => plainOffline s jwks

end Apko.CacheGlue
