/-
C19 — the on-disk package cache as a protocol over a tiny file system.

Cache directory = map `Name ↦ file (content id) complete? | link target`.  A *final* (advertised)
name `adv k` is the name under which content `k` is looked up: `<sha1>.ctl.tar.gz`,
`<sha256>.dat.tar.gz`, `<sha256>.dat.tar`, `APKINDEX/<base32 etag>.tar.gz`, and for a signed apk
`<sha1 of the control section>.sig.tar.gz` (the name is computed from the hash / the ETag of the content —
for the signature section from the hash of the control section it accompanies — so "the content
identified by the name" is `k` itself; that an ETag is never served with two different bodies, and a
control section never with two different signatures, is the server assumption).  A *temp* name `tmp n` is
`APKINDEX/<n>.tmp` or a file inside a fresh `expand-apk<n>/` directory.

Atomic steps, as the Go code performs them (pkg/paths/paths.go AdvertiseCachedFile,
pkg/apk/apk/cache.go retrieveAndSaveFile / fetchOffline, pkg/apk/apk/implementation.go
cachedPackage / cachePackage, pkg/apk/expandapk/expandapk.go ExpandApk / PackageData):
`Stat` (follows links), `MkdirAll`/`MkdirTemp` (no effect on this abstraction: directories are never
removed), `create` (O_EXCL creation of a fresh temp: aborts when the name exists), `chunk` (a non-final
write), `finish` (final write + close), `symlink` (EEXIST ignored), `remove`, `rename` (atomic, replaces the
destination: the repaired `.dat.tar` regeneration in `PackageData`), `regen` (`os.Create` under the
*final* name — what `PackageData` did before the fix F19a; kept for the negative theorem and as the
shape of the mutation "write under the final name"), `read` (open + read, with or without
an integrity check: gzip members carry a CRC/length trailer, a plain tar does not), `readNewest`
(fetchOffline: newest directory entry by mtime).  `mark` is the position of a `verifhook.Point`.
`unsigned k` is not a file-system operation: it marks the point at which `cachedPackage` goes on with a
package whose signature section `k` it did not find (`Signed = false`, the size without the signature).

A builder is a `Prog` (a tree: operations and `Stat` branches).  A crash is a builder that is never
scheduled again; concurrency is an arbitrary schedule over a pool of builders (`Nat → Proc`, any
number of them); repository updates are the choice of content ids the builders are given.

Each process carries a ghost typestate `ctx` for the names it has created (never read by `stepProc`
to decide anything): unborn → opened c → closed c → gone.
-/
namespace Apko.Cache

abbrev Cid := Nat

inductive Name where
  | adv (k : Cid)
  | tmp (n : Nat)
  deriving DecidableEq, Repr

def Name.isTmp : Name → Bool
  | .tmp _ => true
  | .adv _ => false

inductive Node where
  | file (c : Cid) (complete : Bool)
  | link (t : Name)
  deriving DecidableEq, Repr

structure FS where
  get : Name → Option Node
  mtime : Name → Nat
  clock : Nat

def FS.empty : FS := ⟨fun _ => none, fun _ => 0, 0⟩

/-- every mutation stamps the name with the logical clock (used by fetchOffline only) -/
def FS.set (fs : FS) (n : Name) (v : Option Node) : FS :=
  ⟨fun x => if x = n then v else fs.get x, fun x => if x = n then fs.clock else fs.mtime x, fs.clock + 1⟩

/-- what `Stat` / `Open` see: symbolic links are followed (one hop: links only ever point at files) -/
def FS.resolve (fs : FS) (n : Name) : Option (Cid × Bool) :=
  match fs.get n with
  | some (.file c b) => some (c, b)
  | some (.link t) =>
    match fs.get t with
    | some (.file c b) => some (c, b)
    | _ => none
  | none => none

def FS.stat (fs : FS) (n : Name) : Bool := (fs.resolve n).isSome

/-- fetchOffline: the first entry with the greatest mtime among the directory's entries (`ReadDir`
lists names in order; `ModTime().After` is strict) -/
def FS.newest (fs : FS) (cands : List Name) : Option Name :=
  cands.foldl (fun best n =>
    match fs.get n with
    | none => best
    | some _ =>
      match best with
      | none => some n
      | some b => if fs.mtime n > fs.mtime b then some n else some b) none

inductive Op where
  | mkdir
  | mark (m : Nat)
  | create (t : Name) (c : Cid)
  | chunk (t : Name)
  | finish (t : Name)
  | symlink (t : Name) (dst : Name)
  | remove (t : Name)
  | rename (t : Name) (dst : Name)
  | regen (dst : Name) (c : Cid)
  | read (n : Name) (checked : Bool)
  | readNewest (cands : List Name)
  | unsigned (k : Cid)
  deriving DecidableEq, Repr

inductive Prog where
  | halt (ok : Bool)
  | op (o : Op) (next : Prog)
  | ifStat (n : Name) (yes no : Prog)
  deriving DecidableEq, Repr

inductive TS where
  | unborn
  | opened (c : Cid)
  | closed (c : Cid)
  | gone
  deriving DecidableEq, Repr

abbrev Ctx := Name → TS

def Ctx.upd (Γ : Ctx) (t : Name) (s : TS) : Ctx := fun x => if x = t then s else Γ x

/-- an observation: the name that was opened, the content found there, was it complete -/
abbrev Obs := Name × Cid × Bool

structure Proc where
  prog : Prog
  ctx : Ctx
  obs : List Obs
  marks : Nat := 0

def Proc.new (p : Prog) : Proc := ⟨p, fun _ => .unborn, [], 0⟩

def Proc.abort (p : Proc) : Proc := { p with prog := .halt false }

/-- the ghost typestate after a successful operation -/
def ctxStep (Γ : Ctx) : Op → Ctx
  | .create t c => Γ.upd t (.opened c)
  | .finish t => match Γ t with
    | .opened c => Γ.upd t (.closed c)
    | _ => Γ
  | .symlink t _ => Γ.upd t .gone
  | .remove t => Γ.upd t .gone
  | .rename t _ => Γ.upd t .gone
  | .regen dst c => Γ.upd dst (.opened c)
  | _ => Γ

/-- one operation against the file system; `none` = the operation fails and the builder stops with an error -/
def stepOp (fs : FS) (obs : List Obs) : Op → Option (FS × List Obs)
  | .mkdir => some (fs, obs)
  | .mark _ => some (fs, obs)
  | .create t c =>
    match fs.get t with
    | none => some (fs.set t (some (.file c false)), obs)
    | some _ => none
  | .chunk t =>
    match fs.get t with
    | some (.file c _) => some (fs.set t (some (.file c false)), obs)
    | _ => none
  | .finish t =>
    match fs.get t with
    | some (.file c _) => some (fs.set t (some (.file c true)), obs)
    | _ => none
  | .symlink t dst =>
    match fs.get dst with
    | none => some (fs.set dst (some (.link t)), obs)
    | some _ => some (fs, obs)          -- EEXIST is ignored
  | .remove t => some (fs.set t none, obs)    -- errors ignored
  | .rename t dst =>
    match fs.get t with
    | some n => some ((fs.set dst (some n)).set t none, obs)   -- rename(2): atomic, replaces dst
    | none => none
  | .regen dst c =>
    match fs.get dst with
    | some (.link _) => none            -- os.Create through a (dangling) link: unreachable, see Inv.linkOk
    | _ => some (fs.set dst (some (.file c false)), obs)
  | .read n checked =>
    match fs.resolve n with
    | none => none
    | some (c, b) => if checked && !b then none else some (fs, obs ++ [(n, c, b)])
  | .readNewest cands =>
    match fs.newest cands with
    | none => none
    | some n =>
      match fs.resolve n with
      | none => none
      | some (c, b) => if !b then none else some (fs, obs ++ [(n, c, b)])
  | .unsigned _ => some (fs, obs)

def isMark : Op → Bool
  | .mark _ => true
  | _ => false

/-- one step of one builder -/
def stepProc (fs : FS) (p : Proc) : FS × Proc :=
  match p.prog with
  | .halt _ => (fs, p)
  | .ifStat n y no => (fs, { p with prog := if fs.stat n then y else no })
  | .op o next =>
    match stepOp fs p.obs o with
    | none => (fs, p.abort)
    | some (fs', obs') =>
      (fs', { prog := next, ctx := ctxStep p.ctx o, obs := obs', marks := if isMark o then p.marks + 1 else p.marks })

structure State where
  fs : FS
  procs : Nat → Proc

def State.step (s : State) (i : Nat) : State :=
  let r := stepProc s.fs (s.procs i)
  ⟨r.1, fun j => if j = i then r.2 else s.procs j⟩

/-- any interleaving; a builder that is not scheduled any more has crashed (or has not started yet) -/
def runSched : List Nat → State → State
  | [], s => s
  | i :: rest, s => runSched rest (s.step i)

/-- a builder alone, to completion (structural: no fuel) -/
def exec (fs : FS) (Γ : Ctx) (obs : List Obs) : Prog → FS × Ctx × List Obs × Bool
  | .halt b => (fs, Γ, obs, b)
  | .ifStat n y no => if fs.stat n then exec fs Γ obs y else exec fs Γ obs no
  | .op o next =>
    match stepOp fs obs o with
    | none => (fs, Γ, obs, false)
    | some (fs', obs') => exec fs' (ctxStep Γ o) obs' next

/-- a builder alone until it has passed `marks` markers and then `extra` more steps (a crash prefix) -/
def runPrefix (fuel : Nat) (marks extra : Nat) (fs : FS) (p : Proc) : FS × Proc :=
  match fuel with
  | 0 => (fs, p)
  | fuel + 1 =>
    match p.prog with
    | .halt _ => (fs, p)
    | _ =>
      if p.marks < marks then
        let r := stepProc fs p; runPrefix fuel marks extra r.1 r.2
      else if extra = 0 then (fs, p)
      else let r := stepProc fs p; runPrefix fuel marks (extra - 1) r.1 r.2

/-! ### typing of builders: the order in which a builder may touch the names it creates -/

def Owns (Γ : Ctx) (t : Name) : Prop := (∃ c, Γ t = .opened c) ∨ (∃ c, Γ t = .closed c)

def okOp (Γ : Ctx) : Op → Prop
  | .create t _ => Γ t = .unborn ∧ t.isTmp = true
  | .chunk t => ∃ c, Γ t = .opened c
  | .finish t => ∃ c, Γ t = .opened c
  | .symlink t dst => ∃ k, Γ t = .closed k ∧ dst = .adv k
  | .remove t => ∃ c, Γ t = .closed c
  | .rename t dst => ∃ k, Γ t = .closed k ∧ dst = .adv k
  | .regen _ _ => False      -- no builder of the repaired tree writes under a final name
  | _ => True

def wt : Ctx → Prog → Prop
  | _, .halt _ => True
  | Γ, .ifStat _ y no => wt Γ y ∧ wt Γ no
  | Γ, .op o next => okOp Γ o ∧ wt (ctxStep Γ o) next

def isRegen : Op → Bool
  | .regen _ _ => true
  | _ => false

def isUnsigned : Op → Bool
  | .unsigned _ => true
  | _ => false

/-- the operation builder `i` would perform next is "use the package without its signature" -/
def State.atUnsigned (s : State) (i : Nat) : Bool :=
  match (s.procs i).prog with
  | .op o _ => isUnsigned o
  | _ => false

/-- the operation builder `i` would perform next is the regeneration write under the final name -/
def State.atRegen (s : State) (i : Nat) : Bool :=
  match (s.procs i).prog with
  | .op o _ => isRegen o
  | _ => false

/-! ### the builders -/

/-- `AdvertiseCachedFile(src = t, dst = adv k)` -/
def advertise (t : Name) (k : Cid) (rest : Prog) : Prog :=
  .ifStat (.adv k) (.op (.remove t) rest) (.op (.symlink t (.adv k)) rest)

def chunks : Nat → Name → Prog → Prog
  | 0, _, rest => rest
  | n + 1, t, rest => .op (.chunk t) (chunks n t rest)

/-- `cacheTransport.get` + `retrieveAndSaveFile` + the `os.Open` in `fetchAndCache`: HEAD announced
revision `hk`, the GET answered with revision `gk` (≠ `hk` when the repository changed in between);
the file is stored under the GET's ETag and that name is what is opened. -/
def indexOnline (t : Name) (hk gk : Cid) (n : Nat) : Prog :=
  .ifStat (.adv hk)
    (.op (.read (.adv hk) true) (.halt true))
    (.op .mkdir <| .op (.create t gk) <| .op (.mark 0) <|
      chunks n t <| .op (.finish t) <| .op (.mark 1) <|
      advertise t gk <| .op (.mark 2) <|
      .op (.read (.adv gk) true) (.halt true))

/-- `fetchOffline` and the parse of what it returns (signature + gzip: checked) -/
def indexOffline (cands : List Name) : Prog :=
  .op (.readNewest cands) (.halt true)

/-- `APKExpanded.PackageData` through the advertised names (dat = `adv k2`, tar = `adv k3`), then
`rest`.  When `.dat.tar` alone is missing it is regenerated: decompress `.dat.tar.gz` into a fresh temp
`t4` next to the final name and `rename` it into place (fix F19a). -/
def pkgData (t4 : Name) (k2 k3 : Cid) (n : Nat) (rest : Prog) : Prog :=
  .ifStat (.adv k3)
    (.op (.read (.adv k3) false) rest)
    (.op (.read (.adv k2) true) <| .op (.mark 9) <| .op (.create t4 k3) <| .op (.mark 10) <|
      chunks n t4 <| .op (.finish t4) <| .op (.rename t4 (.adv k3)) <| .op (.mark 11) <|
      .op (.read (.adv k3) false) rest)

/-- `PackageData` before the fix: `os.Create` under the final name, copy, close -/
def pkgDataOld (k2 k3 : Cid) (n : Nat) (rest : Prog) : Prog :=
  .ifStat (.adv k3)
    (.op (.read (.adv k3) false) rest)
    (.op (.mark 9) <| .op (.regen (.adv k3) k3) <| .op (.mark 10) <|
      chunks n (.adv k3) <| .op (.read (.adv k2) true) <| .op (.finish (.adv k3)) <| .op (.mark 11) <|
      .op (.read (.adv k3) false) rest)

/-- what the build does with an expanded package: `installPackage` reopens the control file -/
def pkgUse (k1 : Cid) : Prog := .op (.read (.adv k1) true) (.halt true)

/-- the head of `ExpandApk`.  Unsigned apk (`sg = none`): the control member is stream-0; when it is
closed `expandApkWriter.Next` reopens it to look for a `.SIGN.` entry.  Signed apk (`sg = some (t0, k0)`:
temp name and content id of the signature section): the signature member is stream-0 (it is the one
`Next` parses), the control member is stream-1. -/
def expandHead (sg : Option (Name × Cid)) (t1 : Name) (k1 : Cid) (n : Nat) (rest : Prog) : Prog :=
  match sg with
  | none =>
    .op (.create t1 k1) <| .op (.mark 1) <| chunks n t1 <| .op (.finish t1) <| .op (.read t1 true) rest
  | some (t0, k0) =>
    .op (.create t0 k0) <| .op (.mark 13) <| chunks n t0 <| .op (.finish t0) <| .op (.read t0 true) <|
    .op (.create t1 k1) <| .op (.mark 1) <| chunks n t1 <| .op (.finish t1) rest

/-- `cachePackage`'s `if exp.SignatureFile != ""` block: the signature section is advertised under
`<control hash>.sig.tar.gz` (final name `adv k0`: a control section is served with one signature) -/
def advSig (sg : Option (Name × Cid)) (rest : Prog) : Prog :=
  match sg with
  | none => rest
  | some (t0, k0) => advertise t0 k0 <| .op (.mark 14) rest

/-- `ExpandApk` into a fresh `expand-apk*` directory, then `tail` (= `verifyExpanded` and `cachePackage`) -/
def pkgExpand (sg : Option (Name × Cid)) (t1 t2 t3 : Name) (k1 k2 k3 : Cid) (n : Nat) (tail : Prog) : Prog :=
  .op .mkdir <| .op .mkdir <| .op (.mark 0) <|
  expandHead sg t1 k1 n <|
  .op (.create t2 k2) <| .op (.mark 2) <|
  .op (.create t3 k3) <| .op (.mark 3) <|
  chunks n t2 <| chunks n t3 <| .op (.finish t3) <| .op (.finish t2) <| .op (.mark 4) <|
  .op (.read t1 true) <| .op (.read t3 false) tail

/-- `cachePackage`: the advertises in the code's order — control, signature (signed apk only), data,
tar — with a marker after each; `pd` is the `PackageData` call at its end -/
def cacheTail (pd : Prog → Prog) (sg : Option (Name × Cid)) (t1 t2 t3 : Name) (k1 k2 k3 : Cid) : Prog :=
  .op (.mark 5) <|
  advertise t1 k1 <| .op (.mark 6) <|
  advSig sg <|
  advertise t2 k2 <| .op (.mark 7) <|
  advertise t3 k3 <| .op (.mark 8) <|
  pd (pkgUse k1)

/-- the regression "signature advertised last" (control, data, tar, signature): kept for the negative
theorem `hit_has_signature_fails_sig_last` -/
def cacheTailSigLast (pd : Prog → Prog) (sg : Option (Name × Cid)) (t1 t2 t3 : Name) (k1 k2 k3 : Cid) : Prog :=
  .op (.mark 5) <|
  advertise t1 k1 <| .op (.mark 6) <|
  advertise t2 k2 <| .op (.mark 7) <|
  advertise t3 k3 <| .op (.mark 8) <|
  advSig sg <|
  pd (pkgUse k1)

/-- `exp.Close()`: `os.RemoveAll` of the `expand-apk*` directory; the builder stops with an error -/
def cleanupTail (sg : Option (Name × Cid)) (t1 t2 t3 : Name) : Prog :=
  let rest := .op (.remove t1) <| .op (.remove t2) <| .op (.remove t3) (.halt false)
  match sg with
  | none => rest
  | some (t0, _) => .op (.remove t0) rest

/-- the repository serves another apk than the one the index lists (a rebuilt package at the same URL,
a stale index): `ExpandApk` of what was served (`sg`, `k1 k2 k3` are *its* sections), `verifyExpanded`
fails (the control section's hash is not the listed checksum), `exp.Close()` — nothing is advertised -/
def pkgRejected (sg : Option (Name × Cid)) (t1 t2 t3 : Name) (k1 k2 k3 : Cid) (n : Nat) : Prog :=
  pkgExpand sg t1 t2 t3 k1 k2 k3 n (cleanupTail sg t1 t2 t3)

/-- the regression "cachePackage before verifyExpanded": the rejected sections are advertised under
their own hashes, then `exp.Close()` removes the files the links point at — kept for the negative theorem
`cache_before_verify_dangles` -/
def pkgRejectedLate (sg : Option (Name × Cid)) (t1 t2 t3 : Name) (k1 k2 k3 : Cid) (n : Nat) : Prog :=
  pkgExpand sg t1 t2 t3 k1 k2 k3 n <|
    .op (.mark 5) <| advertise t1 k1 <| .op (.mark 6) <| advSig sg <| advertise t2 k2 <| .op (.mark 7) <|
    advertise t3 k3 <| .op (.mark 8) <| .op (.read (.adv k3) false) <| cleanupTail sg t1 t2 t3

/-- cache miss: `ExpandApk`, (`verifyExpanded`: the fetched apk is the listed one,) `cachePackage` -/
def pkgMissWith (pd : Prog → Prog) (sg : Option (Name × Cid)) (t1 t2 t3 : Name) (k1 k2 k3 : Cid) (n : Nat) : Prog :=
  pkgExpand sg t1 t2 t3 k1 k2 k3 n (cacheTail pd sg t1 t2 t3 k1 k2 k3)

/-- `cachedPackage`'s look-up of the signature section, once control and data have been found: present →
`Signed = true`, `os.ReadFile` (no integrity check); absent → the package is used as an unsigned one -/
def sigProbe (sg : Option (Name × Cid)) (rest : Prog) : Prog :=
  match sg with
  | none => rest
  | some (_, k0) => .ifStat (.adv k0) (.op (.read (.adv k0) false) rest) (.op (.unsigned k0) rest)

/-- `expandPackage`: `cachedPackage` (a hit requires the control and the data section; the signature is
looked up after the data section was found (fix F19c); `.dat.tar` is regenerated when it alone is
missing), otherwise the miss path.  Marker 12 = `hit.probe`. -/
def pkgBuilderWith (pd : Prog → Prog) (sg : Option (Name × Cid)) (t1 t2 t3 : Name) (k1 k2 k3 : Cid) (n : Nat) : Prog :=
  .ifStat (.adv k1)
    (.op (.read (.adv k1) true)
      (.ifStat (.adv k2)
        (.op (.mark 12) <| sigProbe sg <| pd (pkgUse k1))
        (pkgMissWith pd sg t1 t2 t3 k1 k2 k3 n)))
    (pkgMissWith pd sg t1 t2 t3 k1 k2 k3 n)

def pkgMiss (sg : Option (Name × Cid)) (t1 t2 t3 t4 : Name) (k1 k2 k3 : Cid) (n : Nat) : Prog :=
  pkgMissWith (pkgData t4 k2 k3 n) sg t1 t2 t3 k1 k2 k3 n

def pkgBuilder (sg : Option (Name × Cid)) (t1 t2 t3 t4 : Name) (k1 k2 k3 : Cid) (n : Nat) : Prog :=
  pkgBuilderWith (pkgData t4 k2 k3 n) sg t1 t2 t3 k1 k2 k3 n

/-- the builder of the tree before the fix F19a -/
def pkgBuilderOld (t1 t2 t3 : Name) (k1 k2 k3 : Cid) (n : Nat) : Prog :=
  pkgBuilderWith (pkgDataOld k2 k3 n) none t1 t2 t3 k1 k2 k3 n

/-- the regression "signature advertised after the data section" (control, data, signature, tar) -/
def cacheTailDatSig (pd : Prog → Prog) (sg : Option (Name × Cid)) (t1 t2 t3 : Name) (k1 k2 k3 : Cid) : Prog :=
  .op (.mark 5) <|
  advertise t1 k1 <| .op (.mark 6) <|
  advertise t2 k2 <| .op (.mark 7) <|
  advSig sg <|
  advertise t3 k3 <| .op (.mark 8) <|
  pd (pkgUse k1)

/-- the builder of the tree with another `cachePackage` (`tail`) -/
def pkgBuilderVar (tail : Prog) (sg : Option (Name × Cid)) (t1 t2 t3 t4 : Name) (k1 k2 k3 : Cid) (n : Nat) : Prog :=
  let miss := pkgExpand sg t1 t2 t3 k1 k2 k3 n tail
  .ifStat (.adv k1)
    (.op (.read (.adv k1) true)
      (.ifStat (.adv k2)
        (.op (.mark 12) <| sigProbe sg <| pkgData t4 k2 k3 n (pkgUse k1))
        miss))
    miss

/-- the builder with the regression "signature advertised last" -/
def pkgBuilderSigLast (sg : Option (Name × Cid)) (t1 t2 t3 t4 : Name) (k1 k2 k3 : Cid) (n : Nat) : Prog :=
  pkgBuilderVar (cacheTailSigLast (pkgData t4 k2 k3 n) sg t1 t2 t3 k1 k2 k3) sg t1 t2 t3 t4 k1 k2 k3 n

/-- the builder with the regression "signature advertised after the data section" -/
def pkgBuilderDatSig (sg : Option (Name × Cid)) (t1 t2 t3 t4 : Name) (k1 k2 k3 : Cid) (n : Nat) : Prog :=
  pkgBuilderVar (cacheTailDatSig (pkgData t4 k2 k3 n) sg t1 t2 t3 k1 k2 k3) sg t1 t2 t3 t4 k1 k2 k3 n

/-- the builder of the tree before the fix F19c: `cachedPackage` looked the signature up *before* the
data section, i.e. in the same order in which `cachePackage` advertises them — a reader must probe in
the opposite order of the writer.  Kept for the negative theorem `f19c_race`. -/
def pkgBuilderRacy (sg : Option (Name × Cid)) (t1 t2 t3 t4 : Name) (k1 k2 k3 : Cid) (n : Nat) : Prog :=
  let pd := pkgData t4 k2 k3 n
  let miss := pkgMissWith pd sg t1 t2 t3 k1 k2 k3 n
  .ifStat (.adv k1)
    (.op (.read (.adv k1) true) <|
      match sg with
      | none => .op (.mark 12) <| .ifStat (.adv k2) (pd (pkgUse k1)) miss
      | some (_, k0) =>
        .ifStat (.adv k0)
          (.op (.read (.adv k0) false) <| .op (.mark 12) <| .ifStat (.adv k2) (pd (pkgUse k1)) miss)
          (.op (.mark 12) <| .ifStat (.adv k2) (.op (.unsigned k0) (pd (pkgUse k1))) miss))
    miss

/-- `expandPackage` for a listed package (`sgL`, `k1 k2 k3`) while the repository serves another apk
(`sgS`, `s1 s2 s3`) under its URL: the cache is consulted for the listed sections; on a miss the served
apk is expanded and rejected -/
def pkgBuilderRejected (sgL : Option (Name × Cid)) (t4 : Name) (k1 k2 k3 : Cid)
    (sgS : Option (Name × Cid)) (t1 t2 t3 : Name) (s1 s2 s3 : Cid) (n : Nat) : Prog :=
  .ifStat (.adv k1)
    (.op (.read (.adv k1) true)
      (.ifStat (.adv k2)
        (.op (.mark 12) <| sigProbe sgL <| pkgData t4 k2 k3 n (pkgUse k1))
        (pkgRejected sgS t1 t2 t3 s1 s2 s3 n)))
    (pkgRejected sgS t1 t2 t3 s1 s2 s3 n)

/-- offline the miss path cannot fetch: `FetchPackage` fails -/
def pkgOffline (sg : Option (Name × Cid)) (t4 : Name) (k1 k2 k3 : Cid) (n : Nat) : Prog :=
  .ifStat (.adv k1)
    (.op (.read (.adv k1) true)
      (.ifStat (.adv k2)
        (.op (.mark 12) <| sigProbe sg <| pkgData t4 k2 k3 n (pkgUse k1))
        (.halt false)))
    (.halt false)

/-! ### the result of a cache hit as a function of the directory (what `cachedPackage` returns on a
quiescent directory) and what a fetch produces -/

/-- the sections a hit hands to the build, in the order signature, control, data; `none` = miss.
`Signed` is "the list has three elements", `Size` is the sum of the sections' sizes. -/
def hitSections (fs : FS) (sg : Option Cid) (k1 k2 : Cid) : Option (List (Cid × Bool)) :=
  if fs.stat (.adv k1) && fs.stat (.adv k2) then
    some ((match sg with
           | some k0 => (fs.resolve (.adv k0)).toList
           | none => []) ++ (fs.resolve (.adv k1)).toList ++ (fs.resolve (.adv k2)).toList)
  else none

/-- what `ExpandApk` on the fetched apk produces -/
def fetchSections (sg : Option Cid) (k1 k2 : Cid) : List (Cid × Bool) :=
  (sg.toList ++ [k1, k2]).map fun k => (k, true)

def sectionsSize (size : Cid → Nat) (l : List (Cid × Bool)) : Nat := (l.map fun s => size s.1).sum

end Apko.Cache
