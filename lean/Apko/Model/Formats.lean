/-
C16 — apko's own text formats (APKINDEX, installed db, passwd, group): executable models of the
writers and the readers.

The writers and the package-field part of the readers are *interpreters of tables regenerated from
/repo on every run* (`Apko/Generated/Formats.lean`): the APKINDEX template (tag, function, field,
condition per line), the `fmt.Sprintf` lines of `PackageToInstalled`, and the `switch token` of
`ParsePackageIndex` / `ParseInstalled` (tag → normalised case body).  A change of a tag, a
formatter, a condition or a case body changes what the driver executes and what the theorems in
`Proofs/C16.lean` are about.

Text is `List Char`, one char per byte.  Abstract / trusted: `encoding/base64` (a `Codec` with the
law `dec (enc b) = some b`; the driver instantiates a concrete implementation), `bufio.Scanner`
(`scanLines` + the token limit), `strconv` (`parseUintB`/`parseIntB`), `path/filepath`
(`pathClean`, `pathDir`, `pathBase`, `pathJoin2`), `strings.TrimRight` (`trimEOL`; `strings.TrimSpace` =
`trimSpace` for the pinned readers).
-/
import Apko.Model.Text
import Apko.Generated.Formats

namespace Apko.Formats
open Apko

/-! ## outcomes -/

/-- result of a Go function: value, returned error, or a run-time panic (index out of range) -/
inductive Res (α : Type) where
  | ok (a : α)
  | err
  | oob
  deriving Repr, DecidableEq

def Res.bind {α β : Type} : Res α → (α → Res β) → Res β
  | .ok a, f => f a
  | .err, _ => .err
  | .oob, _ => .oob

def Res.ofOption {α : Type} : Option α → Res α
  | some a => .ok a
  | none => .err

/-! ## numbers (`strconv`, `%d`, `%04o`) -/

def digitChar (d : Nat) : Char := Char.ofNat (48 + d)

/-- digits of `n`, least significant first (fuel = n + 1 is always enough) -/
def lsd : Nat → Nat → List Nat
  | 0, _ => []
  | f + 1, n => (n % 10) :: (if n / 10 = 0 then [] else lsd f (n / 10))

/-- `%d` of a non-negative integer -/
def natToDec (n : Nat) : Text := ((lsd (n + 1) n).reverse).map digitChar

/-- `%d` of a signed integer -/
def intToDec (i : Int) : Text := if i < 0 then '-' :: natToDec (-i).toNat else natToDec i.toNat

/-- `%04o` of a value below 0o10000 -/
def oct4 (n : Nat) : Text :=
  [digitChar (n / 512 % 8), digitChar (n / 64 % 8), digitChar (n / 8 % 8), digitChar (n % 8)]

def isDigitB (b : Nat) (c : Char) : Bool := decide (48 ≤ c.toNat) && decide (c.toNat < 48 + b)

def digitsToNatB (b : Nat) (t : Text) : Nat := t.foldl (fun a c => a * b + (c.toNat - 48)) 0

/-- `strconv.ParseUint(s, b, 64)` for an explicit base `b ≤ 10` -/
def parseUintB (b : Nat) (t : Text) : Option Nat :=
  if t ≠ [] ∧ t.all (isDigitB b) = true then
    (if digitsToNatB b t < 2 ^ 64 then some (digitsToNatB b t) else none)
  else none

/-- `strconv.ParseInt(s, b, 64)` (also `strconv.Atoi` for b = 10) -/
def parseIntB (b : Nat) (t : Text) : Option Int :=
  match t with
  | '+' :: r => (parseUintB b r).bind fun n => if n < 2 ^ 63 then some (Int.ofNat n) else none
  | '-' :: r => (parseUintB b r).bind fun n => if n ≤ 2 ^ 63 then some (-(Int.ofNat n)) else none
  | _ => (parseUintB b t).bind fun n => if n < 2 ^ 63 then some (Int.ofNat n) else none

/-! ## lines (`bufio.Scanner` with `ScanLines`) -/

/-- split at '\n'; a final unterminated non-empty piece is a line, a final empty piece is not -/
def rawLinesAux : Text → Text → List Text
  | acc, [] => if acc = [] then [] else [acc.reverse]
  | acc, c :: cs => if c = '\n' then acc.reverse :: rawLinesAux [] cs else rawLinesAux (c :: acc) cs

def rawLines (t : Text) : List Text := rawLinesAux [] t

/-- `ScanLines` drops one trailing '\r' -/
def dropCR (l : Text) : Text :=
  match l.reverse with
  | '\r' :: r => r.reverse
  | _ => l

/-- the lines the scanner delivers, and whether it stopped with `ErrTooLong` (a raw line of
`max` bytes or more does not fit the buffer) -/
def scanLines (max : Nat) (t : Text) : List Text × Bool :=
  let ls := rawLines t
  let good := ls.takeWhile (fun l => decide (l.length < max))
  (good.map dropCR, decide (good.length < ls.length))

def unlines (ls : List Text) : Text := ls.flatMap (fun l => l ++ ['\n'])

def defaultTokenMax : Nat := 65536      -- bufio.MaxScanTokenSize
def indexTokenMax : Nat := 1048576      -- `meg` in ParsePackageIndex

/-! ## the package record -/

structure Pkg where
  name : Text := []
  version : Text := []
  arch : Text := []
  description : Text := []
  license : Text := []
  origin : Text := []
  maintainer : Text := []
  url : Text := []
  commit : Text := []
  checksum : Text := []           -- raw bytes
  deps : List Text := []
  provides : List Text := []
  installIf : List Text := []
  replaces : List Text := []
  size : Nat := 0
  installedSize : Nat := 0
  priority : Nat := 0
  buildTime : Int := -62135596800  -- `time.Time{}.Unix()`
  deriving Repr, DecidableEq

def zeroTimeUnix : Int := -62135596800

inductive Field where
  | name | version | arch | description | license | origin | maintainer | url | commit
  | checksum | deps | provides | installIf | replaces | size | installedSize | priority | buildTime
  deriving Repr, DecidableEq

inductive Val where
  | str (t : Text)
  | list (l : List Text)
  | nat (n : Nat)
  | int (i : Int)
  | bytes (b : Text)
  deriving Repr, DecidableEq

def get (p : Pkg) : Field → Val
  | .name => .str p.name | .version => .str p.version | .arch => .str p.arch
  | .description => .str p.description | .license => .str p.license | .origin => .str p.origin
  | .maintainer => .str p.maintainer | .url => .str p.url | .commit => .str p.commit
  | .checksum => .bytes p.checksum
  | .deps => .list p.deps | .provides => .list p.provides | .installIf => .list p.installIf
  | .replaces => .list p.replaces
  | .size => .nat p.size | .installedSize => .nat p.installedSize | .priority => .nat p.priority
  | .buildTime => .int p.buildTime

/-- assignment; a value of the wrong kind leaves the record unchanged (cannot happen: `decode`
produces the kind of the field, see `kindOK`) -/
def set (p : Pkg) : Field → Val → Pkg
  | .name, .str t => { p with name := t } | .version, .str t => { p with version := t }
  | .arch, .str t => { p with arch := t } | .description, .str t => { p with description := t }
  | .license, .str t => { p with license := t } | .origin, .str t => { p with origin := t }
  | .maintainer, .str t => { p with maintainer := t } | .url, .str t => { p with url := t }
  | .commit, .str t => { p with commit := t }
  | .checksum, .bytes b => { p with checksum := b }
  | .deps, .list l => { p with deps := l } | .provides, .list l => { p with provides := l }
  | .installIf, .list l => { p with installIf := l } | .replaces, .list l => { p with replaces := l }
  | .size, .nat n => { p with size := n } | .installedSize, .nat n => { p with installedSize := n }
  | .priority, .nat n => { p with priority := n }
  | .buildTime, .int i => { p with buildTime := i }
  | _, _ => p

def allFields : List Field :=
  [.name, .version, .arch, .description, .license, .origin, .maintainer, .url, .commit, .checksum,
   .deps, .provides, .installIf, .replaces, .size, .installedSize, .priority, .buildTime]

/-! ## base64 / hex as an abstract codec -/

structure Codec where
  enc : Text → Text
  dec : Text → Option Text

/-! ## writer side: rows = (tag, field, formatter, condition) -/

inductive Fmt where
  | plain    -- Go's default formatting of the value (`{{.X}}`, `%s`, `%d`, `%v`)
  | joinSp   -- strings.Join(x, " ")
  deriving Repr, DecidableEq

inductive Cond where
  | always
  | truthy (f : Field)     -- template truth / `len(x) != 0`
  | timeNonZero            -- `and .BuildTime (not .BuildTime.IsZero)`
  deriving Repr, DecidableEq

structure Row where
  tag : Char
  field : Field
  fmt : Fmt
  cond : Cond
  deriving Repr, DecidableEq

/-- `fmt.Sprint` of a `[]string` -/
def goList (l : List Text) : Text := '[' :: (joinWith [' '] l ++ [']'])

def fmtVal (c : Codec) : Fmt → Val → Text
  | _, .str t => t
  | .plain, .list l => goList l
  | .joinSp, .list l => joinWith [' '] l
  | _, .nat n => natToDec n
  | _, .int i => intToDec i
  | _, .bytes b => 'Q' :: '1' :: c.enc b

def truthy : Val → Bool
  | .str t => !t.isEmpty
  | .list l => !l.isEmpty
  | .nat n => n != 0
  | .int i => i != 0
  | .bytes b => !b.isEmpty

def evalCond (p : Pkg) : Cond → Bool
  | .always => true
  | .truthy f => truthy (get p f)
  | .timeNonZero => p.buildTime != zeroTimeUnix

def renderRow (c : Codec) (p : Pkg) (r : Row) : List Text :=
  if evalCond p r.cond then [r.tag :: ':' :: fmtVal c r.fmt (get p r.field)] else []

/-- the lines of one record -/
def recLines (c : Codec) (rows : List Row) (p : Pkg) : List Text := rows.flatMap (renderRow c p)

/-- one record as text: the lines, each terminated by '\n', then an empty line -/
def recText (c : Codec) (rows : List Row) (p : Pkg) : Text := unlines (recLines c rows p ++ [[]])

/-! ### interpretation of the regenerated writer tables -/

def fieldOfGo : String → Option Field
  | "Name" => some .name | "Version" => some .version | "Arch" => some .arch
  | "Description" => some .description | "License" => some .license | "Origin" => some .origin
  | "Maintainer" => some .maintainer | "URL" => some .url | "RepoCommit" => some .commit
  | "ChecksumString" => some .checksum | "Checksum" => some .checksum
  | "Dependencies" => some .deps | "Provides" => some .provides | "InstallIf" => some .installIf
  | "Replaces" => some .replaces | "Size" => some .size | "InstalledSize" => some .installedSize
  | "ProviderPriority" => some .priority | "BuildTime.Unix" => some .buildTime
  | _ => none

def isListField : Field → Bool
  | .deps | .provides | .installIf | .replaces => true
  | _ => false

def isNumField : Field → Bool
  | .size | .installedSize | .priority | .buildTime => true
  | _ => false

/-- function / verb of a writer line → formatter.  `join: ` is `strings.Join(·, " ")`; `%d` is only
meaningful for numbers and `%s` for the rest (anything else is not understood → `none`). -/
def fmtOfGo (fn : String) (f : Field) : Option Fmt :=
  match fn with
  | "" => some .plain                        -- template `{{.X}}`
  | "join: " => if isListField f then some .joinSp else none
  | "%s" => if isNumField f then none else some .plain
  | "%d" => if isNumField f then some .plain else none
  | "join: %s" => if isListField f then some .joinSp else none
  | _ => none

def condOfGo (kind arg : String) : Option Cond :=
  match kind with
  | "always" => some .always
  | "truthy" => (fieldOfGo arg).map .truthy
  | "raw" => if arg = "and .BuildTime (not .BuildTime.IsZero)" then some .timeNonZero else none
  | _ => none

def rowOfGo (r : Nat × String × String × String × String) : Option Row :=
  match fieldOfGo r.2.2.1 with
  | none => none
  | some f =>
    match fmtOfGo r.2.1 f, condOfGo r.2.2.2.1 r.2.2.2.2 with
    | some fm, some cd => some { tag := Char.ofNat r.1, field := f, fmt := fm, cond := cd }
    | _, _ => none

def rowsOfGo : List (Nat × String × String × String × String) → Option (List Row)
  | [] => some []
  | r :: rs => match rowOfGo r, rowsOfGo rs with
    | some a, some b => some (a :: b)
    | _, _ => none

/-- the APKINDEX template as rows (empty when the template is not understood; `tie_indexRows`
shows it is understood) -/
def indexRows : List Row := (rowsOfGo Generated.indexRows).getD []
/-- the lines of `PackageToInstalled` as rows -/
def idbRows : List Row := (rowsOfGo Generated.idbPkgLines).getD []

/-! ## reader side: `switch token` -/

inductive Dec where
  | str        -- x = val
  | splitRep   -- splitRepeatedField(val)
  | split      -- strings.Split(val, " ")
  | int64      -- strconv.ParseInt(val, 10, 64)
  | uint64     -- strconv.ParseUint(val, 10, 64)
  | q1         -- "Q1" + base64, ignored without the prefix
  deriving Repr, DecidableEq

inductive Act where
  | field (f : Field) (d : Dec)
  | dirLine                      -- F:
  | dirPerm (applied : Bool)     -- M:  (applied = the parsed values reach pkg.Files)
  | fileLine                     -- R:
  | filePerm (applied : Bool)    -- a:
  deriving Repr, DecidableEq

structure Case where
  tag : Char
  act : Act
  deriving Repr, DecidableEq

def splitRepeatedField (val : Text) : List Text := if val = [] then [] else splitOnChar ' ' val

def decode (c : Codec) (d : Dec) (old : Val) (val : Text) : Option Val :=
  match d with
  | .str => some (.str val)
  | .splitRep => some (.list (splitRepeatedField val))
  | .split => some (.list (splitOnChar ' ' val))
  | .int64 => (parseIntB 10 val).map .int
  | .uint64 => (parseUintB 10 val).map .nat
  | .q1 => match stripPrefix ['Q', '1'] val with
    | some r => (c.dec r).map .bytes
    | none => some old

def actOfGo (body : String) : Option Act :=
  match body with
  | "pkg.Name = val" => some (.field .name .str)
  | "pkg.Version = val" => some (.field .version .str)
  | "pkg.Arch = val" => some (.field .arch .str)
  | "pkg.License = val" => some (.field .license .str)
  | "pkg.Description = val" => some (.field .description .str)
  | "pkg.Origin = val" => some (.field .origin .str)
  | "pkg.Maintainer = val" => some (.field .maintainer .str)
  | "pkg.URL = val" => some (.field .url .str)
  | "pkg.RepoCommit = val" => some (.field .commit .str)
  | "pkg.Dependencies = splitRepeatedField(val)" => some (.field .deps .splitRep)
  | "pkg.Provides = splitRepeatedField(val)" => some (.field .provides .splitRep)
  | "pkg.InstallIf = splitRepeatedField(val)" => some (.field .installIf .splitRep)
  | "pkg.Replaces = splitRepeatedField(val)" => some (.field .replaces .splitRep)
  | "pkg.Dependencies = strings.Split(val, \" \")" => some (.field .deps .split)
  | "pkg.Provides = strings.Split(val, \" \")" => some (.field .provides .split)
  | "pkg.InstallIf = strings.Split(val, \" \")" => some (.field .installIf .split)
  | "pkg.Replaces = strings.Split(val, \" \")" => some (.field .replaces .split)
  | "i, err := strconv.ParseInt(val, 10, 64); if err != nil { return }; pkg.BuildDate = i; pkg.BuildTime = time.Unix(i, 0).UTC()" =>
    some (.field .buildTime .int64)
  | "size, err := strconv.ParseUint(val, 10, 64); if err != nil { return }; pkg.Size = size" =>
    some (.field .size .uint64)
  | "installedSize, err := strconv.ParseUint(val, 10, 64); if err != nil { return }; pkg.InstalledSize = installedSize" =>
    some (.field .installedSize .uint64)
  | "priority, err := strconv.ParseUint(val, 10, 64); if err != nil { return }; pkg.ProviderPriority = priority" =>
    some (.field .priority .uint64)
  | "if strings.HasPrefix(val, \"Q1\") { checksum, err := base64.StdEncoding.DecodeString(val[2:]); if err != nil { return }; pkg.Checksum = checksum }" =>
    some (.field .checksum .q1)
  | "lastDir = &tar.Header{ Name: val, Mode: 0o755, Uid: 0, Gid: 0, Typeflag: tar.TypeDir, }; pkg.Files = append(pkg.Files, *lastDir); lastFile = nil" =>
    some .dirLine
  | "lastDir = &tar.Header{ Name: val, Mode: 0o755, Uid: 0, Gid: 0, Typeflag: tar.TypeDir, }; lastDirIdx = len(pkg.Files); pkg.Files = append(pkg.Files, *lastDir); lastFile = nil" =>
    some .dirLine
  | "if lastDir == nil { return nil, <error> }; uid, gid, perms, err := parseInstalledPerms(val); if err != nil { return }; lastDir.Uid = uid; lastDir.Gid = gid; lastDir.Mode = perms" =>
    some (.dirPerm false)      -- assigns to a detached copy: `pkg.Files` holds `*lastDir` by value
  | "if lastDir == nil { return nil, <error> }; uid, gid, perms, err := parseInstalledPerms(val); if err != nil { return }; lastDir.Uid = uid; lastDir.Gid = gid; lastDir.Mode = perms; pkg.Files[lastDirIdx] = *lastDir" =>
    some (.dirPerm true)
  | "fullpath := val; if lastDir != nil { fullpath, _ = sanitizeArchivePath(lastDir.Name, val) }; lastFile = &tar.Header{ Name: fullpath, Mode: 0o644, Uid: 0, Gid: 0, }; pkg.Files = append(pkg.Files, *lastFile)" =>
    some .fileLine
  | "if lastFile == nil { return nil, <error> }; uid, gid, perms, err := parseInstalledPerms(val); if err != nil { return }; lastFile.Uid = uid; lastFile.Gid = gid; lastFile.Mode = perms" =>
    some (.filePerm false)
  | "if lastFile == nil { return nil, <error> }; uid, gid, perms, err := parseInstalledPerms(val); if err != nil { return }; lastFile.Uid = uid; lastFile.Gid = gid; lastFile.Mode = perms; pkg.Files[len(pkg.Files)-1] = *lastFile" =>
    some (.filePerm true)
  | _ => none

def casesOfGo : List (Nat × String) → Option (List Case)
  | [] => some []
  | r :: rs => match actOfGo r.2, casesOfGo rs with
    | some a, some b => some ({ tag := Char.ofNat r.1, act := a } :: b)
    | _, _ => none

def indexCases : List Case := (casesOfGo Generated.indexSwitch).getD []
def idbCases : List Case := (casesOfGo Generated.idbSwitch).getD []

def findCase (cs : List Case) (tok : Char) : Option Act :=
  match cs with
  | [] => none
  | c :: rest => if c.tag = tok then some c.act else findCase rest tok

/-! ## `ParsePackageIndex` -/

structure IdxState where
  pkgs : List Pkg := []
  cur : Pkg := {}
  deriving Repr, DecidableEq

def flushPkg (pkgs : List Pkg) (cur : Pkg) : List Pkg := if cur.name = [] then pkgs else pkgs ++ [cur]

/-- the statement of a package-field case -/
def applyField (c : Codec) (f : Field) (d : Dec) (val : Text) (p : Pkg) : Option Pkg :=
  (decode c d (get p f) val).map (set p f)

def idxStep (c : Codec) (cs : List Case) (st : IdxState) (line : Text) : Res IdxState :=
  match line with
  | [] => .ok { pkgs := flushPkg st.pkgs st.cur, cur := {} }
  | [_] => .err                                    -- len(line) < 2
  | tok :: sep :: val =>
    if sep ≠ ':' then .err else
    match findCase cs tok with
    | some (.field f d) => (Res.ofOption (applyField c f d val st.cur)).bind fun p => .ok { st with cur := p }
    | _ => .ok st                                  -- no case for this tag (file cases do not occur here)

def idxFold (c : Codec) (cs : List Case) : IdxState → List Text → Res IdxState
  | st, [] => .ok st
  | st, l :: ls => (idxStep c cs st l).bind fun st' => idxFold c cs st' ls

/-- `ParsePackageIndex`: the packages completed by an empty line; the scanner error is returned -/
def parseIndex (c : Codec) (cs : List Case) (t : Text) : Res (List Pkg) :=
  let (ls, tooLong) := scanLines indexTokenMax t
  (idxFold c cs {} ls).bind fun st => if tooLong then .err else .ok st.pkgs

/-- `ArchiveFromIndex` (text of the APKINDEX member): nameless packages are skipped -/
def renderIndex (c : Codec) (rows : List Row) (ps : List Pkg) : Text :=
  ps.flatMap fun p => if p.name = [] then [] else recText c rows p

/-- what the APKINDEX format carries: everything but `replaces` (apk-tools writes `r:` only in the
installed db; neither the template nor `ParsePackageIndex` has it) -/
def indexProj (p : Pkg) : Pkg := { p with replaces := [] }

/-! ## paths (`path/filepath` on Unix) -/

def cleanComps (rooted : Bool) : List Text → List Text → List Text
  | acc, [] => acc.reverse
  | acc, c :: cs =>
    if c = [] ∨ c = ['.'] then cleanComps rooted acc cs
    else if c = ['.', '.'] then
      match acc with
      | a :: acc' => if a = ['.', '.'] then cleanComps rooted (c :: acc) cs else cleanComps rooted acc' cs
      | [] => if rooted then cleanComps rooted [] cs else cleanComps rooted [c] cs
    else cleanComps rooted (c :: acc) cs

/-- `filepath.Clean` -/
def pathClean (p : Text) : Text :=
  if p = [] then ['.'] else
  let rooted := p.head? = some '/'
  let body := joinWith ['/'] (cleanComps rooted [] (splitOnChar '/' p))
  if rooted then '/' :: body else if body = [] then ['.'] else body

/-- `filepath.Dir` -/
def pathDir (p : Text) : Text := pathClean (p.reverse.dropWhile (· != '/')).reverse

/-- `filepath.Base` -/
def pathBase (p : Text) : Text :=
  if p = [] then ['.'] else
  let b := ((p.reverse.dropWhile (· == '/')).takeWhile (· != '/')).reverse
  if b = [] then ['/'] else b

/-- `filepath.Join(d, t)` -/
def pathJoin2 (d t : Text) : Text :=
  if d ≠ [] then pathClean (d ++ '/' :: t) else if t ≠ [] then pathClean t else []

/-- `isWithin(base, p)` (common.go, after the repair of the sibling-prefix defect): `p` is the cleaned base
itself or lies below it; the separator is part of the prefix -/
def withSlash (b : Text) : Text :=
  match b.reverse with
  | '/' :: _ => b
  | _ => b ++ ['/']

def isWithin (base p : Text) : Bool :=
  let b := pathClean base
  p == b || (withSlash b).isPrefixOf p

/-- `sanitizeArchivePath(d, t)` with the error dropped (the caller ignores it): "" when tainted -/
def sanitizeJoin (d t : Text) : Text :=
  let v := pathJoin2 d t
  if isWithin d v then v else []

/-! ## file records of the installed db -/

structure FileRec where
  name : Text
  isDir : Bool
  mode : Int        -- tar.Header.Mode (int64)
  uid : Int
  gid : Int
  csum : Text := [] -- PAXRecords["APK-TOOLS.checksum.SHA1"]: hex, or "Q1"+base64; "" = none
  deriving Repr, DecidableEq

def isHexChar (c : Char) : Bool := isDigit c || (decide ('a' ≤ c) && decide (c ≤ 'f')) || (decide ('A' ≤ c) && decide (c ≤ 'F'))
def hexValAny (c : Char) : Nat :=
  if isDigit c then c.toNat - 48 else if 'a' ≤ c ∧ c ≤ 'f' then c.toNat - 87 else c.toNat - 55
def unhexAny : Text → Text
  | a :: b :: rest => Char.ofNat (hexValAny a * 16 + hexValAny b) :: unhexAny rest
  | _ => []
/-- `hex.DecodeString` -/
def hexDecode (t : Text) : Option Text :=
  if t.length % 2 = 0 ∧ t.all isHexChar = true then some (unhexAny t) else none

def trimSuffixSlash (t : Text) : Text :=
  match t.reverse with
  | '/' :: r => r.reverse
  | _ => t

/-- the pinned tree before the repair of F16d: `perm := f.Mode & 0777`, kept for the witness -/
def pinnedPerm (mode : Int) : Int := mode.emod 512

def permLine (tag : Char) (f : FileRec) : Text :=
  tag :: ':' :: (intToDec f.uid ++ ':' :: (intToDec f.gid ++ ':' :: oct4 (f.mode.emod 4096).toNat))

/-- the body of AddInstalledPackage's file loop for one header -/
def fileLines (c : Codec) (f : FileRec) : Res (List Text) :=
  let perm := f.mode.emod 4096
  if f.isDir then
    .ok (('F' :: ':' :: trimSuffixSlash f.name) ::
      (if perm ≠ 0o755 ∨ f.uid ≠ 0 ∨ f.gid ≠ 0 then [permLine 'M' f] else []))
  else
    let head := ('R' :: ':' :: pathBase f.name) ::
      (if perm ≠ 0o644 ∨ f.uid ≠ 0 ∨ f.gid ≠ 0 then [permLine 'a' f] else [])
    if f.csum = [] then .ok head
    else if (['Q', '1'] : Text).isPrefixOf f.csum then .ok (head ++ ['Z' :: ':' :: f.csum])
    else match hexDecode f.csum with
      | none => .err
      | some b => .ok (head ++ ['Z' :: ':' :: 'Q' :: '1' :: c.enc b])

def filesLines (c : Codec) : List FileRec → Res (List Text)
  | [] => .ok []
  | f :: fs => (fileLines c f).bind fun a => (filesLines c fs).bind fun b => .ok (a ++ b)

/-! ### `sortTarHeaders` -/

def textLe : Text → Text → Bool
  | [], _ => true
  | _ :: _, [] => false
  | a :: as, b :: bs => if a.toNat < b.toNat then true else if b.toNat < a.toNat then false else textLe as bs

def sortTexts (l : List Text) : List Text := l.mergeSort textLe

/-- last header stored under a cleaned name (`all[cleanedName] = header`) -/
def lookupHeader (hs : List FileRec) (n : Text) : Option FileRec :=
  (hs.reverse.find? fun h => pathClean h.name = n)

/-- `directoryChildren[d]`: cleaned names whose `filepath.Dir` is d, in input order -/
def childrenOf (hs : List FileRec) (d : Text) : List Text :=
  (hs.map fun h => pathClean h.name).filter fun n => pathDir n = d

/-- `sortChildrenTarHeaders`; `none` = fuel exhausted (Go recurses forever: a header that cleans to ".") -/
def sortChildren (hs : List FileRec) : Nat → List Text → Option (List FileRec)
  | 0, _ => none
  | fuel + 1, children =>
    let sorted := sortTexts children
    let found := sorted.filterMap (lookupHeader hs)
    let files := found.filter (fun h => !h.isDir)
    let dirs := sorted.filterMap fun n => match lookupHeader hs n with
      | some h => if h.isDir then some (n, h) else none
      | none => none
    let rec go : List (Text × FileRec) → Option (List FileRec)
      | [] => some []
      | (n, h) :: rest =>
        match sortChildren hs fuel (childrenOf hs n), go rest with
        | some sub, some tl => some (h :: sub ++ tl)
        | _, _ => none
    (go dirs).map (files ++ ·)

def dedupTexts : List Text → List Text
  | [] => []
  | a :: rest => a :: (dedupTexts rest).filter (· != a)

/-- `sortTarHeaders`: starts from the keys of `directoryChildren` (directories that have children,
and ".") whose `Dir` is "." -/
def sortHeaders (hs : List FileRec) : Option (List FileRec) :=
  let keys := dedupTexts (hs.map fun h => pathDir (pathClean h.name))
  let top := sortTexts (keys.filter fun d => pathDir d = ['.'])
  sortChildren hs (hs.length + 2) top

/-! ### how many records `sortTarHeaders` emits (F16i)

A directory NAME that occurs k times in the header list occurs k times in its parent's child list
(`directoryChildren[dir] = append(…)` per record), and every occurrence emits the directory's whole
subtree: the output is not linear in the input, and sorting that output again multiplies per level. -/

/-- the number of records `sortChildren` emits, computed without building them: a name that occurs m times
in the child list contributes m records, and m times the size of its subtree when it is stored as a
directory, so the walk visits every distinct name once and its cost does not depend on the size of the
answer (which is a `Nat`, 2^depth included).  `none` = fuel exhausted, as in `sortChildren`. -/
def countChildren (hs : List FileRec) : Nat → List Text → Option Nat
  | 0, _ => none
  | fuel + 1, children =>
    let rec go : List Text → Option Nat
      | [] => some 0
      | n :: rest =>
        let m := children.count n
        match lookupHeader hs n with
        | none => go rest
        | some h =>
          if h.isDir then
            match countChildren hs fuel (childrenOf hs n), go rest with
            | some sub, some tl => some (m * (1 + sub) + tl)
            | _, _ => none
          else (go rest).map (m + ·)
    go (dedupTexts children)

/-- the length of `sortHeaders hs` -/
def sortHeadersCount (hs : List FileRec) : Option Nat :=
  let keys := dedupTexts (hs.map fun h => pathDir (pathClean h.name))
  let top := keys.filter fun d => pathDir d = ['.']
  countChildren hs (hs.length + 2) top

/-- class F16i: two records clean to one name, the name is stored as a directory and has children -/
def dupDirWithChildren (hs : List FileRec) : Bool :=
  let names := hs.map fun h => pathClean h.name
  names.any fun n => decide (1 < names.count n) &&
    (match lookupHeader hs n with
     | some h => h.isDir
     | none => false) &&
    !(childrenOf hs n).isEmpty

/-- the size above which the harness does not run the real `sortTarHeaders` and the driver does not run the
model sort.  Go itself copes with 10^5 records, the `List Char` model of the db text does not (a re-write that
emits 3·10^4 records of a 40-deep chain takes the compiled model more than 120 s), and both sides must
skip the same cases, so the cap is what the model can do in about a second. -/
def sortSizeCap : Nat := 2000

/-! ## `AddInstalledPackage` / `ParseInstalled` -/

structure IPkg where
  pkg : Pkg
  files : List FileRec
  deriving Repr, DecidableEq

/-- text appended by one `AddInstalledPackage` call; `.err` = returns an error (nothing written),
`.oob` = never returns -/
def renderInstalled (c : Codec) (rows : List Row) (ip : IPkg) : Res Text :=
  match sortHeaders ip.files with
  | none => .oob
  | some sorted => (filesLines c sorted).bind fun fl => .ok (unlines (recLines c rows ip.pkg ++ fl ++ [[]]))

def renderInstalledAll (c : Codec) (rows : List Row) : List IPkg → Res Text
  | [] => .ok []
  | ip :: rest => (renderInstalled c rows ip).bind fun a => (renderInstalledAll c rows rest).bind fun b => .ok (a ++ b)

structure IdbState where
  pkgs : List IPkg := []
  cur : Pkg := {}
  files : List FileRec := []
  lastDir : Option (Nat × FileRec) := none   -- index in `files`, and the header `lastDir` points to
  lastFile : Option FileRec := none
  deriving Repr, DecidableEq

/-- `parseInstalledPerms` -/
def parsePerms (val : Text) : Option (Int × Int × Int) :=
  match splitOnChar ':' val with
  | [a, b, m] =>
    match parseIntB 10 a, parseIntB 10 b, parseIntB 8 m with
    | some u, some g, some p => some (u, g, p)
    | _, _, _ => none
  | _ => none

def setAt (l : List FileRec) (i : Nat) (f : FileRec) : List FileRec := l.set i f

/-- one iteration of the loop of ParseInstalled.  `guarded` = the one-byte-line guard
(`len(line) < 2 || …`) is present; without it a one-byte line panics in `line[2:]`. -/
def idbStep (c : Codec) (cs : List Case) (guarded : Bool) (st : IdbState) (line : Text) : Res IdbState :=
  match line with
  | [] => .ok { pkgs := if st.cur.name = [] then st.pkgs else st.pkgs ++ [⟨st.cur, st.files⟩] }
  | [_] => if guarded then .err else .oob
  | tok :: sep :: val =>
    if sep ≠ ':' then .err else
    match findCase cs tok with
    | none => .ok st
    | some (.field f d) => (Res.ofOption (applyField c f d val st.cur)).bind fun p => .ok { st with cur := p }
    | some .dirLine =>
      let h : FileRec := { name := val, isDir := true, mode := 0o755, uid := 0, gid := 0 }
      .ok { st with files := st.files ++ [h], lastDir := some (st.files.length, h), lastFile := none }
    | some (.dirPerm applied) =>
      match st.lastDir with
      | none => .err
      | some (i, h) =>
        match parsePerms val with
        | none => .err
        | some (u, g, m) =>
          let h' := { h with uid := u, gid := g, mode := m }
          .ok { st with lastDir := some (i, h'), files := if applied then setAt st.files i h' else st.files }
    | some .fileLine =>
      let full := match st.lastDir with
        | some (_, d) => sanitizeJoin d.name val
        | none => val
      let h : FileRec := { name := full, isDir := false, mode := 0o644, uid := 0, gid := 0 }
      .ok { st with files := st.files ++ [h], lastFile := some h }
    | some (.filePerm applied) =>
      match st.lastFile with
      | none => .err
      | some h =>
        match parsePerms val with
        | none => .err
        | some (u, g, m) =>
          let h' := { h with uid := u, gid := g, mode := m }
          .ok { st with lastFile := some h',
                        files := if applied then setAt st.files (st.files.length - 1) h' else st.files }

def idbFold (c : Codec) (cs : List Case) (guarded : Bool) : IdbState → List Text → Res IdbState
  | st, [] => .ok st
  | st, l :: ls => (idbStep c cs guarded st l).bind fun st' => idbFold c cs guarded st' ls

/-- which guard the loop of ParseInstalled has (from the regenerated statement list) -/
def idbGuarded : Bool :=
  Generated.idbLoopPre.contains "if len(line) < 2 || line[1:2] != \":\" { return nil, <error> }"

/-- `ParseInstalled`: the scanner error is *not* returned (`return packages, nil`) -/
def parseInstalled (c : Codec) (cs : List Case) (guarded : Bool) (t : Text) : Res (List IPkg) :=
  let (ls, _) := scanLines defaultTokenMax t
  (idbFold c cs guarded {} ls).bind fun st => .ok st.pkgs

/-! ## passwd / group -/

structure User where
  name : Text
  password : Text
  uid : Nat
  gid : Nat
  info : Text
  home : Text
  shell : Text
  deriving Repr, DecidableEq

structure Group where
  name : Text
  password : Text
  gid : Nat
  members : List Text
  deriving Repr, DecidableEq

/-- UTF-8 encodings of the code points for which `unicode.IsSpace` holds -/
def spaceSeqs : List Text :=
  let b (n : Nat) : Char := Char.ofNat n
  [[b 0x09], [b 0x0a], [b 0x0b], [b 0x0c], [b 0x0d], [b 0x20], [b 0xc2, b 0x85], [b 0xc2, b 0xa0],
   [b 0xe1, b 0x9a, b 0x80],
   [b 0xe2, b 0x80, b 0x80], [b 0xe2, b 0x80, b 0x81], [b 0xe2, b 0x80, b 0x82], [b 0xe2, b 0x80, b 0x83],
   [b 0xe2, b 0x80, b 0x84], [b 0xe2, b 0x80, b 0x85], [b 0xe2, b 0x80, b 0x86], [b 0xe2, b 0x80, b 0x87],
   [b 0xe2, b 0x80, b 0x88], [b 0xe2, b 0x80, b 0x89], [b 0xe2, b 0x80, b 0x8a],
   [b 0xe2, b 0x80, b 0xa8], [b 0xe2, b 0x80, b 0xa9], [b 0xe2, b 0x80, b 0xaf], [b 0xe2, b 0x81, b 0x9f],
   [b 0xe3, b 0x80, b 0x80]]

/-- the text starts with an encoded space -/
def leadSpace (t : Text) : Option Nat := (spaceSeqs.find? fun s => s.isPrefixOf t).map List.length
/-- the text ends with an encoded space -/
def trailSpace (t : Text) : Option Nat := (spaceSeqs.find? fun s => s.reverse.isPrefixOf t.reverse).map List.length

def trimLeft : Nat → Text → Text
  | 0, t => t
  | fuel + 1, t => match leadSpace t with
    | some n => trimLeft fuel (t.drop n)
    | none => t

def trimRightRev : Nat → Text → Text     -- on the reversed text
  | 0, t => t
  | fuel + 1, t => match (spaceSeqs.find? fun s => s.reverse.isPrefixOf t).map List.length with
    | some n => trimRightRev fuel (t.drop n)
    | none => t

/-- `strings.TrimSpace` -/
def trimSpace (t : Text) : Text :=
  let l := trimLeft t.length t
  (trimRightRev l.length l.reverse).reverse

/-- `strings.TrimRight(line, "\r\n")`: only line terminators at the end go (after the repair of F16f) -/
def trimEOL (t : Text) : Text := (t.reverse.dropWhile fun c => c == '\r' || c == '\n').reverse

def toU32 (i : Int) : Nat := (i.emod 4294967296).toNat

def renderUser (u : User) : Text :=
  u.name ++ ':' :: (u.password ++ ':' :: (natToDec u.uid ++ ':' :: (natToDec u.gid ++ ':' ::
    (u.info ++ ':' :: (u.home ++ ':' :: (u.shell ++ ['\n']))))))

/-- `UserEntry.Parse`, generic in what is trimmed off the line first -/
def parseUserWith (trim : Text → Text) (line : Text) : Option User :=
  match splitOnChar ':' (trim line) with
  | [n, pw, uid, gid, info, home, sh] =>
    match parseIntB 10 uid, parseIntB 10 gid with
    | some u, some g => some ⟨n, pw, toU32 u, toU32 g, info, home, sh⟩
    | _, _ => none
  | _ => none

/-- `UserEntry.Parse` -/
def parseUser (line : Text) : Option User := parseUserWith trimEOL line

/-- the pinned tree before the repair of F16f: `line = strings.TrimSpace(line)`, kept for the witnesses -/
def pinnedParseUser (line : Text) : Option User := parseUserWith trimSpace line

def renderGroup (g : Group) : Text :=
  g.name ++ ':' :: (g.password ++ ':' :: (natToDec g.gid ++ ':' :: (joinWith [','] g.members ++ ['\n'])))

/-- the member field of a group line: `ge.Members = nil; if parts[3] != "" { ge.Members =
strings.Split(parts[3], ",") }` (after the repair of F16e) -/
def splitMembers (mem : Text) : List Text := if mem = [] then [] else splitOnChar ',' mem

/-- `GroupEntry.Parse`, generic in what is trimmed off the line and in the reading of the member field -/
def parseGroupWith (trim : Text → Text) (members : Text → List Text) (line : Text) : Option Group :=
  match splitOnChar ':' (trim line) with
  | [n, pw, gid, mem] =>
    match parseIntB 10 gid with
    | some g => some ⟨n, pw, toU32 g, members mem⟩
    | none => none
  | _ => none

/-- `GroupEntry.Parse` -/
def parseGroup (line : Text) : Option Group := parseGroupWith trimEOL splitMembers line

/-- the pinned tree before the repairs of F16e (`ge.Members = strings.Split(parts[3], ",")` unconditionally:
an empty field is one empty member) and F16f (`strings.TrimSpace`), kept for the witnesses -/
def pinnedParseGroup (line : Text) : Option Group := parseGroupWith trimSpace (splitOnChar ',') line
/-- F16f alone: the pinned trimming with today's member field -/
def pinnedTrimParseGroup (line : Text) : Option Group := parseGroupWith trimSpace splitMembers line

def mapAllOpt {α β : Type} (f : α → Option β) : List α → Option (List β)
  | [] => some []
  | a :: rest => match f a, mapAllOpt f rest with
    | some b, some bs => some (b :: bs)
    | _, _ => none

/-- `UserFile.Load` / `GroupFile.Load`: every scanned line must parse; the scanner error is returned -/
def loadWith {α : Type} (parse : Text → Option α) (t : Text) : Option (List α) :=
  let (ls, tooLong) := scanLines defaultTokenMax t
  match mapAllOpt parse ls with
  | some es => if tooLong then none else some es
  | none => none

def loadUsers : Text → Option (List User) := loadWith parseUser
def loadGroups : Text → Option (List Group) := loadWith parseGroup
def pinnedLoadGroups : Text → Option (List Group) := loadWith pinnedParseGroup
def pinnedLoadUsers : Text → Option (List User) := loadWith pinnedParseUser
def pinnedTrimLoadGroups : Text → Option (List Group) := loadWith pinnedTrimParseGroup
def writeUsers (us : List User) : Text := us.flatMap renderUser
def writeGroups (gs : List Group) : Text := gs.flatMap renderGroup

/-! ## well-formedness (the quantifier of the property) -/

/-- free of the line terminators (LF, and CR which `ScanLines` strips) -/
def lineSafe (t : Text) : Bool := t.all fun c => c != '\n' && c != '\r'
/-- a list item: non-empty, no space, no line terminator -/
def itemSafe (t : Text) : Bool := !t.isEmpty && t.all fun c => c != '\n' && c != '\r' && c != ' '

def valSafe : Val → Bool
  | .str t => lineSafe t
  | .list l => l.all itemSafe
  | .nat n => decide (n < 2 ^ 64)
  | .int i => decide (-(2 ^ 63) ≤ i) && decide (i < 2 ^ 63)
  | .bytes _ => true

/-- every rendered line fits the scanner's token limit -/
def linesFit (max : Nat) (ls : List Text) : Bool := ls.all fun l => decide (l.length < max)

/-- well-formed package record for a format given by its writer rows and token limit -/
def WFPkg (c : Codec) (rows : List Row) (max : Nat) (p : Pkg) : Bool :=
  !p.name.isEmpty && allFields.all (fun f => valSafe (get p f)) && linesFit max (recLines c rows p)

end Apko.Formats
