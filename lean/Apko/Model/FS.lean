import Apko.Model.Path
/-!
# The in-memory file systems of apko (`pkg/apk/fs/memfs.go`, `pkg/tarfs/fs.go`) and their reference

One executable state machine `step : Cfg → FS → Op → FS × Out`.

* The state is the pointer graph of the Go code: `nodes[i]` is the `*node` with identity `i`
  (`0` is the root), directories hold `children : name ↦ ino` (an association list with distinct
  keys, insertion order irrelevant: every listing sorts), hard links are two edges to one `ino`.
  Nodes are never freed (Go: an open handle keeps a removed node alive), so "live inode" is
  `ino < nodes.length`.
* `Cfg.backend` selects the few places where `memfs` and `tarfs` differ (`tarfs` can open its
  root, keeps package (tar) entries and hard-link headers).  `DirFS` and `SubFS` are layers on
  top of this machine (`subOp` below; the disk half of `DirFS` lives in the C17/C18 packages).
* `Cfg.posix` and `Cfg.teTrunc` switch from what the code does (**Impl**: `Cfg.impl b`) to what
  the property demands (**Spec**: `Cfg.spec b`) at exactly the places where they are known to
  differ:
    - `posix`: `.`/`..` components and relative link targets are resolved physically
      (against the directory that really holds the link) instead of being looked up as literal
      names / joined lexically to the traversed prefix (finding F17d);
    - `teTrunc`: truncating a package-backed file really empties it (finding F17b).
  Everything the property is silent about is the same in Spec and Impl: `Stat` follows the last
  link, `O_EXCL` is ignored, `Remove` unlinks non-empty directories, any handle may be written.
* The model mirrors the tree *after* the repairs made for this property (see KNOWN_FINDINGS):
  writes past the end zero-fill and negative offsets are rejected (F17a), link traversals are
  counted in one counter per lookup (F17c), `MkdirAll`/`Mkdir` never create `.`/`..` (F15b),
  `Symlink`/`Link`/`Mknod` under a non-directory fail instead of writing a nil map (F17e),
  no method enters a node under the base names `.`, `..`, `/` (F17g), `Link` refuses directories
  (F17h), and `SubFS.Symlink`/`SubFS.Link` join the view's root like every other method (F17i).

Names and contents are `Text` (one `Char` per byte).
-/
namespace Apko.FS
open Apko Apko.Path

abbrev Ino := Nat

/-- `maxLinks` of both packages (tied to the source by `Generated.FS.maxLinks*`) -/
def maxLinks : Nat := 40

inductive Backend | memfs | tarfs
  deriving DecidableEq, Repr

structure Cfg where
  backend : Backend
  posix : Bool := false
  teTrunc : Bool := false
  /-- SHA-1 as used by `tarfs.writeHeader` for files without a tar entry (a parameter: no
      property of it is used) -/
  sha1 : Text → Text := id

def Cfg.impl (b : Backend) (h : Text → Text := id) : Cfg := { backend := b, sha1 := h }
def Cfg.spec (b : Backend) (h : Text → Text := id) : Cfg :=
  { backend := b, posix := true, teTrunc := true, sha1 := h }

/-! ## mode bits (`io/fs.FileMode`) and open flags (Linux) -/

def modeDir : Nat := 2 ^ 31
def modeSymlink : Nat := 2 ^ 27
def modeDevice : Nat := 2 ^ 26
def modeCharDevice : Nat := 2 ^ 21
def modeSetuid : Nat := 2 ^ 23
def modeSetgid : Nat := 2 ^ 22
def modeSticky : Nat := 2 ^ 20
/-- `fs.ModeType` = Dir | Symlink | NamedPipe | Socket | Device | CharDevice | Irregular -/
def modeType : Nat := 2 ^ 31 + 2 ^ 27 + 2 ^ 26 + 2 ^ 25 + 2 ^ 24 + 2 ^ 21 + 2 ^ 19

def oWronly (f : Nat) : Bool := f.testBit 0
def oRdwr (f : Nat) : Bool := f.testBit 1
def oCreate (f : Nat) : Bool := f.testBit 6
def oTrunc (f : Nat) : Bool := f.testBit 9
def oAppend (f : Nat) : Bool := f.testBit 10
/-- `O_RDWR|O_CREATE|O_TRUNC` -/
def flagsWriteFile : Nat := 2 + 64 + 512

/-- Unix time of Go's zero `time.Time` -/
def zeroTime : Int := -62135596800

/-! ## state -/

/-- what `tarfs` remembers about a package-provided file (`tarEntry`) -/
structure TarEntry where
  content : Text          -- what `te.tfs.Open(header.Name)` delivers
  size : Nat              -- `header.Size`
  checksum : Text
  pkgName : Text
  pkgOrigin : Text
  pkgReplaces : List Text
  deriving DecidableEq, Repr, Inhabited

structure Inode where
  dir : Bool := false
  mode : Nat := 0
  uid : Int := 0
  gid : Int := 0
  mtime : Int := zeroTime
  data : Text := []
  target : Text := []
  major : Nat := 0
  minor : Nat := 0
  children : List (Name × Ino) := []
  xattrs : List (Name × Text) := []
  /-- Go's `linkCount` (extra links; never read by the code) -/
  nlink : Nat := 0
  te : Option TarEntry := none
  /-- Spec only: the package content was replaced (buffered for writing or truncated) -/
  mat : Bool := false
  /-- `tarfs`: hard-link headers registered through `WriteHeader`, `name ↦ linkname` -/
  hardlinks : List (Text × Text) := []
  deriving DecidableEq, Repr, Inhabited

def Inode.isSymlink (n : Inode) : Bool := n.mode.testBit 27

structure Handle where
  ino : Ino
  name : Text
  /-- Spec: the directory stack `name` is relative to -/
  start : List Ino := [0]
  offset : Int := 0
  flag : Nat := 0
  closed : Bool := false
  /-- `tarfs`: reads are served by the package file (`memFile.rc`) -/
  rc : Bool := false
  /-- `false` for the slot of an `OpenFile`/`Create` that failed -/
  valid : Bool := true
  deriving DecidableEq, Repr, Inhabited

structure FS where
  nodes : List Inode
  handles : List Handle := []
  deriving DecidableEq, Repr

def rootInode : Inode := { dir := true, mode := modeDir + 0o755 }

/-- `NewMemFS()` / `tarfs.New()` -/
def FS.empty : FS := { nodes := [rootInode] }

def FS.node (fs : FS) (i : Ino) : Inode := fs.nodes.getD i default

def FS.setNode (fs : FS) (i : Ino) (n : Inode) : FS := { fs with nodes := fs.nodes.set i n }

def FS.modify (fs : FS) (i : Ino) (f : Inode → Inode) : FS := fs.setNode i (f (fs.node i))

/-- allocate a fresh node -/
def FS.alloc (fs : FS) (n : Inode) : FS × Ino :=
  ({ fs with nodes := fs.nodes ++ [n] }, fs.nodes.length)

def FS.lookup (fs : FS) (d : Ino) (n : Name) : Option Ino := (fs.node d).children.lookup n

/-- `parent.children[name] = ino` -/
def setChild (cs : List (Name × Ino)) (n : Name) (i : Ino) : List (Name × Ino) :=
  cs.filter (fun e => e.1 ≠ n) ++ [(n, i)]

def FS.link (fs : FS) (d : Ino) (n : Name) (i : Ino) : FS :=
  fs.modify d fun nd => { nd with children := setChild nd.children n i }

def FS.unlink (fs : FS) (d : Ino) (n : Name) : FS :=
  fs.modify d fun nd => { nd with children := nd.children.filter (fun e => e.1 ≠ n) }

/-- create a node and enter it into directory `d` under `n` -/
def FS.create (fs : FS) (d : Ino) (n : Name) (nd : Inode) : FS × Ino :=
  let (fs1, i) := fs.alloc nd
  (fs1.link d n i, i)

def newDir (mode : Nat) : Inode := { dir := true, mode := mode }

/-! ## errors and results -/

inductive Err
  | notExist | exist | parentNotDir | pathNotDir | notDir | isDir | loop | tooManyLinks
  | notLink | notDevice | closed | invalid | whence | notWrite | perm
  | conflictNoTe | conflictSum | fileConflict | nilChecksum | unsupported
  deriving DecidableEq, Repr

structure StatInfo where
  name : Text
  size : Nat
  mode : Nat
  mtime : Int
  isDir : Bool
  uid : Int
  gid : Int
  /-- `tarfs`: `Sys().(*tar.Header).Linkname` when the name was registered as a hard link -/
  hardlink : Option Text := none
  deriving DecidableEq, Repr

inductive Val
  | unit
  | handle (h : Nat)
  | bytes (b : Text) (eof : Bool)
  | num (n : Int)
  | stat (s : StatInfo)
  | entries (es : List StatInfo)
  | text (t : Text)
  | xattrs (l : List (Name × Text))
  | bool (b : Bool)
  deriving DecidableEq, Repr

inductive Out
  | ok (v : Val)
  | err (e : Err)
  /-- the op named a handle slot that does not hold an open file object (harness-level) -/
  | nohandle
  deriving DecidableEq, Repr

def Out.isErr : Out → Bool
  | .err _ => true
  | _ => false

/-! ## operations -/

structure Hdr where
  typeflag : Nat            -- '0' = 48 regular, '1' = 49 link, '2' = 50 symlink, '5' = 53 dir
  name : Text
  linkname : Text := []
  mode : Nat := 0
  size : Nat := 0
  mtime : Int := zeroTime
  checksum : Option Text := none
  xattrs : List (Name × Text) := []
  content : Text := []
  pkgName : Text := []
  pkgOrigin : Text := []
  pkgReplaces : List Text := []
  deriving DecidableEq, Repr

inductive Op
  | mkdir (p : Text) (perm : Nat)
  | mkdirAll (p : Text) (perm : Nat)
  | openFile (p : Text) (flag : Nat) (perm : Nat)
  | create (p : Text)
  | close (h : Nat)
  | read (h : Nat) (n : Nat)
  | readAt (h : Nat) (n : Nat) (off : Int)
  | write (h : Nat) (data : Text)
  | seek (h : Nat) (off : Int) (whence : Nat)
  | hstat (h : Nat)
  | readFile (p : Text)
  | writeFile (p : Text) (data : Text) (perm : Nat)
  | readDir (p : Text)
  | stat (p : Text)
  | lstat (p : Text)
  | remove (p : Text)
  | chmod (p : Text) (perm : Nat)
  | chown (p : Text) (uid gid : Int)
  | chtimes (p : Text) (mtime : Int)
  | symlink (target newname : Text)
  | link (oldname newname : Text)
  | readlink (p : Text)
  | mknod (p : Text) (mode : Nat) (dev : Nat)
  | readnod (p : Text)
  | setXattr (p : Text) (attr : Name) (data : Text)
  | getXattr (p : Text) (attr : Name)
  | removeXattr (p : Text) (attr : Name)
  | listXattrs (p : Text)
  | writeHeader (h : Hdr)
  deriving DecidableEq, Repr

/-! ## path resolution -/

/-- The component loop of `getNodeCountLinks` (Impl, `posix = false`): components are literal
names, a relative link target is joined to the *traversed* prefix and looked up from the root
by the recursive call `recur` (absent at the bottom of the nesting budget); `cnt` is the
shared traversal counter.  Returns the node and the counter. -/
def walkImpl (fs : FS) (recur : Option (Text → Nat → Except Err (Ino × Nat))) :
    List Name → Ino → List Name → Nat → Except Err (Ino × Nat)
  | [], node, _, cnt => .ok (node, cnt)
  | part :: rest, node, traversed, cnt =>
    if !(fs.node node).dir then .error .notExist else
    match fs.lookup node part with
    | none => .error .notExist
    | some child =>
      if (fs.node child).isSymlink then
        if cnt + 1 > maxLinks then .error .loop else
        let t := (fs.node child).target
        let t := if isAbs t then t else join2 (joinNames traversed) t
        match recur with
        | none => .error .loop
        | some r =>
          match r t (cnt + 1) with
          | .error e => .error e
          | .ok (tn, cnt') => walkImpl fs recur rest tn (traversed ++ [part]) cnt'
      else walkImpl fs recur rest child (traversed ++ [part]) cnt

/-- `getNodeCountLinks(path, &cnt)` with nesting budget `d` -/
def getNodeD (fs : FS) : Nat → Text → Nat → Except Err (Ino × Nat)
  | 0, path, cnt =>
    if path = slash ∨ path = dot then .ok (0, cnt) else walkImpl fs none (parts path) 0 [] cnt
  | d + 1, path, cnt =>
    if path = slash ∨ path = dot then .ok (0, cnt)
    else walkImpl fs (some (getNodeD fs d)) (parts path) 0 [] cnt

/-- POSIX walk (Spec, `posix = true`).  The position is the stack of directories from the
current one up to the root (so `..` is physical); a link target continues from the directory
that holds the link, or from the root when absolute. -/
def walkPosix (fs : FS) (recur : Option (List Ino → List Name → Nat → Except Err (List Ino × Nat))) :
    List Name → List Ino → Nat → Except Err (List Ino × Nat)
  | [], st, cnt => .ok (st, cnt)
  | part :: rest, st, cnt =>
    let cur := st.headD 0
    if !(fs.node cur).dir then .error .notExist else
    if part = dot then walkPosix fs recur rest st cnt else
    if part = dotdot then walkPosix fs recur rest (if st.length ≤ 1 then st else st.tail) cnt else
    match fs.lookup cur part with
    | none => .error .notExist
    | some child =>
      if (fs.node child).isSymlink then
        if cnt + 1 > maxLinks then .error .loop else
        let t := (fs.node child).target
        match recur with
        | none => .error .loop
        | some r =>
          match r (if isAbs t then [0] else st) (parts t) (cnt + 1) with
          | .error e => .error e
          | .ok (st', cnt') => walkPosix fs recur rest st' cnt'
      else walkPosix fs recur rest (child :: st) cnt

def resolvePosixD (fs : FS) : Nat → List Ino → List Name → Nat → Except Err (List Ino × Nat)
  | 0, st, ps, cnt => walkPosix fs none ps st cnt
  | d + 1, st, ps, cnt => walkPosix fs (some (resolvePosixD fs d)) ps st cnt

/-- A resolved position: the node, and (Spec) the directory stack it was reached by -/
structure Pos where
  ino : Ino
  stack : List Ino := [0]
  deriving Repr

/-- resolve `path`; relative paths start at `from` (Impl always starts at the root: all its
paths are root-relative by construction) -/
def resolveFrom (c : Cfg) (fs : FS) (start : List Ino) (path : Text) : Except Err Pos :=
  if c.posix then
    match resolvePosixD fs (maxLinks + 1) (if isAbs path then [0] else start) (parts path) 0 with
    | .error e => .error e
    | .ok (st, _) => .ok { ino := st.headD 0, stack := st }
  else
    match getNodeD fs (maxLinks + 1) path 0 with
    | .error e => .error e
    | .ok (i, _) => .ok { ino := i }

/-- `m.getNode(path)` -/
def getNode (c : Cfg) (fs : FS) (path : Text) : Except Err Ino :=
  (resolveFrom c fs [0] path).map (·.ino)

/-- the target of a link found in the directory at `pos` (whose lexical path is `lexDir`), as
something `resolveFrom`/`openAt` can be applied to -/
def linkDest (c : Cfg) (lexDir : Text) (t : Text) : Text :=
  if c.posix then t else if isAbs t then t else join2 lexDir t

/-! ## the operations -/

def typeKeep (old perm : Nat) : Nat := perm ||| (old &&& modeType)

def effectiveSize (c : Cfg) (n : Inode) : Nat :=
  match n.te with
  | some te => if n.data.length = 0 ∧ !(c.teTrunc && n.mat) then te.size else n.data.length
  | none => n.data.length

def statOf (c : Cfg) (n : Inode) (name : Text) (hlKey : Text) : StatInfo :=
  { name := name, size := effectiveSize c n, mode := n.mode, mtime := n.mtime, isDir := n.dir,
    uid := n.uid, gid := n.gid,
    hardlink := if c.backend = .tarfs then n.hardlinks.lookup hlKey else none }

def hasDotDot (ps : List Name) : Bool := ps.any (· = dotdot)

/-- `isDotName(base)`: what `filepath.Base` yields for a path that names an existing directory (the
directory itself, its parent, the root) rather than a new entry.  No method enters a node into a
directory under such a name. -/
def dotName (b : Name) : Bool := b = dot || b = dotdot || b = slash

/-- `MkdirAll`'s component loop -/
def mkdirAllLoop (c : Cfg) (mode : Nat) : List Name → FS → Pos → List Name → FS × Option Err
  | [], fs, _, _ => (fs, none)
  | part :: rest, fs, at_, traversed =>
    let (fs1, nn) := match fs.lookup at_.ino part with
      | some n => (fs, n)
      | none => fs.create at_.ino part (newDir mode)
    let r : Except Err Pos :=
      if (fs1.node nn).isSymlink then
        resolveFrom c fs1 at_.stack (linkDest c (joinNames traversed) (fs1.node nn).target)
      else .ok { ino := nn, stack := nn :: at_.stack }
    match r with
    | .error e => (fs1, some e)
    | .ok p =>
      if !(fs1.node p.ino).dir then (fs1, some .pathNotDir)
      else mkdirAllLoop c mode rest fs1 p (traversed ++ [part])

def mkdirAll (c : Cfg) (fs : FS) (path : Text) (perm : Nat) : FS × Out :=
  let ps := (parts path).filter (· ≠ dot)
  if hasDotDot ps then (fs, .err .invalid) else
  match mkdirAllLoop c (modeDir ||| perm) ps fs { ino := 0 } [] with
  | (fs', none) => (fs', .ok .unit)
  | (fs', some e) => (fs', .err e)

/-- result of `openFile` before a handle object is made -/
structure Opened where
  ino : Ino
  rc : Bool
  /-- the name of the last `openFile` call of the link chain (what `File.Stat` looks up again) -/
  name : Text
  start : List Ino

/-- the package content is still what the file reads as -/
def teLive (c : Cfg) (n : Inode) : Option TarEntry :=
  match n.te with
  | some te => if n.data.length = 0 ∧ te.size ≠ 0 ∧ !(c.teTrunc && n.mat) then some te else none
  | none => none

/-- `openFile(name, flag, perm, linkCount)`; `budget = maxLinks - linkCount`.  `start` is the
directory stack relative names are resolved from (Spec; the root for the first call). -/
def openFileD (c : Cfg) (flag perm : Nat) : Nat → FS → List Ino → Text → FS × Except Err Opened
  | budget, fs, start, name =>
    let parent := dir name
    let b := base name
    match resolveFrom c fs start parent with
    | .error e => (fs, .error e)
    | .ok pp =>
      let pn := fs.node pp.ino
      if !pn.dir then (fs, .error .parentNotDir) else
      let existing := fs.lookup pp.ino b
      if existing.isNone ∧ !oCreate flag then
        if c.backend = .tarfs ∧ parent = name then (fs, .ok { ino := pp.ino, rc := false, name := name, start := start })
        else (fs, .error .notExist)
      else
      if (match existing with | some a => (fs.node a).dir | none => false) then (fs, .error .isDir) else
      if existing.isNone ∧ dotName b then (fs, .error .isDir) else
      let (fs1, a) := match existing with
        | some a => (fs, a)
        | none => fs.create pp.ino b { mode := perm }
      let an := fs1.node a
      if an.isSymlink then
        match budget with
        | 0 => (fs1, .error .tooManyLinks)
        | k + 1 => openFileD c flag perm k fs1 pp.stack (linkDest c parent an.target)
      else
        match (if c.backend = .tarfs then teLive c an else none) with
        | some te =>
          let write := oAppend flag || oRdwr flag || oWronly flag
          if !write then (fs1, .ok { ino := a, rc := true, name := name, start := start })
          else (fs1.setNode a { an with data := te.content, mat := true },
                .ok { ino := a, rc := false, name := name, start := start })
        | none => (fs1, .ok { ino := a, rc := false, name := name, start := start })

/-- `newMemFile`: position for `O_APPEND` (before truncation), then `O_TRUNC` -/
def newMemFile (fs : FS) (o : Opened) (flag : Nat) : FS × Handle :=
  let n := fs.node o.ino
  let off : Int := if oAppend flag then n.data.length else 0
  let fs1 := if oTrunc flag then fs.setNode o.ino { n with data := [], mat := true } else fs
  (fs1, { ino := o.ino, name := o.name, start := o.start, offset := off, flag := flag, rc := o.rc })

def openCore (c : Cfg) (fs : FS) (name : Text) (flag perm : Nat) : FS × Except Err Handle :=
  match openFileD c flag perm maxLinks fs [0] name with
  | (fs1, .error e) => (fs1, .error e)
  | (fs1, .ok o) =>
    let (fs2, h) := newMemFile fs1 o flag
    (fs2, .ok h)

def zeros (n : Nat) : Text := List.replicate n (Char.ofNat 0)

/-- `memFile.Write` on the data of a node at offset `off ≥ 0` (holes are zero-filled) -/
def writeAt (data : Text) (off : Nat) (p : Text) : Text :=
  if p = [] then data else
  if off + p.length > data.length then (data ++ zeros (off - data.length)).take off ++ p
  else data.take off ++ p ++ data.drop (off + p.length)

/-- what a read-only handle reads: the package file or the node's data -/
def handleData (fs : FS) (h : Handle) : Text :=
  if h.rc then (match (fs.node h.ino).te with | some te => te.content | none => [])
  else (fs.node h.ino).data

def readAtOff (data : Text) (off : Nat) (n : Nat) : Val :=
  if off ≥ data.length then .bytes [] true else .bytes ((data.drop off).take n) false

def FS.setHandle (fs : FS) (i : Nat) (h : Handle) : FS := { fs with handles := fs.handles.set i h }

def sortNames {α} (l : List (Name × α)) : List (Name × α) :=
  l.mergeSort (fun a b => decide (a.1 ≤ b.1))

def setAssoc (l : List (Name × Text)) (k : Name) (v : Text) : List (Name × Text) :=
  if l.any (·.1 = k) then l.map (fun e => if e.1 = k then (k, v) else e) else l ++ [(k, v)]

/-- the mode `tar.Header.FileInfo().Mode()` gives for the headers the suites generate
(permission and set-id bits in `mode`, type from the flag) -/
def hdrMode (h : Hdr) : Nat :=
  (h.mode &&& 0o777)
    ||| (if h.mode.testBit 11 then modeSetuid else 0)
    ||| (if h.mode.testBit 10 then modeSetgid else 0)
    ||| (if h.mode.testBit 9 then modeSticky else 0)
    ||| (if h.typeflag = 50 then modeSymlink else if h.typeflag = 53 then modeDir else 0)

def unixMajor (d : Nat) : Nat := ((d &&& 0xfff00) >>> 8) ||| ((d &&& 0xfffff00000000000) >>> 32)
def unixMinor (d : Nat) : Nat := (d &&& 0xff) ||| ((d &&& 0xffffff00000) >>> 12)
def unixMkdev (ma mi : Nat) : Nat :=
  ((ma &&& 0xfff) <<< 8) ||| ((ma &&& 0xfffff000) <<< 32) ||| (mi &&& 0xff) ||| ((mi &&& 0xffffff00) <<< 12)

/-- the parent directory and base name every "create an entry" method starts with -/
def parentOf (c : Cfg) (fs : FS) (path : Text) : Except Err (Ino × Name) :=
  match getNode c fs (dir path) with
  | .error e => .error e
  | .ok p => .ok (p, base path)

def setXattr (c : Cfg) (fs : FS) (p : Text) (attr : Name) (data : Text) : FS × Out :=
  match getNode c fs p with
  | .error _ => (fs, .err .notExist)
  | .ok i => (fs.modify i fun n => { n with xattrs := setAssoc n.xattrs attr data }, .ok .unit)

def linkOp (c : Cfg) (fs : FS) (oldname newname : Text) (hdr : Bool) : FS × Out :=
  match parentOf c fs newname with
  | .error e => (fs, .err e)
  | .ok (pi, b) =>
    if !(fs.node pi).dir then (fs, .err .parentNotDir) else
    match getNode c fs oldname with
    | .error _ => (fs, .err .notExist)
    | .ok t =>
      if (fs.node t).dir then (fs, .err .perm) else
      if dotName b then (fs, .err .exist) else
      if (fs.lookup pi b).isSome then (fs, .err .exist) else
      let fs1 := fs.link pi b t
      let fs2 := fs1.modify t fun n =>
        { n with nlink := n.nlink + 1,
                 hardlinks := if hdr then setAssoc n.hardlinks newname oldname else n.hardlinks }
      (fs2, .ok .unit)

/-- `tarfs.writeHeader(name, te)` -/
def writeHeaderFile (c : Cfg) (fs : FS) (h : Hdr) (sum : Text) : FS × Except Err Bool :=
  match parentOf c fs h.name with
  | .error e => (fs, .error e)
  | .ok (pi, b) =>
    if !(fs.node pi).dir then (fs, .error .parentNotDir) else
    let te : TarEntry := { content := h.content, size := h.size, checksum := sum,
                           pkgName := h.pkgName, pkgOrigin := h.pkgOrigin, pkgReplaces := h.pkgReplaces }
    let nd : Inode := { mode := hdrMode h, mtime := h.mtime, target := h.linkname, te := some te }
    match fs.lookup pi b with
    | none => if dotName b then (fs, .error .invalid) else ((fs.create pi b nd).1, .ok true)
    | some e =>
      let en := fs.node e
      match en.te with
      | none =>
        if en.data = [] then (fs, .error .conflictNoTe)
        else if c.sha1 en.data = sum then (fs, .ok false)
        else (fs, .error .conflictSum)
      | some got =>
        if got.checksum = sum then (fs, .ok false)
        else if got.pkgReplaces.contains h.pkgName then (fs, .ok false)
        else if got.pkgOrigin ≠ h.pkgOrigin ∧ !(h.pkgReplaces.contains got.pkgName) then (fs, .error .fileConflict)
        else ((fs.create pi b nd).1, .ok true)

def setXattrs (c : Cfg) (name : Text) : List (Name × Text) → FS → FS × Option Err
  | [], fs => (fs, none)
  | (k, v) :: rest, fs =>
    match setXattr c fs name k v with
    | (fs1, .ok _) => setXattrs c name rest fs1
    | (fs1, _) => (fs1, some .notExist)

def readlinkOp (c : Cfg) (fs : FS) (p : Text) : Except Err Text :=
  match parentOf c fs p with
  | .error e => .error e
  | .ok (pi, b) =>
    match fs.lookup pi b with
    | none => .error .notExist
    | some i => if !(fs.node i).isSymlink then .error .notLink else .ok (fs.node i).target

/-- set the header's xattrs (through `SetXattr(hdr.Name, …)`, which follows links) and report `v` -/
def finishXattrs (c : Cfg) (h : Hdr) (fs : FS) (v : Val) : FS × Out :=
  match setXattrs c h.name h.xattrs fs with
  | (fs2, none) => (fs2, .ok v)
  | (fs2, some e) => (fs2, .err e)

/-- `WriteHeader`, `tar.TypeDir`: `MkdirAll`, `Chtimes`, xattrs -/
def whDir (c : Cfg) (fs : FS) (h : Hdr) : FS × Out :=
  match mkdirAll c fs h.name (h.mode &&& 0o777) with
  | (fs1, .ok _) =>
    match getNode c fs1 h.name with
    | .error e => (fs1, .err e)
    | .ok i => finishXattrs c h (fs1.modify i fun n => { n with mtime := h.mtime }) (.bool true)
  | (fs1, o) => (fs1, o)

/-- a symlink entry that is already there with the same target is skipped -/
def whSameLink (c : Cfg) (fs : FS) (h : Hdr) : Bool :=
  decide (h.typeflag = 50) &&
    (match readlinkOp c fs h.name with
     | .ok t => decide (t = h.linkname)
     | _ => false)

/-- `WriteHeader`, `tar.TypeReg` / `tar.TypeSymlink` -/
def whFile (c : Cfg) (fs : FS) (h : Hdr) : FS × Out :=
  if whSameLink c fs h then (fs, .ok (.bool false)) else
  match h.checksum with
  | none => (fs, .err .nilChecksum)
  | some sum =>
    match writeHeaderFile c fs h sum with
    | (fs1, .error e) => (fs1, .err e)
    | (fs1, .ok installed) => finishXattrs c h fs1 (.bool installed)

/-- `tarfs.WriteHeader` (not atomic on failure: xattrs are set after the node was entered) -/
def writeHeaderOp (c : Cfg) (fs : FS) (h : Hdr) : FS × Out :=
  if c.backend ≠ .tarfs then (fs, .err .unsupported) else
  if h.typeflag = 53 then whDir c fs h
  else if h.typeflag = 48 ∨ h.typeflag = 50 then whFile c fs h
  else if h.typeflag = 49 then
    match linkOp c fs h.linkname h.name true with
    | (fs1, .ok _) => (fs1, .ok (.bool true))
    | r => r
  else (fs, .err .unsupported)

def step (c : Cfg) (fs : FS) : Op → FS × Out
  | .mkdir path perm =>
    match parentOf c fs path with
    | .error e => (fs, .err e)
    | .ok (pi, b) =>
      if !(fs.node pi).mode.testBit 31 then (fs, .err .parentNotDir) else
      if b = dot ∨ b = dotdot ∨ b = slash then (fs, .err .exist) else
      if (fs.lookup pi b).isSome then (fs, .err .exist) else
      ((fs.create pi b (newDir (modeDir ||| perm))).1, .ok .unit)
  | .mkdirAll path perm => mkdirAll c fs path perm
  | .openFile p flag perm =>
    match openCore c fs p flag perm with
    | (fs1, .error e) => ({ fs1 with handles := fs1.handles ++ [{ ino := 0, name := p, valid := false }] }, .err e)
    | (fs1, .ok h) => ({ fs1 with handles := fs1.handles ++ [h] }, .ok (.handle fs1.handles.length))
  | .create p =>
    match openCore c fs p flagsWriteFile 0o666 with
    | (fs1, .error e) => ({ fs1 with handles := fs1.handles ++ [{ ino := 0, name := p, valid := false }] }, .err e)
    | (fs1, .ok h) => ({ fs1 with handles := fs1.handles ++ [h] }, .ok (.handle fs1.handles.length))
  | .close hi =>
    match fs.handles[hi]? with
    | none => (fs, .nohandle)
    | some h =>
      if !h.valid then (fs, .nohandle) else
      if h.closed then (fs, .err .closed) else
      (fs.setHandle hi { h with closed := true }, .ok .unit)
  | .read hi n =>
    match fs.handles[hi]? with
    | none => (fs, .nohandle)
    | some h =>
      if !h.valid then (fs, .nohandle) else
      if h.closed then (fs, .err .closed) else
      let data := handleData fs h
      match readAtOff data h.offset.toNat n with
      | .bytes b eof => (fs.setHandle hi { h with offset := h.offset + b.length }, .ok (.bytes b eof))
      | v => (fs, .ok v)
  | .readAt hi n off =>
    match fs.handles[hi]? with
    | none => (fs, .nohandle)
    | some h =>
      if !h.valid then (fs, .nohandle) else
      if h.closed then (fs, .err .closed) else
      if off < 0 then (fs, .err .invalid) else
      (fs, .ok (readAtOff (handleData fs h) off.toNat n))
  | .write hi p =>
    match fs.handles[hi]? with
    | none => (fs, .nohandle)
    | some h =>
      if !h.valid then (fs, .nohandle) else
      if h.closed then (fs, .err .closed) else
      if h.rc then (fs, .err .invalid) else
      if oAppend h.flag ∧ oRdwr h.flag ∧ oWronly h.flag then (fs, .err .notWrite) else
      let n := fs.node h.ino
      let fs1 := fs.setNode h.ino { n with data := writeAt n.data h.offset.toNat p }
      (fs1.setHandle hi { h with offset := h.offset + p.length }, .ok (.num p.length))
  | .seek hi off whence =>
    match fs.handles[hi]? with
    | none => (fs, .nohandle)
    | some h =>
      if !h.valid then (fs, .nohandle) else
      if h.closed then (fs, .err .closed) else
      if h.rc then (fs, .err .invalid) else
      if whence > 2 then (fs, .err .whence) else
      let no : Int := if whence = 0 then off else if whence = 1 then h.offset + off
                      else ((fs.node h.ino).data.length : Int) + off
      if no < 0 then (fs, .err .invalid) else
      (fs.setHandle hi { h with offset := no }, .ok (.num no))
  | .hstat hi =>
    match fs.handles[hi]? with
    | none => (fs, .nohandle)
    | some h =>
      if !h.valid then (fs, .nohandle) else
      if h.closed then (fs, .err .closed) else
      match resolveFrom c fs h.start h.name with
      | .error e => (fs, .err e)
      | .ok ps => (fs, .ok (.stat (statOf c (fs.node ps.ino) h.name (clean h.name))))
  | .readFile p =>
    match openCore c fs p 0 0o644 with
    | (fs1, .error e) => (fs1, .err e)
    | (fs1, .ok h) => (fs1, .ok (.bytes (handleData fs1 h) false))
  | .writeFile p data perm =>
    match openCore c fs p flagsWriteFile perm with
    | (fs1, .error e) => (fs1, .err e)
    | (fs1, .ok h) =>
      let n := fs1.node h.ino
      (fs1.setNode h.ino { n with data := writeAt n.data 0 data }, .ok .unit)
  | .readDir p =>
    match getNode c fs p with
    | .error e => (fs, .err e)
    | .ok i =>
      let n := fs.node i
      if !n.dir then (fs, .err .notDir) else
      (fs, .ok (.entries ((sortNames n.children).map fun e =>
        statOf c (fs.node e.2) e.1 (join2 p e.1))))
  | .stat p =>
    match getNode c fs p with
    | .error e => (fs, .err e)
    | .ok i => (fs, .ok (.stat (statOf c (fs.node i) p (clean p))))
  | .lstat p =>
    match getNode c fs p with
    | .error e => (fs, .err e)
    | .ok i => (fs, .ok (.stat (statOf c (fs.node i) p (clean p))))
  | .remove p =>
    match parentOf c fs p with
    | .error e => (fs, .err e)
    | .ok (pi, b) =>
      match fs.lookup pi b with
      | none => (fs, .err .notExist)
      | some i =>
        let fs1 := fs.modify i fun n => { n with nlink := n.nlink - 1 }
        (fs1.unlink pi b, .ok .unit)
  | .chmod p perm =>
    match getNode c fs p with
    | .error e => (fs, .err e)
    | .ok i => (fs.modify i fun n => { n with mode := typeKeep n.mode perm }, .ok .unit)
  | .chown p uid gid =>
    match getNode c fs p with
    | .error e => (fs, .err e)
    | .ok i => (fs.modify i fun n => { n with uid := uid, gid := gid }, .ok .unit)
  | .chtimes p mtime =>
    match getNode c fs p with
    | .error e => (fs, .err e)
    | .ok i => (fs.modify i fun n => { n with mtime := mtime }, .ok .unit)
  | .symlink target newname =>
    match parentOf c fs newname with
    | .error e => (fs, .err e)
    | .ok (pi, b) =>
      if !(fs.node pi).dir then (fs, .err .parentNotDir) else
      if dotName b then (fs, .err .exist) else
      if (fs.lookup pi b).isSome then (fs, .err .exist) else
      ((fs.create pi b { mode := modeSymlink + 0o777, target := target, mtime := (fs.node pi).mtime }).1,
       .ok .unit)
  | .link oldname newname => linkOp c fs oldname newname false
  | .readlink p =>
    match readlinkOp c fs p with
    | .error e => (fs, .err e)
    | .ok t => (fs, .ok (.text t))
  | .mknod p mode dev =>
    match parentOf c fs p with
    | .error e => (fs, .err e)
    | .ok (pi, b) =>
      if !(fs.node pi).dir then (fs, .err .parentNotDir) else
      if dotName b then (fs, .err .exist) else
      if (fs.lookup pi b).isSome then (fs, .err .exist) else
      ((fs.create pi b { mode := mode ||| modeCharDevice ||| modeDevice, major := unixMajor dev,
                         minor := unixMinor dev, mtime := (fs.node pi).mtime }).1, .ok .unit)
  | .readnod p =>
    match parentOf c fs p with
    | .error e => (fs, .err e)
    | .ok (pi, b) =>
      match fs.lookup pi b with
      | none => (fs, .err .notExist)
      | some i =>
        let n := fs.node i
        if !(n.mode.testBit 26 ∧ n.mode.testBit 21) then (fs, .err .notDevice)
        else (fs, .ok (.num (unixMkdev n.major n.minor)))
  | .setXattr p attr data => setXattr c fs p attr data
  | .getXattr p attr =>
    match getNode c fs p with
    | .error _ => (fs, .err .notExist)
    | .ok i =>
      match (fs.node i).xattrs.lookup attr with
      | none => (fs, .err .notExist)
      | some v => (fs, .ok (.text v))
  | .removeXattr p attr =>
    match getNode c fs p with
    | .error _ => (fs, .err .notExist)
    | .ok i => (fs.modify i fun n => { n with xattrs := n.xattrs.filter (·.1 ≠ attr) }, .ok .unit)
  | .listXattrs p =>
    match getNode c fs p with
    | .error _ => (fs, .err .notExist)
    | .ok i => (fs, .ok (.xattrs (sortNames (fs.node i).xattrs)))
  | .writeHeader h => writeHeaderOp c fs h

/-- run a sequence, collecting the results -/
def run (c : Cfg) : FS → List Op → FS × List Out
  | fs, [] => (fs, [])
  | fs, op :: ops =>
    let (fs1, o) := step c fs op
    let (fs2, os) := run c fs1 ops
    (fs2, o :: os)

/-! ## listings, walk, observation -/

/-- what an observer can see of a state: the node graph and the open file objects (the slots of
failed opens are bookkeeping of the harness).  The canonical text dump compared by the
correspondence suite (`Driver/FS.lean: dump`) is a function of `nodes`. -/
def observe (fs : FS) : List Inode × List Handle := (fs.nodes, fs.handles.filter (·.valid))

/-- The structural invariant of the node graph: the root is a directory, names inside one
directory are distinct, every entry refers to a live node, only directories have entries. -/
structure Inv (fs : FS) : Prop where
  root : (fs.node 0).dir = true
  names : ∀ i : Nat, ((fs.node i).children.map (·.1)).Nodup
  live : ∀ (i : Nat) (n : Name) (j : Nat), (n, j) ∈ (fs.node i).children → j < fs.nodes.length
  files : ∀ i : Nat, (fs.node i).dir = false → (fs.node i).children = []

/-- a name that may label an edge of the graph: exactly what `io/fs.ValidPath` demands of a path
element (non-empty, no separator, not `.`, not `..`) -/
def NameOK (n : Name) : Prop := n ≠ [] ∧ '/' ∉ n ∧ n ≠ dot ∧ n ≠ dotdot

/-- The node graph is a tree as far as directories go (files may have several names: hard links).
True of every state reachable through the operations since `Link` refuses directories (F17h) and no
method enters a node under `.`, `..` or `/` (F15b, F17g). -/
structure Tree (fs : FS) : Prop where
  /-- **no_dot_edges**: every edge is labelled by a valid path element -/
  names : ∀ (i : Nat) (n : Name) (j : Nat), (n, j) ∈ (fs.node i).children → NameOK n
  /-- an edge to a directory leads from an older node to a younger one (directories are entered
      into their parent when they are allocated and never again): there is no directory cycle -/
  up : ∀ (i : Nat) (n : Name) (j : Nat), (n, j) ∈ (fs.node i).children → (fs.node j).dir = true → i < j
  /-- a directory has at most one parent edge -/
  once : ∀ (i1 i2 : Nat) (n1 n2 : Name) (j : Nat), (n1, j) ∈ (fs.node i1).children →
    (n2, j) ∈ (fs.node i2).children → (fs.node j).dir = true → i1 = i2 ∧ n1 = n2

/-- `ReadDir` of a node: names with their nodes, sorted by name -/
def readdir (fs : FS) (d : Ino) : List (Name × Ino) := sortNames (fs.node d).children

/-- `fs.WalkDir` from node `d` (paths relative to it, parents first, children in name order);
links are not followed; `fuel` bounds the depth (only hard-linked directory cycles can reach it) -/
def walkFrom (fs : FS) : Nat → List Name → Ino → List (List Name × Ino)
  | 0, _, _ => []
  | fuel + 1, pre, d =>
    (readdir fs d).flatMap fun e =>
      (pre ++ [e.1], e.2) ::
        (if (fs.node e.2).dir then walkFrom fs fuel (pre ++ [e.1]) e.2 else [])

def walk (fs : FS) : List (List Name × Ino) := walkFrom fs fs.nodes.length [] 0

/-- one callback of `io/fs.WalkDir`: the path, whether the entry is a directory, and the error the
callback was handed (a failed `Stat` of the root, a failed `ReadDir`) -/
structure Visit where
  path : Text
  isDir : Bool
  err : Option Err := none
  deriving DecidableEq, Repr

/-- `io/fs.walkDir(fsys, name, d, fn)` through the public API (path based, as the layer writer and
the recursive permissions mutation run it), with a callback that never skips.  `none`: the nesting
exceeded `fuel` — with the fuel of `walkDirOp` that happens only below a directory that contains
itself, where the Go function never returns (`Proofs/Lemmas/FSWalkDir.lean`: never on a well-formed
state).  `tr` is the path rewriting of the view the walk runs on (`id`, or `join2 root` for a
`SubFS`). -/
def walkDirP (c : Cfg) (fs : FS) (tr : Text → Text) : Nat → Text → Bool → Option (List Visit)
  | 0, _, _ => none
  | fuel + 1, name, isDir =>
    if !isDir then some [{ path := name, isDir := false }] else
    match (step c fs (.readDir (tr name))).2 with
    | .ok (.entries es) =>
      es.foldl (fun (acc : Option (List Visit)) e =>
        match acc with
        | none => none
        | some vs =>
          match walkDirP c fs tr fuel (join2 name e.name) e.isDir with
          | none => none
          | some v1 => some (vs ++ v1)) (some [{ path := name, isDir := true }])
    | .err e => some [{ path := name, isDir := true }, { path := name, isDir := true, err := some e }]
    | _ => some [{ path := name, isDir := true }]

/-- `fs.WalkDir(fsys, root, fn)` -/
def walkDirOp (c : Cfg) (fs : FS) (tr : Text → Text) (root : Text) : Option (List Visit) :=
  match (step c fs (.stat (tr root))).2 with
  | .ok (.stat s) =>
    walkDirP c fs tr (fs.nodes.length + 2) root s.isDir
  | .err e => some [{ path := root, isDir := false, err := some e }]
  | _ => some []

/-! ## hard-link groups as a host file system shows them (the disk half of `DirFS`) -/

/-- number of directory entries that refer to node `i`: the link count (`st_nlink`) of a regular file on a
POSIX file system.  (Go's own `linkCount` field — `Inode.nlink` — is bookkeeping that nothing reads.) -/
def FS.edgesTo (fs : FS) (i : Ino) : Nat :=
  (fs.nodes.map fun n => (n.children.filter (fun e => e.2 = i)).length).sum

/-- is the node a regular file (no type bit, not a directory)? -/
def Inode.isRegular (n : Inode) : Bool := !n.dir && (n.mode &&& modeType) = 0

/-- What `os.Lstat` / `os.SameFile` / `Nlink` / `os.ReadFile` of the disk paths of `names` must show for a
directory-backed file system whose state is `fs`: for every name that is a regular file, the index of the first
name of the list that is the same inode, the number of names the inode has, and its bytes. -/
def linkView (c : Cfg) (fs : FS) (names : List Text) : List (Option (Nat × Nat × Text)) :=
  let inos : List (Option Ino) := names.map fun p =>
    match getNode c fs p with
    | .ok i => if (fs.node i).isRegular then some i else none
    | .error _ => none
  inos.map fun oi =>
    match oi with
    | none => none
    | some i => some (inos.findIdx (· = some i), fs.edgesTo i, (fs.node i).data)

/-! ## the disk half of `DirFS` (`pkg/apk/fs/rwosfs.go`) for regular files

`DirFS` keeps names, kinds, modes and xattrs in an in-memory overlay (a `memfs`: the machine above, fed with
empty contents) and the bytes of regular files in a directory of the host.  What the host does with the calls
`DirFS` makes is modelled at the level the property needs: names of regular files refer to inodes, inodes hold
bytes; `os.WriteFile` / `os.OpenFile(O_TRUNC)` / `os.Create` of an existing name act on its inode (every other
name of the inode sees the new bytes), `os.Link` adds a name to an inode, `os.Remove` drops a name.  Whether a
call succeeds is decided by the overlay (inside the envelope of the `dirfs-hl` cases disk and overlay hold the
same tree; `F17f` is where they do not). -/

structure Disk where
  /-- clean root-relative path of a regular file ↦ inode -/
  names : List (Text × Nat) := []
  /-- bytes of inode `i` (inodes are never re-used) -/
  inodes : List Text := []
  /-- open `*os.File`s in the order of the `OpenFile`/`Create` calls (`none`: the call failed): inode, offset,
      `O_APPEND` -/
  handles : List (Option (Nat × Nat × Bool)) := []
  deriving DecidableEq, Repr

def Disk.ino (d : Disk) (p : Text) : Option Nat := d.names.lookup p

/-- `os.ReadFile` -/
def Disk.read (d : Disk) (p : Text) : Option Text := (d.ino p).map fun i => d.inodes.getD i []

/-- `Stat_t.Nlink` -/
def Disk.nlink (d : Disk) (i : Nat) : Nat := (d.names.filter fun e => e.2 = i).length

/-- a new name with a fresh inode -/
def Disk.createNew (d : Disk) (p : Text) (b : Text) : Disk :=
  { d with names := d.names ++ [(p, d.inodes.length)], inodes := d.inodes ++ [b] }

/-- `os.WriteFile(path, b, perm)` = open `O_WRONLY|O_CREATE|O_TRUNC`, write, close: an existing name keeps its
inode -/
def Disk.writeFile (d : Disk) (p : Text) (b : Text) : Disk :=
  match d.ino p with
  | some i => { d with inodes := d.inodes.set i b }
  | none => d.createNew p b

/-- replacing a file "atomically" (temporary file + `os.Rename` over the name): the name gets a fresh inode.
NOT what `DirFS.WriteFile` does (tie `tie_stmtsDirfs_WriteFile`); `disk_replace_splits` shows why it must not. -/
def Disk.replaceFile (d : Disk) (p : Text) (b : Text) : Disk :=
  { d with names := d.names.filter (fun e => e.1 ≠ p) ++ [(p, d.inodes.length)], inodes := d.inodes ++ [b] }

/-- `os.Link(old, new)` -/
def Disk.link (d : Disk) (o n : Text) : Option Disk :=
  match d.ino o, d.ino n with
  | some i, none => some { d with names := d.names ++ [(n, i)] }
  | _, _ => none

/-- `os.Remove` of a regular file -/
def Disk.remove (d : Disk) (p : Text) : Disk := { d with names := d.names.filter fun e => e.1 ≠ p }

/-- a successful `os.OpenFile(path, flag, perm)` / `os.Create(path)` -/
def Disk.openOk (d : Disk) (p : Text) (flag : Nat) : Disk :=
  let d1 := if (d.ino p).isNone then d.createNew p [] else d
  match d1.ino p with
  | none => { d1 with handles := d1.handles ++ [none] }
  | some i =>
    let d2 := if oTrunc flag then { d1 with inodes := d1.inodes.set i [] } else d1
    { d2 with handles := d2.handles ++ [some (i, 0, oAppend flag)] }

/-- `(*os.File).Write` -/
def Disk.write (d : Disk) (h : Nat) (b : Text) : Disk :=
  match d.handles[h]? with
  | some (some (i, off, app)) =>
    let data := d.inodes.getD i []
    let at_ := if app then data.length else off
    { d with inodes := d.inodes.set i (writeAt data at_ b),
             handles := d.handles.set h (some (i, at_ + b.length, app)) }
  | _ => d

/-- the disk half of one `DirFS` call; `ok`: the call as a whole succeeded -/
def Disk.apply (d : Disk) : Op → Bool → Disk
  | .writeFile p b _, true => d.writeFile (clean p) b
  | .link o n, true => (d.link (clean o) (clean n)).getD d
  | .remove p, true => d.remove (clean p)
  | .create p, true => d.openOk (clean p) flagsWriteFile
  | .openFile p f _, true => d.openOk (clean p) f
  | .create _, false => { d with handles := d.handles ++ [none] }
  | .openFile _ _ _, false => { d with handles := d.handles ++ [none] }
  | .write h b, true => d.write h b
  | _, _ => d

/-- what `os.Lstat` / `os.SameFile` / `Nlink` / `os.ReadFile` of the disk paths of `names` show (same shape as
`linkView`) -/
def Disk.view (d : Disk) (names : List Text) : List (Option (Nat × Nat × Text)) :=
  let inos := names.map fun p => d.ino (clean p)
  inos.map fun oi =>
    match oi with
    | none => none
    | some i => some (inos.findIdx (· = some i), d.nlink i, d.inodes.getD i [])

/-- names refer to inodes that exist, and no name is listed twice -/
structure Disk.Inv (d : Disk) : Prop where
  live : ∀ p i, (p, i) ∈ d.names → i < d.inodes.length
  nodup : (d.names.map (·.1)).Nodup

/-- SubFS: every method joins the root to its path(s); a symlink's target is data, not a path of
the view, and stays as given -/
def subOp (root : Text) : Op → Op
  | .mkdir p m => .mkdir (join2 root p) m
  | .mkdirAll p m => .mkdirAll (join2 root p) m
  | .openFile p f m => .openFile (join2 root p) f m
  | .create p => .create (join2 root p)
  | .readFile p => .readFile (join2 root p)
  | .writeFile p d m => .writeFile (join2 root p) d m
  | .readDir p => .readDir (join2 root p)
  | .stat p => .stat (join2 root p)
  | .lstat p => .lstat (join2 root p)
  | .remove p => .remove (join2 root p)
  | .chmod p m => .chmod (join2 root p) m
  | .chown p u g => .chown (join2 root p) u g
  | .chtimes p t => .chtimes (join2 root p) t
  | .readlink p => .readlink (join2 root p)
  | .mknod p m d => .mknod (join2 root p) m d
  | .readnod p => .readnod (join2 root p)
  | .setXattr p a d => .setXattr (join2 root p) a d
  | .getXattr p a => .getXattr (join2 root p) a
  | .removeXattr p a => .removeXattr (join2 root p) a
  | .listXattrs p => .listXattrs (join2 root p)
  | .symlink t p => .symlink t (join2 root p)
  | .link o p => .link (join2 root o) (join2 root p)
  | op => op

/-! ## a second `DirFS` over the same directory (re-open)

`DirFS(dir)` fills a NEW overlay from what the directory holds (the callback of the constructor's walk, tie
`tie_dirfsCtorCallback`): a directory becomes `Mkdir(path, ModeDir | perm)`, a symbolic link
`Symlink(os.Readlink(path), path)`, anything else but a character device `OpenFile(path, O_CREATE, perm)` — names,
kinds, link targets and the nine permission bits come back; owner, times, xattrs, set-user-ID / set-group-ID /
sticky and the mode of the root (the callback returns at `.`; a new overlay's root is `0755`) do not.  The bytes
stay where they were (on disk; in this model: in the node).  Not modelled: the names of one disk inode come back
as separate overlay nodes (the bytes stay shared through the disk, a later `Chmod` through one name is no longer
seen under the other), device nodes. -/

/-- what the constructor's callback makes of one node of the directory -/
def reopenNode (root : Bool) (n : Inode) : Inode :=
  if n.isSymlink then { n with uid := 0, gid := 0, mtime := zeroTime, xattrs := [], nlink := 0 } else
  { n with mode := (if root then modeDir + 0o755 else if n.dir then modeDir ||| (n.mode &&& 0o777) else n.mode &&& 0o777),
           uid := 0, gid := 0, mtime := zeroTime, xattrs := [], nlink := 0 }

/-- the overlay of a `DirFS` opened over a directory whose content is `fs`: same names, same nodes, metadata as
the callback sets it (handles opened through the first value stay what they were: `*os.File`s of the host) -/
def reopenFS (fs : FS) : FS :=
  { fs with nodes := match fs.nodes with
                     | [] => []
                     | r :: rest => reopenNode true r :: rest.map (reopenNode false) }

/-- how the constructor names the root of its walk -/
inductive RootWalk
  /-- `fs.WalkDir(os.DirFS(dir), ".")`: the root is opened as `dir/.` — a `dir` that is a symbolic link to a
      directory is followed -/
  | openDot
  /-- `filepath.WalkDir(dir, …)`: the root is `Lstat`ed — a `dir` that is a symbolic link is reported as one entry
      and not entered -/
  | lstatRoot
  deriving DecidableEq, Repr

/-- the walk of the constructor, read off its regenerated statements (`Generated.FS.dirfsCtorWalk`) -/
def rootWalkOf (stmts : List String) : Option RootWalk :=
  if stmts = ["root := os.DirFS(dir)", "fs.WalkDir(root, \".\", func)"] then some .openDot
  else if stmts = ["filepath.WalkDir(dir, func)"] then some .lstatRoot
  else none

/-- is the directory entered? (`os.Stat(dir)`, which the constructor uses for its own checks, follows the link
either way) -/
def RootWalk.enters : RootWalk → (dirIsLink : Bool) → Bool
  | .openDot, _ => true
  | .lstatRoot, l => !l

/-- the overlay the constructor builds over a directory with content `fs` named through a path that is
(`dirIsLink`) or is not a symbolic link -/
def ctorOverlay (w : RootWalk) (dirIsLink : Bool) (fs : FS) : FS :=
  if w.enters dirIsLink then reopenFS fs else FS.empty

end Apko.FS
