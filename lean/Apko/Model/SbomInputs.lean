/-
C11 — where pkg/build's GenerateImageSBOM takes the package list of the document from.

One architecture's build, as far as the installed database goes: `buildImage` first copies every record of the base
image's installed database into the new file system's lib/apk/db/installed (`AddInstalledPackage`, append mode; nothing
without `contents.baseimage`), then `InstallPackages` / `FixateWorld` unpack this build's packages, each appending its
record.  The build's own file system — and so the one new layer on top of the base image's — holds that database:
the installed database of the IMAGE is `baseDb ++ unpacked`.  The list `InstallPackages` / `FixateWorld` return holds
`unpacked` only.  Core Lean only.
-/
import Apko.Model.Sbom

namespace Apko.SbomInputs
open Apko Apko.Sbom

structure Build where
  baseDb : List Apk      -- records of the base image's installed database, in order ([] without base image)
  unpacked : List Apk    -- what this build installed, in installation order
deriving DecidableEq, Repr

/-- lib/apk/db/installed of the image that is built (AddInstalledPackage appends: base records first) -/
def Build.installedDb (b : Build) : List Apk := b.baseDb ++ b.unpacked

/-- the lists a build context can hand to the generator -/
inductive Source where
  | installedDb     -- parse lib/apk/db/installed of the file system that becomes the image (`bc.apk.GetInstalled()`)
  | unpacked        -- the packages this build's installer reported
  | other           -- anything this model does not know
deriving DecidableEq, Repr

/-- reading of the (regenerated) Go expression behind `s.Packages` -/
def sourceOf (expr : String) : Source :=
  if expr = "bc.apk.GetInstalled()" then .installedDb else .other

def Build.listFrom (b : Build) : Source → Option (List Apk)
  | .installedDb => some b.installedDb
  | .unpacked => some b.unpacked
  | .other => none

/-- the generator options GenerateImageSBOM assembles: digest and layers from the image that was built, the OS version
from the build's own file system, the package list from `src` -/
def imageOpts (src : Source) (b : Build) (imageDigest : Text) (layers : List Text) (vcs osVersion : Text) : Option Opts :=
  (b.listFrom src).map fun apks => ⟨imageDigest, layers, vcs, osVersion, apks⟩

end Apko.SbomInputs
