import Apko.Model.FS
import Apko.Model.Formats
/-!
# C13 — accounts and path mutations (`pkg/build/accounts.go`, `pkg/build/paths.go`)

**Impl**: `mutateAccounts` and `mutatePaths` as compositions of the file-system machine
`FS.step` (the `tarfs` backend, `Cfg.impl .tarfs`) and of the passwd/group codecs of
`Model/Formats.lean`, statement by statement as in the Go code:

* `userToUserEntry` (defaults: shell `/bin/sh`, home `/home/<name>`, gid = uid), `appendGroup`;
* `groupsPart` / `usersPart`: read-or-create `etc/group` / `etc/passwd`, append, create the home
  directories (`homeStep`: `/dev/null` skipped, present home untouched, absent home =
  `MkdirAll(parent, 0755)`, `Mkdir(home, 0700)`, `Chown`), write the file back, resolve `run-as`;
  the two `errgroup` goroutines touch different files, the model runs them one after the other
  (groups first) and reports the first error in that order;
* the five path mutators, `io/fs.WalkDir` as the code uses it (`walkDir`: callback, then
  `ReadDir`, children by name, paths joined with `path.Join`), `mutatePermissionsDirect`
  (`Chmod` then `Chown`, both of which follow links) and the loop of `mutatePaths`.

**Spec**: the post-conditions of the property as decidable checks over (state before, request,
state after): `specMutation`, `specAccounts`.  They are evaluated by the driver on the node graph
the real code produced, and they are what the theorems of `Proofs/C13.lean` establish for the model.
-/
namespace Apko.Accounts
open Apko Apko.Path Apko.FS Apko.Formats

/-! ## literals of the code (tied to the source by `Generated.Accounts`) -/

def defaultShell : Text := ['/', 'b', 'i', 'n', '/', 's', 'h']
def homePrefix : Text := ['/', 'h', 'o', 'm', 'e', '/']
def passwordX : Text := ['x']
def accountInfo : Text := ['A', 'c', 'c', 'o', 'u', 'n', 't', ' ', 'c', 'r', 'e', 'a', 't', 'e', 'd', ' ', 'b', 'y', ' ', 'a', 'p', 'k', 'o']
def devNull : Text := ['/', 'd', 'e', 'v', '/', 'n', 'u', 'l', 'l']
/-- `filepath.Join("etc", "passwd")` -/
def passwdPath : Text := ['e', 't', 'c', '/', 'p', 'a', 's', 's', 'w', 'd']
/-- `filepath.Join("etc", "group")` -/
def groupPath : Text := ['e', 't', 'c', '/', 'g', 'r', 'o', 'u', 'p']
def homeParentPerm : Nat := 0o755
def homePerm : Nat := 0o700
def parentPerm : Nat := 0o755
/-- `os.O_RDONLY|os.O_CREATE` -/
def flagsReadOrCreate : Nat := 64
def readOrCreatePerm : Nat := 0o644
/-- what `Create` passes to `OpenFile` -/
def createPerm : Nat := 0o666

/-! ## configuration -/

structure UserCfg where
  name : Text
  uid : Nat
  gid : Option Nat := none
  shell : Text := []
  home : Text := []
  deriving Repr, DecidableEq

structure GroupCfg where
  name : Text
  gid : Nat
  members : List Text := []
  deriving Repr, DecidableEq

structure AccCfg where
  users : List UserCfg := []
  groups : List GroupCfg := []
  runAs : Text := []
  deriving Repr, DecidableEq

/-- `userToUserEntry` -/
def userToUserEntry (u : UserCfg) : User :=
  let shell := if u.shell = [] then defaultShell else u.shell
  let home := if u.home = [] then homePrefix ++ u.name else u.home
  let gid := match u.gid with | some g => g | none => u.uid
  { name := u.name, password := passwordX, uid := u.uid, gid := gid, info := accountInfo,
    home := home, shell := shell }

/-- the entry `appendGroup` appends -/
def groupToGroupEntry (g : GroupCfg) : Group :=
  { name := g.name, password := passwordX, gid := g.gid, members := g.members }

/-! ## sequencing of file-system actions -/

inductive AErr
  | fs (e : Err)
  | parse
  | homeNotDir
  | badType
  deriving Repr, DecidableEq

def errOf : Out → Option Err
  | .err e => some e
  | _ => none

/-- one file-system call whose value is not used -/
def act (c : Cfg) (fs : FS) (op : Op) : FS × Option Err :=
  let r := step c fs op
  (r.1, errOf r.2)

def andThen {ε : Type} (r : FS × Option ε) (k : FS → FS × Option ε) : FS × Option ε :=
  match r with
  | (fs, none) => k fs
  | (fs, some e) => (fs, some e)

def liftE (r : FS × Option Err) : FS × Option AErr := (r.1, r.2.map AErr.fs)

/-- a `for` loop whose body may return an error -/
def seqM {α ε : Type} (f : FS → α → FS × Option ε) : FS → List α → FS × Option ε
  | fs, [] => (fs, none)
  | fs, a :: rest =>
    match f fs a with
    | (fs1, none) => seqM f fs1 rest
    | (fs1, some e) => (fs1, some e)

/-! ## `mutateAccounts` -/

/-- `OpenFile(path, O_RDONLY|O_CREATE, 0644)` and everything the scanner reads from it -/
def readOrCreate (c : Cfg) (fs : FS) (p : Text) : FS × Except Err Text :=
  match openCore c fs p flagsReadOrCreate readOrCreatePerm with
  | (fs1, .error e) => (fs1, .error e)
  | (fs1, .ok h) => (fs1, .ok (handleData fs1 h))

/-- `Create(path)` followed by one `Write` per entry and `Close` -/
def writeBack (c : Cfg) (fs : FS) (p : Text) (t : Text) : FS × Option Err :=
  act c fs (.writeFile p t createPerm)

/-- the goroutine that mutates `etc/group` (only started when groups are configured) -/
def groupsPart (c : Cfg) (fs : FS) (gs : List GroupCfg) : FS × Option AErr :=
  if gs = [] then (fs, none) else
  match readOrCreate c fs groupPath with
  | (fs1, .error e) => (fs1, some (.fs e))
  | (fs1, .ok t) =>
    match loadGroups t with
    | none => (fs1, some .parse)
    | some old => liftE (writeBack c fs1 groupPath (writeGroups (old ++ gs.map groupToGroupEntry)))

/-- one iteration of the home-directory loop (`targetHomedir := filepath.Clean(ue.HomeDir)`) -/
def homeStep (c : Cfg) (fs : FS) (u : User) : FS × Option AErr :=
  if u.home = devNull then (fs, none) else
  let home := clean u.home
  match (step c fs (.stat home)).2 with
  | .ok (.stat s) => if s.isDir then (fs, none) else (fs, some .homeNotDir)
  | .err .notExist =>
    liftE <|
      andThen (act c fs (.mkdirAll (dir home) homeParentPerm)) fun fs1 =>
      andThen (act c fs1 (.mkdir home homePerm)) fun fs2 =>
      act c fs2 (.chown home u.uid u.gid)
  | .err e => (fs, some (.fs e))
  | _ => (fs, none)

/-- run-as resolution: the first entry of the final passwd list with that name -/
def resolveRunAs (entries : List User) (runAs : Text) : Text :=
  if runAs = [] then runAs else
  match entries.find? (fun u => u.name = runAs) with
  | some u => natToDec u.uid
  | none => runAs

/-- the goroutine that mutates `etc/passwd`; returns the new `run-as` -/
def usersPart (c : Cfg) (fs : FS) (cfg : AccCfg) : FS × Option AErr × Text :=
  match readOrCreate c fs passwdPath with
  | (fs1, .error e) => (fs1, some (.fs e), cfg.runAs)
  | (fs1, .ok t) =>
    match loadUsers t with
    | none => (fs1, some .parse, cfg.runAs)
    | some old =>
      let all := old ++ cfg.users.map userToUserEntry
      match seqM (homeStep c) fs1 all with
      | (fs2, some e) => (fs2, some e, cfg.runAs)
      | (fs2, none) =>
        match writeBack c fs2 passwdPath (writeUsers all) with
        | (fs3, some e) => (fs3, some (.fs e), cfg.runAs)
        | (fs3, none) => (fs3, none, resolveRunAs all cfg.runAs)

/-- `mutateAccounts`: both goroutines run to completion, `eg.Wait` reports an error of either -/
def mutateAccounts (c : Cfg) (fs : FS) (cfg : AccCfg) : FS × Option AErr × Text :=
  let (fs1, ge) := groupsPart c fs cfg.groups
  let (fs2, ue, runAs) := usersPart c fs1 cfg
  (fs2, (match ge with | some e => some e | none => ue), runAs)

/-! ## path mutations -/

structure Mutation where
  path : Text
  type : Text
  uid : Nat := 0
  gid : Nat := 0
  perms : Nat := 0
  source : Text := []
  recursive : Bool := false
  deriving Repr, DecidableEq

def tDirectory : Text := ['d', 'i', 'r', 'e', 'c', 't', 'o', 'r', 'y']
def tEmptyFile : Text := ['e', 'm', 'p', 't', 'y', '-', 'f', 'i', 'l', 'e']
def tHardlink : Text := ['h', 'a', 'r', 'd', 'l', 'i', 'n', 'k']
def tSymlink : Text := ['s', 'y', 'm', 'l', 'i', 'n', 'k']
def tPermissions : Text := ['p', 'e', 'r', 'm', 'i', 's', 's', 'i', 'o', 'n', 's']

/-- Unix permission bits of the configuration as an `fs.FileMode`: the nine permission bits stay,
set-user-id, set-group-id and sticky move to `ModeSetuid`, `ModeSetgid`, `ModeSticky`. -/
def unixToFileMode (perms : Nat) : Nat :=
  (perms &&& 0o777)
    ||| (if perms.testBit 11 then modeSetuid else 0)
    ||| (if perms.testBit 10 then modeSetgid else 0)
    ||| (if perms.testBit 9 then modeSticky else 0)

/-- what `fs.FileMode(perms)` is: the same bit pattern.  This is what the code passed to `Chmod` /
`MkdirAll` before the repair of F13b (0o4000/0o2000/0o1000 are not `ModeSetuid`/`ModeSetgid`/
`ModeSticky`, so the set-id and sticky bits never reached the layer). -/
def permModeOld (perms : Nat) : Nat := perms

/-- the argument the code passes to `Chmod` / `MkdirAll` for declared permissions `perms`:
`permissionsToFileMode(perms)` -/
def permMode (perms : Nat) : Nat := unixToFileMode perms

/-- `mutatePermissionsDirect` -/
def mutatePermissionsDirect (c : Cfg) (fs : FS) (path : Text) (perms uid gid : Nat) : FS × Option Err :=
  andThen (act c fs (.chmod path (permMode perms))) fun fs1 =>
  act c fs1 (.chown path uid gid)

/-- `io/fs.WalkDir`'s recursion (`walkDir`) with the callback `cb`; returns the paths the callback
was called for, in order.  `fuel` bounds the depth (only a directory cycle made of hard links can
reach it; the Go code then never returns). -/
def walkDir (c : Cfg) (cb : FS → Text → FS × Option Err) :
    Nat → FS → Text → Bool → FS × Option Err × List Text
  | 0, fs, _, _ => (fs, some .loop, [])
  | fuel + 1, fs, name, isDir =>
    match cb fs name with
    | (fs1, some e) => (fs1, some e, [name])
    | (fs1, none) =>
      if !isDir then (fs1, none, [name]) else
      match (step c fs1 (.readDir name)).2 with
      | .ok (.entries es) =>
        es.foldl (fun (acc : FS × Option Err × List Text) e =>
          match acc with
          | (_, some _, _) => acc
          | (fs', none, vs) =>
            let r := walkDir c cb fuel fs' (join2 name e.name) e.isDir
            (r.1, r.2.1, vs ++ r.2.2)) (fs1, none, [name])
      | .err e => (fs1, some e, [name])
      | _ => (fs1, none, [name])

/-- `fs.WalkDir(fsys, root, fn)` -/
def walkRoot (c : Cfg) (cb : FS → Text → FS × Option Err) (fs : FS) (root : Text) :
    FS × Option Err × List Text :=
  match (step c fs (.stat root)).2 with
  | .ok (.stat s) => walkDir c cb (fs.nodes.length + 1) fs root s.isDir
  | .err e => (fs, some e, [])
  | _ => (fs, none, [])

/-- `mutateDirectory`; the third component lists the paths the recursive walk visited -/
def mutateDirectory (c : Cfg) (fs : FS) (m : Mutation) : FS × Option Err × List Text :=
  match act c fs (.mkdirAll m.path (permMode m.perms)) with
  | (fs1, some e) => (fs1, some e, [])
  | (fs1, none) =>
    if m.recursive then
      walkRoot c (fun fs p => mutatePermissionsDirect c fs p m.perms m.uid m.gid) fs1 m.path
    else (fs1, none, [])

/-- `ensureParentDirectory` -/
def ensureParentDirectory (c : Cfg) (fs : FS) (path : Text) : FS × Option Err :=
  act c fs (.mkdirAll (dir path) parentPerm)

/-- `Create(target)` then `Close` (no handle is left open) -/
def createEmpty (c : Cfg) (fs : FS) (path : Text) : FS × Option Err :=
  match openCore c fs path flagsWriteFile createPerm with
  | (fs1, .error e) => (fs1, some e)
  | (fs1, .ok _) => (fs1, none)

def mutateEmptyFile (c : Cfg) (fs : FS) (m : Mutation) : FS × Option Err :=
  andThen (ensureParentDirectory c fs m.path) fun fs1 => createEmpty c fs1 m.path

def mutateHardLink (c : Cfg) (fs : FS) (m : Mutation) : FS × Option Err :=
  andThen (ensureParentDirectory c fs m.path) fun fs1 =>
  let r := match (step c fs1 (.lstat m.path)).2 with
    | .ok _ => act c fs1 (.remove m.path)
    | _ => (fs1, none)
  andThen r fun fs2 => act c fs2 (.link m.source m.path)

def mutateSymLink (c : Cfg) (fs : FS) (m : Mutation) : FS × Option Err :=
  andThen (ensureParentDirectory c fs m.path) fun fs1 => act c fs1 (.symlink m.source m.path)

def mutatePermissions (c : Cfg) (fs : FS) (m : Mutation) : FS × Option Err :=
  mutatePermissionsDirect c fs m.path m.perms m.uid m.gid

/-- the `pathMutators` table -/
def mutatorOf (c : Cfg) (t : Text) : Option (FS → Mutation → FS × Option Err) :=
  if t = tDirectory then some fun fs m => let r := mutateDirectory c fs m; (r.1, r.2.1)
  else if t = tEmptyFile then some (mutateEmptyFile c)
  else if t = tHardlink then some (mutateHardLink c)
  else if t = tSymlink then some (mutateSymLink c)
  else if t = tPermissions then some (mutatePermissions c)
  else none

/-- the body of the loop of `mutatePaths` -/
def mutateOne (c : Cfg) (fs : FS) (m : Mutation) : FS × Option AErr :=
  match mutatorOf c m.type with
  | none => (fs, some .badType)
  | some pm =>
    liftE <| andThen (pm fs m) fun fs1 =>
      if m.type ≠ tPermissions then mutatePermissions c fs1 m else (fs1, none)

/-- `mutatePaths` -/
def mutatePaths (c : Cfg) (fs : FS) (ms : List Mutation) : FS × Option AErr := seqM (mutateOne c) fs ms

/-! ## Spec: what the property demands of the state after a successful step -/

/-- Unix permission bits (with set-id and sticky) an `fs.FileMode` stands for — what
`tar.FileInfoHeader` writes into the layer -/
def unixPerm (mode : Nat) : Nat :=
  (mode &&& 0o777)
    ||| (if mode.testBit 23 then 0o4000 else 0)
    ||| (if mode.testBit 22 then 0o2000 else 0)
    ||| (if mode.testBit 20 then 0o1000 else 0)

def wantPerm (perms : Nat) : Nat := perms &&& 0o7777

def ownerOK (n : Inode) (uid gid : Nat) : Bool := n.uid = (uid : Int) && n.gid = (gid : Int)
def permBitsOK (n : Inode) (perms : Nat) : Bool := unixPerm n.mode = wantPerm perms

/-- the directory entry itself (the last component is not followed) -/
def entryOf (c : Cfg) (fs : FS) (path : Text) : Option Ino :=
  match parentOf c fs path with
  | .error _ => none
  | .ok (pi, b) => fs.lookup pi b

def follow (c : Cfg) (fs : FS) (path : Text) : Option Ino :=
  match getNode c fs path with
  | .ok i => some i
  | .error _ => none

def isRegular (n : Inode) : Bool := !n.dir && (n.mode &&& modeType) = 0

def tr (s : String) : Text := s.toList

/-- failed demands for the attributes of one node -/
def attrFails (n : Inode) (m : Mutation) (tag : String) : List Text :=
  (if permBitsOK n m.perms then [] else [tr (tag ++ "perm")]) ++
  (if ownerOK n m.uid m.gid then [] else [tr (tag ++ "owner")])

/-- every entry below directory `i` (not following links): owner as declared, and permission
bits as declared unless the entry is a symbolic link -/
def subtreeFails (fs : FS) (i : Ino) (m : Mutation) : List Text :=
  (walkFrom fs fs.nodes.length [] i).flatMap fun e =>
    let n := fs.node e.2
    if n.isSymlink then (if ownerOK n m.uid m.gid then [] else [tr "sub-link-owner"])
    else attrFails n m "sub-"

/-- The post-condition of one successful mutation on the state `post`; `[]` = holds.  Reasons:
`type` (missing / wrong kind), `perm`, `owner`, `size` (empty file not empty), `target`,
`inode` (hard link does not share the source's inode), `link-owner` (ownership of a symbolic
link entry), `sub-…` (recursive). -/
def specMutation (c : Cfg) (post : FS) (m : Mutation) : List Text :=
  if m.type = tDirectory then
    match follow c post m.path with
    | none => [tr "type"]
    | some i =>
      let n := post.node i
      (if n.dir then [] else [tr "type"]) ++ attrFails n m "" ++
        (if m.recursive ∧ n.dir then subtreeFails post i m else [])
  else if m.type = tEmptyFile then
    match follow c post m.path with
    | none => [tr "type"]
    | some i =>
      let n := post.node i
      (if isRegular n then [] else [tr "type"]) ++
        (if effectiveSize c n = 0 then [] else [tr "size"]) ++ attrFails n m ""
  else if m.type = tPermissions then
    match follow c post m.path with
    | none => [tr "type"]
    | some i => attrFails (post.node i) m ""
  else if m.type = tSymlink then
    match entryOf c post m.path with
    | none => [tr "type"]
    | some i =>
      let n := post.node i
      if !n.isSymlink then [tr "type"] else
      (if n.target = m.source then [] else [tr "target"]) ++
        (if ownerOK n m.uid m.gid then [] else [tr "link-owner"])
  else if m.type = tHardlink then
    match entryOf c post m.path, follow c post m.source with
    | some i, some j =>
      (if i = j then [] else [tr "inode"]) ++ attrFails (post.node i) m ""
    | _, _ => [tr "type"]
  else [tr "unknown-type"]

/-- what a reader of `path` gets (`[]` when it cannot be opened) -/
def readText (c : Cfg) (fs : FS) (p : Text) : Text :=
  match openCore c fs p 0 0 with
  | (fs1, .ok h) => handleData fs1 h
  | _ => []

/-- the entry the property expects for a configured user (its own statement of the defaults) -/
def specUser (u : UserCfg) : User :=
  { name := u.name, password := ['x'], uid := u.uid, gid := u.gid.getD u.uid,
    info := ['A', 'c', 'c', 'o', 'u', 'n', 't', ' ', 'c', 'r', 'e', 'a', 't', 'e', 'd', ' ', 'b', 'y', ' ', 'a', 'p', 'k', 'o'],
    home := if u.home = [] then ['/', 'h', 'o', 'm', 'e', '/'] ++ u.name else u.home,
    shell := if u.shell = [] then ['/', 'b', 'i', 'n', '/', 's', 'h'] else u.shell }

def specGroup (g : GroupCfg) : Group := { name := g.name, password := ['x'], gid := g.gid, members := g.members }

/- (a group without members is written as an empty member field; since the repair of F16e it reads back
as a group without members, so the oracle below compares the group entries exactly — the former
`normGroup`, which dropped empty member names on both sides, is gone) -/

/-- `a` is `b` or one of its ancestors, component-wise -/
def isAncestorOrSelf (a b : Text) : Bool := (parts a).isPrefixOf (parts b)

/-- proper ancestors of `p` as paths, shortest first (`/home/a/b` ↦ `/home`, `/home/a`) -/
def ancestors (p : Text) : List Text :=
  let ps := parts p
  (List.range ps.length).filterMap fun k =>
    if k = 0 then none else some ((if isAbs p then slash else []) ++ joinNames (ps.take k))

/-- home directories: `earlier` are the homes processed before this entry -/
def homeFails (c : Cfg) (pre post : FS) (earlier : List Text) (u : User) : List Text :=
  if u.home = devNull then
    -- the marker of a homeless user is not a directory to be made
    (if (follow c post devNull).isSome ∧ (follow c pre devNull).isNone then [tr "devnull-home-created"] else [])
  else
  match follow c post (clean u.home) with
  | none => [tr "home-missing"]
  | some i =>
    let n := post.node i
    if !n.dir then [tr "home-notdir"] else
    let existed := (follow c pre (clean u.home)).isSome || earlier.any (fun h => isAncestorOrSelf (clean u.home) (clean h))
    if existed then [] else
    (if unixPerm n.mode = 0o700 ∧ n.mode.testBit 31 then [] else [tr "home-mode"]) ++
    (if ownerOK n u.uid u.gid then [] else [tr "home-owner"]) ++
    (ancestors (clean u.home)).flatMap fun a =>
      if (follow c pre a).isSome || earlier.any (fun h => isAncestorOrSelf a (clean h)) then [] else
      match follow c post a with
      | none => [tr "parent-missing"]
      | some j => if unixPerm (post.node j).mode = 0o755 ∧ (post.node j).dir then [] else [tr "parent-mode"]

def homesFails (c : Cfg) (pre post : FS) : List Text → List User → List Text
  | _, [] => []
  | earlier, u :: rest =>
    homeFails c pre post earlier u ++
      homesFails c pre post (if u.home = devNull then earlier else earlier ++ [u.home]) rest

/-- The post-condition of a successful `mutateAccounts`; `[]` = holds. -/
def specAccounts (c : Cfg) (pre post : FS) (cfg : AccCfg) (runAsOut : Text) : List Text :=
  (match loadUsers (readText c pre passwdPath) with
   | none => [tr "old-passwd-unparsable"]
   | some ou =>
     let wantU := ou ++ cfg.users.map specUser
     (if loadUsers (readText c post passwdPath) = some wantU then [] else [tr "passwd"]) ++
     homesFails c pre post (ou.filterMap fun u => if u.home = devNull then none else some u.home)
       (cfg.users.map specUser) ++
     (if runAsOut = (if cfg.runAs = [] then [] else
         match wantU.find? (fun u => u.name = cfg.runAs) with
         | some u => natToDec u.uid
         | none => cfg.runAs) then [] else [tr "run-as"])) ++
  (if cfg.groups = [] then
     (if readText c post groupPath = readText c pre groupPath then [] else [tr "group-touched"])
   else
     match loadGroups (readText c pre groupPath) with
     | none => [tr "old-group-unparsable"]
     | some og =>
       let wantG := og ++ cfg.groups.map specGroup
       if loadGroups (readText c post groupPath) = some wantG then []
       else [tr "group"])

/-! ## the lists of a configuration on their way to the build (`ImageConfiguration.MergeInto`)

`apko build` never hands the declared configuration itself to the build: `LockImageConfiguration` makes the
per-architecture copy with `input.MergeInto(&copied)` and an `include:`d file is merged into the including one with the
same function.  For every list (`paths`, `volumes`, `accounts.users`, `accounts.groups`, and the lists of the contents)
the function is `slices.Concat(included, own)`: nothing is dropped, reordered or merged, repetitions stay. -/

/-- `target.X = slices.Concat(ic.X, target.X)` -/
def mergeLists {α : Type} (included own : List α) : List α := included ++ own

/-- the per-architecture copy of `LockImageConfiguration`: the declared list merged into an empty configuration -/
def lockCopy {α : Type} (declared : List α) : List α := mergeLists declared []

/-- the path mutations the build applies for a configuration with an `include:`d one, through the CLI:
first the include is merged into the including file, then the result is copied per architecture -/
def buildPaths (included own : List Mutation) : List Mutation := lockCopy (mergeLists included own)

end Apko.Accounts
