import Apko.Model.Text
/-!
Go's `path/filepath` (= `path`) on Unix, as total functions on byte strings (`Text`).

* `clean`   – `filepath.Clean`
* `dir`     – `filepath.Dir`   (cleans what is left of the last `/`)
* `base`    – `filepath.Base`
* `join2`   – `filepath.Join(a, b)`
* `isAbs`   – `filepath.IsAbs`
* `parts`   – `strings.Split(p, "/")` with the empty components dropped (what every
               loop over path components in `memfs`/`tarfs` does)
* `validPath` – `io/fs.ValidPath`

The standard library is trusted, this model of it is not: it is validated against the
real functions by the `fs` correspondence suite (`p.clean`, `p.dir`, … requests).
-/
namespace Apko.Path

abbrev Name := Text

def slash : Text := ['/']
def dot : Text := ['.']
def dotdot : Text := ['.', '.']

/-- `strings.Split(p, "/")` minus the empty strings. -/
def parts (p : Text) : List Name := (splitOnChar '/' p).filter (· ≠ [])

def isAbs (p : Text) : Bool := p.head? = some '/'

/-- one step of Clean's component loop; `acc` is the output stack, top first -/
def cleanStep (rooted : Bool) (acc : List Name) (c : Name) : List Name :=
  if c = [] ∨ c = dot then acc
  else if c = dotdot then
    match acc with
    | [] => if rooted then [] else [dotdot]
    | top :: rest => if top = dotdot then dotdot :: acc else rest
  else c :: acc

def cleanParts (rooted : Bool) (cs : List Name) : List Name :=
  (cs.foldl (cleanStep rooted) []).reverse

/-- `filepath.Clean` -/
def clean (p : Text) : Text :=
  if p = [] then dot else
  let rooted := isAbs p
  let out := cleanParts rooted (splitOnChar '/' p)
  if rooted then '/' :: joinWith slash out
  else if out = [] then dot else joinWith slash out

/-- everything up to and including the last `/` (empty when there is none) -/
def uptoLastSlash (p : Text) : Text :=
  (p.reverse.dropWhile (· ≠ '/')).reverse

/-- `filepath.Dir` -/
def dir (p : Text) : Text := clean (uptoLastSlash p)

def stripTrailingSlashes (p : Text) : Text :=
  (p.reverse.dropWhile (· = '/')).reverse

/-- `filepath.Base` -/
def base (p : Text) : Text :=
  if p = [] then dot else
  let q := stripTrailingSlashes p
  let b := (q.reverse.takeWhile (· ≠ '/')).reverse
  if b = [] then slash else b

/-- `filepath.Join(a, b)` -/
def join2 (a b : Text) : Text :=
  if a ≠ [] then clean (a ++ slash ++ b)
  else if b ≠ [] then clean b
  else []

/-- `strings.Join(names, "/")` -/
def joinNames (ns : List Name) : Text := joinWith slash ns

/-- `io/fs.ValidPath` (without the UTF-8 test: the generators stay within ASCII) -/
def validPath (p : Text) : Bool :=
  if p = dot then true else
  (splitOnChar '/' p).all fun c => c ≠ [] ∧ c ≠ dot ∧ c ≠ dotdot

end Apko.Path
