/-
C20, end to end — what sits between the range-retry reader (`Model/Retry.lean`) and what apko uses:

* the **consumers** of a response stream: `io.ReadAll`, `io.Copy` to a file, the gzip / tar readers of
  `expandapk.ExpandApk` — all of them loops "Read until `err == io.EOF` or another error", with buffer
  sizes of their own choosing (`sz`: arbitrary, at least one byte).  `drain` runs such a loop over the retry
  reader (`Impl.read`), `drainBody` over a bare response body (where no retry transport is in between);
* the **callers** on the retry transport: `fetchRepositoryIndex` (index.go) and `APK.FetchPackage`
  (implementation.go) = `RoundTrip`, the status test, the consumer, `Close` (`download`);
* the **key fetch** of `APK.InitKeyring`: one `client.Do`, a 2xx test, `io.ReadAll` — no retry transport;
* the **cache transport** for ETag-addressed files (cache.go: `cacheTransport.head`, `get`, `fetchAndCache`,
  `retrieveAndSaveFile`, `fetchOffline`) at the level of bytes: the body of the GET is copied into a temp
  file of the entry directory by `io.Copy` *without* the retry transport (with a disk cache the retry reader
  only ever wraps the local file), the temp file is advertised under the ETag of the GET response — only
  when the copy returned nil —, and the entry is opened and handed to the caller;
* histories of such operations over one URL and one entry directory: repository updates (`publish`), new
  processes (`exit`: the HEAD memo is gone), online / offline / cache-less fetches, each with its own fault
  script.

Core only: linked into the driver.  The status codes the callers test are parameters (`Callers`),
instantiated with the regenerated facts (`Callers.generated`).

Recorded assumptions on top of those of `Model/Retry.lean`: reading a local cache file does not fail and
delivers the file; the ETag of a response names the body the same response carries (`respEtag` / `serve`:
both are taken from the server's current revision).
-/
import Apko.Model.Retry
import Apko.Generated.Fetch

namespace Apko.Fetch
open Apko Apko.Retry

/-! ## consumers -/

/-- outcome of a consumer loop: it saw `io.EOF` (returns nil and these bytes), it saw another error (these
bytes had been consumed — written to the temp file — before), or the model ran out of fuel (never:
`drain_never_fuel`) -/
inductive Got
  | ok (bs : Text)
  | err (bs : Text)
  | fuel (bs : Text)
deriving DecidableEq, Repr, Inhabited

def Got.bytes : Got → Text
  | .ok bs => bs | .err bs => bs | .fuel bs => bs

/-- `for { n, err := r.Read(buf); use buf[:n]; if err == io.EOF { return nil }; if err != nil { return err } }`
over the retry reader.  The buffer handed to the next `Read` has `sz r + 1` bytes (any choice, possibly
depending on everything that happened so far). -/
def drain (cfg : Cfg) (data : Text) (k : Kind) (sz : Reader → Nat) : Nat → Reader → Text → Reader × Got
  | 0, r, acc => (r, .fuel acc)
  | fuel + 1, r, acc =>
    let x := Impl.read cfg data k r (sz r + 1)
    match x.2.2 with
    | .ok => drain cfg data k sz fuel x.1 (acc ++ x.2.1)
    | .eof => (x.1, .ok (acc ++ x.2.1))
    | _ => (x.1, .err (acc ++ x.2.1))

/-- the same loop over a bare response body; the classes of the body reads are logged -/
def drainBody (sz : Nat → Nat) : Nat → Nat → Body → Text → List Res → Body × Got × List Res
  | 0, _, b, acc, log => (b, .fuel acc, log)
  | fuel + 1, i, b, acc, log =>
    let x := b.read (sz i + 1)
    match x.2.2 with
    | .ok => drainBody sz fuel (i + 1) x.1 (acc ++ x.2.1) (log ++ [.ok])
    | .eof => (x.1, .ok (acc ++ x.2.1), log ++ [.eof])
    | res => (x.1, .err (acc ++ x.2.1), log ++ [res])

/-! ## the callers on the retry transport -/

/-- the status tests of the callers -/
structure Callers where
  indexStatus : Nat    -- fetchRepositoryIndex: `res.StatusCode != http.StatusOK`
  pkgStatus   : Nat    -- FetchPackage: `res.StatusCode != http.StatusOK`
  headStatus  : Nat    -- indexCache.get: `resp.StatusCode != http.StatusOK` (the HEAD answer)
  getStatus   : Nat    -- retrieveAndSaveFile: `resp.StatusCode != 200`
  keyLo       : Nat    -- InitKeyring: `resp.StatusCode < 200 || resp.StatusCode > 299`
  keyHi       : Nat
deriving Repr

def Callers.generated : Callers :=
  ⟨Generated.callerStatus_fetchRepositoryIndex, Generated.callerStatus_FetchPackage,
   Generated.fetch_headStatus, Generated.fetch_getStatus, Generated.fetch_keyLo, Generated.fetch_keyHi⟩

/-- what a caller hands on -/
inductive Result
  | ok (bs : Text)
  | error
deriving DecidableEq, Repr, Inhabited

/-- `rrt.RoundTrip(req)`, the status test, the consumer reading to the end, `Close`.
`closeOnBad`: FetchPackage closes the body before it reports a bad status, fetchRepositoryIndex does not.
A response without a body (`http.NoBody`) is read as the empty stream. -/
def download (cfg : Cfg) (status : Nat) (closeOnBad : Bool) (data : Text) (k : Kind) (script : List Conn)
    (sz : Reader → Nat) : Reader × Result :=
  match Impl.roundTrip cfg data k script with
  | (r, .error _) => (r, .error)
  | (r, .passthrough code) => if code ≠ status then (r, .error) else (r, .ok [])
  | (r, .installed code) =>
    if code ≠ status then ((if closeOnBad then Impl.close r else r), .error)
    else
      match drain cfg data k sz (data.length + 1) r [] with
      | (r', .ok bs) => (Impl.close r', .ok bs)
      | (r', _) => (Impl.close r', .error)

/-- `fetchRepositoryIndex` with a plain client -/
def fetchIndex (cfg : Cfg) (cl : Callers) := download cfg cl.indexStatus false

/-- `FetchPackage` with a plain client — or with the caching client on a miss, which passes every request on
(`cacheTransport.RoundTrip`, `!t.etagRequired`) — followed by a consumer that reads to the end and closes -/
def fetchPackage (cfg : Cfg) (cl : Callers) := download cfg cl.pkgStatus true

/-- several packages one after the other over one network, each with a consumer of its own: the next
download meets the connections the previous one left -/
def fetchPackages (cfg : Cfg) (cl : Callers) (k : Kind) :
    List (Text × (Reader → Nat)) → List Conn → List (Result × List Event)
  | [], _ => []
  | (data, sz) :: rest, script =>
    let d := fetchPackage cfg cl data k script sz
    (d.2, d.1.log) :: fetchPackages cfg cl k rest d.1.script

/-! ## one plain request (no retry transport) -/

/-- `client.Do(req)` for a GET without Range: `none` = an error, else the status and the body
(`none` = `http.NoBody`, which net/http hands out for an empty body: reading it is `io.EOF` at once and
nothing happens on the network) -/
def doGet (data : Text) (k : Kind) (c : Conn) : Option (Nat × Option Body) :=
  if c.connFail then none else
  let sv := serve data k c none
  some (sv.1, if sv.2.isEmpty && c.noBody then none else some (mkBody sv.2 c))

/-- a consumer loop over the body of such a response: outcome and the classes of the body reads -/
def drainResp (sz : Nat → Nat) : Option Body → Got × List Res
  | none => (.ok [], [])
  | some b => let d := drainBody sz (b.rest.length + 1) 0 b [] []; (d.2.1, d.2.2)

/-! ## the cache transport, ETag-addressed files -/

abbrev Etag := Nat

/-- a file of the entry directory: advertised under an ETag (`<base32 etag>.tar.gz` / `.etag`, a link to
the temp file it was written to) or an unadvertised temp file -/
structure File where
  name    : Option Etag
  content : Text
deriving DecidableEq, Repr, Inhabited

/-- a connection as the cache transport sees it -/
structure XConn where
  conn   : Conn
  noEtag : Bool       -- this response carries no ETag header
deriving DecidableEq, Repr, Inhabited

/-- what the server holds now -/
structure Srv where
  etag : Option Etag  -- `none`: it sends no ETag at all
  data : Text
  kind : Kind
deriving Repr, Inhabited

structure Cache where
  files : List File := []                       -- oldest first
  memo  : Option (Nat × Option Etag) := none    -- `Cache.etagCache`: status and ETag of the remembered HEAD answer
deriving Repr, Inhabited

/-- observable trace of an operation: the requests in order, and every read on a network body -/
inductive Ev
  | head
  | get (range : Option Nat)
  | body (res : Res)
deriving DecidableEq, Repr, Inhabited

def ofLog : List Event → List Ev
  | [] => []
  | .req r :: es => .get r :: ofLog es
  | .body res :: es => .body res :: ofLog es
  | _ :: es => ofLog es

def respEtag (s : Srv) (x : XConn) : Option Etag := if x.noEtag then none else s.etag

def File.advertised (f : File) : Bool := f.name.isSome

/-- `os.Stat(etagFile)` / `os.Open(etagFile)` -/
def Cache.entry (c : Cache) (e : Etag) : Option File := c.files.find? (fun f => f.name == some e)

/-- a HEAD request on the network: `none` = `client.Do` failed; else status and ETag of the answer -/
def headReq (s : Srv) : List XConn → Option (Nat × Option Etag) × List XConn
  | [] => (none, [])
  | x :: rest =>
    if x.conn.connFail then (none, rest)
    else (some (x.conn.status.getD httpOK, respEtag s x), rest)

/-- `cacheTransport.head`: the memo of the shared cache object (when it has one), else a HEAD request whose
answer — whatever its status — is remembered -/
def cacheHead (hasMemo : Bool) (s : Srv) (c : Cache) (script : List XConn) :
    Option (Nat × Option Etag) × Cache × List XConn × List Ev :=
  match (if hasMemo then c.memo else none) with
  | some m => (some m, c, script, [])
  | none =>
    match headReq s script with
    | (none, rest) => (none, c, rest, [.head])
    | (some m, rest) => (some m, (if hasMemo then { c with memo := some m } else c), rest, [.head])

/-- `cacheTransport.retrieveAndSaveFile` with the placer of `get`: GET, status test, final name from the
ETag of the GET response, temp file, `io.Copy`, `AdvertiseCachedFile`.  Answers the ETag the entry is
advertised under, `none` = an error.  A failed copy leaves the partial temp file behind, unadvertised. -/
def retrieve (cl : Callers) (s : Srv) (c : Cache) (script : List XConn) (sz : Nat → Nat) :
    Option Etag × Cache × List XConn × List Ev :=
  match script with
  | [] => (none, c, [], [.get none])
  | x :: rest =>
    match doGet s.data s.kind x.conn with
    | none => (none, c, rest, [.get none])
    | some (code, body) =>
      if code ≠ cl.getStatus then (none, c, rest, [.get none]) else
      match respEtag s x with
      | none => (none, c, rest, [.get none])
      | some fin =>
        let d := drainResp sz body
        let evs := Ev.get none :: d.2.map Ev.body
        match d.1 with
        | .ok bs =>
          -- an existing entry wins, the temp file is removed
          if (c.entry fin).isSome then (some fin, c, rest, evs)
          else (some fin, { c with files := c.files ++ [⟨some fin, bs⟩] }, rest, evs)
        | g => (none, { c with files := c.files ++ [⟨none, g.bytes⟩] }, rest, evs)

/-- answer of `cacheTransport.fetchAndCache` to a GET -/
inductive FAC
  | served (bs : Text)   -- 200, Body = the opened entry
  | passthrough          -- no ETag: `return t.wrapped.Do(request)`
  | error
deriving DecidableEq, Repr, Inhabited

/-- the first half of `cacheTransport.fetchAndCache` for a GET: which ETag addresses the entry.
`initial` = the ETag the caller passed in the request header (fetchRepositoryIndex after the HEAD of
indexCache.get), else `head` is asked; the status of the HEAD answer is not looked at here.
`none` = an error, `some none` = no ETag. -/
def facEtag (hasMemo : Bool) (s : Srv) (c : Cache) (initial : Option Etag) (script : List XConn) :
    Option (Option Etag) × Cache × List XConn × List Ev :=
  match initial with
  | some e => (some (some e), c, script, [])
  | none =>
    match cacheHead hasMemo s c script with
    | (none, c1, rest, evs) => (none, c1, rest, evs)
    | (some m, c1, rest, evs) => (some m.2, c1, rest, evs)

/-- the second half: `t.get` (the entry if it exists, else `retrieveAndSaveFile`) and `os.Open` -/
def facGet (cl : Callers) (s : Srv) (c : Cache) (e : Etag) (script : List XConn) (sz : Nat → Nat) :
    FAC × Cache × List XConn × List Ev :=
  match c.entry e with
  | some f => (.served f.content, c, script, [])
  | none =>
    match retrieve cl s c script sz with
    | (none, c2, rest2, evs2) => (.error, c2, rest2, evs2)
    | (some fin, c2, rest2, evs2) =>
      match c2.entry fin with
      | some f => (.served f.content, c2, rest2, evs2)
      | none => (.error, c2, rest2, evs2)

/-- `cacheTransport.fetchAndCache` for a GET -/
def fetchAndCache (cl : Callers) (hasMemo : Bool) (s : Srv) (c : Cache) (initial : Option Etag)
    (script : List XConn) (sz : Nat → Nat) : FAC × Cache × List XConn × List Ev :=
  match facEtag hasMemo s c initial script with
  | (none, c1, rest, evs) => (.error, c1, rest, evs)
  | (some none, c1, rest, evs) => (.passthrough, c1, rest, evs)
  | (some (some e), c1, rest, evs) =>
    let g := facGet cl s c1 e rest sz
    (g.1, g.2.1, g.2.2.1, evs ++ g.2.2.2)

/-- `cacheTransport.fetchOffline`: the newest advertised file of the entry directory (temp files are
ignored, fix F19e) -/
def fetchOffline (c : Cache) : Result :=
  match (c.files.filter File.advertised).getLast? with
  | some f => .ok f.content
  | none => .error

/-! ## the operations of a build on one URL -/

/-- how the build reaches the URL -/
inductive Mode | direct | cached | offline
deriving DecidableEq, Repr, Inhabited

/-- size of the k-th read on a network body, from a list (`1` beyond its end) -/
def szBody (sizes : List Nat) : Nat → Nat := fun i => sizes.getD i 1 - 1

def bodyCount : List Event → Nat
  | [] => 0
  | .body _ :: es => bodyCount es + 1
  | _ :: es => bodyCount es

/-- size of the next `Read` of a consumer of the retry reader: that of the next body read of the list -/
def szReader (sizes : List Nat) : Reader → Nat := fun r => sizes.getD (bodyCount r.log) 1 - 1

/-- answer of an operation that the model does not cover (no ETag, no HEAD memo: HEAD and GET requests of the
retry reader alternate) -/
inductive Ans
  | res (r : Result)
  | unmodelled
deriving DecidableEq, Repr, Inhabited

/-- the HEAD of `indexCache.get` followed by `fetchRepositoryIndex` -/
def indexOp (cfg : Cfg) (cl : Callers) (mode : Mode) (hasMemo : Bool) (s : Srv) (c : Cache)
    (script : List XConn) (sizes : List Nat) : Ans × Cache × List Ev :=
  match mode with
  | .offline =>
    -- the HEAD is answered from the directory (200, no ETag), so is the GET
    (.res (fetchOffline c), c, [])
  | .direct =>
    match headReq s script with
    | (none, _) => (.res .error, c, [.head])
    | (some (status, _), rest) =>
      if status ≠ cl.headStatus then (.res .error, c, [.head]) else
      let d := fetchIndex cfg cl s.data s.kind (rest.map (·.conn)) (szReader sizes)
      (.res d.2, c, .head :: ofLog d.1.log)
  | .cached =>
    match cacheHead hasMemo s c script with
    | (none, c1, _, evs) => (.res .error, c1, evs)
    | (some (status, et), c1, rest, evs) =>
      if status ≠ cl.headStatus then (.res .error, c1, evs) else
      match et with
      | some e =>
        match fetchAndCache cl hasMemo s c1 (some e) rest (szBody sizes) with
        | (.served bs, c2, _, evs2) => (.res (.ok bs), c2, evs ++ evs2)
        | (_, c2, _, evs2) => (.res .error, c2, evs ++ evs2)
      | none =>
        if hasMemo then
          -- every `client.Do` of the retry reader: the memo answers `head`, the request goes to the network
          let d := fetchIndex cfg cl s.data s.kind (rest.map (·.conn)) (szReader sizes)
          (.res d.2, c1, evs ++ ofLog d.1.log)
        else (.unmodelled, c1, evs)

/-- the key fetch of `InitKeyring` without the cache transport: one request, 2xx, `io.ReadAll` -/
def keyDirect (cl : Callers) (s : Srv) (script : List XConn) (sz : Nat → Nat) : Result × List Ev :=
  match script with
  | [] => (.error, [.get none])
  | x :: _ =>
    match doGet s.data s.kind x.conn with
    | none => (.error, [.get none])
    | some (code, body) =>
      if code < cl.keyLo ∨ code > cl.keyHi then (.error, [.get none]) else
      let d := drainResp sz body
      ((match d.1 with | .ok bs => .ok bs | _ => .error), Ev.get none :: d.2.map Ev.body)

def keyOp (cl : Callers) (mode : Mode) (hasMemo : Bool) (s : Srv) (c : Cache)
    (script : List XConn) (sizes : List Nat) : Ans × Cache × List Ev :=
  match mode with
  | .offline => (.res (fetchOffline c), c, [])
  | .direct => let d := keyDirect cl s script (szBody sizes); (.res d.1, c, d.2)
  | .cached =>
    match fetchAndCache cl hasMemo s c none script (szBody sizes) with
    | (.served bs, c2, _, evs) => (.res (.ok bs), c2, evs)
    | (.error, c2, _, evs) => (.res .error, c2, evs)
    | (.passthrough, c2, rest, evs) =>
      let d := keyDirect cl s rest (szBody sizes)
      (.res d.1, c2, evs ++ d.2)

/-! ## histories -/

inductive Op
  | publish (etag : Option Etag) (data : Text)    -- the repository is updated
  | exit                                          -- a new process: the HEAD memo is gone
  | index (mode : Mode) (hasMemo : Bool) (script : List XConn) (sizes : List Nat)
  | key (mode : Mode) (hasMemo : Bool) (script : List XConn) (sizes : List Nat)
deriving Repr, Inhabited

structure St where
  srv    : Srv
  served : List (Etag × Text)    -- every (ETag, body) the server ever answered with
  cache  : Cache
deriving Repr, Inhabited

def servedNow (s : Srv) : List (Etag × Text) :=
  match s.etag with
  | some e => [(e, s.data)]
  | none => []

def St.init (s : Srv) : St := ⟨s, servedNow s, {}⟩

def step (cfg : Cfg) (cl : Callers) (st : St) : Op → St × Option (Ans × List Ev)
  | .publish e d =>
    let s : Srv := { st.srv with etag := e, data := d }
    ({ st with srv := s, served := servedNow s ++ st.served }, none)
  | .exit => ({ st with cache := { st.cache with memo := none } }, none)
  | .index mode m script sizes =>
    let a := indexOp cfg cl mode m st.srv st.cache script sizes
    ({ st with cache := a.2.1 }, some (a.1, a.2.2))
  | .key mode m script sizes =>
    let a := keyOp cl mode m st.srv st.cache script sizes
    ({ st with cache := a.2.1 }, some (a.1, a.2.2))

def run (cfg : Cfg) (cl : Callers) : St → List Op → St
  | st, [] => st
  | st, op :: ops => run cfg cl (step cfg cl st op).1 ops

/-- the answers of the operations of a history, each with the directory it left -/
def answers (cfg : Cfg) (cl : Callers) : St → List Op → List (Ans × List Ev × List File)
  | _, [] => []
  | st, op :: ops =>
    let x := step cfg cl st op
    (match x.2 with
      | some a => [(a.1, a.2, x.1.cache.files)]
      | none => []) ++ answers cfg cl x.1 ops

end Apko.Fetch
