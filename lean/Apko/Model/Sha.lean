/-
SHA-1 (FIPS 180-4 §6.1) and SHA-256 (§6.2) over byte lists, executable, core Lean only.

Used ONLY by the driver of the `split` suite (C05) to evaluate, in Lean and on real bytes, the hashes the model of
`ExpandApk` / `Split` predicts and the oracle "the recorded hash is the hash of exactly this byte range".  The theorems
of C05 never look inside: there the two hash functions are parameters (`Lib.sha1`, `Lib.sha256`).  That these
functions agree with Go's crypto/sha1 and crypto/sha256 is itself checked by the suite (`split.sha` steps: Go = Lean on
random byte strings of every length class around the padding boundaries).
-/
namespace Apko.Sha

def rotl (x : UInt32) (n : UInt32) : UInt32 := (x <<< n) ||| (x >>> (32 - n))
def rotr (x : UInt32) (n : UInt32) : UInt32 := (x >>> n) ||| (x <<< (32 - n))

/-- message ++ 0x80 ++ zeros ++ 64-bit big-endian bit length; a multiple of 64 bytes -/
def padded (msg : List Nat) : Array Nat :=
  let l := msg.length
  let z := (119 - l % 64) % 64
  let bits := l * 8
  let len8 := (List.range 8).map fun i => (bits >>> (8 * (7 - i))) % 256
  (msg.map (· % 256) ++ [0x80] ++ List.replicate z 0 ++ len8).toArray

def word (a : Array Nat) (i : Nat) : UInt32 :=
  UInt32.ofNat ((((a[i]! * 256 + a[i+1]!) * 256 + a[i+2]!) * 256) + a[i+3]!)

def wordBytes (w : UInt32) : List Nat :=
  let n := w.toNat
  [n / 16777216 % 256, n / 65536 % 256, n / 256 % 256, n % 256]

/-! ### SHA-1 -/

def sha1Schedule (a : Array Nat) (off : Nat) : Array UInt32 := Id.run do
  let mut w : Array UInt32 := Array.mkEmpty 80
  for t in [0:16] do
    w := w.push (word a (off + 4 * t))
  for t in [16:80] do
    w := w.push (rotl (w[t-3]! ^^^ w[t-8]! ^^^ w[t-14]! ^^^ w[t-16]!) 1)
  return w

structure S1 where
  a : UInt32
  b : UInt32
  c : UInt32
  d : UInt32
  e : UInt32

def sha1Block (h : S1) (a : Array Nat) (off : Nat) : S1 := Id.run do
  let w := sha1Schedule a off
  let mut s := h
  for t in [0:80] do
    let (f, k) : UInt32 × UInt32 :=
      if t < 20 then ((s.b &&& s.c) ||| ((~~~ s.b) &&& s.d), 0x5a827999)
      else if t < 40 then (s.b ^^^ s.c ^^^ s.d, 0x6ed9eba1)
      else if t < 60 then ((s.b &&& s.c) ||| (s.b &&& s.d) ||| (s.c &&& s.d), 0x8f1bbcdc)
      else (s.b ^^^ s.c ^^^ s.d, 0xca62c1d6)
    let tmp := rotl s.a 5 + f + s.e + k + w[t]!
    s := { a := tmp, b := s.a, c := rotl s.b 30, d := s.c, e := s.d }
  return { a := h.a + s.a, b := h.b + s.b, c := h.c + s.c, d := h.d + s.d, e := h.e + s.e }

def sha1 (msg : List Nat) : List Nat := Id.run do
  let a := padded msg
  let mut h : S1 := { a := 0x67452301, b := 0xefcdab89, c := 0x98badcfe, d := 0x10325476, e := 0xc3d2e1f0 }
  for i in [0:a.size / 64] do
    h := sha1Block h a (64 * i)
  return wordBytes h.a ++ wordBytes h.b ++ wordBytes h.c ++ wordBytes h.d ++ wordBytes h.e

/-! ### SHA-256 -/

def k256 : Array UInt32 := #[
  0x428a2f98, 0x71374491, 0xb5c0fbcf, 0xe9b5dba5, 0x3956c25b, 0x59f111f1, 0x923f82a4, 0xab1c5ed5,
  0xd807aa98, 0x12835b01, 0x243185be, 0x550c7dc3, 0x72be5d74, 0x80deb1fe, 0x9bdc06a7, 0xc19bf174,
  0xe49b69c1, 0xefbe4786, 0x0fc19dc6, 0x240ca1cc, 0x2de92c6f, 0x4a7484aa, 0x5cb0a9dc, 0x76f988da,
  0x983e5152, 0xa831c66d, 0xb00327c8, 0xbf597fc7, 0xc6e00bf3, 0xd5a79147, 0x06ca6351, 0x14292967,
  0x27b70a85, 0x2e1b2138, 0x4d2c6dfc, 0x53380d13, 0x650a7354, 0x766a0abb, 0x81c2c92e, 0x92722c85,
  0xa2bfe8a1, 0xa81a664b, 0xc24b8b70, 0xc76c51a3, 0xd192e819, 0xd6990624, 0xf40e3585, 0x106aa070,
  0x19a4c116, 0x1e376c08, 0x2748774c, 0x34b0bcb5, 0x391c0cb3, 0x4ed8aa4a, 0x5b9cca4f, 0x682e6ff3,
  0x748f82ee, 0x78a5636f, 0x84c87814, 0x8cc70208, 0x90befffa, 0xa4506ceb, 0xbef9a3f7, 0xc67178f2]

def sha256Schedule (a : Array Nat) (off : Nat) : Array UInt32 := Id.run do
  let mut w : Array UInt32 := Array.mkEmpty 64
  for t in [0:16] do
    w := w.push (word a (off + 4 * t))
  for t in [16:64] do
    let x := w[t-15]!
    let y := w[t-2]!
    let s0 := rotr x 7 ^^^ rotr x 18 ^^^ (x >>> 3)
    let s1 := rotr y 17 ^^^ rotr y 19 ^^^ (y >>> 10)
    w := w.push (w[t-16]! + s0 + w[t-7]! + s1)
  return w

def sha256Block (h : Array UInt32) (a : Array Nat) (off : Nat) : Array UInt32 := Id.run do
  let w := sha256Schedule a off
  let mut s := h
  for t in [0:64] do
    let a' := s[0]!
    let e := s[4]!
    let s1 := rotr e 6 ^^^ rotr e 11 ^^^ rotr e 25
    let ch := (e &&& s[5]!) ^^^ ((~~~ e) &&& s[6]!)
    let t1 := s[7]! + s1 + ch + k256[t]! + w[t]!
    let s0 := rotr a' 2 ^^^ rotr a' 13 ^^^ rotr a' 22
    let mj := (a' &&& s[1]!) ^^^ (a' &&& s[2]!) ^^^ (s[1]! &&& s[2]!)
    let t2 := s0 + mj
    s := #[t1 + t2, s[0]!, s[1]!, s[2]!, s[3]! + t1, s[4]!, s[5]!, s[6]!]
  return (List.range 8).toArray.map fun i => h[i]! + s[i]!

def sha256 (msg : List Nat) : List Nat := Id.run do
  let a := padded msg
  let mut h : Array UInt32 := #[0x6a09e667, 0xbb67ae85, 0x3c6ef372, 0xa54ff53a, 0x510e527f, 0x9b05688c, 0x1f83d9ab, 0x5be0cd19]
  for i in [0:a.size / 64] do
    h := sha256Block h a (64 * i)
  return h.toList.flatMap wordBytes

def hexDigit (n : Nat) : Char := if n < 10 then Char.ofNat (48 + n) else Char.ofNat (87 + n)

/-- lower-case hex text of a byte list (`hex.EncodeToString`) -/
def hexOf (b : List Nat) : List Char := b.flatMap fun n => [hexDigit (n / 16 % 16), hexDigit (n % 16)]

end Apko.Sha
