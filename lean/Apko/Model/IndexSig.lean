/-
C04 — model of repository-index signature checking (`pkg/apk/apk/index.go`:
`shouldCheckSignatureForIndex`, `parseRepositoryIndex`).

An index archive `b` is a byte string.  What the Go standard library (gzip, archive/tar), the
RSA/PKCS#1 code and the two hash functions do with bytes is NOT modelled: they are parameters
(`Codec`, `Crypto`); no property of them (not even injectivity of the hashes) is assumed.

* `Codec.readFirst b` is what the signature loop sees: `gzip.NewReader(bytes.NewReader(b))` with
  `Multistream(false)`, `tar.NewReader` on it, `Next()` until it stops.  `none` = the gzip header
  is unreadable.  Otherwise the tar entries `(name, body)` of the first gzip member in order, how
  the loop ended (`Ending`), and `rest` = the bytes of `b` that the reader has not consumed when
  `Next()` returned `io.EOF` (for a well-formed archive: everything after the first gzip member).
* `Codec.indexFromArchive x` is `IndexFromArchive(x)`: multi-member gunzip, untar, APKINDEX /
  DESCRIPTION / `.SIGN.*` entries → packages, description, signature (`none` = error).

`parseIndex` mirrors the *repaired* code (fix F04a): the bytes handed to `IndexFromArchive` are the
bytes whose digest was verified (`rest`), and `APKIndex.Signature` is the verified signature.
`Legacy.parseIndex` is the code before the repair: it verified `rest` but parsed the whole buffer.
-/
import Apko.Model.Text
import Apko.Generated.IndexSig

namespace Apko.IndexSig
open Apko

abbrev Bytes := Text

/-- digest algorithm chosen by the signature type -/
inductive Alg | sha1 | sha256
  deriving DecidableEq, Repr

/-- one tar entry of the first gzip member, body fully read -/
structure Entry where
  name : Text
  body : Bytes
  deriving DecidableEq, Repr

/-- how the `tarReader.Next()` loop over the first member stops -/
inductive Ending
  | eof                      -- `Next()` returned io.EOF (gzip member ended at a block boundary, or tar end marker)
  | errNext                  -- `Next()` returned another error (bad header, checksum, gzip CRC, truncated stream)
  | errBody (name : Text)    -- a last header with this name was returned but its body cannot be read completely
  deriving DecidableEq, Repr

structure First where
  entries : List Entry
  ending : Ending
  rest : Bytes
  deriving Repr

/-- `APKIndex`: packages are kept abstract (one canonical text per package) -/
structure Index where
  packages : List Text
  description : Bytes
  signature : Bytes
  deriving DecidableEq, Repr

/-- uninterpreted cryptography -/
structure Crypto where
  sha1 : Bytes → Bytes
  sha256 : Bytes → Bytes
  /-- `sign.RSAVerifyDigest(digest, alg, signature, publicKeyPEM) == nil` -/
  rsaVerify : (pem : Bytes) → Alg → (digest : Bytes) → (sig : Bytes) → Bool

/-- The libraries between a configured key FILE and the RSA verification, uninterpreted:
`encoding/pem`, `crypto/x509`, `crypto/rsa`, `crypto.Hash.Size`. A public key is an abstract byte string. -/
structure KeyLib where
  /-- `block, _ := pem.Decode(file)`: the bytes of the FIRST PEM block of the file, if there is one
  (text before it is skipped; the block type and headers are not part of the answer) -/
  pemDecodeFirst : Bytes → Option Bytes
  /-- `x509.ParsePKIXPublicKey(der)`: `none` = error; `some none` = a key that is not RSA; `some (some k)` -/
  parsePKIX : Bytes → Option (Option Bytes)
  /-- `rsa.VerifyPKCS1v15(key, alg, digest, sig) == nil` -/
  verifyPKCS1v15 : (key : Bytes) → Alg → (digest : Bytes) → (sig : Bytes) → Bool
  /-- `digestType.Size()` -/
  hashSize : Alg → Nat

/-- `sign.RSAVerifyDigest(digest, alg, sig, keyFile) == nil` (pkg/apk/signature/rsa.go), check by check
(tie: `tie_rsaVerifyDigest` over the regenerated statement list) -/
def rsaVerifyDigest (L : KeyLib) (pem : Bytes) (alg : Alg) (digest sig : Bytes) : Bool :=
  if digest.length != L.hashSize alg then false else      -- errDigestLength
  match L.pemDecodeFirst pem with
  | none => false                                           -- errNoPemBlock
  | some der =>
    match L.parsePKIX der with
    | none => false                                         -- parse PKIX public key: …
    | some none => false                                    -- errNoRSAKey
    | some (some key) => L.verifyPKCS1v15 key alg digest sig

/-- the cryptography of `parseRepositoryIndex` with `RSAVerifyDigest` spelled out over the libraries -/
def Crypto.ofLib (sha1 sha256 : Bytes → Bytes) (L : KeyLib) : Crypto :=
  { sha1 := sha1, sha256 := sha256, rsaVerify := rsaVerifyDigest L }

/-- uninterpreted container decoding -/
structure Codec where
  readFirst : Bytes → Option First
  indexFromArchive : Bytes → Option Index

def Crypto.hash (C : Crypto) : Alg → Bytes → Bytes
  | .sha1 => C.sha1
  | .sha256 => C.sha256

structure Opts where
  ignoreSignatures : Bool
  noSignatureIndexes : List Text
  deriving DecidableEq, Repr

/-- the configured keys: file name in /etc/apk/keys → PEM bytes (a Go map: names are distinct) -/
abbrev Keys := List (Text × Bytes)

def lookupKey (keys : Keys) (name : Text) : Option Bytes :=
  match keys.find? (fun k => k.1 == name) with
  | some k => some k.2
  | none => none

/-! ## `IndexURL` and `shouldCheckSignatureForIndex` -/

/-- `fmt.Sprintf("%s/%s/%s", repo, arch, indexFilename)` -/
def indexURL (repo arch : Text) : Text :=
  repo ++ ('/' :: (arch ++ ('/' :: Generated.indexFilename.toList)))

/-- `shouldCheckSignatureForIndex(index, arch, opts)` -/
def checkOn (o : Opts) (url arch : Text) : Bool :=
  if o.ignoreSignatures then false
  else if o.noSignatureIndexes.any (fun r => indexURL r arch == url) then false
  else true

/-! ## entry names: `signatureFileRegex` and the algorithm switch -/

/-- the alternation `(DSA|RSA|RSA256|RSA512)` of the regex (tied to the literal in Proofs/C04) -/
def regexAlgs : List Text := ["DSA".toList, "RSA".toList, "RSA256".toList, "RSA512".toList]

/-- text before the first '.', text after it -/
def splitAtDot : Text → Option (Text × Text)
  | [] => none
  | c :: cs =>
    if c = '.' then some ([], cs)
    else match splitAtDot cs with
      | some (a, b) => some (c :: a, b)
      | none => none

def rsaPubSuffix : Text := ".rsa.pub".toList

/-- `signatureFileRegex.FindStringSubmatch(name)`: `^\.SIGN\.(DSA|RSA|RSA256|RSA512)\.(.*\.rsa\.pub)$`.
The algorithm tokens contain no '.', and the token must be followed by '.', so the token is the text up
to the first '.' after the prefix; the key part is the remainder, must not contain a newline (`.`
does not match '\n') and must end in `.rsa.pub`.  Result: (algorithm token, key file name). -/
def matchSigName (name : Text) : Option (Text × Text) :=
  match stripPrefix ".SIGN.".toList name with
  | none => none
  | some r =>
    match splitAtDot r with
    | none => none
    | some (tok, key) =>
      if regexAlgs.contains tok && !key.contains '\n' && rsaPubSuffix.isSuffixOf key then some (tok, key)
      else none

/-- what a `case` of the switch over the signature type does -/
inductive SigKind | skip | use (a : Alg) | unknown
  deriving DecidableEq, Repr

def kindOfBody (body : String) : SigKind :=
  if body = "continue" then .skip
  else if body = "crypto.SHA1" then .use .sha1
  else if body = "crypto.SHA256" then .use .sha256
  else .unknown

/-- the switch, read from the regenerated table `Generated.sigSwitch` (label → first statement) -/
def sigKindIn (table : List (String × String)) (tok : Text) : SigKind :=
  match table.find? (fun p => p.1 == String.ofList tok) with
  | some p => kindOfBody p.2
  | none => .unknown

def sigKind (tok : Text) : SigKind := sigKindIn Generated.sigSwitch tok

/-! ## `parseRepositoryIndex` -/

inductive Rej
  | noKeys | keyName | gzip | tar | entryName | sigFormat | readSig | noSig | verify | parse
  deriving DecidableEq, Repr

inductive Res
  | ok (i : Index)
  | rej (r : Rej)
  deriving DecidableEq, Repr

structure Sig where
  keyID : Text
  body : Bytes
  alg : Alg
  deriving DecidableEq, Repr

/-- the loop over the entries of the first member: the signatures with a configured key and a usable
algorithm, in order; or the first error -/
def collect (keys : Keys) : List Entry → Ending → Except Rej (List Sig)
  | [], .eof => .ok []
  | [], .errNext => .error .tar
  | [], .errBody name =>
    match matchSigName name with
    | none => .error .entryName
    | some (tok, key) =>
      match lookupKey keys key with
      | none => .error .tar            -- `continue`, then `Next()` fails while skipping the body
      | some _ =>
        match sigKind tok with
        | .skip => .error .tar
        | .use _ => .error .readSig   -- `io.ReadAll(tarReader)` fails
        | .unknown => .error .sigFormat
  | e :: es, ending =>
    match matchSigName e.name with
    | none => .error .entryName
    | some (tok, key) =>
      match lookupKey keys key with
      | none => collect keys es ending
      | some _ =>
        match sigKind tok with
        | .skip => collect keys es ending
        | .unknown => .error .sigFormat
        | .use a =>
          match collect keys es ending with
          | .ok sigs => .ok (⟨key, e.body, a⟩ :: sigs)
          | .error r => .error r

/-- `sign.RSAVerifyDigest(indexDigest[alg], alg, sig.Signature, keys[sig.KeyID]) == nil` over `data` -/
def verifies (C : Crypto) (keys : Keys) (data : Bytes) (s : Sig) : Bool :=
  match lookupKey keys s.keyID with
  | some pem => C.rsaVerify pem s.alg (C.hash s.alg data) s.body
  | none => C.rsaVerify [] s.alg (C.hash s.alg data) s.body   -- Go: keys[missing] = nil (unreachable)

/-- which bytes are handed to `IndexFromArchive` after a successful verification -/
inductive Parsed | verifiedBytes | wholeBuffer
  deriving DecidableEq, Repr

def parseIndexWith (what : Parsed) (C : Crypto) (R : Codec) (keys : Keys) (o : Opts)
    (url arch : Text) (archive : Bytes) : Res :=
  if checkOn o url arch then
    if keys.isEmpty then .rej .noKeys
    else if keys.any (fun k => k.1.contains '/') then .rej .keyName
    else
      match R.readFirst archive with
      | none => .rej .gzip
      | some f =>
        match collect keys f.entries f.ending with
        | .error r => .rej r
        | .ok sigs =>
          if sigs.isEmpty then .rej .noSig
          else
            match sigs.find? (verifies C keys f.rest) with
            | none => .rej .verify
            | some s =>
              match what with
              | .verifiedBytes =>
                match R.indexFromArchive f.rest with
                | none => .rej .parse
                | some i => .ok { i with signature := s.body }
              | .wholeBuffer =>
                match R.indexFromArchive archive with
                | none => .rej .parse
                | some i => .ok i
  else
    match R.indexFromArchive archive with
    | none => .rej .parse
    | some i => .ok i

/-- the code as it is now (after the repair of F04a) -/
def parseIndex := parseIndexWith .verifiedBytes

/-- the code before the repair -/
def Legacy.parseIndex := parseIndexWith .wholeBuffer

/-! ## Spec: what the property allows a call to return (written independently of `parseIndex`) -/

namespace Spec

/-- a signature entry name, read literally: `.SIGN.RSA.<key>` (SHA-1) or `.SIGN.RSA256.<key>` (SHA-256) -/
def sigEntry (name : Text) : Option (Alg × Text) :=
  match stripPrefix ".SIGN.RSA256.".toList name with
  | some key => some (.sha256, key)
  | none =>
    match stripPrefix ".SIGN.RSA.".toList name with
    | some key => some (.sha1, key)
    | none => none

/-- verification is waived: globally, or this very index URL is listed -/
def Exempt (o : Opts) (url arch : Text) : Prop :=
  o.ignoreSignatures = true ∨ ∃ r ∈ o.noSignatureIndexes, indexURL r arch = url

/-- entry `e` is a signature by a configured key that verifies over `data` -/
def SignedBy (C : Crypto) (keys : Keys) (data : Bytes) (e : Entry) : Prop :=
  ∃ a key pem, sigEntry e.name = some (a, key) ∧ (key, pem) ∈ keys ∧
    C.rsaVerify pem a (C.hash a data) e.body = true

/-- what may be returned for (`keys`, `o`, `url`, `arch`, `archive`) -/
def Acceptable (C : Crypto) (R : Codec) (keys : Keys) (o : Opts) (url arch : Text) (archive : Bytes) :
    Res → Prop
  | .rej _ => True
  | .ok idx =>
    (Exempt o url arch ∧ R.indexFromArchive archive = some idx) ∨
    (¬ Exempt o url arch ∧ ∃ f, R.readFirst archive = some f ∧
      (∃ e ∈ f.entries, SignedBy C keys f.rest e) ∧
      ∃ i, R.indexFromArchive f.rest = some i ∧ idx.packages = i.packages ∧ idx.description = i.description)

/-! executable versions for the driver (proved equivalent in Proofs/C04) -/

def exemptB (o : Opts) (url arch : Text) : Bool :=
  o.ignoreSignatures || o.noSignatureIndexes.any (fun r => indexURL r arch == url)

def signedByB (C : Crypto) (keys : Keys) (data : Bytes) (e : Entry) : Bool :=
  match sigEntry e.name with
  | none => false
  | some (a, key) => keys.any (fun k => k.1 == key && C.rsaVerify k.2 a (C.hash a data) e.body)

def acceptableB (C : Crypto) (R : Codec) (keys : Keys) (o : Opts) (url arch : Text) (archive : Bytes) :
    Res → Bool
  | .rej _ => true
  | .ok idx =>
    if exemptB o url arch then R.indexFromArchive archive == some idx
    else
      match R.readFirst archive with
      | none => false
      | some f =>
        f.entries.any (signedByB C keys f.rest) &&
        match R.indexFromArchive f.rest with
        | none => false
        | some i => idx.packages == i.packages && idx.description == i.description

end Spec

end Apko.IndexSig
