import Apko.Model.Accounts
/-!
# C13 — the two goroutines of `mutateAccounts`, one file-system operation per step

`mutateAccounts` starts two goroutines on one `errgroup` (`pkg/build/accounts.go`): one rewrites
`etc/group`, the other rewrites `etc/passwd` and makes the home directories.  `Model/Accounts.lean` runs
them one after the other (groups first).  Here each goroutine is a small-step machine whose steps are the
calls it makes on the file system, in the order of the Go code:

* group goroutine (`gstep`): `OpenFile(etc/group, O_RDONLY|O_CREATE)` · read to the end, parse, close ·
  `Create(etc/group)` (which truncates) · `Write` of the rendered entries;
* passwd goroutine (`ustep`): `OpenFile(etc/passwd, …)` · read, parse · for every entry `Stat(home)`,
  `MkdirAll(parent)`, `Mkdir(home)`, `Chown(home)` · `Create(etc/passwd)` · `Write`.

A schedule is a list of booleans (`true`: the group goroutine moves); a finished goroutine stutters.
`runSched` runs a schedule from a joint state.  `Proofs/C13Sched.lean` shows that a goroutine run alone
is the function of `Model/Accounts.lean`, and that every schedule under which both goroutines finish
ends in the state `mutateAccounts` (groups first) computes — when `etc/group` and `etc/passwd` are
different nodes.
-/
namespace Apko.Accounts
open Apko Apko.Path Apko.FS Apko.Formats

/-- `memFile.Write` at the start of a freshly created file object -/
def writeH (fs : FS) (h : Handle) (t : Text) : FS :=
  fs.setNode h.ino { fs.node h.ino with data := writeAt (fs.node h.ino).data 0 t }

/-- the group goroutine -/
inductive GSt
  | start
  | opened (h : Handle)
  | parsed (t : Text)
  | created (h : Handle) (t : Text)
  | done (e : Option AErr)
  deriving Repr, DecidableEq

def gstep (c : Cfg) (gs : List GroupCfg) : GSt → FS → GSt × FS
  | .start, fs =>
    if gs = [] then (.done none, fs) else
    match openCore c fs groupPath flagsReadOrCreate readOrCreatePerm with
    | (fs1, .error e) => (.done (some (.fs e)), fs1)
    | (fs1, .ok h) => (.opened h, fs1)
  | .opened h, fs =>
    match loadGroups (handleData fs h) with
    | none => (.done (some .parse), fs)
    | some old => (.parsed (writeGroups (old ++ gs.map groupToGroupEntry)), fs)
  | .parsed t, fs =>
    match openCore c fs groupPath flagsWriteFile createPerm with
    | (fs1, .error e) => (.done (some (.fs e)), fs1)
    | (fs1, .ok h) => (.created h t, fs1)
  | .created h t, fs => (.done none, writeH fs h t)
  | .done e, fs => (.done e, fs)

/-- the passwd goroutine; `homes all rest ph`: the entries still to be handled and the next call for the
first of them (0 `Stat`, 1 `MkdirAll`, 2 `Mkdir`, 3 `Chown`) -/
inductive USt
  | start
  | opened (h : Handle)
  | homes (all rest : List User) (ph : Nat)
  | created (h : Handle) (all : List User)
  | done (e : Option AErr) (runAs : Text)
  deriving Repr, DecidableEq

def ustep (c : Cfg) (cfg : AccCfg) : USt → FS → USt × FS
  | .start, fs =>
    match openCore c fs passwdPath flagsReadOrCreate readOrCreatePerm with
    | (fs1, .error e) => (.done (some (.fs e)) cfg.runAs, fs1)
    | (fs1, .ok h) => (.opened h, fs1)
  | .opened h, fs =>
    match loadUsers (handleData fs h) with
    | none => (.done (some .parse) cfg.runAs, fs)
    | some old => (.homes (old ++ cfg.users.map userToUserEntry) (old ++ cfg.users.map userToUserEntry) 0, fs)
  | .homes all [] _, fs =>
    match openCore c fs passwdPath flagsWriteFile createPerm with
    | (fs1, .error e) => (.done (some (.fs e)) cfg.runAs, fs1)
    | (fs1, .ok h) => (.created h all, fs1)
  | .homes all (u :: rest) 0, fs =>
    if u.home = devNull then (.homes all rest 0, fs) else
    match (step c fs (.stat (clean u.home))).2 with
    | .ok (.stat s) => if s.isDir then (.homes all rest 0, fs) else (.done (some .homeNotDir) cfg.runAs, fs)
    | .err .notExist => (.homes all (u :: rest) 1, fs)
    | .err e => (.done (some (.fs e)) cfg.runAs, fs)
    | _ => (.homes all rest 0, fs)
  | .homes all (u :: rest) 1, fs =>
    match act c fs (.mkdirAll (dir (clean u.home)) homeParentPerm) with
    | (fs1, some e) => (.done (some (.fs e)) cfg.runAs, fs1)
    | (fs1, none) => (.homes all (u :: rest) 2, fs1)
  | .homes all (u :: rest) 2, fs =>
    match act c fs (.mkdir (clean u.home) homePerm) with
    | (fs1, some e) => (.done (some (.fs e)) cfg.runAs, fs1)
    | (fs1, none) => (.homes all (u :: rest) 3, fs1)
  | .homes all (u :: rest) (_ + 3), fs =>
    match act c fs (.chown (clean u.home) u.uid u.gid) with
    | (fs1, some e) => (.done (some (.fs e)) cfg.runAs, fs1)
    | (fs1, none) => (.homes all rest 0, fs1)
  | .created h all, fs => (.done none (resolveRunAs all cfg.runAs), writeH fs h (writeUsers all))
  | .done e r, fs => (.done e r, fs)

/-- the joint state: the file system both goroutines work on, and where each of them is -/
structure Sys where
  fs : FS
  g : GSt
  u : USt

def Sys.stepG (c : Cfg) (cfg : AccCfg) (s : Sys) : Sys :=
  let r := gstep c cfg.groups s.g s.fs
  { s with g := r.1, fs := r.2 }

def Sys.stepU (c : Cfg) (cfg : AccCfg) (s : Sys) : Sys :=
  let r := ustep c cfg s.u s.fs
  { s with u := r.1, fs := r.2 }

/-- run a schedule (`true`: the group goroutine makes its next call) -/
def runSched (c : Cfg) (cfg : AccCfg) : List Bool → Sys → Sys
  | [], s => s
  | true :: rest, s => runSched c cfg rest (s.stepG c cfg)
  | false :: rest, s => runSched c cfg rest (s.stepU c cfg)

def GSt.isDone : GSt → Bool
  | .done _ => true
  | _ => false

def USt.isDone : USt → Bool
  | .done _ _ => true
  | _ => false

/-- what `mutateAccounts` reports once both goroutines are done: the file system, the error `eg.Wait`
returns (the model reports the group goroutine's first) and the resolved `run-as` -/
def Sys.result (s : Sys) : FS × Option AErr × Text :=
  match s.g, s.u with
  | .done ge, .done ue r => (s.fs, (match ge with | some e => some e | none => ue), r)
  | _, _ => (s.fs, none, [])

/-- the schedule that runs the group goroutine to its end first, then the other: `k` steps each -/
def seqSched (kg ku : Nat) : List Bool := List.replicate kg true ++ List.replicate ku false

end Apko.Accounts
