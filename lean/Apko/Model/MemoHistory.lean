/-
The process-wide memo of disqualification maps (`globalDisqualifyCache`, shameful_global_caches.go) over a
HISTORY of builds in one process (C01: "no matter how often, when or where it runs").

* a disqualification map is the list of the disqualified package objects (`*RepositoryPackage`, here ids);
* the memo is a trie keyed by the index objects of all architectures, here an association list from the key
  (the path) to the stored map;
* `Get` looks the key up; on a miss it computes `disqualifyDifference`, stores it, and hands a map to the
  solver.  WHAT it hands out on either path is the `GetShape`: a private copy (`maps.Clone`) or the stored
  object itself;
* the solver (`GetPackagesWithDependencies`) uses the map it was handed as scratch space: `constrain`,
  `disqualifyProviders`, `disqualifyConflicts` write into it while solving (`writes`), and everything it
  resolves is a function of the world and of that map (`result`).  When the map IS the stored object, the
  writes land in the memo.
-/
namespace Apko.MemoHistory

abbrev Dq := List Nat
abbrev Key := List Nat
abbrev Memo := List (Key × Dq)

def find (m : Memo) (k : Key) : Option Dq := (m.find? (fun e => e.1 = k)).map (·.2)

/-- replace the object stored under `k` (a write through an alias of it) -/
def store (m : Memo) (k : Key) (v : Dq) : Memo := m.map (fun e => if e.1 = k then (k, v) else e)

/-- what `Get` returns: `missCopies` = the return behind `r.fill(indexes, dq)` is `maps.Clone(dq)`,
`hitCopies` = the return behind a successful `find` is `maps.Clone(dq)` -/
structure GetShape where
  missCopies : Bool
  hitCopies : Bool
deriving DecidableEq, Repr

/-- `disqualifyCache.Get`: new memo, the map handed out, and whether it is the stored object itself -/
def get (sh : GetShape) (diff : Key → Dq) (m : Memo) (k : Key) : Memo × Dq × Bool :=
  match find m k with
  | some dq => (m, dq, !sh.hitCopies)
  | none => ((k, diff k) :: m, diff k, !sh.missCopies)

structure Solver (W R : Type) where
  /-- the disqualifications a solve of the world adds to the map it was handed -/
  writes : W → Dq → Dq
  /-- what the solve resolves to -/
  result : W → Dq → R

/-- one build (one call of `GetPackagesWithDependencies` for the key of its index objects) -/
def build {W R : Type} (sh : GetShape) (diff : Key → Dq) (S : Solver W R) (m : Memo) (b : Key × W) : Memo × R :=
  let g := get sh diff m b.1
  let final := g.2.1 ++ S.writes b.2 g.2.1
  (if g.2.2 then store g.1 b.1 final else g.1, S.result b.2 g.2.1)

/-- the memo after the earlier builds of the process (a fresh process starts from the empty memo) -/
def runHist {W R : Type} (sh : GetShape) (diff : Key → Dq) (S : Solver W R) (m : Memo) : List (Key × W) → Memo
  | [] => m
  | b :: bs => runHist sh diff S (build sh diff S m b).1 bs

/-- what the target resolves to as the last build of a process with the given history -/
def after {W R : Type} (sh : GetShape) (diff : Key → Dq) (S : Solver W R) (hist : List (Key × W)) (target : Key × W) : R :=
  (build sh diff S (runHist sh diff S [] hist) target).2

/-- the shape of `Get` read off its regenerated statement list (source order): the statements before the `fill`
statement are the hit path, those behind it the miss path; every statement that is not one of the known `plain`
ones (lookup, test, computation) is read as a return, and a path copies when every return on it is `clone`
(so an unknown statement never makes a path look copying) -/
def shapeOf (fill clone : String) (plain : List String) (stmts : List String) : GetShape :=
  let isRet := fun (s : String) => !(plain.contains s)
  let before := stmts.takeWhile (· ≠ fill)
  let behind := (stmts.dropWhile (· ≠ fill)).drop 1
  ⟨(behind.filter isRet).all (· = clone) && behind.any isRet, (before.filter isRet).all (· = clone)⟩

end Apko.MemoHistory
