/-
C05 — authentication of installed package bytes.

What is modelled (Go, pinned tree + the `fix:` commit of this property):
* `pkg/apk/expandapk/expandapk.go`  `checkSums`, `ExpandApk`            → `checkEntry`, `checkSums`, `expand`
* `pkg/apk/apk/util.go`/`implementation.go`  `controlValue`, `datahash`  → `datahashValues`, `datahash`
* `pkg/apk/apk/implementation.go`  `cachedPackage`, `cachePackage`, `expandPackage`
                                    (+ `verifyExpanded`, the repair)      → `cachedPackage`, `cachePackage`, `verifyExpanded`, `expandPackageWith`
* `pkg/paths/paths.go` `AdvertiseCachedFile` (first writer wins)         → `advertise`
* `pkg/tarfs/fs.go` `memFS.WriteHeader` (regular files / symlinks need a per-file record)
  and `install.go` `lazilyInstallAPKFiles` (leading hidden entries are skipped) → `installFiles`
* `CalculateWorld` (`apko lock`) and `InstallPackages` (`apko build`, index- or lock-driven)   → `runOp`
* round 2: `(*APK).expandPackage` + `apkCache.get` (process-wide memo of expansions, keyed by the package URL,
  consulted only when a cache directory is configured)                                   → `expandVia`, `State.memo`
* round 2: `pkg/apk/internal/tarfs` `New` / `open` (index by name: the LAST entry of a name wins whatever its type;
  link entries are followed inside the tar), `pkg/tarfs/fs.go` `memFS.writeHeader` / `link` / `openFile`
  (a node reads its bytes BY NAME from the tar of its package)                           → `tarLookup`, `tarOpen`, `writeEntry`, `install`, `served`

Library calls are parameters (`Lib`): SHA-1, SHA-256, gunzip+untar of a data section, gunzip+untar+lookup of
`.PKGINFO` in a control section.  No injectivity (collision freedom) is assumed anywhere: all statements are
in terms of digest equality.  A digest is the lower-case hex text of its bytes (`hex.EncodeToString`).
The split of the fetched stream into gzip members (signature?, control, data) is `ExpandApk`'s use of
klauspost/gzip and is taken as given (`Apk` arrives split); it is exercised end to end by the suite.
The uncompressed `.dat.tar` kept next to `.dat.tar.gz` in the cache is C19's business (it is the gunzip of
the file of the same name); here the installed files are `untarData` of the cached data section.
-/
import Apko.Model.Text

namespace Apko.Authentic

abbrev Bytes := List Nat
abbrev Digest := Text

/-- the `APK-TOOLS.checksum.SHA1` PAX record of a tar entry after `checksumFromHeader` -/
inductive Recorded where
  | absent                 -- no record (`checksum == nil`)
  | malformed              -- present, neither hex nor `Q1`+base64 (decode error)
  | sum (d : Digest)
  deriving DecidableEq, Repr

inductive Kind where
  | reg | symlink | dir | hardlink | other
  deriving DecidableEq, Repr

structure Entry where
  name : Text
  kind : Kind
  body : Bytes
  recorded : Recorded
  /-- `Linkname` of a symlink / hard link entry -/
  link : Text := []
  /-- the name the lazy tar FS looks up when it is asked to open this (link) entry:
  `Linkname` when absolute, else `path.Join(path.Dir(name), Linkname)` (computed by `path`, which is trusted) -/
  tarTarget : Text := []
  deriving DecidableEq, Repr

/-- the trusted library functions -/
structure Lib where
  sha1 : Bytes → Digest
  sha256 : Bytes → Digest
  /-- gunzip (multistream) + archive/tar over a data section; `none` = stream error -/
  untarData : Bytes → Option (List Entry)
  /-- gunzip + archive/tar over a control section, body of `.PKGINFO`; `none` = error / not found -/
  pkginfo : Bytes → Option Text

/-! ### .PKGINFO `datahash` (controlValue + datahash) -/

def isSpace (c : Char) : Bool :=
  c = ' ' || c = '\t' || c = '\n' || c = '\x0b' || c = '\x0c' || c = '\r'

/-- `strings.TrimSpace` on ASCII text -/
def trimSpace (t : Text) : Text := ((t.dropWhile isSpace).reverse.dropWhile isSpace).reverse

/-- `controlValue(…, "datahash")`: lines split on `\n`, a line counts when splitting on `=` gives exactly two
parts and the trimmed key is `datahash`; the value is trimmed -/
def datahashValues (info : Text) : List Text :=
  (splitOnChar '\n' info).filterMap fun line =>
    match splitOnChar '=' line with
    | [k, v] => if trimSpace k = "datahash".toList then some (trimSpace v) else none
    | _ => none

/-- `(*APK).datahash`: exactly one value, else an error -/
def datahash (info : Text) : Option Text :=
  match datahashValues info with
  | [v] => some v
  | _ => none

def isHex (c : Char) : Bool :=
  isDigit c || (decide ('a' ≤ c) && decide (c ≤ 'f')) || (decide ('A' ≤ c) && decide (c ≤ 'F'))

def lowerHex (c : Char) : Char := if 'A' ≤ c ∧ c ≤ 'F' then Char.ofNat (c.toNat + 32) else c

/-- `hex.DecodeString` followed by the canonical re-encoding (digests are lower-case hex texts) -/
def decodeHex (t : Text) : Option Digest :=
  if t.length % 2 = 0 ∧ t.all isHex then some (t.map lowerHex) else none

/-! ### checkSums / ExpandApk -/

/-- one iteration of `checkSums`: only regular files are looked at; a missing record is skipped
("we will calculate it later"), an undecodable record and a mismatch are errors -/
def checkEntry (L : Lib) (e : Entry) : Bool :=
  match e.kind, e.recorded with
  | .reg, .sum d => L.sha1 e.body = d
  | .reg, .malformed => false
  | _, _ => true

def checkSums (L : Lib) (es : List Entry) : Bool := es.all (checkEntry L)

structure Apk where
  sig : Option Bytes
  control : Bytes
  data : Bytes
  deriving DecidableEq, Repr

/-- `APKExpanded` -/
structure Expanded where
  sig : Option Bytes
  control : Bytes        -- ControlFS: the control section held in memory (.PKGINFO is read from here)
  controlFile : Bytes    -- content of ControlFile (scripts / triggers are read from here)
  data : Bytes           -- content of PackageFile
  controlHash : Digest   -- ControlHash: computed on a fetch, the *expected* checksum on a cache hit
  dataHash : Digest      -- PackageHash: computed on a fetch, the decoded `datahash` on a cache hit
  files : List Entry     -- TarFS: what installPackage will install
  deriving DecidableEq, Repr

inductive Err where
  | fetch | decode | fileSum | control | data | cache | record
  deriving DecidableEq, Repr

def expand (L : Lib) (a : Apk) : Except Err Expanded :=
  match L.untarData a.data with
  | none => .error .decode
  | some es =>
    if checkSums L es then
      .ok { sig := a.sig, control := a.control, controlFile := a.control, data := a.data,
            controlHash := L.sha1 a.control, dataHash := L.sha256 a.data, files := es }
    else .error .fileSum

/-! ### the cache directory of one package (content-addressed names, first writer wins) -/

def lookup {α : Type} (k : Text) : List (Text × α) → Option α
  | [] => none
  | (k', v) :: r => if k' = k then some v else lookup k r

/-- `paths.AdvertiseCachedFile`: an existing name is left alone -/
def advertise {α : Type} (k : Text) (v : α) (l : List (Text × α)) : List (Text × α) :=
  match lookup k l with
  | some _ => l
  | none => (k, v) :: l

structure Cache where
  ctl : List (Text × Bytes) := []     -- `<name>.ctl.tar.gz`
  sig : List (Text × Bytes) := []     -- `<name>.sig.tar.gz`
  dat : List (Text × Bytes) := []     -- `<name>.dat.tar.gz`
  deriving DecidableEq, Repr

/-- the checksum string of an `InstallablePackage` (`Q1`+base64 of a SHA-1): what it denotes, and whether it
carries the `Q1` prefix — `cachedPackage` insists on the prefix, `verifyExpanded` also accepts the bare base64
form (apko's own tests hand that in) -/
structure Want where
  digest : Option Digest      -- `none`: the base64 payload does not decode
  q1 : Bool
  deriving DecidableEq, Repr

/-- the digest `cachedPackage` looks up (`none`: "unexpected checksum" / base64 error → a miss) -/
def Want.key (w : Want) : Option Digest := if w.q1 then w.digest else none

/-- `cachedPackage`: look the control section up by the *expected* checksum (index / lock), the data section by
the `datahash` that control section records; any failure is a miss. -/
def cachedPackage (L : Lib) (expected : Option Digest) (c : Cache) : Option Expanded :=
  match expected with
  | none => none
  | some h =>
    match lookup h c.ctl with
    | none => none
    | some control =>
      match L.pkginfo control with
      | none => none
      | some info =>
        match datahash info with
        | none => none
        | some dh =>
          match lookup dh c.dat with
          | none => none
          | some data =>
            match decodeHex dh with
            | none => none
            | some dhd =>
              match L.untarData data with
              | none => none
              | some files =>
                some { sig := lookup h c.sig, control := control, controlFile := control, data := data,
                       controlHash := h, dataHash := dhd, files := files }

/-- `cachePackage`: advertise the three members under their computed hashes and continue with whatever the
names now resolve to (ControlFile, PackageFile and the re-created TarFS; ControlFS stays the in-memory one) -/
def cachePackage (L : Lib) (e : Expanded) (c : Cache) : Except Err (Expanded × Cache) :=
  let ctl := advertise e.controlHash e.control c.ctl
  let sig := match e.sig with
    | some s => advertise e.controlHash s c.sig
    | none => c.sig
  let dat := advertise e.dataHash e.data c.dat
  match lookup e.controlHash ctl, lookup e.dataHash dat with
  | some control, some data =>
    match L.untarData data with
    | some files =>
      .ok ({ e with controlFile := control, data := data, files := files,
                    sig := if e.sig.isSome then lookup e.controlHash sig else none },
           { ctl := ctl, sig := sig, dat := dat })
    | none => .error .cache
  | _, _ => .error .cache

/-- the repair (`verifyExpanded`): the computed control hash must equal the expected checksum, and the computed
data hash must equal the `datahash` of the control section — an EMPTY `datahash` is tolerated (apko's own test
fixtures are built that way), an absent / repeated / undecodable one is not -/
def verifyExpanded (L : Lib) (expected : Option Digest) (e : Expanded) : Except Err Unit :=
  match expected with
  | none => .error .control
  | some h =>
    if e.controlHash ≠ h then .error .control else
    match L.pkginfo e.control with
    | none => .error .data
    | some info =>
      match datahash info with
      | none => .error .data
      | some dh =>
        if dh = [] then .ok () else
        match decodeHex dh with
        | none => .error .data
        | some d => if d = e.dataHash then .ok () else .error .data

/-- `expandPackage`.  `verify = false` is the pinned algorithm (F05a/F05b), `verify = true` the repaired one.
`cache = none`: no cache configured. `fetched = none`: the fetch failed / the stream does not split. -/
def expandPackageWith (verify : Bool) (L : Lib) (expected : Want) (cache : Option Cache)
    (fetched : Option Apk) : Except Err (Expanded × Option Cache) :=
  match cache.bind (cachedPackage L expected.key) with
  | some e => .ok (e, cache)
  | none =>
    match fetched with
    | none => .error .fetch
    | some a =>
      match expand L a with
      | .error x => .error x
      | .ok e =>
        match (if verify then verifyExpanded L expected.digest e else .ok ()) with
        | .error x => .error x
        | .ok () =>
          match cache with
          | none => .ok (e, none)
          | some c =>
            match cachePackage L e c with
            | .error x => .error x
            | .ok (e', c') => .ok (e', some c')

/-! ### round 5: the tail of `expandPackage` (everything after the cache lookup) as a PROGRAM

The repository may answer every request for the package URL differently (`Resp`, a script of answers: the k-th
`FetchPackage` of the run gets the k-th one, the last one is repeated).  A tail is a tree of the four calls that
matter, each with what follows its failure and what follows its success.  `Impl.tail` is today's; it is read off the
regenerated statement list by `parseTail` (tie `tie_expandPackage_tail`).  `guarded` is the syntactic condition
"every successful return is dominated by a `verifyExpanded` of the LAST expansion"; the theorem
(`Proofs/C05.guarded_tail_authentic`) is about every tail that satisfies it and every script. -/

/-- one answer of the repository to a request for the package URL -/
inductive Resp where
  | refused                 -- no 200 (`FetchPackage` returns an error)
  | broken                  -- a body that does not split into members: cut short, garbled (`ExpandApk` returns an error)
  | apk (a : Apk)           -- a stream that splits into members
  deriving DecidableEq, Repr

/-- the first answer as `PkgReq.fetched` records it (`none`: refused or broken) -/
def Resp.toOption : Resp → Option Apk
  | .apk a => some a
  | _ => none

inductive Tail where
  | fail                                  -- `return nil, err`
  | done                                  -- `return exp, nil`
  | store                                 -- `return a.cachePackage(ctx, pkg, exp, cacheDir)`
  | fetch (onErr onOk : Tail)             -- `rc, err := a.FetchPackage(ctx, pkg)`
  | expand (onErr onOk : Tail)            -- `exp, err := expandapk.ExpandApk(ctx, rc, cacheDir)`
  | verify (onErr onOk : Tail)            -- `err := a.verifyExpanded(pkg, exp)`
  | noCache (thenT elseT : Tail)          -- `if a.cache == nil`
  deriving DecidableEq, Repr

structure TailState where
  script : List Resp                -- the answers to the requests still to come
  rc : Option Apk := none           -- the open stream (`none`: nothing that splits)
  exp : Option Expanded := none     -- the current `exp`
  err : Err := .fetch               -- the current `err`
  deriving Repr

/-- the answer to the next request and the answers after it -/
def nextResp : List Resp → Resp × List Resp
  | [] => (.refused, [])
  | x :: r => (x, if r.isEmpty then [x] else r)

def runTail (L : Lib) (w : Want) (cache : Option Cache) : Tail → TailState → Except Err (Expanded × Option Cache)
  | .fail, s => .error s.err
  | .done, s =>
    match s.exp with
    | some e => .ok (e, cache)
    | none => .error s.err
  | .store, s =>
    match s.exp, cache with
    | some e, some c =>
      match cachePackage L e c with
      | .error x => .error x
      | .ok (e', c') => .ok (e', some c')
    | _, _ => .error .cache
  | .fetch a b, s =>
    match nextResp s.script with
    | (.refused, rest) => runTail L w cache a { s with script := rest, rc := none, err := .fetch }
    | (.broken, rest) => runTail L w cache b { s with script := rest, rc := none }
    | (.apk x, rest) => runTail L w cache b { s with script := rest, rc := some x }
  | .expand a b, s =>
    match s.rc with
    | none => runTail L w cache a { s with exp := none, err := .fetch }
    | some x =>
      match expand L x with
      | .error er => runTail L w cache a { s with exp := none, err := er }
      | .ok e => runTail L w cache b { s with exp := some e }
  | .verify a b, s =>
    match s.exp with
    | none => runTail L w cache a s
    | some e =>
      match verifyExpanded L w.digest e with
      | .error er => runTail L w cache a { s with exp := none, err := er }
      | .ok () => runTail L w cache b s
  | .noCache a b, s => if cache.isNone then runTail L w cache a s else runTail L w cache b s

/-- `guarded v t`: on every path through `t` a successful return (`done`, `store`) hands out an expansion that
`verifyExpanded` accepted — `v` says whether the current `exp` is such a one.  A new `ExpandApk` resets it. -/
def guarded : Bool → Tail → Bool
  | _, .fail => true
  | v, .done => v
  | v, .store => v
  | v, .fetch a b => guarded v a && guarded v b
  | _, .expand a b => guarded false a && guarded false b
  | _, .verify a b => guarded false a && guarded true b
  | v, .noCache a b => guarded v a && guarded v b

/-- the statement list of the tail, read as a program (`none`: a statement this reader does not know) -/
def parseTail : List String → Option Tail
  | [] => none
  | s :: r =>
    if s = "defer rc.Close()" then parseTail r
    else if s = "if err := a.verifyExpanded(pkg, exp); err != nil → return-error" then (parseTail r).map (Tail.verify .fail)
    else if s = "if a.cache == nil → return-ok" then (parseTail r).map (Tail.noCache .done)
    else if s = "return a.cachePackage(ctx, pkg, exp, cacheDir)" then (if r.isEmpty then some .store else none)
    else match r with
      | [] => none
      | s2 :: r2 =>
        if s2 ≠ "if err != nil → return-error" then none
        else if s = "rc, err := a.FetchPackage(ctx, pkg)" then (parseTail r2).map (Tail.fetch .fail)
        else if s = "exp, err := expandapk.ExpandApk(ctx, rc, cacheDir)" then (parseTail r2).map (Tail.expand .fail)
        else none

namespace Impl
/-- the tail of today's `expandPackage`: fetch, expand, verify, then return or advertise in the cache
(tied to `Generated.stmts_expandPackageTail` through `parseTail`) -/
def tail : Tail := .fetch .fail (.expand .fail (.verify .fail (.noCache .done .store)))
end Impl

namespace Impl
/-- does today's `expandPackage` call `verifyExpanded` between `ExpandApk` and `cachePackage`?
(tied to the regenerated fact `Generated.expandPackageVerifies`) -/
def verifies : Bool := true
/-- does today's `apkCache.get` compare the checksum string of the handle with the one its entry was made for?
(tied to `Generated.stmts_apkCacheGet`) -/
def memoChecks : Bool := true
/-- does today's `lazilyInstallAPKFiles` refuse a repeated entry name? (tied to `Generated.stmts_lazyInstallLoop`) -/
def rejectsDup : Bool := true
/-- what the Go code does today -/
def expandPackage := expandPackageWith verifies
/-- the pinned algorithm before the repair (F05a/F05b) -/
def expandPackagePinned := expandPackageWith false
end Impl

/-! ### installation (tarfs fast path of `apko build`) -/

/-- `lazilyInstallAPKFiles`: leading entries whose name starts with `.` and has no `/` are skipped -/
def hidden (e : Entry) : Bool :=
  match e.name with
  | c :: _ => c = '.' && !(e.name.contains '/')
  | [] => false

def installable (es : List Entry) : List Entry := es.dropWhile hidden

/-- `memFS.WriteHeader`: a regular file or symlink without a decodable per-file record is refused
("checksum is nil for …"), unknown entry types are refused -/
def writable (e : Entry) : Bool :=
  match e.kind, e.recorded with
  | .reg, .sum _ => true
  | .symlink, .sum _ => true
  | .reg, _ => false
  | .symlink, _ => false
  | .other, _ => false
  | _, _ => true

def installFiles (es : List Entry) : Bool := (installable es).all writable

/-! ### round 2: what the lazily installed files READ (tarfs index by name + memFS nodes of one package)

`tarfs.New` indexes the data section by entry name, every entry (hidden leading ones, every type), the last
entry of a name wins.  `open` follows symlink AND hard link entries inside the tar, at most 65 lookups
(`hops > maxHops = 64` is an error); any other entry yields its body.  A memFS node created by
`WriteHeader` keeps the header it was created from and reads `te.tfs.Open(te.header.Name)` — by NAME.
Left out (cannot make more bytes unverified; the generator avoids them): a node whose own entry has size 0
never defers to the tar; a served body whose length differs from the header size fails the layer writer;
entry names are taken literally (no `./` prefix; a directory entry `n/` does not clash with a file `n` here — in Go
it aborts — only one spelled exactly `n` does). -/

def tarLookup (es : List Entry) (n : Text) : Option Entry := es.reverse.find? (fun e => e.name = n)

def tarOpen (es : List Entry) : Nat → Text → Option Bytes
  | 0, _ => none
  | fuel + 1, n =>
    match tarLookup es n with
    | none => none
    | some e =>
      match e.kind with
      | .symlink => tarOpen es fuel e.tarTarget
      | .hardlink => tarOpen es fuel e.tarTarget
      | _ => some e.body

/-- `maxHops + 1` lookups -/
def tarFuel : Nat := 65

/-- a non-directory memFS node of the package being installed -/
structure Node where
  name : Text       -- path in the image
  teName : Text     -- `te.header.Name`: the name the node reads its bytes by
  sum : Digest      -- `te.checksum`: the per-file record of the entry it was created from
  own : Bytes       -- the body of the entry it was created from (what the record was checked against)
  isLink : Bool     -- created from a symlink entry
  link : Text
  alias : Bool := false   -- a second name (hard link) of another node: emitted as a link, not as a file
  deriving DecidableEq, Repr

def findNode (n : Text) : List Node → Option Node
  | [] => none
  | nd :: r => if nd.name = n then some nd else findNode n r

/-- `memFS.writeHeader` inside ONE package (same origin): nothing there → create; same checksum → "that's fine",
the existing node stays (whatever the two types are); otherwise the new entry replaces the node of that name -/
def place (nodes : List Node) (nd : Node) : List Node :=
  match findNode nd.name nodes with
  | none => nd :: nodes
  | some ex => if ex.sum = nd.sum then nodes else nd :: nodes.filter (fun x => x.name ≠ nd.name)

/-- `memFS.WriteHeader` for one entry; `none` = error (the build aborts) -/
def writeEntry (nodes : List Node) (e : Entry) : Option (List Node) :=
  match e.kind, e.recorded with
  | .dir, _ =>
    -- `MkdirAll` over a name that is a file fails ("path is not a directory"); over a symlink (to a directory) the entry is skipped
    match findNode e.name nodes with
    | some ex => if ex.isLink then some nodes else none
    | none => some nodes
  | .reg, .sum d =>
    some (place nodes { name := e.name, teName := e.name, sum := d, own := e.body, isLink := false, link := [] })
  | .symlink, .sum d =>
    let nd : Node := { name := e.name, teName := e.name, sum := d, own := e.body, isLink := true, link := e.link }
    match findNode e.name nodes with
    | some ex => if ex.isLink && ex.link = e.link then some nodes else some (place nodes nd)
    | none => some (place nodes nd)
  | .hardlink, _ =>
    match findNode e.link nodes, findNode e.name nodes with
    | some t, none => if t.isLink then none else some ({ t with name := e.name, alias := true } :: nodes)
    | _, _ => none
  | _, _ => none

def installNodes : List Node → List Entry → Option (List Node)
  | ns, [] => some ns
  | ns, e :: es =>
    match writeEntry ns e with
    | none => none
    | some ns' => installNodes ns' es

/-- the names of the entries that are not directories (files, links, anything else) are distinct -/
def namesNodup (es : List Entry) : Bool := decide ((es.filter (fun e => e.kind ≠ .dir)).map (·.name)).Nodup

/-- `lazilyInstallAPKFiles`.  `rejectDup = true` is the repaired installer (round 2: a data section in which the
name of a non-directory entry occurs twice is refused; directories may be listed more than once, and one that takes
the name of a file fails in `WriteHeader`), `false` the pinned one (finding F05e). -/
def install (rejectDup : Bool) (es : List Entry) : Option (List Node) :=
  if rejectDup && !namesNodup es then none else installNodes [] (installable es)

/-- what a file node serves when the layer is written -/
def served (es : List Entry) (nd : Node) : Option Bytes := tarOpen es tarFuel nd.teName

/-- the nodes that end up as regular files of the layer -/
def fileNodes (ns : List Node) : List Node := ns.filter (fun nd => !nd.isLink && !nd.alias)

/-- every node that holds file content can be read (else writing the layer fails) -/
def readable (es : List Entry) (ns : List Node) : Bool :=
  ns.all (fun nd => nd.isLink || (served es nd).isSome)

/-- build of one expanded package: the nodes, or `none` when the build aborts -/
def installPkg (rejectDup : Bool) (es : List Entry) : Option (List Node) :=
  match install rejectDup es with
  | none => none
  | some ns => if readable es ns then some ns else none

/-! ### whole operations: `apko lock` (expand only) and `apko build` (expand + install) over several packages,
each with its own cache directory -/

structure PkgReq where
  key : Text                   -- the package URL (the memo key); the cache directory of the package is derived from it
  expected : Want              -- checksum recorded by the index / lock file
  fetched : Option Apk         -- what the repository serves under the package URL
  /-- `ChecksumString()` of the handle, verbatim.  `expected` is what that string decodes to: the harness derives
  both from the one string, so equal `raw` goes with equal `expected` -/
  raw : Text := []
  /-- round 5: what the repository answers to the LATER requests for the package URL within the same operation
  (`fetched` is the answer to the first one; the last answer is repeated).  Today's `expandPackage` asks once
  (`Impl.tail` has one `fetch`), so nothing below reads this field; `runTail` does, for any tail. -/
  later : List Resp := []
  deriving DecidableEq, Repr

inductive OpKind where
  | lock | build
  deriving DecidableEq, Repr

structure Op where
  kind : OpKind
  useCache : Bool
  pkgs : List PkgReq
  /-- the operation runs in a NEW process (the process-wide memo starts empty); `false`: same process as the
  previous operation (a long-lived caller of the library: terraform provider, tests, `apko` as a service) -/
  fresh : Bool := true
  deriving Repr

abbrev Store := List (Text × Cache)

def Store.cacheOf (s : Store) (k : Text) : Cache := (lookup k s).getD {}

def Store.put (s : Store) (k : Text) (c : Cache) : Store := (k, c) :: s.filter (fun p => p.1 ≠ k)

/-- one entry of `globalApkCache` (`apkResult`): the result of the ONE expansion that ran inside the
`sync.Once` of that URL (errors are memoised too), and — since the repair — the checksum string of the handle
it ran for -/
structure MemoEntry where
  raw : Text
  want : Want
  res : Except Err Expanded
  deriving Repr

abbrev Memo := List (Text × MemoEntry)

/-- the cache root on disk and the memo of the running process -/
structure State where
  store : Store := []
  memo : Memo := []
  deriving Repr

/-- the package-level `expandPackage(ctx, a, pkg)` against the store: result and new store -/
def expandDirect (verify : Bool) (L : Lib) (useCache : Bool) (st : Store) (p : PkgReq) : Except Err Expanded × Store :=
  let cache := if useCache then some (st.cacheOf p.key) else none
  match expandPackageWith verify L p.expected cache p.fetched with
  | .error x => (.error x, st)
  | .ok (e, c') =>
    (.ok e, match c' with
            | some c => st.put p.key c
            | none => st)

/-- does a memo entry answer this handle?  `checkMemo = false` (pinned: finding F05d): any entry of the URL does.
`checkMemo = true` (repaired): only the entry of a handle with the same checksum string. -/
def memoAnswers (checkMemo : Bool) (m : MemoEntry) (p : PkgReq) : Bool :=
  !checkMemo || (decide (m.raw = p.raw) && decide (m.want = p.expected))

/-- `(*APK).expandPackage`: without a cache directory the memo is not used at all; with one, `apkCache.get`:
first handle of a URL → expand inside the once and memoise (result or error); later handles → the memoised
result, or (repaired) a direct, un-memoised `expandPackage` when the entry does not answer this handle -/
def expandVia (verify checkMemo : Bool) (L : Lib) (useCache : Bool) (s : State) (p : PkgReq) :
    Except Err Expanded × State :=
  if !useCache then
    ((expandDirect verify L false s.store p).1, s)
  else
    match lookup p.key s.memo with
    | none =>
      let d := expandDirect verify L true s.store p
      (d.1, { store := d.2, memo := (p.key, { raw := p.raw, want := p.expected, res := d.1 }) :: s.memo })
    | some m =>
      if memoAnswers checkMemo m p then (m.res, s)
      else
        let d := expandDirect verify L true s.store p
        (d.1, { s with store := d.2 })

/-- the three switches between the pinned algorithms and the repaired ones -/
structure Cfg where
  verify : Bool       -- `verifyExpanded` between `ExpandApk` and `cachePackage` (round 1: F05a/F05b)
  checkMemo : Bool    -- `apkCache.get` answers a handle only from an entry of the same checksum string (F05d)
  rejectDup : Bool    -- `lazilyInstallAPKFiles` refuses a data section with a repeated entry name (F05e)
  deriving DecidableEq, Repr

/-- what one package of an operation came to -/
structure PkgOut where
  ok : Bool
  exp : Option Expanded := none       -- what was expanded (and, for a build, installed)
  nodes : List Node := []              -- build: the memFS nodes of the package
  deriving Repr

/-- one package of an operation (every package is expanded even when another one fails: the errgroup has no
cancellation).  `prev`: the data sections already laid out by earlier packages of this build — when a handle is given
the very same data section again (the same package under two handles: an edited lock file; F05c) its files and
symlinks are found in place ("same checksum, that's fine") and nothing new is laid out, but a hard link entry collides
with its first installation (`link`: the name exists).  Other overlaps between packages are C07's. -/
def runPkg (cfg : Cfg) (L : Lib) (kind : OpKind) (useCache : Bool) (prev : List (List Entry)) (s : State) (p : PkgReq) :
    PkgOut × State :=
  match expandVia cfg.verify cfg.checkMemo L useCache s p with
  | (.error _, s') => ({ ok := false }, s')
  | (.ok e, s') =>
    match kind with
    | .lock => ({ ok := true, exp := some e }, s')
    | .build =>
      match installPkg cfg.rejectDup e.files with
      | none => ({ ok := false, exp := some e }, s')
      | some ns =>
        if prev.contains e.files then
          ({ ok := !(installable e.files).any (fun x => x.kind = .hardlink), exp := some e }, s')
        else ({ ok := true, exp := some e, nodes := ns }, s')

/-- the data sections laid out so far -/
def laidOut (prev : List (List Entry)) (o : PkgOut) : List (List Entry) :=
  match o.exp with
  | some e => e.files :: prev
  | none => prev

def runPkgsFrom (cfg : Cfg) (L : Lib) (kind : OpKind) (useCache : Bool) :
    List (List Entry) → State → List PkgReq → List PkgOut × State
  | _, s, [] => ([], s)
  | prev, s, p :: ps =>
    let (o, s') := runPkg cfg L kind useCache prev s p
    let (os, s'') := runPkgsFrom cfg L kind useCache (laidOut prev o) s' ps
    (o :: os, s'')

def runPkgs (cfg : Cfg) (L : Lib) (kind : OpKind) (useCache : Bool) (s : State) (ps : List PkgReq) : List PkgOut × State :=
  runPkgsFrom cfg L kind useCache [] s ps

/-- a new process starts with an empty memo -/
def State.enter (s : State) (o : Op) : State := if o.fresh then { s with memo := [] } else s

def runOp (cfg : Cfg) (L : Lib) (s : State) (o : Op) : List PkgOut × State :=
  runPkgs cfg L o.kind o.useCache (s.enter o) o.pkgs

def opOk (outs : List PkgOut) : Bool := outs.all (·.ok)

/-- outcomes of a sequence of operations sharing one cache root, starting from `s` -/
def runOps (cfg : Cfg) (L : Lib) : State → List Op → List (List PkgOut) × State
  | s, [] => ([], s)
  | s, o :: os =>
    let (r, s') := runOp cfg L s o
    let (rs, s'') := runOps cfg L s' os
    (r :: rs, s'')

namespace Impl
/-- the algorithm the Go code runs today -/
def cfg : Cfg := { verify := verifies, checkMemo := memoChecks, rejectDup := rejectsDup }
end Impl

/-- all three repairs in place -/
def Cfg.repaired : Cfg := { verify := true, checkMemo := true, rejectDup := true }

/-! ### Spec: what the property demands of the bytes that get installed -/

/-- the control section is the one the index / lock records -/
def ControlMatches (L : Lib) (expected : Option Digest) (control : Bytes) : Prop :=
  expected = some (L.sha1 control)

/-- the data section is the one the control section records (strict: a data hash must be recorded) -/
def DataMatchesStrict (L : Lib) (control data : Bytes) : Prop :=
  ∃ info dh, L.pkginfo control = some info ∧ datahash info = some dh ∧ decodeHex dh = some (L.sha256 data)

/-- … or the control section records an empty data hash (tolerated by the repair; finding F05c) -/
def DataMatches (L : Lib) (control data : Bytes) : Prop :=
  ∃ info dh, L.pkginfo control = some info ∧ datahash info = some dh ∧
    (dh = [] ∨ decodeHex dh = some (L.sha256 data))

/-- every regular file that carries a record matches it -/
def FilesChecked (L : Lib) (es : List Entry) : Prop :=
  ∀ f ∈ es, f.kind = .reg → ∀ h, f.recorded = .sum h → L.sha1 f.body = h

/-- every installable regular file carries a record and matches it -/
def FilesRecorded (L : Lib) (es : List Entry) : Prop :=
  ∀ f ∈ installable es, f.kind = .reg → ∃ h, f.recorded = .sum h ∧ L.sha1 f.body = h

def Authentic (L : Lib) (expected : Option Digest) (e : Expanded) : Prop :=
  ControlMatches L expected e.control ∧ ControlMatches L expected e.controlFile ∧ DataMatches L e.control e.data ∧
  L.untarData e.data = some e.files ∧ FilesChecked L e.files

/-- cache invariant ("a name that resolves holds content with that hash", and data sections in the cache
passed `checkSums` when they were admitted) -/
def CacheInv (L : Lib) (c : Cache) : Prop :=
  (∀ n b, lookup n c.ctl = some b → L.sha1 b = n) ∧
  (∀ n d, lookup n c.dat = some d → L.sha256 d = n ∧ ∃ es, L.untarData d = some es ∧ checkSums L es = true)

/-- digests produced by the library are canonical hex (`hex.EncodeToString`) -/
def HexCanonical (L : Lib) : Prop := ∀ b, decodeHex (L.sha256 b) = some (L.sha256 b)

/-! ### decidable versions used by the driver as the oracle (`Spec.*`) -/
namespace Spec

def controlOk (L : Lib) (expected : Option Digest) (control : Bytes) : Bool :=
  expected = some (L.sha1 control)

/-- 0 = matches, 1 = empty datahash (F05c), 2 = mismatch / not recorded -/
def dataClass (L : Lib) (control data : Bytes) : Nat :=
  match L.pkginfo control with
  | none => 2
  | some info =>
    match datahash info with
    | none => 2
    | some dh =>
      if decodeHex dh = some (L.sha256 data) then 0 else if dh = [] then 1 else 2

def filesOk (L : Lib) (data : Bytes) (needRecords : Bool) : Bool :=
  match L.untarData data with
  | none => false
  | some es => checkSums L es && (!needRecords || installFiles es)

/-- the bytes that would be used for a package: the cache entry the expected checksum names (if the cache is
on and the entry is complete), else what the repository serves -/
def candidate (L : Lib) (p : PkgReq) (cache : Option Cache) : Option (Bytes × Bytes) :=
  match cache.bind (cachedPackage L p.expected.key) with
  | some e => some (e.control, e.data)
  | none => p.fetched.map fun a => (a.control, a.data)

/-- verdict the property demands for one package: `ok`, or the first relation that fails -/
def pkgVerdict (L : Lib) (kind : OpKind) (p : PkgReq) (cache : Option Cache) : String :=
  match candidate L p cache with
  | none => "fetch"
  | some (control, data) =>
    if !controlOk L p.expected.digest control then "control"
    else if dataClass L control data = 2 then "data"
    else if !filesOk L data (kind = .build) then "files"
    else if dataClass L control data = 1 then "emptyhash"
    else "ok"

/-- the same three relations, evaluated on what an operation actually expanded (and, for a build, installed) for a
handle — whichever way it got it: fetched, from the cache directory, or from the memo of the process -/
def expVerdict (L : Lib) (kind : OpKind) (w : Want) (e : Expanded) : String :=
  if !(controlOk L w.digest e.control && controlOk L w.digest e.controlFile) then "control"
  else if dataClass L e.control e.data = 2 then "data"
  else if !(filesOk L e.data (kind = .build) && decide (L.untarData e.data = some e.files)) then "files"
  else if dataClass L e.control e.data = 1 then "emptyhash"
  else "ok"

/-- a regular file of the layer holds the bytes its per-file record was checked against: the body of the entry the
node was created from -/
def servedOk (es : List Entry) (ns : List Node) : Bool :=
  (fileNodes ns).all (fun nd => served es nd = some nd.own)

/-- the property does not say what happens to a data section that names an entry twice (an abort is fine, an
install is fine provided `servedOk`): the verdict is not prescribed -/
def dupNames (L : Lib) (p : PkgReq) (cache : Option Cache) : Bool :=
  match candidate L p cache with
  | none => false
  | some (_, data) =>
    match L.untarData data with
    | none => false
    | some es => !decide (es.map (·.name)).Nodup

end Spec

end Apko.Authentic
