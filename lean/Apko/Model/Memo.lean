/-
Process-wide caches as memo tables of pure functions (C08, reused by C19's coalescing):
globalResolverCache (index identities ↦ resolver prototype), globalDisqualifyCache (index set ↦
cross-arch disqualifications), parsedVersions / parsedConstraints (string ↦ parse), indexCache.

`get` is the atomic step the code performs under its mutex / sync.Map: look the key up, on a miss
compute `f k` and (when `store k` allows it — failed parses are not memoised) insert it.  Values are
immutable in the model; `Clone` on the Go side is what makes that true there (exercised by the suite
under the race detector, not provable here).

A resolution is a program that interleaves pure local computation with `get`s: `Prog`.
-/
namespace Apko.Memo

structure Table (K V : Type) where
  entries : List (K × V)

def Table.empty {K V} : Table K V := ⟨[]⟩

variable {K V : Type} [DecidableEq K]

def Table.find (t : Table K V) (k : K) : Option V := (t.entries.find? (·.1 = k)).map (·.2)

/-- the atomic cache step -/
def Table.get (f : K → V) (store : K → Bool) (t : Table K V) (k : K) : Table K V × V :=
  match t.find k with
  | some v => (t, v)
  | none => (if store k then ⟨t.entries ++ [(k, f k)]⟩ else t, f k)

/-- the step as the Go getters perform it: the caller asks for `x`, the table is consulted under the
key `κ x`, on a miss `f x` is computed and stored under `κ x` -/
def Table.getK {X : Type} (κ : X → K) (f : X → V) (t : Table K V) (x : X) : Table K V × V :=
  match t.find (κ x) with
  | some v => (t, v)
  | none => (⟨t.entries ++ [(κ x, f x)]⟩, f x)

/-- every stored value is the function's value for SOME request with that key -/
def InvK {X : Type} (κ : X → K) (f : X → V) (t : Table K V) : Prop :=
  ∀ k v, (k, v) ∈ t.entries → ∃ x, κ x = k ∧ v = f x

/-- every stored value is the function's value -/
def Inv (f : K → V) (t : Table K V) : Prop := ∀ k v, (k, v) ∈ t.entries → v = f k

/-- a computation that consults the shared table: `ask k` then continue with the answer -/
inductive Prog (K V R : Type) where
  | ret (r : R)
  | ask (k : K) (cont : V → Prog K V R)

/-- reference semantics: no cache at all -/
def Prog.eval {R} (f : K → V) : Prog K V R → R
  | .ret r => r
  | .ask k cont => (cont (f k)).eval f

/-- run one step against the shared table -/
def Prog.step {R} (f : K → V) (store : K → Bool) (t : Table K V) :
    Prog K V R → Table K V × Prog K V R
  | .ret r => (t, .ret r)
  | .ask k cont => let (t', v) := t.get f store k; (t', cont v)

def Prog.done {R} : Prog K V R → Option R
  | .ret r => some r
  | .ask _ _ => none

/-- run a program to completion against the table (sequential use) -/
def Prog.run {R} (f : K → V) (store : K → Bool) : Prog K V R → Table K V → Table K V × R
  | .ret r, t => (t, r)
  | .ask k cont, t => let (t', v) := t.get f store k; (cont v).run f store t'

/-- a pool of concurrently running programs sharing one table; `sched` picks who moves next -/
def runSched {R} (f : K → V) (store : K → Bool) :
    List Nat → Table K V → List (Prog K V R) → Table K V × List (Prog K V R)
  | [], t, ps => (t, ps)
  | i :: rest, t, ps =>
    match ps[i]? with
    | none => runSched f store rest t ps
    | some p =>
      let (t', p') := p.step f store t
      runSched f store rest t' (ps.set i p')

end Apko.Memo
