/-
The configuration glue of `pkg/build` in front of the resolver (`initializeApk`, `LockImageConfiguration`):
what the resolver is handed, as a function of what the image configuration and the options SAY.

* `/etc/apk/world` = `sets.List(sets.New(contents.packages...).Insert(ExtraPackages...))`, written sorted by
  `SetWorld` and read back entry by entry by `GetWorld`: the sorted set of ALL entries as written — a range
  written as two entries (`foo>=1.0`, `foo<2.0`), or a cap plus `--package-append foo`, keeps every bound.
* `/etc/apk/repositories` during resolution = `sets.List` of the union of `build_repositories`,
  `repositories`, `ExtraBuildRepos`, `ExtraRuntimeRepos`: one line per distinct repository line, sorted;
  `GetRepositoryIndexes` returns one index per line in that order and that is the order of the
  `[]NamedIndex` handed to `NewPkgResolver` (hence of the candidates of equal rank inside `nameMap`).

* ROUNDS (C14): `ResolveWorld` of one architecture = load the own indexes, look every sibling's indexes up,
  compute the cross-architecture difference, resolve.  `Wiring μ` says what an `APK` value carries from one
  `ResolveWorld` to the next (`μ`) and what a sibling hands to the comparison; today's wiring carries nothing
  (`wiringToday : Wiring Unit`, tied to the regenerated write inventory of `*APK` in Proofs/Lemmas/GlueRounds.lean).
  A history = rounds (a repository state and a schedule of `load` / `finish` events — arch after arch, or any
  interleaving of the goroutines of `BuildPackageLists`), the memories are carried from round to round.
  `freshAnswer` is what the driver ops `g.*` answer for a state.

Core only; linked into the driver (ops `g.*` of `Driver/Resolver.lean`).
-/
import Apko.Model.Resolver

namespace Apko.Glue
open Apko Apko.Resolver

/-- `sets.List(sets.New(xs...))`: ascending bytes, one copy of each -/
abbrev sortedSet (l : List Text) : List Text := sortNames l

/-- the world the resolver reads back: every entry written in `contents.packages` or appended on the
command line, sorted, exact duplicates once -/
def world (packages extra : List Text) : List Text := sortedSet (packages ++ extra)

/-- first index published under the line `l` (`lines[i]` is the line of `u[i]`) -/
def indexOf (lines : List Text) (u : Universe) (l : Text) : Option Index :=
  ((lines.zip u).find? (fun e => e.1 = l)).map (·.2)

/-- the indexes handed to `NewPkgResolver`: one per distinct repository line, in the sorted order of the
lines; `lines` / `u` list the repositories in the order written (build, runtime, extra build, extra runtime) -/
def indexesOf (lines : List Text) (u : Universe) : Universe :=
  (sortedSet lines).filterMap (indexOf lines u)

/-! ## rounds over one `MultiArch` value -/

/-- a repository state: what the configured repositories publish NOW, per architecture (the keys are the
keys of `ByArch`; they do not change between rounds — `tie_byArchAssignments`) -/
abbrev Repos := List (Text × Universe)

/-- `a.GetRepositoryIndexes`: the indexes of architecture `a` in the current state (the index cache answers by
mtime / ETag: an honest mtime / ETag is C19's assumption, not modelled here) -/
def load (repos : Repos) (a : Text) : Universe := (lookupT repos a).getD []

/-- one architecture's answer for a repository state, computed from scratch — what a fresh process answers, and
what the driver ops `g.resolve` / `g.avail` / `g.corr` compute -/
def freshAnswer (cfg : Universe → Cfg) (w : List Text) (repos : Repos) (self : Text) : Res Resolution :=
  resolve (cfg (load repos self)) w (disqualifyDifference repos self)

/-- what an `APK` value remembers between two `ResolveWorld` calls (`μ`), and how the sibling lookup uses it -/
structure Wiring (μ : Type) where
  /-- a new `APK` -/
  init : μ
  /-- what `ResolveWorld` stores in its receiver after loading its own indexes -/
  remember : μ → Universe → μ
  /-- what a sibling hands to the comparison, given its memory and what a fresh load of its indexes returns -/
  sibling : μ → Universe → Universe

/-- today's `ResolveWorld`: nothing is stored (`tie_resolveWorldReachWrites`), the sibling lookup is the fresh
load `otherAPK.GetRepositoryIndexes` (`tie_resolveWorldLoop`, `sibling_lookup_is_own_load`) -/
def wiringToday : Wiring Unit := { init := (), remember := fun _ _ => (), sibling := fun _ fresh => fresh }

/-- the wiring of the reviewed change "siblings pick up the indexes the architecture last resolved against":
an `APK` remembers the index list of its last `ResolveWorld`; a sibling hands that list out when there is one -/
def wiringRemembering : Wiring (Option Universe) :=
  { init := none, remember := fun _ own => some own, sibling := fun m fresh => m.getD fresh }

def memOf {μ} (W : Wiring μ) (mem : List (Text × μ)) (a : Text) : μ := (lookupT mem a).getD W.init

/-- the `allArchs` map of `ResolveWorld`: the architecture's own index objects under its own key, the sibling
lookup under every other key -/
def allArchs {μ} (W : Wiring μ) (mem : List (Text × μ)) (repos : Repos) (self : Text) (own : Universe) : Repos :=
  repos.map fun e => (e.1, if e.1 = self then own else W.sibling (memOf W mem e.1) e.2)

/-- the two observable halves of one `ResolveWorld` call -/
inductive Ev where
  /-- `indexes, err := a.GetRepositoryIndexes(…)` (and whatever the wiring stores) -/
  | load (a : Text)
  /-- the loop over `a.ByArch` and the resolution -/
  | finish (a : Text)
deriving Repr, DecidableEq

structure RState (μ : Type) where
  /-- per `APK` value; survives the round -/
  mem : List (Text × μ)
  /-- the local `indexes` of the calls in flight -/
  own : List (Text × Universe)
  /-- the answers of this round, newest first -/
  out : List (Text × Res Resolution)

def step {μ} (W : Wiring μ) (cfg : Universe → Cfg) (w : List Text) (repos : Repos) (s : RState μ) : Ev → RState μ
  | .load a =>
    let o := load repos a
    { s with mem := (a, W.remember (memOf W s.mem a) o) :: s.mem, own := (a, o) :: s.own }
  | .finish a =>
    match lookupT s.own a with
    | none => s
    | some o => { s with out := (a, resolve (cfg o) w (disqualifyDifference (allArchs W s.mem repos a o) a)) :: s.out }

/-- one round: the calls of the schedule against one repository state; every call of the round has returned
when the round ends (`BuildPackageLists` waits for its goroutines) -/
def runRound {μ} (W : Wiring μ) (cfg : Universe → Cfg) (w : List Text) (mem : List (Text × μ)) (repos : Repos)
    (sched : List Ev) : RState μ :=
  sched.foldl (step W cfg w repos) ⟨mem, [], []⟩

/-- a history on one `MultiArch` value: the answers of every round -/
def runHistory {μ} (W : Wiring μ) (cfg : Universe → Cfg) (w : List Text) :
    List (Text × μ) → List (Repos × List Ev) → List (List (Text × Res Resolution))
  | _, [] => []
  | mem, (repos, sched) :: rest =>
    let s := runRound W cfg w mem repos sched
    s.out :: runHistory W cfg w s.mem rest

/-- arch after arch: `Contexts[a].BuildPackageList` one at a time -/
def sequential (order : List Text) : List Ev := order.flatMap fun a => [.load a, .finish a]

/-- the answers of a round as a function of the CURRENT state and the schedule alone -/
def roundAnswersGo (cfg : Universe → Cfg) (w : List Text) (repos : Repos) :
    List Ev → List Text → List (Text × Res Resolution) → List (Text × Res Resolution)
  | [], _, out => out
  | .load a :: es, loaded, out => roundAnswersGo cfg w repos es (a :: loaded) out
  | .finish a :: es, loaded, out =>
    if loaded.contains a then roundAnswersGo cfg w repos es loaded ((a, freshAnswer cfg w repos a) :: out)
    else roundAnswersGo cfg w repos es loaded out

def roundAnswers (cfg : Universe → Cfg) (w : List Text) (repos : Repos) (sched : List Ev) :
    List (Text × Res Resolution) :=
  roundAnswersGo cfg w repos sched [] []

end Apko.Glue
