/-
The configuration glue of `pkg/build` in front of the resolver (`initializeApk`, `LockImageConfiguration`):
what the resolver is handed, as a function of what the image configuration and the options SAY.

* `/etc/apk/world` = `sets.List(sets.New(contents.packages...).Insert(ExtraPackages...))`, written sorted by
  `SetWorld` and read back entry by entry by `GetWorld`: the sorted set of ALL entries as written — a range
  written as two entries (`foo>=1.0`, `foo<2.0`), or a cap plus `--package-append foo`, keeps every bound.
* `/etc/apk/repositories` during resolution = `sets.List` of the union of `build_repositories`,
  `repositories`, `ExtraBuildRepos`, `ExtraRuntimeRepos`: one line per distinct repository line, sorted;
  `GetRepositoryIndexes` returns one index per line in that order and that is the order of the
  `[]NamedIndex` handed to `NewPkgResolver` (hence of the candidates of equal rank inside `nameMap`).

Core only; linked into the driver (ops `g.*` of `Driver/Resolver.lean`).
-/
import Apko.Model.Resolver

namespace Apko.Glue
open Apko Apko.Resolver

/-- `sets.List(sets.New(xs...))`: ascending bytes, one copy of each -/
abbrev sortedSet (l : List Text) : List Text := sortNames l

/-- the world the resolver reads back: every entry written in `contents.packages` or appended on the
command line, sorted, exact duplicates once -/
def world (packages extra : List Text) : List Text := sortedSet (packages ++ extra)

/-- first index published under the line `l` (`lines[i]` is the line of `u[i]`) -/
def indexOf (lines : List Text) (u : Universe) (l : Text) : Option Index :=
  ((lines.zip u).find? (fun e => e.1 = l)).map (·.2)

/-- the indexes handed to `NewPkgResolver`: one per distinct repository line, in the sorted order of the
lines; `lines` / `u` list the repositories in the order written (build, runtime, extra build, extra runtime) -/
def indexesOf (lines : List Text) (u : Universe) : Universe :=
  (sortedSet lines).filterMap (indexOf lines u)

end Apko.Glue
