/-
Model of pkg/apk/apk/transport.go: rangeRetryTransport.RoundTrip, rangeRetryReader.reset / Read /
Close, together with the environment they run against (C20).

Core only (no Mathlib): this file is linked into the driver executable.

* The **server** holds `data` and is honest about it: a 200 response carries `data`, a 206 response
  to `Range: bytes=p-` carries `data.drop p`, any other status carries an error page.  Which status
  it answers with is decided by its `Kind` (honours Range / ignores Range / errors on resumption) and
  may be overridden per connection (`Conn.status`: transient 5xx, 416, …).
* The **network** is a fault script: one `Conn` per call of `client.Do` (connection failure, how many
  bytes of the response body arrive before the stream ends, how it ends, how the bytes are chunked
  over the `Read` calls, whether the end is reported together with the last bytes).
* `Impl.*` mirrors the Go code statement by statement.  The schedule and the two status codes tested
  by `reset` are parameters (`Cfg`); the driver and the theorems instantiate them with
  `Apko.Generated.Retry`, which the extractor rewrites from /repo on every run.
* `Spec.*` is the property as a decidable checker over the observable event trace (requests sent,
  body reads, results handed to the consumer) and the fault script.  The driver evaluates it on the
  trace of the real code.  The k-th request of a download is answered by the k-th connection of the
  script; the one clause that rests on an assumption about the network (`eof_complete`: a clean EOF
  only when everything was delivered) is waived per connection, and only while that connection's
  clean early end is *invisible* to the reader (`Conn.invisibleEnd`).
-/
import Apko.Model.Text
import Apko.Generated.Retry

namespace Apko.Retry

/-! ## environment -/

inductive Kind | honours | ignores | errorsOnResume
deriving DecidableEq, Repr, Inhabited

/-- result class of one `Read` call (on a response body, or on the retry reader):
`ok` = `err == nil`, `eof` = `err == io.EOF`, `weof` = an error that wraps `io.EOF`
(`errors.Is(err, io.EOF)` but `err != io.EOF`), `fault` = any other error. -/
inductive Res | ok | eof | weof | fault
deriving DecidableEq, Repr, Inhabited

/-- the consumer (io.ReadAll, io.Copy, bufio, gzip, tar: all test `err == io.EOF`) sees an error -/
def Res.isErr : Res → Bool
  | .weof => true | .fault => true | _ => false

/-- how a response stream ends after its last delivered byte -/
inductive End | clean | wrapped | fault
deriving DecidableEq, Repr, Inhabited

def End.res : End → Res
  | .clean => .eof | .wrapped => .weof | .fault => .fault

/-- one connection = one call of `client.Do` -/
structure Conn where
  connFail : Bool          -- `client.Do` returns an error, no response
  status   : Option Nat    -- forced status; `none` = what the server kind answers by itself
  page     : Text          -- body of an error response
  noBody   : Bool          -- the transport represents an empty body as `http.NoBody` (net/http does when Content-Length is 0)
  cutAfter : Option Nat    -- bytes of this response body that arrive before the stream ends early
  ending   : End           -- how the stream ends (after `cutAfter` bytes, or after the whole body)
  chunks   : List Nat      -- cap of the k-th `Read` on this body is `chunks[k] + 1` bytes; afterwards uncapped
  eager    : Bool          -- the end is reported together with the last bytes (`n > 0, err`)
deriving DecidableEq, Repr, Inhabited

/-- *The script-level (round 1) form of the recorded assumption of `eof_complete`*: a stream that stops
before the end of the response body does not look like a clean end — the connection "ends cleanly"
only at the end of the body (net/http turns an early close into `io.ErrUnexpectedEOF` whenever
Content-Length or chunked framing is present).  It is sufficient for, and strictly stronger than, the
refined per-connection assumption `Conn.invisibleEnd … = false` below. -/
def Conn.signalsTruncation (c : Conn) : Prop := c.ending = .clean → c.cutAfter = none

instance (c : Conn) : Decidable c.signalsTruncation := by unfold Conn.signalsTruncation; infer_instance

def httpOK : Nat := 200
def httpPartial : Nat := 206
def httpRangeNotSatisfiable : Nat := 416
def httpUnavailable : Nat := 503

/-- the status a server of kind `k` answers with by itself -/
def naturalStatus (k : Kind) (range : Option Nat) (len : Nat) : Nat :=
  match range with
  | none => httpOK
  | some p =>
    match k with
    | .ignores => httpOK
    | .honours => if p < len then httpPartial else httpRangeNotSatisfiable
    | .errorsOnResume => httpUnavailable

/-- the honest server: status and complete response body for a request with the given Range offset -/
def serve (data : Text) (k : Kind) (c : Conn) (range : Option Nat) : Nat × Text :=
  let code := c.status.getD (naturalStatus k range data.length)
  if code = httpOK then (httpOK, data)
  else if code = httpPartial then
    match range with
    | some p => (httpPartial, data.drop p)
    | none => (httpOK, data)
  else (code, c.page)

/-! ### clean early ends, and which of them the reader can see

A close-delimited response whose connection goes away, or a server that by now holds a shorter file,
make a response stream stop early and look like a clean end.  The reader never compares what it got
with `Content-Length`, so in general it takes such an end for the end of the file — *except* in the
one place where the truncation is evident to it: it asked for offset `p` (`Range: bytes=p-`), was
answered `200` (the file from offset 0, of which it must throw away the first `p` bytes), and the
stream ended before `p` bytes arrived.  `io.CopyN` reports that, and `reset` fails.

*Refined recorded assumption of `eof_complete`* (per connection, relative to the request it answers):
`c.invisibleEnd data k range = false` — the stream does not end early and cleanly on a successful
response, or it does and the reader can tell.  Nothing is assumed about the other connections of the
script, and nothing about a connection once the next request has been sent. -/

/-- connection `c`, answering a request with Range offset `range`, delivers a successful response
(`code` 200 or 206) whose stream stops after `q` bytes — before the end of the response body — and
looks like a clean end: `some (code, q)` -/
def Conn.cleanEarlyEnd (data : Text) (k : Kind) (c : Conn) (range : Option Nat) : Option (Nat × Nat) :=
  if c.connFail || c.ending != .clean then none else
  match c.cutAfter with
  | none => none
  | some q =>
    let (code, content) := serve data k c range
    if (code = httpOK ∨ code = httpPartial) ∧ q < content.length then some (code, q) else none

/-- the reader can tell that the stream ended early: the request asked for offset `p`, the answer was
200 (the file from offset 0) and fewer than `p` bytes arrived.  (Nothing of the kind exists for 206,
for a request without Range, or for a 200 body that reaches offset `p`: the reader has no length to
compare with — `r.total` records the first Content-Length but is never read, Content-Range is not
looked at.) -/
def evidentEnd (range : Option Nat) (code q : Nat) : Bool :=
  code == httpOK && match range with
    | some p => decide (q < p)
    | none => false

/-- the clean early end of `c` (if it has one for this request) cannot be seen by the reader -/
def Conn.invisibleEnd (data : Text) (k : Kind) (c : Conn) (range : Option Nat) : Bool :=
  match c.cleanEarlyEnd data k range with
  | none => false
  | some (code, q) => !evidentEnd range code q

/-- a response body as the reader sees it -/
structure Body where
  rest   : Text       -- bytes this stream will still deliver
  ending : End
  chunks : List Nat
  eager  : Bool
  closed : Bool
deriving Repr, Inhabited

/-- `r.body == nil` before the first response (Close is skipped, nothing can be read) -/
def Body.none : Body := ⟨[], .fault, [], false, true⟩

def mkBody (content : Text) (c : Conn) : Body :=
  match c.cutAfter with
  | none => ⟨content, c.ending, c.chunks, c.eager, false⟩
  | some k => ⟨content.take k, c.ending, c.chunks, c.eager, false⟩

/-- how many bytes the next `Read` with `len(p) = m` may hand out -/
def Body.cap (b : Body) (m : Nat) : Nat :=
  match b.chunks with
  | [] => m
  | c :: _ => min (c + 1) m

/-- `body.Read(p)` with `len(p) = m`.  *Assumption*: `Read` on a closed body fails with a non-EOF
error (true for net/http's HTTP/1 and HTTP/2 bodies and for `*os.File`). -/
def Body.read (b : Body) (m : Nat) : Body × Text × Res :=
  if b.closed then (b, [], .fault)
  else if b.rest.isEmpty then (b, [], b.ending.res)
  else
    let out := b.rest.take (b.cap m)
    let rest' := b.rest.drop (b.cap m)
    ({ b with rest := rest', chunks := b.chunks.tail }, out,
      if rest'.isEmpty && b.eager && !out.isEmpty then b.ending.res else .ok)

/-! ## observable trace -/

inductive Event
  | req (range : Option Nat)          -- `client.Do` was called; `some p` = header `Range: bytes=p-`
  | body (res : Res)                  -- a `Read` on a response body returned this class
  | result (out : Text) (res : Res)   -- `rangeRetryReader.Read` returned `out` and this class
  | close
deriving DecidableEq, Repr, Inhabited

/-- all bytes handed to the consumer -/
def delivered : List Event → Text
  | [] => []
  | .result out _ :: es => out ++ delivered es
  | _ :: es => delivered es

/-! ## Impl: the Go code -/

structure Cfg where
  sched       : List Bool   -- `for _, retry := range []bool{…}`
  discardCode : Nat         -- `resp.StatusCode == http.StatusOK`
  passCode    : Nat         -- `resp.StatusCode != http.StatusPartialContent`
deriving Repr

def Cfg.generated : Cfg := ⟨Generated.retrySchedule, Generated.statusDiscard, Generated.statusPass⟩

structure Reader where
  progress : Nat
  body     : Body
  script   : List Conn     -- connections not used yet
  log      : List Event    -- ghost: observable trace so far
deriving Repr, Inhabited

inductive Outcome
  | installed (code : Nat)     -- `r.body = resp.Body; resp.Body = r; return resp, nil`
  | passthrough (code : Nat)   -- `resp.Body == http.NoBody`: `return resp, nil`, `r.body` untouched
  | error (e : Res)            -- `return resp, <non-nil error of class e>` (`e ≠ .ok`)
deriving DecidableEq, Repr, Inhabited

/-- class of `errors.Join(a, b)` for two non-nil errors: a `*joinError` is never `== io.EOF`, and
`errors.Is(·, io.EOF)` holds as soon as it holds for one of the two -/
def joinErr (a b : Res) : Res :=
  if a = .fault ∧ b = .fault then .fault else .weof

/-- buffer size of `io.Discard.ReadFrom` (io.CopyN → io.Copy → ReaderFrom) -/
def discardBuf : Nat := 8192

/-- `io.CopyN(io.Discard, body, n)` = `io.Copy(io.Discard, io.LimitReader(body, n))`: reads
`min discardBuf remaining` until `n` bytes are gone.  Returns the error of `io.CopyN` (`none` = nil):
nil iff all `n` bytes were obtained (whatever error accompanied the last of them); otherwise the error
of the read that stopped the copy — where a *clean* end (`io.Copy` returns nil on `io.EOF`) becomes the
bare `io.EOF` that `io.CopyN` substitutes ("src stopped early; must have been EOF"). -/
def discard : Nat → Body → Nat → Body × Option Res × List Event
  | _, b, 0 => (b, none, [])
  | 0, b, _ + 1 => (b, some .fault, [])
  | fuel + 1, b, n + 1 =>
    let (b', out, res) := b.read (min discardBuf (n + 1))
    let remaining := n + 1 - out.length
    if res = .ok then
      let (b'', err, evs) := discard fuel b' remaining
      (b'', err, Event.body res :: evs)
    else (b', if remaining = 0 then none else some res, [Event.body res])

namespace Impl

/-- `func (r *rangeRetryReader) reset(oerr error)` -/
def reset (cfg : Cfg) (data : Text) (k : Kind) (r : Reader) : Reader × Outcome :=
  -- if r.body != nil { _ = r.body.Close() }
  let r := { r with body := { r.body with closed := true } }
  -- if r.progress != 0 { req.Header.Set("Range", rangeHeader) } ; resp, err := r.client.Do(req)
  let range := if r.progress ≠ 0 then some r.progress else none
  let r := { r with log := r.log ++ [Event.req range] }
  match r.script with
  | [] => (r, .error .fault)
  | c :: script =>
    let r := { r with script := script }
    -- if err != nil { return resp, errors.Join(oerr, err) }
    if c.connFail then (r, .error .fault) else
    let (code, content) := serve data k c range
    -- if resp.Body == nil || resp.Body == http.NoBody { return resp, nil }
    if content.isEmpty && c.noBody then (r, .passthrough code) else
    let nb := mkBody content c
    if code = cfg.discardCode then
      if r.progress ≠ 0 then
        -- if _, err := io.CopyN(io.Discard, resp.Body, r.progress); err != nil { return resp, err }
        match discard (r.progress + 1) nb r.progress with
        | (nb', none, evs) => ({ r with body := nb', log := r.log ++ evs }, .installed code)
        | (_, some e, evs) => ({ r with log := r.log ++ evs }, .error e)
      else ({ r with body := nb }, .installed code)
    -- return resp, fmt.Errorf("… unexpected status code: %d", …)
    else if code ≠ cfg.passCode then (r, .error .fault)
    else ({ r with body := nb }, .installed code)

/-- the `for _, retry := range …` loop of `Read`; `last` = current values of `(n, err)` -/
def readLoop (cfg : Cfg) (data : Text) (k : Kind) (m : Nat) :
    List Bool → Reader → Text × Res → Reader × Text × Res
  | [], r, last => (r, last.1, last.2)
  | retry :: sched, r, _ =>
    -- n, err = r.body.Read(p)
    let (b', out, res) := r.body.read m
    let r := { r with body := b', log := r.log ++ [Event.body res] }
    -- if err == nil { break } ; if errors.Is(err, io.EOF) { break }
    if res ≠ .fault then (r, out, res)
    -- if !retry { break }
    else if !retry then (r, out, .fault)
    else
      match reset cfg data k r with
      -- if rerr != nil { … return n, errors.Join(rerr, err) }
      | (r', .error e) => (r', out, joinErr e .fault)
      | (r', _) => readLoop cfg data k m sched r' (out, .fault)

/-- `func (r *rangeRetryReader) Read(p []byte) (n int, err error)` with `len(p) = m` -/
def read (cfg : Cfg) (data : Text) (k : Kind) (r : Reader) (m : Nat) : Reader × Text × Res :=
  let (r', out, res) := readLoop cfg data k m cfg.sched r ([], .ok)
  -- defer func() { r.progress += int64(n) }()
  ({ r' with progress := r'.progress + out.length, log := r'.log ++ [.result out res] }, out, res)

/-- `func (r *rangeRetryReader) Close() error` -/
def close (r : Reader) : Reader :=
  { r with body := { r.body with closed := true }, log := r.log ++ [Event.close] }

/-- `RoundTrip`: a fresh reader (`progress = 0`, `body = nil`) and `reset(nil)` -/
def start (script : List Conn) : Reader := ⟨0, Body.none, script, []⟩

def roundTrip (cfg : Cfg) (data : Text) (k : Kind) (script : List Conn) : Reader × Outcome :=
  reset cfg data k (start script)

end Impl

/-- what the consumer does with the body -/
inductive Op | read (m : Nat) | close
deriving DecidableEq, Repr, Inhabited

def step (cfg : Cfg) (data : Text) (k : Kind) (r : Reader) : Op → Reader
  | .read m => (Impl.read cfg data k r m).1
  | .close => Impl.close r

def runOps (cfg : Cfg) (data : Text) (k : Kind) (r : Reader) (ops : List Op) : Reader :=
  ops.foldl (step cfg data k) r

/-- a whole download as the callers drive it: `RoundTrip`, then — if a body was installed — the
consumer's operations on it -/
def run (cfg : Cfg) (data : Text) (k : Kind) (script : List Conn) (ops : List Op) : Outcome × Reader :=
  match Impl.roundTrip cfg data k script with
  | (r, .installed code) => (.installed code, runOps cfg data k r ops)
  | (r, o) => (o, r)

/-! ## Spec: the property as a checker over the trace -/

namespace Spec

structure St where
  consumed : Nat            -- bytes handed to the consumer so far
  lastBody : Option Res     -- class of the most recent body read since the last result
  script   : List Conn      -- connections not used yet: the next request is answered by the head
  waive    : Bool           -- the current connection (the one that answered the most recent request)
                            -- has a clean early end that the reader cannot see
deriving DecidableEq, Repr, Inhabited

/-- is the `eof_complete` clause waived for the connection that answers a request with this Range
offset?  Only for a connection with an invisible clean early end; never when the script is
exhausted (the request fails). -/
def nextWaive (data : Text) (k : Kind) (script : List Conn) (range : Option Nat) : Bool :=
  match script with
  | [] => false
  | c :: _ => c.invisibleEnd data k range

/-- one event against the property; `none` = violated -/
def stepEvent (data : Text) (k : Kind) (s : St) : Event → Option St
  | .req range =>
    -- a request is a fresh download (no Range) before anything was consumed, and asks for exactly
    -- `bytes=consumed-` afterwards; it is answered by the next connection of the script
    if range = (if s.consumed ≠ 0 then some s.consumed else none) then
      some { s with script := s.script.tail, waive := nextWaive data k s.script range }
    else none
  | .body res => some { s with lastBody := some res }
  | .result out res =>
    -- the bytes handed out are exactly the next bytes the server holds (no duplicate, no gap) …
    if out.isPrefixOf (data.drop s.consumed)
      -- … a clean EOF only when everything was consumed (unless the current connection ended early
      -- and cleanly where the reader cannot see it) …
      && (s.waive || res != .eof || s.consumed + out.length == data.length)
      -- … and a failed last attempt is reported as an error
      && (!(s.lastBody == some .fault || s.lastBody == some .weof) || res.isErr)
    then some { s with consumed := s.consumed + out.length, lastBody := none } else none
  | .close => some s

def runFrom (data : Text) (k : Kind) : St → List Event → Option St
  | s, [] => some s
  | s, e :: es =>
    match stepEvent data k s e with
    | none => none
    | some s' => runFrom data k s' es

def init (script : List Conn) : St := ⟨0, none, script, false⟩

def accepts (data : Text) (k : Kind) (script : List Conn) (log : List Event) : Bool :=
  (runFrom data k (init script) log).isSome

/-- the waiver in force after the events `log` of a download against `script` (defined without the
checker: only the requests matter) -/
def waiveAfter (data : Text) (k : Kind) : List Conn → Bool → List Event → Bool
  | _, w, [] => w
  | cs, _, .req range :: es => waiveAfter data k cs.tail (nextWaive data k cs range) es
  | cs, w, _ :: es => waiveAfter data k cs w es

/-- the requests of a trace paired with the connections that answered them -/
def pairs : List Event → List Conn → List (Option Nat × Conn)
  | [], _ => []
  | .req _ :: _, [] => []
  | .req range :: es, c :: cs => (range, c) :: pairs es cs
  | _ :: es, cs => pairs es cs

/-- the callers' view: the status that lets them use the body (both test `!= http.StatusOK`);
a 200 response without a body is only acceptable for an empty file -/
def acceptsOpen (data : Text) (o : Outcome) : Bool :=
  match o with
  | .passthrough code => code != httpOK || data.isEmpty
  | _ => true

end Spec

end Apko.Retry
