/-
Model of pkg/apk/apk/transport.go: rangeRetryTransport.RoundTrip, rangeRetryReader.reset / Read /
Close, together with the environment they run against (C20).

Core only (no Mathlib): this file is linked into the driver executable.

* The **server** holds `data` and is honest about it: a 200 response carries `data`, a 206 response
  to `Range: bytes=p-` carries `data.drop p`, any other status carries an error page.  Which status
  it answers with is decided by its `Kind` (honours Range / ignores Range / errors on resumption) and
  may be overridden per connection (`Conn.status`: transient 5xx, 416, …).
* The **network** is a fault script: one `Conn` per call of `client.Do` (connection failure, how many
  bytes of the response body arrive before the stream ends, how it ends, how the bytes are chunked
  over the `Read` calls, whether the end is reported together with the last bytes).
* `Impl.*` mirrors the Go code statement by statement.  The schedule and the two status codes tested
  by `reset` are parameters (`Cfg`); the driver and the theorems instantiate them with
  `Apko.Generated.Retry`, which the extractor rewrites from /repo on every run.
* `Spec.*` is the property as a decidable checker over the observable event trace (requests sent,
  body reads, results handed to the consumer).  The driver evaluates it on the trace of the real code.
-/
import Apko.Model.Text
import Apko.Generated.Retry

namespace Apko.Retry

/-! ## environment -/

inductive Kind | honours | ignores | errorsOnResume
deriving DecidableEq, Repr, Inhabited

/-- result class of one `Read` call (on a response body, or on the retry reader):
`ok` = `err == nil`, `eof` = `err == io.EOF`, `weof` = an error that wraps `io.EOF`
(`errors.Is(err, io.EOF)` but `err != io.EOF`), `fault` = any other error. -/
inductive Res | ok | eof | weof | fault
deriving DecidableEq, Repr, Inhabited

/-- the consumer (io.ReadAll, io.Copy, bufio, gzip, tar: all test `err == io.EOF`) sees an error -/
def Res.isErr : Res → Bool
  | .weof => true | .fault => true | _ => false

/-- how a response stream ends after its last delivered byte -/
inductive End | clean | wrapped | fault
deriving DecidableEq, Repr, Inhabited

def End.res : End → Res
  | .clean => .eof | .wrapped => .weof | .fault => .fault

/-- one connection = one call of `client.Do` -/
structure Conn where
  connFail : Bool          -- `client.Do` returns an error, no response
  status   : Option Nat    -- forced status; `none` = what the server kind answers by itself
  page     : Text          -- body of an error response
  noBody   : Bool          -- the transport represents an empty body as `http.NoBody` (net/http does when Content-Length is 0)
  cutAfter : Option Nat    -- bytes of this response body that arrive before the stream ends early
  ending   : End           -- how the stream ends (after `cutAfter` bytes, or after the whole body)
  chunks   : List Nat      -- cap of the k-th `Read` on this body is `chunks[k] + 1` bytes; afterwards uncapped
  eager    : Bool          -- the end is reported together with the last bytes (`n > 0, err`)
deriving Repr, Inhabited

/-- *Recorded assumption of `eof_complete`*: a stream that stops before the end of the response body
does not look like a clean end — the connection "ends cleanly" only at the end of the body
(net/http turns an early close into `io.ErrUnexpectedEOF` whenever Content-Length or chunked
framing is present). -/
def Conn.signalsTruncation (c : Conn) : Prop := c.ending = .clean → c.cutAfter = none

instance (c : Conn) : Decidable c.signalsTruncation := by unfold Conn.signalsTruncation; infer_instance

def httpOK : Nat := 200
def httpPartial : Nat := 206
def httpRangeNotSatisfiable : Nat := 416
def httpUnavailable : Nat := 503

/-- the status a server of kind `k` answers with by itself -/
def naturalStatus (k : Kind) (range : Option Nat) (len : Nat) : Nat :=
  match range with
  | none => httpOK
  | some p =>
    match k with
    | .ignores => httpOK
    | .honours => if p < len then httpPartial else httpRangeNotSatisfiable
    | .errorsOnResume => httpUnavailable

/-- the honest server: status and complete response body for a request with the given Range offset -/
def serve (data : Text) (k : Kind) (c : Conn) (range : Option Nat) : Nat × Text :=
  let code := c.status.getD (naturalStatus k range data.length)
  if code = httpOK then (httpOK, data)
  else if code = httpPartial then
    match range with
    | some p => (httpPartial, data.drop p)
    | none => (httpOK, data)
  else (code, c.page)

/-- a response body as the reader sees it -/
structure Body where
  rest   : Text       -- bytes this stream will still deliver
  ending : End
  chunks : List Nat
  eager  : Bool
  closed : Bool
deriving Repr, Inhabited

/-- `r.body == nil` before the first response (Close is skipped, nothing can be read) -/
def Body.none : Body := ⟨[], .fault, [], false, true⟩

def mkBody (content : Text) (c : Conn) : Body :=
  match c.cutAfter with
  | none => ⟨content, c.ending, c.chunks, c.eager, false⟩
  | some k => ⟨content.take k, c.ending, c.chunks, c.eager, false⟩

/-- how many bytes the next `Read` with `len(p) = m` may hand out -/
def Body.cap (b : Body) (m : Nat) : Nat :=
  match b.chunks with
  | [] => m
  | c :: _ => min (c + 1) m

/-- `body.Read(p)` with `len(p) = m`.  *Assumption*: `Read` on a closed body fails with a non-EOF
error (true for net/http's HTTP/1 and HTTP/2 bodies and for `*os.File`). -/
def Body.read (b : Body) (m : Nat) : Body × Text × Res :=
  if b.closed then (b, [], .fault)
  else if b.rest.isEmpty then (b, [], b.ending.res)
  else
    let out := b.rest.take (b.cap m)
    let rest' := b.rest.drop (b.cap m)
    ({ b with rest := rest', chunks := b.chunks.tail }, out,
      if rest'.isEmpty && b.eager && !out.isEmpty then b.ending.res else .ok)

/-! ## observable trace -/

inductive Event
  | req (range : Option Nat)          -- `client.Do` was called; `some p` = header `Range: bytes=p-`
  | body (res : Res)                  -- a `Read` on a response body returned this class
  | result (out : Text) (res : Res)   -- `rangeRetryReader.Read` returned `out` and this class
  | close
deriving DecidableEq, Repr, Inhabited

/-- all bytes handed to the consumer -/
def delivered : List Event → Text
  | [] => []
  | .result out _ :: es => out ++ delivered es
  | _ :: es => delivered es

/-! ## Impl: the Go code -/

structure Cfg where
  sched       : List Bool   -- `for _, retry := range []bool{…}`
  discardCode : Nat         -- `resp.StatusCode == http.StatusOK`
  passCode    : Nat         -- `resp.StatusCode != http.StatusPartialContent`
deriving Repr

def Cfg.generated : Cfg := ⟨Generated.retrySchedule, Generated.statusDiscard, Generated.statusPass⟩

structure Reader where
  progress : Nat
  body     : Body
  script   : List Conn     -- connections not used yet
  log      : List Event    -- ghost: observable trace so far
deriving Repr, Inhabited

inductive Outcome
  | installed (code : Nat)     -- `r.body = resp.Body; resp.Body = r; return resp, nil`
  | passthrough (code : Nat)   -- `resp.Body == http.NoBody`: `return resp, nil`, `r.body` untouched
  | error
deriving DecidableEq, Repr, Inhabited

/-- buffer size of `io.Discard.ReadFrom` (io.CopyN → io.Copy → ReaderFrom) -/
def discardBuf : Nat := 8192

/-- `io.CopyN(io.Discard, body, n)`: reads `min discardBuf remaining` until `n` bytes are gone; succeeds
iff all `n` bytes were obtained (whatever error accompanied the last of them). -/
def discard : Nat → Body → Nat → Body × Bool × List Event
  | _, b, 0 => (b, true, [])
  | 0, b, _ + 1 => (b, false, [])
  | fuel + 1, b, n + 1 =>
    let (b', out, res) := b.read (min discardBuf (n + 1))
    let remaining := n + 1 - out.length
    if res = .ok then
      let (b'', good, evs) := discard fuel b' remaining
      (b'', good, Event.body res :: evs)
    else (b', remaining == 0, [Event.body res])

namespace Impl

/-- `func (r *rangeRetryReader) reset(oerr error)` -/
def reset (cfg : Cfg) (data : Text) (k : Kind) (r : Reader) : Reader × Outcome :=
  -- if r.body != nil { _ = r.body.Close() }
  let r := { r with body := { r.body with closed := true } }
  -- if r.progress != 0 { req.Header.Set("Range", rangeHeader) } ; resp, err := r.client.Do(req)
  let range := if r.progress ≠ 0 then some r.progress else none
  let r := { r with log := r.log ++ [Event.req range] }
  match r.script with
  | [] => (r, .error)
  | c :: script =>
    let r := { r with script := script }
    -- if err != nil { return resp, errors.Join(oerr, err) }
    if c.connFail then (r, .error) else
    let (code, content) := serve data k c range
    -- if resp.Body == nil || resp.Body == http.NoBody { return resp, nil }
    if content.isEmpty && c.noBody then (r, .passthrough code) else
    let nb := mkBody content c
    if code = cfg.discardCode then
      if r.progress ≠ 0 then
        -- io.CopyN(io.Discard, resp.Body, r.progress)
        match discard (r.progress + 1) nb r.progress with
        | (nb', true, evs) => ({ r with body := nb', log := r.log ++ evs }, .installed code)
        | (_, false, evs) => ({ r with log := r.log ++ evs }, .error)
      else ({ r with body := nb }, .installed code)
    else if code ≠ cfg.passCode then (r, .error)
    else ({ r with body := nb }, .installed code)

/-- the `for _, retry := range …` loop of `Read`; `last` = current values of `(n, err)` -/
def readLoop (cfg : Cfg) (data : Text) (k : Kind) (m : Nat) :
    List Bool → Reader → Text × Res → Reader × Text × Res
  | [], r, last => (r, last.1, last.2)
  | retry :: sched, r, _ =>
    -- n, err = r.body.Read(p)
    let (b', out, res) := r.body.read m
    let r := { r with body := b', log := r.log ++ [Event.body res] }
    -- if err == nil { break } ; if errors.Is(err, io.EOF) { break }
    if res ≠ .fault then (r, out, res)
    -- if !retry { break }
    else if !retry then (r, out, .fault)
    else
      match reset cfg data k r with
      -- if rerr != nil { … return n, errors.Join(rerr, err) }
      | (r', .error) => (r', out, .fault)
      | (r', _) => readLoop cfg data k m sched r' (out, .fault)

/-- `func (r *rangeRetryReader) Read(p []byte) (n int, err error)` with `len(p) = m` -/
def read (cfg : Cfg) (data : Text) (k : Kind) (r : Reader) (m : Nat) : Reader × Text × Res :=
  let (r', out, res) := readLoop cfg data k m cfg.sched r ([], .ok)
  -- defer func() { r.progress += int64(n) }()
  ({ r' with progress := r'.progress + out.length, log := r'.log ++ [.result out res] }, out, res)

/-- `func (r *rangeRetryReader) Close() error` -/
def close (r : Reader) : Reader :=
  { r with body := { r.body with closed := true }, log := r.log ++ [Event.close] }

/-- `RoundTrip`: a fresh reader (`progress = 0`, `body = nil`) and `reset(nil)` -/
def start (script : List Conn) : Reader := ⟨0, Body.none, script, []⟩

def roundTrip (cfg : Cfg) (data : Text) (k : Kind) (script : List Conn) : Reader × Outcome :=
  reset cfg data k (start script)

end Impl

/-- what the consumer does with the body -/
inductive Op | read (m : Nat) | close
deriving DecidableEq, Repr, Inhabited

def step (cfg : Cfg) (data : Text) (k : Kind) (r : Reader) : Op → Reader
  | .read m => (Impl.read cfg data k r m).1
  | .close => Impl.close r

def runOps (cfg : Cfg) (data : Text) (k : Kind) (r : Reader) (ops : List Op) : Reader :=
  ops.foldl (step cfg data k) r

/-- a whole download as the callers drive it: `RoundTrip`, then — if a body was installed — the
consumer's operations on it -/
def run (cfg : Cfg) (data : Text) (k : Kind) (script : List Conn) (ops : List Op) : Outcome × Reader :=
  match Impl.roundTrip cfg data k script with
  | (r, .installed code) => (.installed code, runOps cfg data k r ops)
  | (r, o) => (o, r)

/-! ## Spec: the property as a checker over the trace -/

namespace Spec

structure St where
  consumed : Nat            -- bytes handed to the consumer so far
  lastBody : Option Res     -- class of the most recent body read since the last result
deriving DecidableEq, Repr, Inhabited

/-- one event against the property; `none` = violated.  `strict = false` leaves out the one clause
(`eof_complete`) that depends on the recorded truncation assumption. -/
def stepEvent (data : Text) (strict : Bool) (s : St) : Event → Option St
  | .req range =>
    -- a request is a fresh download (no Range) before anything was consumed, and asks for exactly
    -- `bytes=consumed-` afterwards
    if range = (if s.consumed ≠ 0 then some s.consumed else none) then some s else none
  | .body res => some { s with lastBody := some res }
  | .result out res =>
    -- the bytes handed out are exactly the next bytes the server holds (no duplicate, no gap) …
    if out.isPrefixOf (data.drop s.consumed)
      -- … a clean EOF only when everything was consumed …
      && (!strict || res != .eof || s.consumed + out.length == data.length)
      -- … and a failed last attempt is reported as an error
      && (!(s.lastBody == some .fault || s.lastBody == some .weof) || res.isErr)
    then some ⟨s.consumed + out.length, none⟩ else none
  | .close => some s

def runFrom (data : Text) (strict : Bool) : St → List Event → Option St
  | s, [] => some s
  | s, e :: es =>
    match stepEvent data strict s e with
    | none => none
    | some s' => runFrom data strict s' es

def init : St := ⟨0, none⟩

def accepts (data : Text) (strict : Bool) (log : List Event) : Bool :=
  (runFrom data strict init log).isSome

/-- the callers' view: the status that lets them use the body (both test `!= http.StatusOK`);
a 200 response without a body is only acceptable for an empty file -/
def acceptsOpen (data : Text) (o : Outcome) : Bool :=
  match o with
  | .passthrough code => code != httpOK || data.isEmpty
  | _ => true

end Spec

end Apko.Retry
