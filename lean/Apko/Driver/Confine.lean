import Apko.Model.Confine
import Apko.Generated.TransConfine
/-! line-protocol handlers for corr:confine (property C18)

* `cf.san <base> <p>` / `cf.arch <d> <t>`            lexical vetting: `ok <v>` | `tainted`
* `cf.link <base> <old>`                              `dirFS.Link` target test: `ok` | `outside`
* `cf.url <root> <path> <esc>`                        `cachePathFromURL`: `ok <file>` | `err`
* `cf.pkgdir <root> <path> <esc> <urlok> <name> <checksum> GO=<go>`   `cacheDirForPackage` on a package record
      (`urlok` = 0: `packageAsURL` failed); verdict on Go's answer: an accepted entry is absolute and reads within the root
* `cf.etag none|empty|val <value>`                    `etagFromResponse`: `ok <etag>` | `none`
* `cf.etagfile <cacheFile> <etag>`                    `cacheFileFromEtag`: `ok <file>` | `err`
* `cf.cachedir <cacheFile>`                           `cacheDirFromFile`
* `cf.keyfile <element>` / `cf.cgkey <kid>`           file a key is stored under
* `cf.keyname <name>`                                 `parseRepositoryIndex` key-name test: `ok` | `reject`
* `cf.dirfs <op>… GO=<go>`                            a sequence of `dirFS` calls in the canary tree; answer
      `r1/diff1;r2/diff2;…` (result class and outside diff per call), verdict = no outside diff in Go's answer
* `cf.archeffect <why> <arch> <diff>`                  oracle only (commands run with a hostile architecture string): pass iff
      the diff is empty (F18f is repaired: no listed class)
* `cf.archname <s>`                                    `types.ParseArchitecture(s).ToAPK()`; oracle: one plain path element
* `cf.effect <why> <lexical 0|1> <diff>`              oracle only (apko-level cases): pass iff the diff is empty

All strings are hex.  Ops: `method,name,old,data,flag,perm,mtime,uid,gid,dev`.
-/
namespace Apko.Driver.Confine
open Apko Apko.Path Apko.Confine

def parseNat (s : String) : Nat := s.toList.foldl (fun a c => a * 10 + (c.toNat - 48)) 0
def parseInt (s : String) : Int :=
  match s.toList with
  | '-' :: r => - (Int.ofNat (r.foldl (fun a c => a * 10 + (c.toNat - 48)) 0))
  | r => Int.ofNat (r.foldl (fun a c => a * 10 + (c.toNat - 48)) 0)

def triple (impl spec cls : String) : String :=
  impl ++ "\t" ++ spec ++ "\t" ++ (if impl = spec then "-" else cls)

def optS (tag : String) : Option Text → String
  | none => tag
  | some v => "ok " ++ hexS v

/-- component-level confinement: the (cleaned) components of `root` are a prefix of those of `v`,
and `v` has no `..` component left -/
def withinC (root v : Text) : Bool :=
  let r := parts (clean root)
  let c := parts v
  r.isPrefixOf c && !(c.contains dotdot)

def methodOf : String → Option Method
  | "readlink" => some .readlink | "open" => some .open_ | "openfile-create" => some .openFileCreate
  | "openfile" => some .openFileNoCreate | "openreaderat" => some .openReaderAt | "stat" => some .stat
  | "lstat" => some .lstat | "create" => some .create | "remove" => some .remove | "readdir" => some .readDir
  | "readfile" => some .readFile | "writefile" => some .writeFile | "readnod" => some .readnod
  | "link" => some .link | "symlink" => some .symlink | "mkdirall" => some .mkdirAll | "mkdir" => some .mkdir
  | "chmod" => some .chmod | "chown" => some .chown | "chtimes" => some .chtimes | "mknod" => some .mknod
  | "setxattr" => some .setXattr | "getxattr" => some .getXattr | "removexattr" => some .removeXattr
  | "listxattrs" => some .listXattrs
  | _ => none

def parseOp (s : String) : Option (Method × Call) :=
  match s.splitOn "," with
  | [m, name, old, data, flag, perm, mtime, uid, gid, dev] =>
    match methodOf m with
    | none => none
    | some m0 =>
      let flag := parseNat flag
      -- `OpenFile` is one Go method: the model splits it by O_CREATE
      let m1 := if m0 = .openFileNoCreate ∧ FS.oCreate flag then .openFileCreate
                else if m0 = .openFileCreate ∧ !FS.oCreate flag then .openFileNoCreate else m0
      some (m1, { name := unhexS name, old := unhexS old, data := unhexS data, flag := flag, perm := parseNat perm,
                  mtime := parseInt mtime, uid := parseNat uid, gid := parseNat gid, dev := parseNat dev })
  | _ => none

def seqS (rs : List (Res × List String × Bool)) : String :=
  ";".intercalate (rs.map fun r => resS r.1 ++ "/" ++ ",".intercalate r.2.1)

/-- does Go's answer `r1/diff1;r2/diff2` report any outside effect? -/
def goHasEffect (go : String) : Bool :=
  (go.splitOn ";").any fun r => match r.splitOn "/" with
    | _ :: d :: _ => d ≠ ""
    | _ => false

def handle (args : List String) : Option String :=
  match args with
  -- `tc.*`: the check on the Go → Lean translator (extract/trans.go): impl = the regenerated translation of the Go
  -- function, spec = the hand-written model (equal for all inputs by Proofs/TransConfine.lean while that file checks)
  | ["tc.san", b, p] =>
    some (optS "tainted" (Generated.Trans.sanitizePath (unhexS b) (unhexS p)) ++ "\t" ++
      optS "tainted" (sanitizePath (unhexS b) (unhexS p)) ++ "\tunlisted")
  | ["tc.arch", d, t] =>
    some (optS "tainted" (Generated.Trans.sanitizeArchivePath (unhexS d) (unhexS t)) ++ "\t" ++
      optS "tainted" (sanitizeArchivePath (unhexS d) (unhexS t)) ++ "\tunlisted")
  | ["tc.etagfile", cf, etag] =>
    some (optS "err" (Generated.Trans.cacheFileFromEtag (unhexS cf) (unhexS etag)) ++ "\t" ++
      optS "err" (cacheFileFromEtag (unhexS cf) (unhexS etag)) ++ "\tunlisted")
  | ["cf.san", b, p] =>
    let r := optS "tainted" (sanitizePath (unhexS b) (unhexS p))
    some <| triple r r "unlisted"
  | ["cf.arch", d, t] =>
    let r := optS "tainted" (sanitizeArchivePath (unhexS d) (unhexS t))
    some <| triple r r "unlisted"
  | ["cf.link", b, o] =>
    let r := if linkTargetOK (unhexS b) (unhexS o) then "ok" else "outside"
    some <| triple r r "unlisted"
  | ["cf.url", root, path, esc] =>
    let root := unhexS root
    let impl := cachePathFromURL root (unhexS path) (unhexS esc)
    let spec := match impl with
      | some v => if withinC root v then impl else none
      | none => none
    some <| triple (optS "err" impl) (optS "err" spec) "unlisted"
  | ["cf.pkgdir", root, path, esc, urlok, name, chk, go] =>
    let root := unhexS root
    let pkg : PkgRec := { urlPath := unhexS path, urlEsc := unhexS esc, name := unhexS name, checksum := unhexS chk }
    let impl := if urlok = "1" then cacheDirForPkg root pkg else none
    let go := (go.drop 3).toString
    -- the oracle, on what Go answered: refusing is always fine; an entry must be absolute and, read by the kernel
    -- (lexically cleaned), lie within the cache root
    let ok := match go.splitOn " " with
      | ["ok", v] => let v := unhexS v; isAbs v && withinC root (clean v)
      | _ => true
    some (optS "err" impl ++ "\t" ++ (if ok then "pass" else "fail:pkg-entry-outside-cache-root") ++ "\t" ++ (if ok then "-" else "unlisted"))
  | ["cf.etag", kind, v] =>
    let hdr : Option (List Text) := match kind with
      | "none" => none | "empty" => some [] | _ => some [unhexS v]
    let impl := etagFromResponse hdr
    let spec := match impl with
      | some e => if e.all (fun c => b32Alphabet.contains c || c = '=') then impl else none
      | none => none
    some <| triple (optS "none" impl) (optS "none" spec) "unlisted"
  | ["cf.etagfile", cf, etag] =>
    let cf := unhexS cf
    let impl := cacheFileFromEtag cf (unhexS etag)
    let spec := match impl with
      | some v => if withinC (etagDir cf) v then impl else none
      | none => none
    some <| triple (optS "err" impl) (optS "err" spec) "unlisted"
  | ["cf.cachedir", cf] =>
    let r := hexS (cacheDirFromFile (unhexS cf))
    some <| triple r r "unlisted"
  | ["cf.keyfile", e] =>
    let v := keyringFile (unhexS e)
    let impl := hexS v
    let spec := if withinC (T "etc/apk") v then impl else "escape"
    some <| triple impl spec "unlisted"
  | ["cf.cgkey", kid] =>
    let v := chainguardKeyFile (unhexS kid)
    let impl := hexS v
    some <| triple impl impl "unlisted"
  | ["cf.keyname", k] =>
    let r := if keyNameOK (unhexS k) then "ok" else "reject"
    some <| triple r r "unlisted"
  | "cf.dirfs" :: rest =>
    match rest.reverse with
    | go :: opsR =>
      let go := (go.drop 3).toString
      match (opsR.reverse.map parseOp).foldr (fun o acc => match o, acc with
          | some x, some l => some (x :: l) | _, _ => none) (some []) with
      | none => none
      | some ops =>
        let rs := runSeq ops
        let impl := seqS rs
        let bad := goHasEffect go
        -- F18c: every host path handed to os.* was lexically inside the root; the escape is physical
        -- (an on-disk symlink or a hard link created earlier in the sequence was followed)
        let cls := if rs.all (fun r => r.2.2) then "F18c" else "unlisted"
        some (impl ++ "\t" ++ (if bad then "fail:outside-effect" else "pass") ++ "\t" ++ (if bad then cls else "-"))
    | [] => none
  | ["cf.archeffect", why, arch, diff] =>
    -- F18f (repaired): every name derived from an architecture is made of `toAPK`, one plain element for every
    -- string (`arch_paths_within`); an outside effect of a command run with a hostile architecture is a violation
    let _ := arch
    let bad := diff ≠ ""
    let cls := "unlisted"
    some ("-\t" ++ (if bad then "fail:" ++ why else "pass") ++ "\t" ++ (if bad then cls else "-"))
  | ["cf.archname", a] =>
    let v := toAPK (unhexS a)
    let impl := hexS v
    let spec := if !v.contains '/' && v ≠ dot && v ≠ dotdot then impl else "not-one-path-element"
    some <| triple impl spec "unlisted"
  | ["cf.effect", why, lexical, diff] =>
    let bad := diff ≠ ""
    let cls := if lexical = "1" then "F18c" else "unlisted"
    some ("-\t" ++ (if bad then "fail:" ++ why else "pass") ++ "\t" ++ (if bad then cls else "-"))
  | _ => none

end Apko.Driver.Confine
