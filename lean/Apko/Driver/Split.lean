import Apko.Model.ExpandSplit
import Apko.Model.Sha
/-!
line-protocol handlers for corr:split (C05: the split-and-hash plumbing of `ExpandApk` / `Split`)

Real bytes, real hashes: the source is the concatenation of the segments of the request; SHA-1 / SHA-256 are computed
in Lean (`Model/Sha.lean`; `split.sha` checks them against Go's).  gzip and tar are tables built by the harness with
its own compress/gzip and archive/tar passes (never from apko):

  SEGS = seg;seg;…   seg = `m:<hex member>:<hex decompressed>:<hex first tar header name | !>`   a gzip member
                         | `g:<hex>`                                                               bytes that are no member
  TARS = key=walk,…  key = `s<i>` (the decompressed bytes of segment i) | `r<i>` (those of segments i… to the end)
                     walk = `!` (archive/tar fails) | entry|entry…, entry = `<hexname>.<kind r|s|d|h|o>.<hexbody>.<rec>`,
                     rec `-` absent, `!` undecodable, else the lower-case hex digest
  GO   = what the real code answered (see `showOut`)

Requests: `split.sha <hex>`                → `<sha1>,<sha256>`
          `split.expand SEGS TARS GO`      → Impl: the model of `ExpandApk` (+ `PackageData` without the `.tar`);
                                              Spec: `pass` / `fail:<why>` — the oracle on GO: accepted ⇒ every recorded hash,
                                              size and file is that of exactly the byte range the format defines
          `split.resolve SEGS GO`          → the same for `Split` + `ResolveApk`
(the sizes of the reads the harness's source answers do not enter the request: the model is handed chunks of 4096 bytes
and `stream_exact` says the chunking cannot matter; the real code is run on scripted chunkings)
-/
namespace Apko.Driver.Split
open Apko Apko.Authentic Apko.ExpandSplit

def splitNE (s : String) (sep : String) : List String := if s.isEmpty then [] else s.splitOn sep

def bytesOfHex (s : String) : Bytes := (unhexS s).map Char.toNat

def H : Hashes :=
  { sha1 := fun b => Sha.hexOf (Sha.sha1 b), sha256 := fun b => Sha.hexOf (Sha.sha256 b) }

inductive Seg where
  | member (comp dec : Bytes) (first : Option Text)
  | garbage (b : Bytes)

def Seg.bytes : Seg → Bytes
  | .member c _ _ => c
  | .garbage b => b

def parseSeg (s : String) : Option Seg :=
  match s.splitOn ":" with
  | ["m", c, d, f] => some (.member (bytesOfHex c) (bytesOfHex d) (if f = "!" then none else some (unhexS f)))
  | ["g", b] => some (.garbage (bytesOfHex b))
  | _ => none

def parseSegs (s : String) : List Seg := (splitNE s ";").filterMap parseSeg

def parseKind : String → Kind
  | "r" => .reg | "s" => .symlink | "d" => .dir | "h" => .hardlink | _ => .other

def parseRec : String → Recorded
  | "-" => .absent | "!" => .malformed | d => .sum d.toList

def parseEntry (s : String) : Option Entry :=
  match s.splitOn "." with
  | [n, k, b, r] => some { name := unhexS n, kind := parseKind k, body := bytesOfHex b, recorded := parseRec r }
  | _ => none

/-- decompressed bytes a key of TARS stands for -/
def keyBytes (segs : List Seg) (k : String) : Option Bytes :=
  let decOf : Seg → Option Bytes
    | .member _ d _ => some d
    | .garbage _ => none
  let i := (k.drop 1).toNat!
  if k.startsWith "s" then (segs[i]?).bind decOf
  else if k.startsWith "r" then ((segs.drop i).mapM decOf).map List.flatten
  else none

def parseTars (segs : List Seg) (s : String) : List (Bytes × Option (List Entry)) :=
  (splitNE s ",").filterMap fun e =>
    match e.splitOn "=" with
    | [k, w] =>
      (keyBytes segs k).map fun b =>
        (b, if w = "!" then none else some ((splitNE w "|").filterMap parseEntry))
    | _ => none

def mkGz (segs : List Seg) (tars : List (Bytes × Option (List Entry))) : Gz :=
  { member := tableMember (segs.filterMap fun
      | .member c d _ => some (c, d)
      | .garbage _ => none),
    firstName := fun d => segs.findSome? fun
      | .member _ d' f => if d' = d then f else none
      | .garbage _ => none,
    untar := fun t => ((tars.find? (fun p => p.1.length = t.length && p.1 = t)).map (·.2)).getD none,
    pkginfoTar := fun _ => none }

def shaS (b : Bytes) : String := String.ofList (H.sha256 b)

def showErr : SErr → String
  | .sign => "sign" | .stream => "stream" | .count => "count" | .nodata => "nodata" | .index => "index"

/-- `ok signed=<0|1> sig=<hash>/<size>/<sha256 of the file> ctl=… dat=… size=<n> tar=<sha256 of the .tar>/<len>
regen=<sha256 of what PackageData() writes when the .tar is missing> files=<entries TarFS indexes>` -/
def showOut (G : Gz) (o : Out) : String :=
  let part (h : Digest) (n : Nat) (f : Bytes) := String.ofList h ++ "/" ++ toString n ++ "/" ++ shaS f
  let sig := match o.sigFile, o.sigHash with
    | some f, some h => part h o.sigSize f
    | _, _ => "-"
  let regen := match packageData G none o.packageFile with
    | some t => shaS t
    | none => "!"
  "ok signed=" ++ (if o.signed then "1" else "0") ++ " sig=" ++ sig ++
    " ctl=" ++ part o.controlHash o.controlSize o.controlFile ++
    " dat=" ++ part o.packageHash o.packageSize o.packageFile ++
    " size=" ++ toString o.size ++ " tar=" ++ shaS o.tarFile ++ "/" ++ toString o.tarFile.length ++
    " regen=" ++ regen ++ " files=" ++ toString o.files.length

/-- what the format demands of an accepted stream, as the same line -/
def specLine (G : Gz) (src : Bytes) : Option String :=
  match ranges G src with
  | none => none
  | some r =>
    match gunzipAll G r.data with
    | none => none
    | some t =>
      match G.untar t with
      | none => none
      | some es =>
        if !checkSums (libOf G H) es then none else
        let part (h : Digest) (f : Bytes) := String.ofList h ++ "/" ++ toString f.length ++ "/" ++ shaS f
        some ("ok signed=" ++ (if r.sig.isSome then "1" else "0") ++
          " sig=" ++ (match r.sig with | some s => part (H.sha1 s) s | none => "-") ++
          " ctl=" ++ part (H.sha1 r.control) r.control ++ " dat=" ++ part (H.sha256 r.data) r.data ++
          " size=" ++ toString src.length ++ " tar=" ++ shaS t ++ "/" ++ toString t.length ++
          " regen=" ++ shaS t ++ " files=" ++ toString es.length)

def showResolved (r : Resolved) : String :=
  "ok sig=" ++ (match r.sigHash with | some h => String.ofList h ++ "/" ++ toString r.sigSize | none => "-") ++
    " ctl=" ++ String.ofList r.controlHash ++ "/" ++ toString r.controlSize ++
    " dat=" ++ String.ofList r.dataHash ++ "/" ++ toString r.dataSize

def specResolved (G : Gz) (src : Bytes) : Option String :=
  (ranges G src).map fun r =>
    "ok sig=" ++ (match r.sig with | some s => String.ofList (H.sha1 s) ++ "/" ++ toString s.length | none => "-") ++
      " ctl=" ++ String.ofList (H.sha1 r.control) ++ "/" ++ toString r.control.length ++
      " dat=" ++ String.ofList (H.sha256 r.data) ++ "/" ++ toString r.data.length

/-- the oracle on Go's answer: a rejection installs nothing; an acceptance must be the line the format defines -/
def verdict (go : String) (spec : Option String) : String :=
  if !go.startsWith "ok" then "pass"
  else match spec with
    | none => "fail:accepted a stream the format does not define"
    | some l => if go = l then "pass" else "fail:want " ++ l

def handle (args : List String) : Option String :=
  match args with
  | ["split.sha", h] =>
    let b := bytesOfHex h
    let r := String.ofList (H.sha1 b) ++ "," ++ String.ofList (H.sha256 b)
    some (r ++ "\t" ++ r ++ "\t-")
  | ["split.expand", segs, tars, go] =>
    let segs := parseSegs segs
    let G := mkGz segs (parseTars segs tars)
    let src := segs.flatMap Seg.bytes
    let impl := match Impl.expandStream G H (fun _ => 4096) src with
      | .ok o => showOut G o
      | .error e => "err " ++ showErr e
    let v := verdict go (specLine G src)
    -- the one listed way to be accepted against the format: the loop left at the end of the source before the data branch ran
    let cls := match Impl.expandStream G H (fun _ => 4096) src with
      | .ok o => if !o.checked then "F05f" else "unlisted"
      | .error _ => "unlisted"
    some (impl ++ "\t" ++ v ++ "\t" ++ (if v = "pass" then "-" else cls))
  | ["split.resolve", segs, go] =>
    let segs := parseSegs segs
    let G := mkGz segs []
    let src := segs.flatMap Seg.bytes
    let impl := match resolve G H src with
      | .ok r => showResolved r
      | .error _ => "err"
    let v := verdict go (specResolved G src)
    some (impl ++ "\t" ++ v ++ "\t" ++ (if v = "pass" then "-" else "unlisted"))
  | _ => none

end Apko.Driver.Split
