import Apko.Model.Resolver
import Apko.Model.Glue
import Apko.Model.Alias
import Apko.Generated.TransResolver
/-! line-protocol handlers for corr:resolver / multiarch (C02, C14, C08) -/
namespace Apko.Driver.Resolver
open Apko Apko.Resolver

/-- strings travel as `x<hex>`; lists are comma separated, the empty list is the empty field -/
def str (s : String) : Text := unhex (s.toList.drop 1)
def strList (s : String) : List Text := if s.isEmpty then [] else (s.splitOn ",").map str
def enc (t : Text) : String := "x" ++ hexS t

/-- consumes `n` packages (7 fields each) -/
def readPkgs (pin uri : Text) : Nat → Nat → List String → Option (List Pkg × Nat × List String)
  | 0, id, rest => some ([], id, rest)
  | n + 1, id, name :: ver :: origin :: prio :: deps :: provs :: iif :: rest =>
    match readPkgs pin uri n (id + 1) rest with
    | some (ps, id', rest') =>
      some (⟨id, str name, str ver, str origin, uri, pin, prio.toNat!, strList deps, strList provs,
             strList iif⟩ :: ps, id', rest')
    | none => none
  | _, _, _ => none

def readIndexes : Nat → Nat → List String → Option (Universe × Nat × List String)
  | 0, id, rest => some ([], id, rest)
  | n + 1, id, pin :: uri :: np :: rest =>
    match readPkgs (str pin) (str uri) np.toNat! id rest with
    | some (ps, id', rest') =>
      match readIndexes n id' rest' with
      | some (is, id'', rest'') => some (⟨str pin, str uri, ps⟩ :: is, id'', rest'')
      | none => none
    | none => none
  | _, _, _ => none

def readArchs : Nat → List String → Option (List (Text × Universe) × List String)
  | 0, rest => some ([], rest)
  | n + 1, arch :: ni :: rest =>
    match readIndexes ni.toNat! 0 rest with
    | some (u, _, rest') =>
      match readArchs n rest' with
      | some (as, rest'') => some ((str arch, u) :: as, rest'')
      | none => none
    | none => none
  | _, _ => none

def cfgOf (u : Universe) : Cfg :=
  { u := u, order := ownNames u, bothBad := .eq, installIfFixed := true, addedOrder := id }

def showRes : Res Resolution → String
  | .err => "err"
  | .outOfFuel => "out-of-fuel"
  | .ok r => "ok " ++ ",".intercalate (r.install.map fun p => toString p.id) ++ "|" ++
      ",".intercalate (r.conflicts.map enc)

/-- Go's answer `ok id,id,...|...` → packages of the universe (unknown ids map to a dummy foreign pkg) -/
def parseGo (u : Universe) (go : String) : Option (List Pkg) :=
  if go.startsWith "ok " then
    let body := ((go.drop 3).toString.splitOn "|").headD ""
    let ids := if body.isEmpty then [] else (body.splitOn ",").map String.toNat!
    some (ids.map fun i => (u.all.find? (·.id = i)).getD { (default : Pkg) with id := i })
  else none

def describe (t : String × Pkg × Text) : String :=
  s!"{t.1}:{String.ofList t.2.1.name}:{String.ofList t.2.2}"

/-- class of a failed validity check = the first unsound shortcut of the greedy algorithm that fired
in the model's run on this input (ghost flags, see `Model/Resolver.lean`); `unlisted` when none fired:
F02a de-dup by name dropped a package while a different package of that name is kept;
F02b an install_if package was appended (its own dependencies are never resolved, filters bypassed);
F02c the package's own provides skipped a dependency whose operator they do not satisfy;
F02d the `selected` shortcut accepted a dependency the selected package does not satisfy;
F02e the by-name cycle guard skipped the dependencies of a different version of an ancestor. -/
def classOf (flags : List String) : String :=
  match ["F02b", "F02c", "F02d", "F02e", "F02a"].find? (fun f => flags.contains f) with
  | some f => f
  | none => "unlisted"

/-- C14 oracle: every member exists (name, version) on every other architecture -/
def firstUnavailable (archs : List (Text × Universe)) (self : Text) (s : List Pkg) : Option (Pkg × Text) :=
  s.findSome? fun p =>
    (archs.find? fun (a, other) =>
      a != self && !(other.all.any fun q => q.name = p.name && q.version = p.version)).map fun (a, _) => (p, a)

/-- C08 aliasing: what a clone shares with the cached prototype, field by field, derived from the
REGENERATED statement list of `PkgResolver.Clone` (`Generated.aliasCloneStmts`): plain assignment =
the same container; maps.Clone / slices.Clone = another container with the same entries; a new literal
(or a field Clone() does not mention) = another, empty container. `req` = `field:len` of the prototype. -/
def cloneShape (req : String) : String :=
  let tbl := Alias.cloneTable Generated.aliasCloneStmts
  let one (fl : String) : String :=
    let parts := fl.splitOn ":"
    let f := parts.headD ""
    let n := (parts.getD 1 "0").toNat!
    let ents := if n = 0 then "none" else "shared"
    let shape := match tbl.find? (·.1 = f) with
      | some (_, .share) => "same/" ++ ents
      | some (_, .shallow) => "distinct/" ++ ents
      | some (_, .fresh) => "distinct/none"
      | some (_, .other) => "unknown"
      | none => "distinct/none"
    fl ++ ":" ++ shape
  ",".intercalate ((req.splitOn ",").map one)

/-- the property's demand on that shape: every container the resolution path writes into
(`cloneFieldsWritten` over the regenerated write sites) is the clone's own -/
def cloneShapeOk (go : String) : Bool :=
  let e := Alias.env Generated.aliasCloneStmts Generated.aliasReturns
  (Alias.cloneFieldsWritten e Generated.aliasWrites).all fun f =>
    (go.splitOn ",").any fun s => match s.splitOn ":" with
      | [g, _, sh] => g = f && sh.startsWith "distinct/"
      | _ => false

def handleCore (args : List String) : Option String :=
  match args with
  | ["p.alias.shape", req] =>
    let impl := cloneShape req
    if cloneShapeOk impl then some (impl ++ "\t" ++ impl ++ "\t-")
    else some (impl ++ "\twritten-container-not-owned:" ++ impl ++ "\tunlisted")
  | ["p.alias.frame"] =>
    -- `AliasTable.published_immutable_generated` / `clone_view_generated`: the published value never
    -- changes and a clone sees its own stores only — the only admissible answer
    some "consistent\tconsistent\t-"
  | ["p.order"] =>
    -- the resolver cache is keyed by the ORDERED list of index objects (`AliasKey.resolver_key_is_the_argument`,
    -- `keyed_get_transparent`): every order gets the answer of its own fresh state
    some "consistent\tconsistent\t-"
  | ["p.pure"] =>
    -- C08: the model is a pure function of (universe, world); `C08.schedule_independent` and
    -- `history_independent` say the caches cannot change that — the only admissible answer
    some "consistent\tconsistent\t-"
  | ["p.conc"] =>
    -- concurrent FIRST touch of fresh shared index objects: the shared objects are read-only after publication
    -- (`AliasTable.shared_objects_never_written`, `shared_objects_have_no_lazy_fields`), so every interleaving
    -- gives the fresh-state answer (`C08.schedule_independent`) — the only admissible answer
    some "consistent\tconsistent\t-"
  | "r.one" :: con :: self :: narch :: rest =>
    -- ResolvePackage(con, no disqualifications): the accepted candidates as a sorted id list.
    -- Oracle: the verdict on a candidate depends on that candidate alone (`C02.filter_local`), so Go's
    -- answer must contain exactly the candidates of the name that `acceptsOne` accepts.
    match readArchs narch.toNat! rest with
    | some (archs, [go]) =>
      match lookupT archs (str self) with
      | none => some "bad-arch\tfail:bad-arch\tunlisted"
      | some u =>
        let c := cfgOf u
        let pc := parseConstraint (str con)
        let impl := match candidates c (str con) [] with
          | none => "err"
          | some l => "ok " ++ ",".intercalate (((l.map (·.id)).mergeSort (fun a b => decide (a ≤ b))).map toString)
        let pool := if hasName c.u pc.name then c.nm pc.name else []
        let want := pool.filter (acceptsOne [] pc.version pc.dep [] pc.pin none)
        if go = "err" then
          match want with
          | [] => some (impl ++ "\tpass\t-")
          | p :: _ => some (impl ++ "\tfail:rejected:" ++ toString p.id ++ "\tunlisted")
        else if go.startsWith "ok " then
          let body := (go.drop 3).toString
          let ids := if body.isEmpty then [] else (body.splitOn ",").map String.toNat!
          match pool.find? (fun p => ids.contains p.id != acceptsOne [] pc.version pc.dep [] pc.pin none p) with
          | some p => some (impl ++ "\tfail:" ++ (if ids.contains p.id then "accepted:" else "rejected:") ++ toString p.id ++ "\tunlisted")
          | none =>
            match ids.find? (fun i => !(pool.any fun p => p.id = i)) with
            | some i => some (impl ++ "\tfail:foreign:" ++ toString i ++ "\tunlisted")
            | none => some (impl ++ "\tpass\t-")
        else some (impl ++ "\tfail:bad-answer\tunlisted")
    | _ => some "bad-universe\tfail:bad-universe\tunlisted"
  | op :: world :: self :: narch :: rest =>
    if op != "r.resolve" && op != "r.avail" && op != "r.corr" && op != "r.corr-any-err" then none else
    match readArchs narch.toNat! rest with
    | some (archs, [go]) =>
      match lookupT archs (str self) with
      | none => some "bad-arch\tfail:bad-arch\tunlisted"
      | some u =>
        let w := strList world
        let dq0 := disqualifyDifference archs (str self)
        let r := resolve (cfgOf u) w dq0
        let flags := match r with | .ok x => x.flags | _ => []
        -- BuildPackageLists reports no conflicts list and fails as a whole when one architecture fails
        let anyErr := archs.any fun (a, ua) =>
          match resolve (cfgOf ua) w (disqualifyDifference archs a) with | .ok _ => false | _ => true
        let impl :=
          if op = "r.corr-any-err" then (if anyErr then "err" else showRes r)
          else if go.endsWith "|" && (match r with | .ok x => !x.conflicts.isEmpty | _ => false) then
            -- answer without a conflicts list (e2e): compare the install list only
            match r with | .ok x => showRes (.ok { x with conflicts := [] }) | _ => showRes r
          else showRes r
        match parseGo u go with
        | none =>
          -- an error is always an admissible answer; differing answers on repeated runs are not (C08)
          if go.startsWith "nondeterministic" then some (impl ++ "\tfail:nondeterministic\tunlisted")
          else some (impl ++ "\tpass\t-")
        | some s =>
          if op = "r.corr" then some (impl ++ "\tpass\t-")   -- correspondence only (C08)
          else if op = "r.resolve" then
            -- C02 oracle: the verified validator on Go's output
            match firstInvalid u w s with
            | some t => some (impl ++ "\tfail:" ++ describe t ++ "\t" ++ classOf flags)
            | none => some (impl ++ "\tpass\t-")
          else
            -- C14 oracle: availability of every member on every other architecture
            match firstUnavailable archs (str self) s with
            | some (p, a) => some (impl ++ "\tfail:unavailable:" ++ String.ofList p.name ++ "-" ++
                String.ofList p.version ++ ":" ++ String.ofList a ++ "\t" ++
                (if !p.installIf.isEmpty then "F14a" else "unlisted"))
            | none => some (impl ++ "\tpass\t-")
    | _ => some "bad-universe\tfail:bad-universe\tunlisted"
  | _ => none

/-! ### ops `g.resolve` / `g.avail` / `g.corr`: the resolver behind the glue of `pkg/build`

request: op, contents.packages as written, --package-append entries, the repository lines in the order
written, self, then the family (`readArchs`; the indexes of every architecture in the order of the lines),
then Go's answer:
  `ok id,…|conflicts`   Context.BuildPackageList / MultiArch.BuildPackageLists (the latter without conflicts)
  `lk n=v,…`            the per-architecture package list of LockImageConfiguration (pins stripped, sorted)
  `err`                 this architecture failed
  `err*`                the multi-architecture call failed as a whole (admissible iff SOME architecture fails)
  `nondeterministic: …` repeated invocations in one process disagreed
The model resolves `Glue.world` over `Glue.indexesOf`; the oracles judge Go's answer against the entries AS
WRITTEN (C02: every written entry is satisfied …) and against the family (C14). -/

def nameVer (p : Pkg) : Text := p.name ++ ['='] ++ p.version

/-- a lock answer → packages: the model's own member of that name and version if it has one (the lock list
does not say which repository), else the first such package of the universe -/
def parseLock (u : Universe) (model : List Pkg) (go : String) : List Pkg :=
  (strList (go.drop 3).toString).map fun nv =>
    match model.find? (fun p => nameVer p = nv) with
    | some p => p
    | none => (u.all.find? (fun p => nameVer p = nv)).getD { (default : Pkg) with name := nv }

def handleGlue (args : List String) : Option String :=
  match args with
  | op :: pkgsF :: extraF :: linesF :: self :: narch :: rest =>
    if op != "g.resolve" && op != "g.avail" && op != "g.corr" then none else
    match readArchs narch.toNat! rest with
    | some (archs0, [go]) =>
      let lines := strList linesF
      let archs := archs0.map fun (a, u) => (a, Glue.indexesOf lines u)
      match lookupT archs (str self) with
      | none => some "bad-arch\tfail:bad-arch\tunlisted"
      | some u =>
        let written := strList pkgsF ++ strList extraF
        let w := Glue.world (strList pkgsF) (strList extraF)
        -- the answer for the repository state of the request, from scratch (`Glue.freshAnswer`; for a request that
        -- is one round of a history on one MultiArch value, `GlueRounds.round_history_free` says the round model has
        -- no other answer)
        let r := Glue.freshAnswer cfgOf w archs (str self)
        let flags := match r with | .ok x => x.flags | _ => []
        let modelSet := match r with | .ok x => x.install | _ => []
        let anyErr := archs.any fun (a, ua) =>
          match resolve (cfgOf ua) w (disqualifyDifference archs a) with | .ok _ => false | _ => true
        let lock := go.startsWith "lk "
        let impl :=
          if go = "err*" then (if anyErr then "err*" else showRes r)
          else if lock then
            (match r with
             | .ok x => if anyErr then "err*" else "lk " ++ ",".intercalate ((Glue.sortedSet (x.install.map nameVer)).map enc)
             | _ => showRes r)
          else if go.endsWith "|" then
            match r with | .ok x => showRes (.ok { x with conflicts := [] }) | _ => showRes r
          else showRes r
        let goSet : Option (List Pkg) := if lock then some (parseLock u modelSet go) else parseGo u go
        match goSet with
        | none =>
          if go.startsWith "err" then some (impl ++ "\tpass\t-")
          else if go.startsWith "nondeterministic" then some (impl ++ "\tfail:nondeterministic\tunlisted")
          else some (impl ++ "\tfail:bad-answer\tunlisted")
        | some s =>
          if op = "g.corr" then some (impl ++ "\tpass\t-")
          else if op = "g.resolve" then
            match firstInvalid u written s with
            | some t => some (impl ++ "\tfail:" ++ describe t ++ "\t" ++ classOf flags)
            | none => some (impl ++ "\tpass\t-")
          else
            match firstUnavailable archs (str self) s with
            | some (p, a) => some (impl ++ "\tfail:unavailable:" ++ String.ofList p.name ++ "-" ++
                String.ofList p.version ++ ":" ++ String.ofList a ++ "\t" ++
                (if !p.installIf.isEmpty then "F14a" else "unlisted"))
            | none => some (impl ++ "\tpass\t-")
    | _ => some "bad-universe\tfail:bad-universe\tunlisted"
  | _ => none

/-! ### ops `t.*`: the check on the Go → Lean translator (extract/trans.go)

The real Go function and its regenerated translation `Generated.Trans.f` are evaluated on the same input:
`impl` is the translation's answer (Go must equal it, otherwise the translator or its whitelist is wrong),
`spec` is the hand-written model's answer (the function the property theorems are about; equal to the
translation for all inputs by `Proofs/TransResolver.lean` as long as that file checks).
A package travels as `xname:xversion:xorigin:xrepo:xpin:priority:provides`. -/

def readPkg (id : Nat) (s : String) : Option Pkg :=
  match s.splitOn ":" with
  | [name, ver, origin, repo, pin, prio, provs] =>
    some ⟨id, str name, str ver, str origin, str repo, str pin, prio.toNat!, [], strList provs, []⟩
  | _ => none

/-- `existing` travels as `xname:xversion,…` (the comparator reads nothing else of the mapped package) -/
def readExisting (s : String) : List (Text × Pkg) :=
  if s.isEmpty then [] else
  (s.splitOn ",").filterMap fun e =>
    match e.splitOn ":" with
    | [n, v] => some (str n, { (default : Pkg) with name := str n, version := str v })
    | _ => none

def showOB : Option Bool → String
  | none => "panic" | some true => "true" | some false => "false"

def handleTrans (args : List String) : Option String :=
  match args with
  | ["t.cmp", name, pin, existing, origins, cmp, a, b] =>
    match readPkg 0 a, readPkg 1 b with
    | some pa, some pb =>
      let ex := readExisting existing
      let og := strList origins
      let compare : Option Pkg := match cmp.splitOn ":" with
        | [repo, origin] => some { (default : Pkg) with repo := str repo, origin := str origin }
        | _ => none
      let tr := Generated.Trans.comparePackages compare (str name) ex og (str pin) pa pb
      -- the model has no `compare` (every call site passes nil): with one, only the translation is checked
      let model := if compare.isNone then Trans.ordInt (comparePackages .eq (str name) (str pin) ex og pa pb) else tr
      some (toString tr ++ "\t" ++ toString model ++ "\tunlisted")
    | _, _ => some "bad-pkg\tbad-pkg\tunlisted"
  | ["t.gdv", name, a] =>
    match readPkg 0 a with
    | some pa =>
      some (enc (Generated.Trans.getDepVersionForName pa (str name)) ++ "\t" ++
        enc (getDepVersionForName pa (str name)) ++ "\tunlisted")
    | none => some "bad-pkg\tbad-pkg\tunlisted"
  | ["t.cv", con, a] =>
    match readPkg 0 a with
    | some pa =>
      let c := parseConstraint (str con)
      some (showOB (Generated.Trans.conflictingVersion c pa) ++ "\t" ++ showOB (conflictingVersion c pa) ++ "\tunlisted")
    | none => some "bad-pkg\tbad-pkg\tunlisted"
  | "t.fp" :: version :: dep :: allowPin :: preferPin :: inst :: dqF :: pkgsF =>
    -- filterPackages: candidates as further fields, `dqF` the disqualified positions, `inst` a package or empty
    let rec readAll : Nat → List String → Option (List Pkg)
      | _, [] => some []
      | i, f :: fs => match readPkg i f, readAll (i + 1) fs with
        | some p, some ps => some (p :: ps)
        | _, _ => none
    match readAll 0 pkgsF with
    | none => some "bad-pkg\tbad-pkg\tunlisted"
    | some pkgs =>
      let dq := if dqF.isEmpty then [] else (dqF.splitOn ",").map String.toNat!
      let installed : Option Pkg := if inst.isEmpty then none else readPkg 999999 inst
      let d : Dep := match dep.toNat! with
        | 1 => .eq | 2 => .gt | 3 => .lt | 4 => .ge | 5 => .le | 6 => .tilde | _ => .any
      let show_ (l : List Pkg) : String := ",".intercalate (l.map fun p => toString p.id)
      some (show_ (Generated.Trans.filterPackages pkgs dq ⟨str allowPin, str preferPin, str version, installed, d⟩) ++ "\t" ++
        show_ (filterPackages pkgs dq (str version) d (str allowPin) (str preferPin) installed) ++ "\tunlisted")
  | _ => none

def handle (args : List String) : Option String :=
  match args with
  | op :: _ => if op.startsWith "g." then handleGlue args else if op.startsWith "t." then handleTrans args
               else handleCore args
  | [] => none

end Apko.Driver.Resolver
