import Apko.Model.Layers
/-! line-protocol handlers for corr:layers (C10)

  l.group  budget  pkgs  goOut      → impl \t verdict(goOut) \t class
  l.split  groups  walk  goLayers   → impl \t verdict(goLayers) \t class
  l.bytes  …                        → byte-level oracle evaluated by the harness (oracle-go)
  l.e2e    budget buildOnly diff    → end-to-end oracle evaluated by the harness (oracle-go); class only
  l.e2esplit budget pkgs walk goLayers → end to end: verdict of `l.split` with the model's groups of `pkgs`

encodings (strings hex, lists separated by `;`, fields by `,`, sub-lists by `:`):
  pkgs    name,origin,version,size,rep:rep:…;…
  groups  name,name|name,…           (`-` for no group at all)
  walk    path,d|f,mtime,hdr,owner;… (path = hex of the slash-separated name, owner empty = none)
  layers  path,d|f,mtime,hdr;…|…     (`~` for an empty layer)
-/
namespace Apko.Driver.Layers
open Apko Apko.Layers

def splitNE (s : String) (sep : String) : List String :=
  if s.isEmpty then [] else s.splitOn sep

def parsePkg (s : String) : LPkg :=
  match s.splitOn "," with
  | [n, o, v, sz, reps] =>
    ⟨unhexS n, unhexS o, unhexS v, (splitNE reps ":").map unhexS, sz.toNat!⟩
  | _ => default

def parsePkgs (s : String) : List LPkg := (splitNE s ";").map parsePkg

def showGroups (gs : List (List Text)) : String :=
  if gs.isEmpty then "-" else "|".intercalate (gs.map fun g => ",".intercalate (g.map hexS))

def parseGroups (s : String) : List (List Text) :=
  if s = "-" then [] else (s.splitOn "|").map fun g => (splitNE g ",").map unhexS

def showRes : Res (List Grp) → String
  | .ok gs => "ok " ++ showGroups (gs.map fun g => g.pkgs.map (·.name))
  | .err => "err"
  | .panic => "panic"

/-- insertion sort by code points: one more iteration order to try -/
def sortText (l : List Text) : List Text := l.mergeSort (fun a b => decide (a ≤ b))

def rot (l : List Text) : List Text := l.drop (l.length / 2) ++ l.take (l.length / 2)

/-- the model under several choices of the four map orders; they must agree -/
def implGroup (pkgs : List LPkg) (budget : Int) : String :=
  let r0 := groupByOriginAndSize pkgs budget id id id id
  let rs := [groupByOriginAndSize pkgs budget List.reverse List.reverse List.reverse List.reverse,
             groupByOriginAndSize pkgs budget sortText rot List.reverse sortText,
             groupByOriginAndSize pkgs budget rot sortText rot List.reverse]
  if rs.all (· == r0) then showRes r0 else "order-dependent"

def permOf (a b : List Text) : Bool :=
  a.length == b.length && a.all (fun x => a.count x == b.count x) && b.all (fun x => a.contains x)

/-- the property's demands on a grouping, evaluated on what the Go code returned -/
def verdictGroup (pkgs : List LPkg) (budget : Int) (go : String) : String × String :=
  if go = "panic" then ("fail:panic", "unlisted")
  else if go = "err" then
    -- a negative budget (outside the property's quantifier) is rejected; otherwise an error is
    -- legitimate exactly when some replaces entry cannot be evaluated
    (if budget < 0 || replacesError pkgs then "pass" else "fail:spurious-error", "unlisted")
  else if !go.startsWith "ok " then ("fail:unparsable", "unlisted")
  else
    let names := parseGroups (go.drop 3).toString
    let gs : List Grp := names.map fun g =>
      ⟨g.filterMap (fun n => pkgs.find? (·.name = n)), 0, []⟩
    if !(permOf names.flatten (pkgs.map (·.name))) then ("fail:partition", "unlisted")
    else if !(pkgs.all fun a => pkgs.all fun b =>
        !(a.origin = b.origin || replacesEdge pkgs a b) || sameGroup gs a b) then
      ("fail:closure", "unlisted")
    else if budget < 0 then ("fail:negative-budget-accepted", "unlisted")
    else if gs.length > budget.toNat then
      ("fail:count", if budget = 0 && gs.length = 1 then "F10a" else "unlisted")
    else ("pass", "-")

/-! ### split -/

def parsePath (h : String) : Path :=
  (splitOnChar '/' (unhexS h)).filter (fun c => !c.isEmpty)

def showPath (p : Path) : String := hexS (joinWith ['/'] p)

def parseWEntry (s : String) : WEntry :=
  match s.splitOn "," with
  | [p, k, m, h, o] =>
    ⟨⟨parsePath p, k == "d", m.toNat!, h.toNat!⟩, if o.isEmpty then none else some (unhexS o)⟩
  | _ => default

def parseWalk (s : String) : List WEntry := (splitNE s ";").map parseWEntry

def parseEntry (s : String) : Entry :=
  match s.splitOn "," with
  | [p, k, m, h] => ⟨parsePath p, k == "d", m.toNat!, h.toNat!⟩
  | _ => default

def parseLayers (s : String) : List (List Entry) :=
  (s.splitOn "|").map fun l => if l = "~" then [] else (splitNE l ";").map parseEntry

def showEntry (e : Entry) : String :=
  s!"{showPath e.path},{if e.isDir then "d" else "f"},{e.mtime},{e.hdr}"

def showLayers (ls : List (List Entry)) : String :=
  "|".intercalate (ls.map fun l => if l.isEmpty then "~" else ";".intercalate (l.map showEntry))

def implSplit (groups : List (List Text)) (walk : List WEntry) : String :=
  match splitLayers groups walk with
  | none => "panic"
  | some ls => "ok " ++ showLayers ls

def verdictSplit (groups : List (List Text)) (walk : List WEntry) (go : String) : String :=
  if go = "panic" then "fail:panic"
  else if !go.startsWith "ok " then "fail:unparsable"
  else
    let ls := parseLayers (go.drop 3).toString
    let n := groups.length
    let paths := walk.map (·.path)
    if !(decide paths.Nodup && walk.all (fun f => !f.path.isEmpty) && StackOK walk && WellNested walk
          && walk.all (fun f => !f.isDir || f.owner.isNone)) then "fail:walk-assumption"
    else if ls.length != n + 1 then "fail:layer-count"
    else
      let tgt (f : WEntry) : Nat := match f.owner with
        | none => n
        | some p => (layerOfGroups groups p).getD (n + 1)
      if !(walk.all fun f => f.isDir ||
            (List.range (n + 1)).all fun k =>
              ((ls.getD k []).filter (fun e => e.path = f.path)) ==
                (if k = tgt f then [f.toEntry] else [])) then "fail:file-once"
      else if !(ls.all layerWellFormed) then "fail:wellformed"
      else if !(walk.all fun f => !f.isDir || (ls.getD n []).contains f.toEntry) then "fail:top-dirs"
      else if !((paths ++ ls.flatten.map (·.path)).all fun p =>
            lastFor ls.flatten p == lastFor (singleLayer walk) p) then "fail:flatten"
      else "pass"

def handle (args : List String) : Option String :=
  match args with
  | ["l.group", budget, pkgs, go] =>
    let ps := parsePkgs pkgs
    let b := budget.toInt!
    let (v, cls) := verdictGroup ps b go
    some (implGroup ps b ++ "\t" ++ v ++ "\t" ++ cls)
  | ["l.split", groups, walk, go] =>
    let gs := parseGroups groups
    let w := parseWalk walk
    let v := verdictSplit gs w go
    some (implSplit gs w ++ "\t" ++ v ++ "\t" ++ (if v = "pass" then "-" else "unlisted"))
  | "l.bytes" :: _ => some "-\t-\tunlisted"
  -- a whole layered `apko build`: the packages and the owner of every file are read from the installed database of the
  -- image (not from tarfs' side channel), the groups are the model's; the emitted layers must be the split of the
  -- single-layer image along those groups
  | ["l.e2esplit", budget, pkgs, walk, go] =>
    let ps := parsePkgs pkgs
    let w := parseWalk walk
    match groupByOriginAndSize ps budget.toInt! id id id id with
    | .ok gs =>
      let names := gs.map fun g => g.pkgs.map (·.name)
      let v := verdictSplit names w go
      some ("-\t" ++ v ++ "\t" ++ (if v = "pass" then "-" else "unlisted"))
    | _ => some "-\tfail:grouping-error\tunlisted"
  | ["l.e2e", _budget, buildOnly, diff] =>
    -- class F10c: a build-only repository is configured and the only difference between the flattened
    -- multi-layer image and the single-layer image is etc/apk/repositories
    let cls := if buildOnly = "1" && unhexS diff = "etc/apk/repositories".toList then "F10c" else "unlisted"
    some ("-\t-\t" ++ cls)
  | _ => none

end Apko.Driver.Layers
