/-! line-protocol handlers (stub: filled in when the suite is built) -/
namespace Apko.Driver.Sbom

def handle (_args : List String) : Option String := none

end Apko.Driver.Sbom
