import Apko.Model.Sbom
/-!
line-protocol handlers for corr:sbom (C11).

Encoding (all strings hex, so the separators never occur inside them):
  list of strings      `.h,.h,.h`
  package              `id,name,version,alg~val+alg~val`
  relationship         `element,type,related`
  document             `describes|pkg;pkg|rel;rel|lic,text;lic,text`
  sbom directory       `stem=D` (directory) | `stem=J` (unparsable) | `stem=S<document>`, joined by `/`
  result               `ok:<document>` | `err:<kind>`

  s.id    <hex>                                              value mode
  s.rep   <document> <a> <b>                                 value mode (Spec: a = b is a no-op)
  s.copy  <source document> <target document> <todo list>    value mode
  s.gen   <imageDigest> <layers> <vcs> <osVersion> <apks> <sbomdir> <go result>     verdict mode
  s.idx   <alg> <hex> <images alg,hex;…> <vcs> <go result>                          verdict mode
-/
namespace Apko.Driver.Sbom
open Apko Apko.Sbom

def splitL (sep : String) (s : String) : List String := if s.isEmpty then [] else s.splitOn sep

/-- list of strings: every item is `.` followed by hex -/
def parseStrs (s : String) : List Text := (splitL "," s).map fun x => unhexS (x.drop 1).toString

def parsePair (s : String) : Text × Text :=
  match s.splitOn "~" with
  | [a, b] => (unhexS a, unhexS b)
  | _ => ([], [])

def parsePkg (s : String) : Pkg :=
  match s.splitOn "," with
  | [i, n, v, c] => ⟨unhexS i, unhexS n, unhexS v, (splitL "+" c).map parsePair⟩
  | _ => ⟨[], [], [], []⟩

def parseRel (s : String) : Rel :=
  match s.splitOn "," with
  | [e, t, r] => ⟨unhexS e, unhexS t, unhexS r⟩
  | _ => ⟨[], [], []⟩

def parseLic (s : String) : Text × Text :=
  match s.splitOn "," with
  | [a, b] => (unhexS a, unhexS b)
  | _ => ([], [])

def parseDoc (s : String) : Doc :=
  match s.splitOn "|" with
  | [d, p, r, l] =>
    ⟨parseStrs d, (splitL ";" p).map parsePkg, (splitL ";" r).map parseRel,
     (splitL ";" l).map parseLic⟩
  | _ => ⟨[], [], [], []⟩

def showPkg (p : Pkg) : String :=
  s!"{hexS p.id},{hexS p.name},{hexS p.version}," ++
    "+".intercalate (p.checksums.map fun c => s!"{hexS c.1}~{hexS c.2}")

def showDoc (d : Doc) : String :=
  ",".intercalate (d.describes.map fun i => "." ++ hexS i) ++ "|" ++
  ";".intercalate (d.packages.map showPkg) ++ "|" ++
  ";".intercalate (d.rels.map fun r => s!"{hexS r.element},{hexS r.type},{hexS r.related}") ++ "|" ++
  ";".intercalate (d.lics.map fun l => s!"{hexS l.1},{hexS l.2}")

def showErr : Err → String
  | .noLayers => "panic" | .sbomIsDir => "sbom-is-dir" | .missing => "missing-elements"
  | .licConflict => "license-conflict" | .fuel => "model-out-of-fuel" | .noImages => "no-images"

def showRes : Except Err Doc → String
  | .ok d => "ok:" ++ showDoc d
  | .error e => "err:" ++ showErr e

def parseRes (s : String) : Option Doc :=
  if s.startsWith "ok:" then some (parseDoc (s.drop 3).toString) else none

def parseEntry (s : String) : Text × FsEntry :=
  match s.splitOn "=" with
  | [k, v] =>
    (unhexS k, if v = "D" then .dir else if v = "J" then .junk else .doc (parseDoc (v.drop 1).toString))
  | _ => ([], .junk)

def parseApk (s : String) : Apk :=
  match s.splitOn "," with
  | [n, v, c] => ⟨unhexS n, unhexS v, unhexS c⟩
  | _ => ⟨[], [], []⟩

def parseHash (s : String) : Hash :=
  match s.splitOn "," with
  | [a, h] => ⟨unhexS a, unhexS h⟩
  | _ => ⟨[], []⟩

/-- all rearrangements of a short list (the possible Go map iteration orders) -/
def insertAll (x : Id) : List Id → List (List Id)
  | [] => [[x]]
  | y :: ys => (x :: y :: ys) :: (insertAll x ys).map (y :: ·)

def permsAux : List Id → List (List Id)
  | [] => [[]]
  | x :: xs => (permsAux xs).flatMap (insertAll x)

def perms (l : List Id) : List (List Id) := if l.length > 4 then [l, l.reverse] else permsAux l

/-- the target lists with two or more elements that `Generate` will meet (one per apk with such an SBOM) -/
def multiLists (o : Opts) (fs : SbomDir) : List (List Id) :=
  (o.apks.filterMap fun a =>
    match locate fs (sbomStems a.name a.version) with
    | .ok (some (.doc emb)) => let ts := targets emb a.name; if ts.length ≥ 2 then some ts else none
    | _ => none).eraseDups

/-- all ways of choosing one rearrangement per list (capped) -/
def choices : List (List Id) → List (List (List Id × List Id))
  | [] => [[]]
  | l :: rest => ((perms l).flatMap fun p => (choices rest).map fun c => (l, p) :: c).take 64

def ordOf (c : List (List Id × List Id)) (l : List Id) : List Id := (c.lookup l).getD l

def triple (impl spec cls : String) : String := impl ++ "\t" ++ spec ++ "\t" ++ cls

def verdict : Option String → String
  | none => "pass" | some w => "fail:" ++ w

/-- known-finding class of an oracle failure on an image document (decided from the input) -/
def classOf (o : Opts) (fs : SbomDir) (why : Option String) : String :=
  match why with
  | none => "-"
  | some "apk-element" =>
    if idCollision o then "F11a" else if embeddedTarget o fs then "F11c" else "unlisted"
  | some "dangling-reference" =>
    if multiTarget o fs then "F11d" else "unlisted"
  | _ => "unlisted"

def handle (args : List String) : Option String :=
  match args with
  | ["s.id", s] =>
    let t := unhexS s
    let impl := hexS (stringToIdentifier t)
    let spec := hexS (Spec.stringToIdentifier t)
    some <| triple impl spec (if impl = spec then "-" else "unlisted")
  | ["s.rep", d, a, b] =>
    let doc := parseDoc d
    let impl := showDoc (replacePackage doc (unhexS a) (unhexS b))
    -- Spec: replacing an id by itself changes nothing; otherwise the body of the function
    let spec := if a = b then showDoc doc else showDoc (replaceBody doc (unhexS a) (unhexS b))
    some <| triple impl spec (if impl = spec then "-" else "unlisted")
  | ["s.copy", src, tgt, todo] =>
    let r := showRes (copyElements (parseDoc src) (parseDoc tgt) (parseStrs todo))
    some <| triple r r "-"
  | ["s.gen", dig, layers, vcs, osv, apks, fsS, goRes] =>
    let o : Opts := ⟨unhexS dig, parseStrs layers, unhexS vcs, unhexS osv,
                     (splitL ";" apks).map parseApk⟩
    let fs : SbomDir := (splitL "/" fsS).map parseEntry
    -- Go ranges over a map of target ids: every assignment of an order to each multi-target list is possible
    let cands := (choices (multiLists o fs)).map fun c => showRes (generate o fs (ordOf c))
    let impl := if cands.contains goRes then goRes else cands.headD ""
    let why := match parseRes goRes with
      | some d => oracle o fs d
      | none => none     -- an error is reported, no document is emitted
    some <| triple impl (verdict why) (classOf o fs why)
  | ["s.idx", alg, hx, images, vcs, goRes] =>
    let o : IndexOpts := ⟨⟨unhexS alg, unhexS hx⟩, (splitL ";" images).map parseHash, unhexS vcs⟩
    let impl := showRes (generateIndex o)
    let why := match parseRes goRes with
      | some d => indexOracle o d
      | none => none
    some <| triple impl (verdict why) (if why.isNone then "-" else "unlisted")
  | _ => none

end Apko.Driver.Sbom
