import Apko.Model.Version
import Apko.Generated.TransVersion
/-! line-protocol handlers for corr:version -/
namespace Apko.Driver.Version
open Apko

def showVersion : Option Apko.Version → String
  | none => "err"
  | some v => s!"ok {v.numbers}|{v.letter}|{v.pre}|{v.preNum}|{v.post}|{v.postNum}|{v.rev}"

def showOrd : Ordering → String
  | .lt => "lt" | .eq => "eq" | .gt => "gt"

def showOB : Option Bool → String
  | none => "err" | some true => "true" | some false => "false"

def triple (impl spec : String) (cls : String) : String :=
  impl ++ "\t" ++ spec ++ "\t" ++ (if impl = spec then "-" else cls)

/-- a numeric field ≥ 2^63 is the only listed reason for Impl and Spec to differ on parsing -/
def bigField (s : Text) : Bool :=
  match recognise s with
  | some r => !(r.fields.all fun f => digitsToNat f ≤ maxInt)
  | none => false

def handle (args : List String) : Option String :=
  match args with
  | ["v.parse", s] =>
    let t := unhexS s
    some <| triple (showVersion (Impl.parseVersion t)) (showVersion (Spec.parseVersion t)) "F03a"
  | ["v.cmp", a, b] =>
    let ta := unhexS a; let tb := unhexS b
    let impl := match Impl.parseVersion ta, Impl.parseVersion tb with
      | some x, some y => showOrd (compareVersions x y) | _, _ => "err"
    let spec := match Spec.parseVersion ta, Spec.parseVersion tb with
      | some x, some y => showOrd (Spec.compareVersions x y) | _, _ => "err"
    some <| triple impl spec (if bigField ta || bigField tb then "F03a" else "unlisted")
  | ["v.con", c] =>
    let p := parseConstraint (unhexS c)
    let out := s!"{hexS p.name}|{hexS p.version}|{p.dep.toNat}|{hexS p.pin}"
    some <| triple out out "-"
  | ["v.sat", c, v] =>
    let p := parseConstraint (unhexS c)
    let tv := unhexS v
    let impl := match Impl.parseVersion tv with
      | none => "verr"
      | some x => showOB (p.satisfiedBy Impl.parseVersion x)
    let spec := match Spec.parseVersion tv with
      | none => "verr"
      | some x =>
        if p.version.isEmpty then "true" else
        match Spec.parseVersion p.version with
        | none => "err"
        | some pv => showOB (some (Spec.satisfies p.dep x pv))
    some <| triple impl spec (if bigField tv || bigField p.version then "F03a" else "unlisted")
  | ["v.res2", c, v] =>
    -- several candidates / an already selected candidate (see vResolveTwins in the harness): two providers with one
    -- package version provide the name at the candidate version and at the REQUIRED version: the dependency resolves
    -- iff the constraint accepts one of the two; an already selected candidate is accepted iff the constraint accepts it
    let p := parseConstraint (unhexS c)
    let tv := unhexS v
    let prov (t : Text) : Text := (parseConstraint (p.name ++ ['='] ++ t)).version
    let okOf (s : String) : String := if s == "true" then "ok" else "err"
    let implOn (t : Text) : String := match Impl.parseVersion t with
      | none => "err"
      | some x => okOf (showOB (p.satisfiedBy Impl.parseVersion x))
    let specOn (t : Text) : String := match Spec.parseVersion t with
      | none => "err"
      | some x =>
        match Spec.parseVersion p.version with
        | none => "err"
        | some pv => okOf (showOB (some (Spec.satisfies p.dep x pv)))
    let either (a b : String) : String := if a == "ok" || b == "ok" then "ok" else "err"
    -- candidates accepted by ResolvePackage among the twins (ids in listing order), "err" when none
    let cands (a b : String) : String :=
      match a == "ok", b == "ok" with
      | true, true => "ok 0,1" | true, false => "ok 0" | false, true => "ok 1" | false, false => "err"
    -- (filterPackages looks at the candidate's OWN package version first — the twins' is 1.0-r0 — and at its provided
    -- versions only when that fails; on the full resolution path constrain() has already removed such candidates)
    let own : Text := "1.0-r0".toList
    let fmt (o pv pr s : String) : String :=
      s!"t={either pv pr},{either pv pr};s={s};c={cands (either o pv) (either o pr)}/{cands (either o pr) (either o pv)}"
    some <| triple (fmt (implOn own) (implOn (prov tv)) (implOn (prov p.version)) (implOn tv))
      (fmt (specOn own) (specOn (prov tv)) (specOn (prov p.version)) (specOn tv))
      (if bigField tv || bigField p.version then "F03a" else "unlisted")
  | ["v.res", c, v] =>
    -- the resolver accepts the only candidate iff the constraint accepts its version. Three universes (see the
    -- harness): a world entry, a dependency on the name, a dependency on a name the candidate PROVIDES as `n=v`
    -- (the provided version is what the constraint splitter makes of that text: `so:` names get their `0.` prefix).
    -- An operator the splitter does not know, as in `a<>1`, leaves "no operator": the resolver's filter then accepts
    -- every candidate without looking at the version text (SatisfiedBy would try to parse it).
    let p := parseConstraint (unhexS c)
    let tv := unhexS v
    let pvText := (parseConstraint (p.name ++ ['='] ++ tv)).version
    let okOf (s : String) : String := if s == "true" then "ok" else "err"
    let implOn (t : Text) : String := match Impl.parseVersion t with
      | none => "err"
      | some x => if p.dep.toNat == 0 then "ok" else okOf (showOB (p.satisfiedBy Impl.parseVersion x))
    let specOn (t : Text) : String := match Spec.parseVersion t with
      | none => "err"
      | some x =>
        if p.version.isEmpty || p.dep.toNat == 0 then "ok" else
        match Spec.parseVersion p.version with
        | none => "err"
        | some pv => okOf (showOB (some (Spec.satisfies p.dep x pv)))
    let join (w pv : String) : String := if w == pv then w else s!"world={w},dep={w},provided={pv}"
    some <| triple (join (implOn tv) (implOn pvText)) (join (specOn tv) (specOn pvText))
      (if bigField tv || bigField p.version then "F03a" else "unlisted")
  | ["tv.cmp", a, b] =>
    -- the check on the translator: Go's CompareVersions against its regenerated translation (impl) and the model (spec)
    let ta := unhexS a; let tb := unhexS b
    let showI (i : Int) : String := if i = -1 then "lt" else if i = 0 then "eq" else if i = 1 then "gt" else "other"
    match Impl.parseVersion ta, Impl.parseVersion tb with
    | some x, some y => some (showI (Generated.Trans.compareVersionsGo x y) ++ "\t" ++ showOrd (compareVersions x y) ++ "\tunlisted")
    | _, _ => some "err\terr\t-"
  | ["tv.sat", c, v] =>
    -- the check on the Go → Lean translator: Go's SatisfiedBy against the regenerated translation of
    -- `ParsedConstraint.SatisfiedBy` (which calls the translated `satisfies` / `CompareVersions` / `includesVersion`)
    -- as impl and against the hand-written model as spec; see Proofs/TransVersion.lean
    let p := parseConstraint (unhexS c)
    match Impl.parseVersion (unhexS v) with
    | none => some "verr\tverr\t-"
    | some x => some (showOB (Generated.Trans.satisfiedBy p x) ++ "\t" ++ showOB (p.satisfiedBy Impl.parseVersion x) ++ "\tunlisted")
  | _ => none

end Apko.Driver.Version
