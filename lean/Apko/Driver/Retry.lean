import Apko.Model.Retry
/-! line-protocol handlers for corr:retry (C20)

`retry.run \t kind \t data(hex) \t script \t ops \t go-trace`
  kind   = h | i | e
  script = conns separated by `;`, a conn = `fail,status,page(hex),nobody,cut,ending,eager,chunks`
           (status / cut: `-` or a number; ending: c | w | f; chunks: numbers separated by `.`)
  ops    = `r<m>` | `c`, separated by `,`
  trace  = `<open>;<events separated by blanks>`: open = E | P<code> | I<code>;
           events = q- | q<p> | b<o|e|w|f> | r<hex>:<o|e|x> | c
answers `impl-trace \t pass|fail:<why> \t class` — the Impl model's trace for the same case, and the
Spec checker evaluated on the trace of the real code (with the script: the k-th request is answered by
the k-th connection, and the `eof_complete` clause is waived only while the current connection has a
clean early end the reader cannot see).

`retry.selftest \t data(hex) \t trace` and `retry.selftest \t kind \t data(hex) \t script \t trace`
answer the checker's verdict on a hand-written trace (without / with a script).
-/
namespace Apko.Driver.Retry
open Apko Apko.Retry

def parseKind : String → Option Kind
  | "h" => some .honours | "i" => some .ignores | "e" => some .errorsOnResume | _ => none

def optNat (s : String) : Option (Option Nat) :=
  if s = "-" then some none else s.toNat?.map some

def parseBool : String → Option Bool
  | "0" => some false | "1" => some true | _ => none

def parseEnd : String → Option End
  | "c" => some .clean | "w" => some .wrapped | "f" => some .fault | _ => none

def parseChunks (s : String) : Option (List Nat) :=
  if s.isEmpty then some [] else (s.splitOn ".").mapM (·.toNat?)

def parseConn (s : String) : Option Conn :=
  match s.splitOn "," with
  | [f, st, pg, nb, cut, en, eg, ch] => do
    let f ← parseBool f
    let st ← optNat st
    let nb ← parseBool nb
    let cut ← optNat cut
    let en ← parseEnd en
    let eg ← parseBool eg
    let ch ← parseChunks ch
    pure ⟨f, st, unhexS pg, nb, cut, en, ch, eg⟩
  | _ => none

def parseScript (s : String) : Option (List Conn) :=
  if s.isEmpty then some [] else (s.splitOn ";").mapM parseConn

def parseOp (s : String) : Option Op :=
  if s = "c" then some .close
  else if s.startsWith "r" then (s.drop 1).toNat?.map .read
  else none

def parseOps (s : String) : Option (List Op) :=
  if s.isEmpty then some [] else (s.splitOn ",").mapM parseOp

def showRes : Res → String
  | .ok => "o" | .eof => "e" | .weof => "w" | .fault => "f"

/-- what the consumer can tell apart: nil, io.EOF, anything else -/
def showResult : Res → String
  | .ok => "o" | .eof => "e" | _ => "x"

def showEvent : Event → String
  | .req none => "q-"
  | .req (some p) => s!"q{p}"
  | .body res => "b" ++ showRes res
  | .result out res => "r" ++ hexS out ++ ":" ++ showResult res
  | .close => "c"

def showOutcome : Outcome → String
  | .error _ => "E" | .passthrough c => s!"P{c}" | .installed c => s!"I{c}"

def showTrace (o : Outcome) (log : List Event) : String :=
  showOutcome o ++ ";" ++ " ".intercalate (log.map showEvent)

def parseRes : String → Option Res
  | "o" => some .ok | "e" => some .eof | "w" => some .weof | "f" => some .fault | "x" => some .fault | _ => none

def parseEvent (s : String) : Option Event :=
  if s = "c" then some .close
  else if s = "q-" then some (.req none)
  else if s.startsWith "q" then (s.drop 1).toNat?.map (fun p => .req (some p))
  else if s.startsWith "b" then (parseRes (s.drop 1).toString).map .body
  else if s.startsWith "r" then
    match (s.drop 1).toString.splitOn ":" with
    | [h, c] => (parseRes c).map (.result (unhexS h))
    | _ => none
  else none

def parseOutcome (s : String) : Option Outcome :=
  if s = "E" then some (.error .fault)
  else if s.startsWith "P" then (s.drop 1).toNat?.map .passthrough
  else if s.startsWith "I" then (s.drop 1).toNat?.map .installed
  else none

def parseTrace (s : String) : Option (Outcome × List Event) :=
  match s.splitOn ";" with
  | [o, evs] => do
    let o ← parseOutcome o
    let evs ← if evs.isEmpty then some [] else (evs.splitOn " ").mapM parseEvent
    pure (o, evs)
  | _ => none

/-- first event at which the checker rejects, for the failure message -/
def firstReject (data : Text) (k : Kind) : Spec.St → List Event → Nat → Option (Nat × Event)
  | _, [], _ => none
  | s, e :: es, i =>
    match Spec.stepEvent data k s e with
    | none => some (i, e)
    | some s' => firstReject data k s' es (i + 1)

/-- the Spec checker on the trace of the real code.  The script takes part: the k-th request is
answered by the k-th connection, and the `eof_complete` clause is waived only while the current
connection has a clean early end the reader cannot see. -/
def verdict (data : Text) (k : Kind) (script : List Conn) (goTrace : String) : String :=
  match parseTrace goTrace with
  | none => "fail:unparsable-trace"
  | some (o, evs) =>
    if !Spec.acceptsOpen data o then "fail:200-without-body-for-nonempty-file"
    else match firstReject data k (Spec.init script) evs 0 with
      | none => "pass"
      | some (i, e) => s!"fail:event-{i}-{showEvent e}"

def handle (args : List String) : Option String :=
  match args with
  | ["retry.run", k, d, sc, ops, goTrace] =>
    let data := unhexS d
    match parseKind k, parseScript sc, parseOps ops with
    | some k, some sc, some ops =>
      let (o, r) := run Cfg.generated data k sc ops
      let v := verdict data k sc goTrace
      some <| showTrace o r.log ++ "\t" ++ v ++ "\t" ++ (if v = "pass" then "-" else "unlisted")
    | _, _, _ => some "bad-case\tfail:bad-case\tunlisted"
  -- self-test of the oracle: the Spec checker's verdict on a hand-written (possibly tampered) trace;
  -- the short form has no script (every request fails to connect: nothing is waived)
  | ["retry.selftest", d, goTrace] =>
    let v := verdict (unhexS d) .honours [] goTrace
    some <| v ++ "\t" ++ v ++ "\t-"
  | ["retry.selftest", k, d, sc, goTrace] =>
    let v := match parseKind k, parseScript sc with
      | some k, some sc => verdict (unhexS d) k sc goTrace
      | _, _ => "fail:bad-case"
    some <| v ++ "\t" ++ v ++ "\t-"
  -- end-to-end steps through FetchPackage / fetchRepositoryIndex: the verdict is computed by the harness
  | ["retry.e2e", _] => some "-\t-\tunlisted"
  | _ => none

end Apko.Driver.Retry
