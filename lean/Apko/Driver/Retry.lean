/-! line-protocol handlers (stub: filled in when the suite is built) -/
namespace Apko.Driver.Retry

def handle (_args : List String) : Option String := none

end Apko.Driver.Retry
