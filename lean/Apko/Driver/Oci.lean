import Apko.Model.Oci
import Apko.Model.OciCreated
/-! line-protocol handlers for corr:oci (C12).

Encoding: a text is hex; a list is a comma separated sequence of `x<hex>` items (so that the empty
text and the empty list differ); a pair is `x<hexkey>:<hexvalue>`; an entry is `x<hexname>:<size>`. -/
namespace Apko.Driver.Oci
open Apko Apko.Oci

def items (s : String) : List Text :=
  ((splitOnChar ',' s.toList).filter (· ≠ [])).map (·.drop 1)

def parseList (s : String) : List Text := (items s).map unhex

def parsePairs (s : String) : List (Text × Text) :=
  (items s).map fun it =>
    match splitOnChar ':' it with
    | [k, v] => (unhex k, unhex v)
    | _ => (unhex it, [])

def parseEntries (s : String) : List Entry :=
  (items s).map fun it =>
    match splitOnChar ':' it with
    | [n, sz] => ⟨unhex n, digitsToNat sz⟩
    | _ => ⟨unhex it, 0⟩

def joinS (sep : String) (l : List String) : String := sep.intercalate l

def showList (l : List Text) : String := joinS "," (l.map fun t => "x" ++ hexS t)
def showPairs (l : List (Text × Text)) : String := joinS "," (l.map fun p => "x" ++ hexS p.1 ++ ":" ++ hexS p.2)
def showEntries (l : List Entry) : String := joinS "," (l.map fun e => "x" ++ hexS e.name ++ ":" ++ toString e.size)

def showBlock : Block → String
  | .hdr n s => "H" ++ hexS n ++ ":" ++ toString s
  | .data => "D"
  | .zero => "Z"

def showBlocks : Option (List Block) → String
  | none => "fail"
  | some bs => joinS "," (bs.map showBlock)

def parseBlocks (s : String) : List Block :=
  ((splitOnChar ',' s.toList).filter (· ≠ [])).map fun it =>
    match it with
    | 'H' :: rest =>
      (match splitOnChar ':' rest with
       | [n, sz] => .hdr (unhex n) (digitsToNat sz)
       | _ => .data)
    | ['Z'] => .zero
    | _ => .data

def showConfig (o : OciConfig) : String :=
  joinS "|" [showList o.entrypoint, showList o.cmd, hexS o.workingDir, hexS o.stopSignal, hexS o.user,
    showList o.volumes, showList o.env, showPairs o.labels, hexS o.author, hexS o.os, hexS o.created,
    hexS o.architecture, hexS o.variant]

/-- shlex as observed on the Go side: `err` or `ok` followed by the token list -/
def parseShlex (s : String) : Option (List Text) :=
  match s.toList with
  | 'o' :: 'k' :: ':' :: rest => some (parseList (String.ofList rest))
  | _ => none

def triple (impl spec cls : String) : String := impl ++ "\t" ++ spec ++ "\t" ++ cls

/-- manifests: `x<hexarch>:<hexvariant>:<id>` -/
def parseManifests (s : String) : List (Platform × Nat) :=
  (items s).map fun it =>
    match splitOnChar ':' it with
    | [a, v, i] => (⟨unhex a, unhex v⟩, digitsToNat i)
    | _ => (⟨[], []⟩, 0)

def showManifests (l : List (Nat × Platform)) : String :=
  joinS "," (l.map fun e => "x" ++ hexS e.2.arch ++ ":" ++ hexS e.2.variant ++ ":" ++ toString e.1)

/-- tag map: `x<hextag>:<id>` sorted by tag -/
def parseTagMap (s : String) : List (Text × Nat) :=
  (items s).map fun it =>
    match splitOnChar ':' it with
    | [t, i] => (unhex t, digitsToNat i)
    | _ => ([], 0)

def showTagMap (m : List (Text × Nat)) : String :=
  joinS "," ((m.mergeSort leKey).map fun p => "x" ++ hexS p.1 ++ ":" ++ toString p.2)

def parseArchImgs (s : String) : List (Text × Nat) := parseTagMap s

def mkCfg (aEpShell aEpCmd aCmd aWorkdir aStop aVcs aRunAs aVolumes aEnv aAnn : String) : ImageCfg where
  epShell := unhexS aEpShell
  epCmd := unhexS aEpCmd
  cmd := unhexS aCmd
  workdir := unhexS aWorkdir
  stopSignal := unhexS aStop
  vcsUrl := unhexS aVcs
  runAs := unhexS aRunAs
  volumes := parseList aVolumes
  env := parsePairs aEnv
  annotations := parsePairs aAnn

def mkOut (gEp gCmd gWd gSig gUser gVol gEnv gLabels gAuthor gOs gCreated gArch gVariant : String) : OciConfig where
  entrypoint := parseList gEp
  cmd := parseList gCmd
  workingDir := unhexS gWd
  stopSignal := unhexS gSig
  user := unhexS gUser
  volumes := parseList gVol
  env := parseList gEnv
  labels := parsePairs gLabels
  author := unhexS gAuthor
  os := unhexS gOs
  created := unhexS gCreated
  architecture := unhexS gArch
  variant := unhexS gVariant

/-- images: `x<hexcfg>:<cfgsize>:<hexlayer>=<size>;…` -/
def parseImgs (s : String) : List Img :=
  (items s).map fun it =>
    match splitOnChar ':' it with
    | [c, sz, ls] =>
      { cfgName := unhex c, cfgSize := digitsToNat sz,
        layers := ((splitOnChar ';' ls).filter (· ≠ [])).map fun l =>
          match splitOnChar '=' l with
          | [n, z] => (unhex n, digitsToNat z)
          | _ => (unhex l, 0) }
    | _ => { cfgName := [], cfgSize := 0, layers := [] }

/-- answer for one emitted image config: Impl's config, the oracle's verdict on Go's, class -/
def configAnswer (ic : ImageCfg) (shEp shCmd created arch
    gEp gCmd gWd gSig gUser gVol gEnv gLabels gAuthor gOs gCreated gArch gVariant : String) : String :=
  let shlex : Text → Option (List Text) := fun s =>
    if s = ic.epCmd then parseShlex shEp else if s = ic.cmd then parseShlex shCmd else none
  let shlex : Text → Option (List Text) := fun s =>
    -- when both strings are equal the two observations agree (shlex is a function)
    if s = ic.cmd ∧ s ≠ ic.epCmd then parseShlex shCmd else shlex s
  let cr := unhexS created; let ar := unhexS arch
  let impl := match Impl.buildConfig shlex ic cr ar with
    | some o => showConfig o
    | none => "err"
  let spec :=
    if gEp = "err" then
      (if Impl.buildConfig shlex ic cr ar = none then "pass" else "fail:unexpected-error")
    else
      let o : OciConfig := mkOut gEp gCmd gWd gSig gUser gVol gEnv gLabels gAuthor gOs gCreated gArch gVariant
      if Impl.buildConfig shlex ic cr ar = none then "fail:error-expected"
      else Spec.configVerdict shlex ic cr ar o
  triple impl spec (if spec = "pass" then "-" else "unlisted")


/-! creation time of a whole build (`oci.created-e2e`) -/

def parseInt (t : Text) : Int :=
  match t with
  | '-' :: r => -(digitsToNat r : Int)
  | _ => (digitsToNat t : Int)

def parseInts (t : Text) : List Int := ((splitOnChar ',' t).filter (· ≠ [])).map parseInt

def parseEnv (state sde : String) : OciCreated.Env :=
  if state = "set" then .value (parseInt sde.toList)
  else if state = "blank" then .blank
  else if state = "malformed" then .malformed
  else .unset

/-- per architecture `<pkg dates>:<time fields>`, separated by `;` -/
def parseCreatedImgs (s : String) : List (List Int × List Int) :=
  ((splitOnChar ';' s.toList).filter (· ≠ [])).map fun it =>
    match splitOnChar ':' it with
    | [p, t] => (parseInts p, parseInts t)
    | _ => ([], [])

def showOptInt : Option Int → String
  | some n => toString n
  | none => "err"

/-- Impl's rendering: one time per architecture, then the index; Go renders the DISTINCT times it read back -/
def createdAnswer (env : OciCreated.Env) (opt : Int) (imgs : List (List Int × List Int)) (gErr : Bool) (idx : Option Int) : String :=
  let implImgs := imgs.map fun a => OciCreated.Impl.imageCreated env opt a.1
  let implIdx := OciCreated.Impl.indexCreated env opt (imgs.map (·.1))
  let impl := if implIdx = none then "err" else joinS ";" (implImgs.map showOptInt) ++ "|" ++ showOptInt implIdx
  let specFails := OciCreated.Spec.indexCreated env opt (imgs.map (·.1)) = none
  let spec :=
    if gErr then (if specFails then "pass" else "fail:unexpected-error")
    else if specFails then "fail:error-expected"
    else OciCreated.Spec.createdVerdict env opt imgs idx
  let cls := if spec = "pass" then "-" else "unlisted"
  triple impl spec cls

def handle (args : List String) : Option String :=
  match args with
  | ["oci.arch", s] =>
    let t := unhexS s
    let p := toOCIPlatform t
    let out := joinS "|" [hexS (parseArch t), hexS (toAPK t), hexS p.arch, hexS p.variant]
    let q := Spec.platformOf t
    let spec := joinS "|" [hexS (Spec.canonArch t), hexS (Spec.toAPK t), hexS q.arch, hexS q.variant]
    some <| triple out spec (if out = spec then "-" else "unlisted")
  | ["oci.offset", pos, size] =>
    let p := pos.toNat!; let s := size.toNat!
    let impl := toString (Impl.newOffset p s)
    let spec := toString (Spec.nextBoundary (p + s))
    some <| triple impl spec (if impl = spec then "-" else if (p + s) % 512 = 0 then "F12a" else "unlisted")
  | ["oci.bundle", imgs, appended] =>
    let is := parseEntries imgs; let aps := parseEntries appended
    let impl := showBlocks (Impl.bundle is aps)
    let spec := showBlocks (Spec.bundle is aps)
    let cls := if impl = spec then "-" else
      match is.getLast? with
      | some e => if e.size % 512 = 0 then "F12a" else "unlisted"
      | none => "unlisted"
    some <| triple impl spec cls
  | ["oci.multiwrite", imgs, msize] =>
    let out := showEntries (multiWrite (parseImgs imgs) msize.toNat!)
    some <| triple out out "-"
  | ["oci.read", blocks] =>
    let out := match readArchive (parseBlocks blocks) with
      | some es => "ok " ++ showEntries es
      | none => "err"
    some <| triple out out "-"
  | ["oci.tags", tags, manifests, goMap] =>
    let ts := parseList tags
    let ms := parseManifests manifests
    let impl := showTagMap (tagsToImages Impl.archSuffix ts ms)
    let bundled := (parseTagMap goMap).map (·.2)
    let spec := if decide (Spec.BundleComplete ms bundled) then "pass" else "fail:image-missing-from-bundle"
    -- listed class F12b: two manifests with different images share the architecture-only suffix
    let collide := ms.any fun m => ms.any fun m' => m.2 ≠ m'.2 && pinnedArchSuffix m.1 == pinnedArchSuffix m'.1
    some <| triple impl spec (if spec = "pass" then "-" else if collide then "F12b" else "unlisted")
  | ["oci.index", archs, goEntries] =>
    let imgs := parseArchImgs archs
    let impl := showManifests (Impl.indexEntries imgs)
    let go := (parseManifests goEntries).map fun m => (m.2, m.1)
    let spec := if decide (Spec.IndexOk imgs go) then "pass" else "fail:index-entries"
    some <| triple impl spec (if spec = "pass" then "-" else "unlisted")
  | ["oci.config", aEpShell, aEpCmd, aCmd, aWorkdir, aStop, aVcs, aRunAs, aVolumes, aEnv, aAnn,
      shEp, shCmd, created, arch,
      gEp, gCmd, gWd, gSig, gUser, gVol, gEnv, gLabels, gAuthor, gOs, gCreated, gArch, gVariant] =>
    let ic : ImageCfg := mkCfg aEpShell aEpCmd aCmd aWorkdir aStop aVcs aRunAs aVolumes aEnv aAnn
    some <| configAnswer ic shEp shCmd created arch
      gEp gCmd gWd gSig gUser gVol gEnv gLabels gAuthor gOs gCreated gArch gVariant
  -- a whole `apko build`: the configuration as written plus what the build resolves it against (entrypoint type,
  -- name/uid pairs of the image's own /etc/passwd); `shEp` is shlex observed on the resolved command
  | ["oci.config-e2e", epType, passwd, aEpShell, aEpCmd, aCmd, aWorkdir, aStop, aVcs, aRunAs, aVolumes, aEnv, aAnn,
      shEp, shCmd, created, arch,
      gEp, gCmd, gWd, gSig, gUser, gVol, gEnv, gLabels, gAuthor, gOs, gCreated, gArch, gVariant] =>
    let ic0 : ImageCfg := mkCfg aEpShell aEpCmd aCmd aWorkdir aStop aVcs aRunAs aVolumes aEnv aAnn
    let ic := Spec.resolveCfg (unhexS epType) (parsePairs passwd) ic0
    some <| configAnswer ic shEp shCmd created arch
      gEp gCmd gWd gSig gUser gVol gEnv gLabels gAuthor gOs gCreated gArch gVariant
  | ["oci.created-e2e", state, sde, opt, imgs, idx] =>
    let gErr := imgs = "err"
    some <| createdAnswer (parseEnv state sde) (parseInt opt.toList) (if gErr then [] else parseCreatedImgs imgs) gErr
      (if idx = "-" then none else some (parseInt idx.toList))
  | "oci.e2e-wf" :: _ => some "-\t-\tunlisted"  -- byte-level end-to-end oracles are evaluated by the harness
  | _ => none

end Apko.Driver.Oci
