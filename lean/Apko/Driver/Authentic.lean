import Apko.Model.Authentic
/-!
line-protocol handlers for corr:authentic (C05)

Byte strings are tokens (`[id]`); the library functions are tables carried by the request:
  H  = `id:sha1:sha256,…`            digests of every token (lower-case hex text, as Go computed them)
  C  = `id:<hex .PKGINFO>,…`          control tokens whose .PKGINFO can be read
  D  = `id:entry|entry…,…`            data tokens that gunzip+untar; entry = `<hexname>.<kind>.<bodyid>.<rec>`,
                                      kind r|s|d|h|o, rec `-` absent, `!` malformed, else the digest text
  OPS = op;op;…   op = `<l|b>@<0|1>@pkg+pkg…`   pkg = `<hexkey>.<exp>.<fetched>`,
                                      exp `!` undecodable, `~<digest>` bare base64 (no `Q1` prefix), else digest text, fetched `-` or `<sig|->:<ctl>:<dat>`
  round 2: entry may carry two more fields `.<hexlink>.<hextartarget>`; pkg a fourth field `.<hex checksum string>`
  (default: the `exp` text); op a fourth field `@f` (fresh process, default) or `@s` (same process as the previous op)
  round 5: pkg a fifth field `.<fetched>/<fetched>…`: the answers to the later GETs of the URL within the operation
  (`-` refused, `~` a body that does not split into members)
Requests: `auth.verdict H C D OPS k`  → Impl verdict of op k, Spec verdict, class
          `auth.installed H C D OPS k` → control checksums that a successful build records (Impl) / the expected ones (Spec)
          `auth.files   H C D OPS k`  → `<hexname>=<body token>` of every regular file the build lays out: what it serves
                                      (Impl) / the body its per-file record was checked against (Spec)
          `auth.cache   H C D OPS k`  → advertised cache names after op k (Impl only)
          `auth.class   H C D OPS k`  → `-`, `-`, class (for the byte-level oracle evaluated by the harness)
          `auth.datahash <hex .PKGINFO>` → `(*APK).datahash`
-/
namespace Apko.Driver.Authentic
open Apko Apko.Authentic

def splitNE (s : String) (sep : String) : List String := if s.isEmpty then [] else s.splitOn sep

def tok (s : String) : Bytes := [s.toNat!]

def parseH (s : String) : List (Nat × Text × Text) :=
  (splitNE s ",").filterMap fun e =>
    match e.splitOn ":" with
    | [i, a, b] => some (i.toNat!, a.toList, b.toList)
    | _ => none

def parseC (s : String) : List (Nat × Text) :=
  (splitNE s ",").filterMap fun e =>
    match e.splitOn ":" with
    | [i, h] => some (i.toNat!, unhexS h)
    | _ => none

def parseKind : String → Kind
  | "r" => .reg | "s" => .symlink | "d" => .dir | "h" => .hardlink | _ => .other

def parseRec : String → Recorded
  | "-" => .absent | "!" => .malformed | d => .sum d.toList

def parseEntry (s : String) : Option Entry :=
  match s.splitOn "." with
  | [n, k, b, r] => some { name := unhexS n, kind := parseKind k, body := tok b, recorded := parseRec r }
  | [n, k, b, r, l, t] =>
    some { name := unhexS n, kind := parseKind k, body := tok b, recorded := parseRec r, link := unhexS l, tarTarget := unhexS t }
  | _ => none

def parseD (s : String) : List (Nat × List Entry) :=
  (splitNE s ",").filterMap fun e =>
    match e.splitOn ":" with
    | [i, es] => some (i.toNat!, (splitNE es "|").filterMap parseEntry)
    | _ => none

def idOf (b : Bytes) : Nat := b.headD 0

def mkLib (h : List (Nat × Text × Text)) (c : List (Nat × Text)) (d : List (Nat × List Entry)) : Lib :=
  { sha1 := fun b => ((h.find? (·.1 = idOf b)).map (·.2.1)).getD "?".toList,
    sha256 := fun b => ((h.find? (·.1 = idOf b)).map (·.2.2)).getD "?".toList,
    untarData := fun b => (d.find? (·.1 = idOf b)).map (·.2),
    pkginfo := fun b => (c.find? (·.1 = idOf b)).map (·.2) }

def parseApk (s : String) : Option Apk :=
  match s.splitOn ":" with
  | [sg, c, d] => some { sig := if sg = "-" then none else some (tok sg), control := tok c, data := tok d }
  | _ => none

def parseWant (e : String) : Want :=
  if e = "!" then ⟨none, true⟩
  else if e.startsWith "~" then ⟨some (e.toList.drop 1), false⟩
  else ⟨some e.toList, true⟩

def parsePkg (s : String) : Option PkgReq :=
  match s.splitOn "." with
  | [k, e, f] => some { key := unhexS k, expected := parseWant e, fetched := if f = "-" then none else parseApk f,
                        raw := e.toList }
  | [k, e, f, r] => some { key := unhexS k, expected := parseWant e, fetched := if f = "-" then none else parseApk f,
                           raw := unhexS r }
  | [k, e, f, r, l] => some { key := unhexS k, expected := parseWant e, fetched := if f = "-" then none else parseApk f,
                              raw := unhexS r, later := (splitNE l "/").map fun x => if x = "-" then Resp.refused else match parseApk x with
                                | some a => Resp.apk a
                                | none => Resp.broken }
  | _ => none

def parseOp (s : String) : Option Op :=
  match s.splitOn "@" with
  | [k, c, ps] => some { kind := if k = "l" then .lock else .build, useCache := c = "1",
                         pkgs := (splitNE ps "+").filterMap parsePkg }
  | [k, c, ps, f] => some { kind := if k = "l" then .lock else .build, useCache := c = "1",
                            pkgs := (splitNE ps "+").filterMap parsePkg, fresh := f != "s" }
  | _ => none

def parseOps (s : String) : List Op := (splitNE s ";").filterMap parseOp

/-- state before op `k` and op `k` itself (the model re-runs the prefix: handlers are stateless) -/
def before (cfg : Cfg) (L : Lib) (ops : List Op) (k : Nat) : State × Option Op :=
  ((runOps cfg L {} (ops.take k)).2, ops[k]?)

def showB (b : Bool) : String := if b then "ok" else "fail"

structure PkgView where
  req : PkgReq
  out : PkgOut
  /-- verdict on what Impl expanded / installed for the handle (`Spec.expVerdict`); `-` when Impl failed -/
  outcome : String
  /-- an abort of this package is justified: the bytes that the cache directory / the repository offer for the
  handle are not authentic (`Spec.pkgVerdict`, memo-blind), or the property does not prescribe the verdict
  (`Spec.dupNames`; the URL was already expanded in this process, whose memo may repeat an abort; the same data
  section was already laid out by another handle of this build) -/
  mayAbort : Bool
  /-- Impl answered this handle from a memo entry that was made for ANOTHER checksum string -/
  staleMemo : Bool

/-- per package of one op: Impl's outcome and what the property says about it, threading the state the way Impl does -/
def views (L : Lib) (o : Op) : List (List Entry) → State → List PkgReq → List PkgView
  | _, _, [] => []
  | prev, s, p :: ps =>
    let cache := if o.useCache then some (s.store.cacheOf p.key) else none
    let v := Spec.pkgVerdict L o.kind p cache
    let m := if o.useCache then lookup p.key s.memo else none
    -- the process has already expanded this URL: it may repeat an abort (a memoised error; a memoised expansion whose
    -- installation aborts again — with an empty datahash, F05c, its data section need not be the one served now)
    let sticky := m.isSome
    let stale := match m with
      | some me => memoAnswers Impl.memoChecks me p && !(decide (me.raw = p.raw) && decide (me.want = p.expected))
      | none => false
    let dup := o.kind = .build && Spec.dupNames L p cache
    let r := runPkg Impl.cfg L o.kind o.useCache prev s p
    let outcome := match r.1.ok, r.1.exp with
      | true, some e => Spec.expVerdict L o.kind p.expected e
      | _, _ => "-"
    -- the same data section laid out a second time in one build (the same package under two handles) is a file
    -- conflict matter (C07), not an authentication one
    let again := o.kind = .build && match r.1.exp with
      | some e => prev.contains e.files
      | none => false
    { req := p, out := r.1, outcome := outcome, mayAbort := (v != "ok" && v != "emptyhash") || sticky || dup || again,
      staleMemo := stale } :: views L o (laidOut prev r.1) r.2 ps

def classOfVerdict : String → String
  | "control" => "F05a"
  | "data" => "F05b"
  | "emptyhash" => "F05c"
  | _ => "unlisted"

def sortS (l : List String) : List String := l.mergeSort (fun a b => decide (a ≤ b))

def dedupS : List String → List String
  | a :: b :: r => if a = b then dedupS (b :: r) else a :: dedupS (b :: r)
  | l => l

def tokS (b : Bytes) : String := toString (idOf b)

def fileLines (es : List Entry) (ns : List Node) (spec : Bool) : List String :=
  (fileNodes ns).map fun nd =>
    hexS nd.name ++ "=" ++ (if spec then tokS nd.own else match served es nd with
      | some b => tokS b
      | none => "!")

def cacheNames (s : Store) : String :=
  let names := s.flatMap fun (k, c) =>
    (c.ctl.map fun (n, _) => hexS k ++ "/" ++ String.ofList n ++ ".ctl") ++
    (c.sig.map fun (n, _) => hexS k ++ "/" ++ String.ofList n ++ ".sig") ++
    (c.dat.map fun (n, _) => hexS k ++ "/" ++ String.ofList n ++ ".dat")
  ",".intercalate (names.mergeSort (fun a b => decide (a ≤ b)))

def handle (args : List String) : Option String :=
  match args with
  | ["auth.datahash", info] =>
    let r := match datahash (unhexS info) with
      | some v => "ok " ++ hexS v
      | none => "err"
    some (r ++ "\t" ++ r ++ "\t-")
  | [op, h, c, d, ops, k] =>
    if !(["auth.verdict", "auth.cache", "auth.class", "auth.installed", "auth.files"].contains op) then none else
    let L := mkLib (parseH h) (parseC c) (parseD d)
    let ops := parseOps ops
    match before Impl.cfg L ops k.toNat! with
    | (_, none) => some "bad-op"
    | (s, some o) =>
      let (outs, s') := runOp Impl.cfg L s o
      let ok := opOk outs
      let vs := views L o [] (s.enter o) o.pkgs
      let anyStale := vs.any (·.staleMemo)
      -- (two packages may lay out the same path with the same bytes — an empty datahash lets a package carry another
      -- one's data section, F05c — the image then has it once)
      let fileLinesOf (sp : Bool) := ",".intercalate (dedupS (sortS (outs.flatMap fun r => match r.exp with
        | some e => fileLines e.files r.nodes sp
        | none => [])))
      -- Impl ok: every package must have been given authentic bytes; Impl fail: some package must justify the abort
      let bad := if ok then (vs.filter (·.outcome != "ok")).map (fun v => (v.outcome, v.staleMemo)) else []
      let spec := if ok then bad.isEmpty else vs.any (·.mayAbort) == false
      -- F05c only when an empty datahash is the only complaint (it must never mask another class);
      -- F05d when the offending package was answered from a memo entry made for another checksum
      let cls := match bad.filter (·.1 != "emptyhash"), bad with
        | (v, stale) :: _, _ => if stale then "F05d" else classOfVerdict v
        | [], _ :: _ => "F05c"
        | [], [] => if anyStale then "F05d" else if ok && fileLinesOf false != fileLinesOf true then "F05e" else "-"
      if op = "auth.verdict" then
        some (showB ok ++ "\t" ++ showB spec ++ "\t" ++ (if ok = spec then "-" else cls))
      else if op = "auth.cache" then
        let n := cacheNames s'.store
        some (n ++ "\t" ++ n ++ "\t-")
      else if op = "auth.installed" then
        let impl := ",".intercalate (dedupS (sortS (outs.filterMap fun r => r.exp.map fun e => String.ofList e.controlHash)))
        let spec := ",".intercalate (dedupS (sortS (o.pkgs.map fun p => String.ofList (p.expected.digest.getD "!".toList))))
        some (impl ++ "\t" ++ spec ++ "\t" ++ (if impl = spec then "-" else if anyStale then "F05d" else "unlisted"))
      else if op = "auth.files" then
        let impl := fileLinesOf false
        let spec := fileLinesOf true
        some (impl ++ "\t" ++ spec ++ "\t" ++ (if impl = spec then "-" else "F05e"))
      else
        some ("-\t-\t" ++ cls)
  | _ => none

end Apko.Driver.Authentic
