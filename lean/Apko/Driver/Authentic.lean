import Apko.Model.Authentic
/-!
line-protocol handlers for corr:authentic (C05)

Byte strings are tokens (`[id]`); the library functions are tables carried by the request:
  H  = `id:sha1:sha256,…`            digests of every token (lower-case hex text, as Go computed them)
  C  = `id:<hex .PKGINFO>,…`          control tokens whose .PKGINFO can be read
  D  = `id:entry|entry…,…`            data tokens that gunzip+untar; entry = `<hexname>.<kind>.<bodyid>.<rec>`,
                                      kind r|s|d|h|o, rec `-` absent, `!` malformed, else the digest text
  OPS = op;op;…   op = `<l|b>@<0|1>@pkg+pkg…`   pkg = `<hexkey>.<exp>.<fetched>`,
                                      exp `!` undecodable, `~<digest>` bare base64 (no `Q1` prefix), else digest text, fetched `-` or `<sig|->:<ctl>:<dat>`
Requests: `auth.verdict H C D OPS k`  → Impl verdict of op k, Spec verdict, class
          `auth.cache   H C D OPS k`  → advertised cache names after op k (Impl only)
          `auth.class   H C D OPS k`  → `-`, `-`, class (for the byte-level oracle evaluated by the harness)
          `auth.datahash <hex .PKGINFO>` → `(*APK).datahash`
-/
namespace Apko.Driver.Authentic
open Apko Apko.Authentic

def splitNE (s : String) (sep : String) : List String := if s.isEmpty then [] else s.splitOn sep

def tok (s : String) : Bytes := [s.toNat!]

def parseH (s : String) : List (Nat × Text × Text) :=
  (splitNE s ",").filterMap fun e =>
    match e.splitOn ":" with
    | [i, a, b] => some (i.toNat!, a.toList, b.toList)
    | _ => none

def parseC (s : String) : List (Nat × Text) :=
  (splitNE s ",").filterMap fun e =>
    match e.splitOn ":" with
    | [i, h] => some (i.toNat!, unhexS h)
    | _ => none

def parseKind : String → Kind
  | "r" => .reg | "s" => .symlink | "d" => .dir | "h" => .hardlink | _ => .other

def parseRec : String → Recorded
  | "-" => .absent | "!" => .malformed | d => .sum d.toList

def parseEntry (s : String) : Option Entry :=
  match s.splitOn "." with
  | [n, k, b, r] => some { name := unhexS n, kind := parseKind k, body := tok b, recorded := parseRec r }
  | _ => none

def parseD (s : String) : List (Nat × List Entry) :=
  (splitNE s ",").filterMap fun e =>
    match e.splitOn ":" with
    | [i, es] => some (i.toNat!, (splitNE es "|").filterMap parseEntry)
    | _ => none

def idOf (b : Bytes) : Nat := b.headD 0

def mkLib (h : List (Nat × Text × Text)) (c : List (Nat × Text)) (d : List (Nat × List Entry)) : Lib :=
  { sha1 := fun b => ((h.find? (·.1 = idOf b)).map (·.2.1)).getD "?".toList,
    sha256 := fun b => ((h.find? (·.1 = idOf b)).map (·.2.2)).getD "?".toList,
    untarData := fun b => (d.find? (·.1 = idOf b)).map (·.2),
    pkginfo := fun b => (c.find? (·.1 = idOf b)).map (·.2) }

def parseApk (s : String) : Option Apk :=
  match s.splitOn ":" with
  | [sg, c, d] => some { sig := if sg = "-" then none else some (tok sg), control := tok c, data := tok d }
  | _ => none

def parsePkg (s : String) : Option PkgReq :=
  match s.splitOn "." with
  | [k, e, f] => some { key := unhexS k,
                        expected := if e = "!" then ⟨none, true⟩
                                    else if e.startsWith "~" then ⟨some (e.toList.drop 1), false⟩
                                    else ⟨some e.toList, true⟩,
                        fetched := if f = "-" then none else parseApk f }
  | _ => none

def parseOp (s : String) : Option Op :=
  match s.splitOn "@" with
  | [k, c, ps] => some { kind := if k = "l" then .lock else .build, useCache := c = "1",
                         pkgs := (splitNE ps "+").filterMap parsePkg }
  | _ => none

def parseOps (s : String) : List Op := (splitNE s ";").filterMap parseOp

/-- store before op `k` and op `k` itself (the model re-runs the prefix: handlers are stateless) -/
def before (verify : Bool) (L : Lib) (ops : List Op) (k : Nat) : Store × Option Op :=
  ((runOps verify L [] (ops.take k)).2, ops[k]?)

def showB (b : Bool) : String := if b then "ok" else "fail"

/-- Spec verdicts of the packages of one op, threading the store the way Impl does -/
def specVerdicts (L : Lib) (o : Op) : Store → List PkgReq → List String
  | _, [] => []
  | s, p :: ps =>
    let cache := if o.useCache then some (s.cacheOf p.key) else none
    let v := Spec.pkgVerdict L o.kind p cache
    let s' := (runPkg Impl.verifies L o.kind o.useCache s p).2
    v :: specVerdicts L o s' ps

def classOfVerdict : String → String
  | "control" => "F05a"
  | "data" => "F05b"
  | "emptyhash" => "F05c"
  | _ => "unlisted"

def cacheNames (s : Store) : String :=
  let names := s.flatMap fun (k, c) =>
    (c.ctl.map fun (n, _) => hexS k ++ "/" ++ String.ofList n ++ ".ctl") ++
    (c.sig.map fun (n, _) => hexS k ++ "/" ++ String.ofList n ++ ".sig") ++
    (c.dat.map fun (n, _) => hexS k ++ "/" ++ String.ofList n ++ ".dat")
  ",".intercalate (names.mergeSort (fun a b => decide (a ≤ b)))

def handle (args : List String) : Option String :=
  match args with
  | ["auth.datahash", info] =>
    let r := match datahash (unhexS info) with
      | some v => "ok " ++ hexS v
      | none => "err"
    some (r ++ "\t" ++ r ++ "\t-")
  | [op, h, c, d, ops, k] =>
    if op != "auth.verdict" && op != "auth.cache" && op != "auth.class" then none else
    let L := mkLib (parseH h) (parseC c) (parseD d)
    let ops := parseOps ops
    match before Impl.verifies L ops k.toNat! with
    | (_, none) => some "bad-op"
    | (s, some o) =>
      let (ok, s') := runOp Impl.verifies L s o
      let vs := specVerdicts L o s o.pkgs
      let bad := vs.filter (· != "ok")
      -- F05c only when an empty datahash is the only complaint (it must never mask another class)
      let cls := match bad.filter (· != "emptyhash"), bad with
        | v :: _, _ => classOfVerdict v
        | [], _ :: _ => "F05c"
        | [], [] => "-"
      let spec := bad.isEmpty
      if op = "auth.verdict" then
        some (showB ok ++ "\t" ++ showB spec ++ "\t" ++ (if ok = spec then "-" else cls))
      else if op = "auth.cache" then
        let n := cacheNames s'
        some (n ++ "\t" ++ n ++ "\t-")
      else
        some ("-\t-\t" ++ cls)
  | _ => none

end Apko.Driver.Authentic
