/-! line-protocol handlers (stub: filled in when the suite is built) -/
namespace Apko.Driver.Authentic

def handle (_args : List String) : Option String := none

end Apko.Driver.Authentic
