import Apko.Model.Cache
import Apko.Model.CacheGlue
/-! line-protocol handlers for corr:cache (C19)

`cache-seq \t n \t revs \t builds \t goState \t goOutcomes`
* `n`      number of non-final chunks per written file
* `revs`   `r:pid/k0.k1.k2.k3+pid/k0.k1.k2.k3;r:…` — index revision `r` (its content id) ↦ packages in
           install order, each with the id of its URL (`pid`) and the content ids of its signature section
           (`-` for an unsigned apk), control section, data section and uncompressed tar
* `builds` `;`-separated `on:hk:gk:K:extra[:fr]` (online; HEAD announced `hk`, GET served `gk`; killed at
           marker `K` plus `extra` steps, `K` = `-` for a build that is not killed; the apk files are those of
           revision `fr` — default `gk` —: a package whose URL holds other content there than the index lists
           is fetched, rejected by `verifyExpanded`, and the build fails) or `off`
* `goState`, `goOutcomes`  what the real code left / answered (canonical tokens), for the oracle

Answer: `impl \t verdict \t class` — impl = the model's `state|outcomes` after the same builds, verdict =
the property's oracle evaluated on Go's output, class `F19a` iff the model run itself passed through
a regular incomplete file under a final name (impossible for the repaired builders: `adv_invariant`).

`cache-flight \t want \t results` — oracle only (request coalescing through the real cacheTransport).
`cache-conc \t expect \t goState \t goOutcomes \t offline \t revs` — oracle only (concurrent recovery builds,
then one offline build).  `cache-race \t expect \t goState \t goOutcomes \t revs` — oracle only (a build paused
inside `cachedPackage` while another one populates the cache).  `cache-plant \t kind \t want \t online \t offline` — planted entries: both outcomes must be `want` or `err`.

`cache-glue \t keys \t history \t goDir \t goOutcomes \t goCwd` — histories around the glue of the cache, executed
on `Model/CacheGlue.lean` (`cfgReal`):
* `keys`     `dir.etag,dir.etag,…` key `i` (URL `i+1`, body `i`; key 0 signs the index) lives in entry directory
             `dir` (≥ 1) and is served with ETag number `etag`; the index is URL 0, directory 0, revision `r` is
             body and ETag `100+r`
* `history`  processes separated by `|`, the builds of a process by `;`, a build is `mode:rev:k+k+…:fault` with
             mode `own` (a fresh memo-bearing cache object per build: what the CLI passes), `default`
             (`options.Default.SharedCache`: one memo-less object per process), `none` (no cache), `off` (offline),
             `rev` the index revision the repository serves during the build, the keyring in request order, and
             `fault` = `-` | `i` (the connection is cut inside the index body) | `<k>` (inside the body of key `k`);
             an optional fifth field lists the configured repositories (`0`, `0+1`; absent = `0`): repository `r` has
             index URL and entry directory `50·r`; repository 1 (`https://repob.test`) serves ONE index revision (body and
             ETag 200) that offers a newer `app`, so an image built over `0+1` is named `ok:<rev>b:…`; an optional sixth
             field is the KEY EPOCH of repository 0 during the build: the repository publishes keys through key discovery
             (`apk-configuration` → JWKS; the key set of epoch `e` is body `e` of the JWKS URL; a rotation = the next epoch),
             the outcome of a build then ends in `+d=<e>` (the discovered key files are exactly the set of epoch `e`, byte
             for byte), `+d=-` (none) or `+d=X`; discovery goes through the branch of `RoundTrip` without a validator
             (`Model.discover`, `storesReal`), remembered per process by `options.Default.SharedCache` (mode `default`)
* `opts`     (optional seventh field, `,`-separated) `noetag`: the server sends no ETag for the index of repository 0
             (only `Last-Modified`): nothing is looked up or stored for it (`fetchNoEtag`); `vers=a.b.c/a.b.c/…`: the
             versions of base, lib, app in revision 0, 1, … of repository 0 (repository 1's app is version 1000): an
             offline build also needs every PACKAGE of its image in the cache — put there by an earlier online build
             through the cache that installed that very package (an online build over `0+1` installs repository 1's
             app and never downloads repository 0's)
* `goDir`, `goOutcomes`, `goCwd`  the etag entries and temp files the real code left (tokens `E<dir>.<etag>=L<body>`,
             `T<dir>=<body|P>`), the outcome of every build (`ok:<rev>:<k>=<content>+…`, keys by number, or `err`),
             and whatever appeared in the working directories of the processes (must be nothing)
Answer: impl = the model's directory and outcomes (the outcome of an offline build that asks for a key whose entry
directory is shared with another key is `sched`: which entry is the newest depends on the order in which the
concurrent key downloads of earlier builds finished), verdict = the oracle on Go's output, class `F19d` iff the
history contains such an offline build or a keyring with two keys of one directory under one ETag value; class `F19g`
for `fail:disc-memo:` (a `default` build answered from the key-discovery memo of its process after a rotation), `F19h`
for `fail:disc-offline:` (an offline build that goes on without the discovered keys); any other failure about the
discovered key set is `fail:disc:` and never attributed to a finding.  Failures that are no finding are reported first.
-/
namespace Apko.Driver.Cache
open Apko.Cache

structure Pkg where
  pid : Nat
  k0 : Option Cid
  k1 : Cid
  k2 : Cid
  k3 : Cid

abbrev Revs := List (Cid × List Pkg)

def parsePkg (s : String) : Option Pkg :=
  match s.splitOn "/" with
  | [pid, ks] =>
    match ks.splitOn "." with
    | [z, a, b, c] => some ⟨pid.toNat!, if z == "-" then none else some z.toNat!, a.toNat!, b.toNat!, c.toNat!⟩
    | _ => none
  | _ => none

def parseRevs (s : String) : Revs :=
  if s.isEmpty then [] else
  (s.splitOn ";").filterMap fun e =>
    match e.splitOn ":" with
    | [r, ps] => some (r.toNat!, if ps.isEmpty then [] else (ps.splitOn "+").filterMap parsePkg)
    | _ => none

def pkgsOf (revs : Revs) (r : Cid) : List Pkg := ((revs.find? (·.1 = r)).map (·.2)).getD []

/-- what the repository serves under the URL of `p` when its files are those of revision `fr`: `none` when
it is the listed apk itself -/
def servedOf (revs : Revs) (fr : Cid) (p : Pkg) : Option Pkg :=
  match (pkgsOf revs fr).find? (·.pid = p.pid) with
  | some q => if q.k1 = p.k1 then none else some q
  | none => none

structure Sim where
  fs : FS := FS.empty
  nextTmp : Nat := 0
  idxTemps : List Name := []
  idxRevs : List Cid := []
  outcomes : List String := []
  regenSeen : Bool := false

def content (c : Cid) (b : Bool) : String := if b then s!"F{c}" else "P"

def advToken (fs : FS) (k : Cid) : Option String :=
  match fs.get (.adv k) with
  | none => none
  | some (.file c b) => some s!"A{k}=R{content c b}"
  | some (.link t) =>
    match fs.get t with
    | some (.file c b) => some s!"A{k}=L{content c b}"
    | _ => some s!"A{k}=LD"

def tmpToken (fs : FS) (i : Nat) : Option String :=
  match fs.get (.tmp i) with
  | some (.file c b) => some s!"T={content c b}"
  | _ => none

def allCids (revs : Revs) (idx : List Cid) : List Cid :=
  (idx ++ revs.map (·.1) ++ revs.flatMap fun (_, ps) => ps.flatMap fun p => p.k0.toList ++ [p.k1, p.k2, p.k3]).eraseDups

def stateString (revs : Revs) (sim : Sim) : String :=
  let toks := (allCids revs sim.idxRevs).filterMap (advToken sim.fs) ++
    (List.range sim.nextTmp).filterMap (tmpToken sim.fs)
  ",".intercalate (toks.mergeSort (fun a b => decide (a ≤ b)))

def regenVisible (revs : Revs) (sim : Sim) : Bool :=
  (allCids revs sim.idxRevs).any fun k =>
    match sim.fs.get (.adv k) with
    | some (.file _ false) => true
    | _ => false

/-- one builder segment: `budget = none` runs to completion, `some (marks, extra)` is a crash prefix.
returns the new directory, the process, and the budget that is left (`none` result budget with
`stopped = true` means the build was killed inside this segment) -/
def runSeg (fs : FS) (prog : Prog) (budget : Option (Nat × Nat)) : FS × Proc × Option (Nat × Nat) × Bool :=
  match budget with
  | none =>
    let r := runPrefix 100000 1000000 0 fs (Proc.new prog)
    (r.1, r.2, none, false)
  | some (marks, extra) =>
    let r := runPrefix 100000 marks extra fs (Proc.new prog)
    match r.2.prog with
    | .halt _ => (r.1, r.2, some (marks - r.2.marks, extra), false)
    | _ => (r.1, r.2, none, true)

def halted (p : Proc) : Option Bool :=
  match p.prog with
  | .halt b => some b
  | _ => none

def obsComplete (p : Proc) : Bool := p.obs.all fun (_, _, b) => b

/-- the revision the index segment ended up reading -/
def revRead (p : Proc) : Option Cid := p.obs.getLast?.map (·.2.1)

/-- package segments of one build, in install order; stops at the crash.  A package that fails (offline
miss, rejected download) does not stop the others: `InstallPackages` fetches every package (plain
`errgroup.Group`, no cancellation) and reports the error at the end. -/
def runPkgsFrom (n : Nat) (offline : Bool) : List (Pkg × Option Pkg) → FS → Nat → Option (Nat × Nat) → Bool → Bool →
    FS × Nat × String × Bool   -- fs, nextTmp, status ("ok" | "err" | "crash"), all observations complete
  | [], fs, nt, _, okc, failed => (fs, nt, if failed then "err" else "ok", okc)
  | (p, served) :: rest, fs, nt, budget, okc, failed =>
    let sg : Option (Name × Cid) := p.k0.map fun k0 => (.tmp (nt + 4), k0)
    let prog := if offline then pkgOffline sg (.tmp nt) p.k1 p.k2 p.k3 n
      else match served with
        | none => pkgBuilder sg (.tmp nt) (.tmp (nt + 1)) (.tmp (nt + 2)) (.tmp (nt + 3)) p.k1 p.k2 p.k3 n
        | some q =>
          pkgBuilderRejected sg (.tmp (nt + 3)) p.k1 p.k2 p.k3 (q.k0.map fun k0 => (.tmp (nt + 4), k0))
            (.tmp nt) (.tmp (nt + 1)) (.tmp (nt + 2)) q.k1 q.k2 q.k3 n
    let nt' := if offline then nt + 1 else nt + 5
    let (fs', pr, budget', stopped) := runSeg fs prog budget
    if stopped then (fs', nt', "crash", okc)
    else match halted pr with
      | some true => runPkgsFrom n offline rest fs' nt' budget' (okc && obsComplete pr) failed
      | _ => runPkgsFrom n offline rest fs' nt' budget' okc true

def runPkgs (n : Nat) (offline : Bool) (pkgs : List (Pkg × Option Pkg)) (fs : FS) (nt : Nat)
    (budget : Option (Nat × Nat)) (okc : Bool) : FS × Nat × String × Bool :=
  runPkgsFrom n offline pkgs fs nt budget okc false

def finishBuild (revs : Revs) (sim : Sim) (fs : FS) (nt : Nat) (out : String) : Sim :=
  let sim' := { sim with fs := fs, nextTmp := nt, outcomes := sim.outcomes ++ [out] }
  { sim' with regenSeen := sim.regenSeen || regenVisible revs sim' }

def buildOnline (n : Nat) (revs : Revs) (sim : Sim) (hk gk fr : Cid) (budget : Option (Nat × Nat)) : Sim :=
  let t := Name.tmp sim.nextTmp
  let sim := { sim with idxTemps := sim.idxTemps ++ [t], idxRevs := (sim.idxRevs ++ [hk, gk]).eraseDups }
  let (fs1, pr, budget1, stopped) := runSeg sim.fs (indexOnline t hk gk n) budget
  let nt := sim.nextTmp + 1
  if stopped then finishBuild revs sim fs1 nt "crash"
  else match halted pr, revRead pr with
    | some true, some r =>
      let pkgs := (pkgsOf revs r).map fun p => (p, servedOf revs fr p)
      let (fs2, nt2, st, okc) := runPkgs n false pkgs fs1 nt budget1 (obsComplete pr)
      finishBuild revs sim fs2 nt2 (if st == "ok" then (if okc then s!"ok:img{r}" else "ok:img?") else st)
    | _, _ => finishBuild revs sim fs1 nt "err"

def buildOffline (n : Nat) (revs : Revs) (sim : Sim) : Sim :=
  -- (fix F19e: `fetchOffline` ignores the unadvertised temp files of the directory)
  let cands := sim.idxRevs.map Name.adv
  let (fs1, pr, _, _) := runSeg sim.fs (indexOffline cands) none
  match halted pr, revRead pr with
  | some true, some r =>
    let (fs2, nt2, st, okc) := runPkgs n true ((pkgsOf revs r).map fun p => (p, none)) fs1 sim.nextTmp none (obsComplete pr)
    finishBuild revs sim fs2 nt2 (if st == "ok" then (if okc then s!"ok:img{r}" else "ok:img?") else st)
  | _, _ => finishBuild revs sim fs1 sim.nextTmp "err"

def runBuild (n : Nat) (revs : Revs) (sim : Sim) (b : String) : Sim :=
  match b.splitOn ":" with
  | ["on", hk, gk, k, extra] =>
    buildOnline n revs sim hk.toNat! gk.toNat! gk.toNat! (if k == "-" then none else some (k.toNat!, extra.toNat!))
  | ["on", hk, gk, k, extra, fr] =>
    buildOnline n revs sim hk.toNat! gk.toNat! fr.toNat! (if k == "-" then none else some (k.toNat!, extra.toNat!))
  | ["off"] => buildOffline n revs sim
  | _ => sim

/-! the oracle, evaluated on what the real code left behind / answered -/

def tokenOk (t : String) : Bool :=
  if t.startsWith "A" then
    match (t.drop 1).toString.splitOn "=" with
    | [k, d] => d == s!"LF{k}" || d == s!"RF{k}"   -- in particular not `LD`: a dangling link (`adv_present_resolves`)
    | _ => false
  else !t.startsWith "U=cwd:"   -- nothing is ever created in the working directory of a build

def stateVerdict (goState : String) : Option String :=
  let toks := if goState.isEmpty then [] else goState.splitOn ","
  match toks.find? (fun t => !tokenOk t) with
  | some t => some (if t.startsWith "U=cwd:" then s!"file-created-in-working-directory:{t}"
      else if t.endsWith "=LD" then s!"advertised-entry-dangles:{t}" else s!"advertised-name-holds-other-content:{t}")
  | none => none

/-- `hit_has_signature` on the real directory: where the control and the data entry of a signed package
are there (a hit), its signature entry must be there too -/
def depVerdict (revs : Revs) (goState : String) : Option String :=
  let toks := if goState.isEmpty then [] else goState.splitOn ","
  let has := fun (k : Cid) => toks.any fun t => t.startsWith s!"A{k}="
  let bad := (revs.flatMap (·.2)).find? fun p =>
    match p.k0 with
    | some k0 => has p.k1 && has p.k2 && !has k0
    | none => false
  bad.map fun p => s!"hit-without-signature:A{p.k1},A{p.k2}-present,A{p.k0.getD 0}-absent"

/-- expected outcomes: online not killed → the image of the revision served (or of the revision HEAD
announced, when the repository changed between HEAD and GET); killed → `crash` (or that image when the
marker lies beyond the build); offline → an error or the image of the newest revision whose index is
completely cached — the revision the model's `fetchOffline` selects (`impls`: the model's outcomes; by
`offline_safe` that is the complete content of an advertised entry), never anything else -/
def outcomesVerdict (revs : Revs) (builds : List String) (outs impls : List String) : Option String :=
  let rec go (bs : List String) (os : List String) (ms : List String) (i : Nat) : Option String :=
    match bs, os with
    | [], [] => none
    | b :: bs', o :: os' =>
      match b.splitOn ":" with
      | "on" :: hk :: gk :: k :: _ :: frs =>
        -- the repository's files are those of revision `fr` (default: the GET revision): where a listed
        -- package's URL serves another apk (a stale index — also the cached one HEAD announced — of a
        -- repository that rebuilt a package) the cache-less build fails (verifyExpanded); with the cache the
        -- build fails too, or — the listed apk being cached — produces the image of the listed revision
        let want := s!"ok:img{gk}"
        let fr := (frs.head?.getD gk).toNat!
        let mismatch := (pkgsOf revs gk.toNat! ++ pkgsOf revs hk.toNat!).any fun p => (servedOf revs fr p).isSome
        if o == want || o == s!"ok:img{hk}" || (k != "-" && o == "crash") || (mismatch && o == "err") then
          go bs' os' ms.tail (i + 1)
        else some s!"build{i}:online:{o}:want:{want}"
      | _ =>
        let m := ms.head?.getD "err"
        if o == "err" || (o == m && m.startsWith "ok:img" && m != "ok:img?") then go bs' os' ms.tail (i + 1)
        else some s!"build{i}:offline:{o}:want:err-or-{m}"
    | _, _ => some "outcome-count"
  go builds outs impls 0


/-! ### `cache-glue`: histories over `Model/CacheGlue.lean` -/

namespace Glue
open Apko.CacheGlue

structure GKey where
  dir : Nat
  etag : Nat

abbrev GBuildEpoch := Option Nat

structure GBuild where
  mode : String
  rev : Nat
  keys : List Nat
  fault : String
  repos : List Nat := [0]
  epoch : Option Nat := none

def parseKeys (s : String) : List GKey :=
  if s.isEmpty then [] else
  (s.splitOn ",").filterMap fun e =>
    match e.splitOn "." with
    | [d, t] => some ⟨d.toNat!, t.toNat!⟩
    | _ => none

def parseBuild (s : String) : Option GBuild :=
  match s.splitOn ":" with
  | [m, r, ks, f] => some ⟨m, r.toNat!, if ks.isEmpty then [] else (ks.splitOn "+").map String.toNat!, f, [0], none⟩
  | [m, r, ks, f, rs] => some ⟨m, r.toNat!, if ks.isEmpty then [] else (ks.splitOn "+").map String.toNat!, f,
      if rs.isEmpty then [0] else (rs.splitOn "+").map String.toNat!, none⟩
  | [m, r, ks, f, rs, ep] => some ⟨m, r.toNat!, if ks.isEmpty then [] else (ks.splitOn "+").map String.toNat!, f,
      if rs.isEmpty then [0] else (rs.splitOn "+").map String.toNat!, ep.toNat?⟩
  | _ => none

def parseHistory (s : String) : List (List GBuild) :=
  if s.isEmpty then [] else
  (s.splitOn "|").map fun p => if p.isEmpty then [] else (p.splitOn ";").filterMap parseBuild

/-- the index URL of repository `r` (its entry directory has the same number) -/
def repoUrl (r : Nat) : Url := 50 * r

def dirOfWorld (keys : List GKey) : Url → Dir := fun u =>
  if u = 0 then 0 else if u % 50 = 0 then u else ((keys[u - 1]?).map (·.dir)).getD 0

def sortNat (l : List Nat) : List Nat := l.mergeSort (fun a b => decide (a ≤ b))

/-- the content of a key file as the harness names it: the number of the key whose bytes it holds, `P` for a
truncated key -/
def contentTok (r : Body × Bool) : String := if r.2 then toString r.1 else "P"

/-- the outcome of a build from what its requests returned: an error of any request fails the build; the index
must be complete (gzip trailer, signature) and the file of the signing key (key 0) must hold that key -/
def outcomeOfIdx (keys : List Nat) (kres : List Res) (idx : Option (List (Url × Body))) (disc : Option String := none) : String :=
  if kres.any (·.isNone) then "err" else
  match idx with
  | none => "err"
  | some l =>
    -- the resolver needs the index of repository 0 (base and lib are only there); repository 1 adds a newer app
    match l.find? (·.1 = 0) with
    | none => "err"
    | some (_, ib) =>
      let pairs := (keys.zip kres).filterMap fun (k, r) => r.map fun x => (k, contentTok x)
      if pairs.any (fun p => p.1 = 0 && p.2 != "0") then "err" else
      let sorted := (sortNat keys).filterMap fun k => (pairs.find? (·.1 = k)).map fun p => s!"{p.1}={p.2}"
      s!"ok:{ib - 100}{if l.any (·.1 = repoUrl 1) then "b" else ""}:" ++ "+".intercalate (sorted ++ (disc.map fun d => s!"d={d}").toList)

def outcomeOf (keys : List Nat) (kres : List Res) (ires : Res) : String :=
  outcomeOfIdx keys kres ((parseRes ires).map fun b => [(0, b)])

def identityOutcome (rev : Nat) (keys : List Nat) (repos : List Nat := [0]) (disc : Option String := none) : String :=
  s!"ok:{rev}{if repos.contains 1 then "b" else ""}:" ++
    "+".intercalate (((sortNat keys).map fun k => s!"{k}={k}") ++ (disc.map fun d => s!"d={d}").toList)

/-- the URLs of key discovery in the model of the branch without a validator: the discovery document, the key set -/
def confUrl : Url := 0
def jwksUrl : Url := 1

/-- what a discovery returned, as the harness names it -/
def discTok (b : GBuildEpoch) (r : Option Body) : Option String :=
  b.map fun _ => match r with
    | some e => toString e
    | none => "-"

/-- an offline build whose answer depends on the order in which earlier concurrent key downloads finished: it
asks for a key whose entry directory is shared with another key (finding F19d) -/
def schedDependent (world : List GKey) (b : GBuild) : Bool :=
  b.mode == "off" && b.keys.any fun k =>
    (List.range world.length).any fun j => j != k && (world[j]?.map (·.dir)) == (world[k]?.map (·.dir))

/-- a keyring with two keys of one directory under one ETag value (finding F19d) -/
def sameEtagPair (world : List GKey) (b : GBuild) : Bool :=
  b.mode != "none" && b.keys.any fun k => b.keys.any fun j =>
    j != k && (world[j]?.map fun x => (x.dir, x.etag)) == (world[k]?.map fun x => (x.dir, x.etag))

structure GSim where
  st : St := {}
  nextCache : Nat := 1
  outs : List String := []
  pkgs : List (Nat × Nat) := []   -- the packages (number, version) earlier online builds left in the cache
  pst : PSt := {}                  -- key discovery: the server and the files below the URL paths
  discMemo : Option Body := none   -- `options.Default.SharedCache.discoverKeys` of the running process
  notes : List String := []        -- per build: `memo:<e>` (discovery answered from the memo), `offdisc`, or empty

def parseVers (opts : String) : List (List Nat) :=
  match (opts.splitOn ",").find? (·.startsWith "vers=") with
  | some v => ((v.drop 5).toString.splitOn "/").map fun t => (t.splitOn ".").map String.toNat!
  | none => []

/-- the packages of the image over index revision `rev` of repository 0, with or without repository 1 (no version
table: nothing is said about packages) -/
def imagePkgs (vers : List (List Nat)) (idx : Option (List (Url × Body))) : List (Nat × Nat) :=
  match idx with
  | none => []
  | some l =>
    match l.find? (·.1 = 0) with
    | none => []
    | some (_, ib) =>
      match vers[ib - 100]? with
      | some [v0, v1, v2] => [(0, v0), (1, v1), (2, if l.any (·.1 = repoUrl 1) then 1000 else v2)]
      | _ => []

/-- the index requests of one online build, one repository after the other (distinct URLs, distinct entry
directories): `none` when one of them fails -/
def onlineIndexes (cfg : Cfg) (noetag : Bool) (c : CacheId) (memo : Bool) (cached : Bool) (cutA : Bool) :
    List Nat → St → St × Option (List (Url × Body))
  | [], st => (st, some [])
  | r :: rest, st =>
    let u := repoUrl r
    let cut := cutA && r == 0
    let x := if noetag && r == 0 then (let y := fetchNoEtag st u; (y.1, parseRes y.2))
             else if cached then (let y := fetchIndex cfg st c memo u cut; (y.1, parseRes y.2))
             else (let y := fetchIndexDirect st u; (y.1, parseRes y.2))
    let t := onlineIndexes cfg noetag c memo cached cutA rest x.1
    (t.1, match x.2, t.2 with
          | some b, some l => some ((u, b) :: l)
          | _, _ => none)

def runBuild (cfg : Cfg) (world : List GKey) (noetag : Bool) (vers : List (List Nat)) (sim : GSim) (b : GBuild) : GSim :=
  -- the repository serves revision `rev` during this build
  let st := if sim.st.cur 0 = some (100 + b.rev, 100 + b.rev) then sim.st
            else step cfg sim.st (.publish 0 (100 + b.rev) (100 + b.rev))
  -- … and the key set of epoch `epoch` through key discovery
  let pst := match b.epoch with
    | some e =>
      let p := if sim.pst.cur confUrl = some 0 then sim.pst else pstep storesReal sim.pst (.publish confUrl 0)
      if p.cur jwksUrl = some e then p else pstep storesReal p (.publish jwksUrl e)
    | none => sim.pst
  let sim := { sim with pst := pst }
  let cutOf := fun (k : Nat) => b.fault == toString k
  if b.mode == "none" then
    let kres := b.keys.map fun k => direct st (k + 1)
    let r := onlineIndexes cfg noetag 0 false false false b.repos st
    let d := (plainDirect pst confUrl).bind fun _ => plainDirect pst jwksUrl
    { sim with st := r.1, outs := sim.outs ++ [outcomeOfIdx b.keys kres r.2 (discTok b.epoch d)], notes := sim.notes ++ [""] }
  else if b.mode == "off" then
    let kres := b.keys.map fun k => fetchOffline cfg st (k + 1)
    -- every configured repository is remote (https)
    let idx := offlineIndexes skipReal cfg st (fun _ => true) (fun _ => .notExist) (b.repos.map repoUrl)
    -- (an offline build is given a cache object of its own: no remembered discovery)
    let d := discoverOffline pst none confUrl jwksUrl
    let o := outcomeOfIdx b.keys kres idx (discTok b.epoch d)
    -- (the resolution succeeded; every package of the image must be in the cache as well)
    let o := if o != "err" && !(imagePkgs vers idx).all sim.pkgs.contains then "err" else o
    let out := if schedDependent world b then "sched" else o
    { sim with st := st, outs := sim.outs ++ [out], notes := sim.notes ++ [if b.epoch.isSome && d.isNone then "offdisc" else ""] }
  else
    let (c, memo, next) := if b.mode == "default" then (0, false, sim.nextCache) else (sim.nextCache, true, sim.nextCache + 1)
    -- key discovery comes first (InitDB), through the cache object of the build
    let dm := if b.mode == "default" then sim.discMemo else none
    let dr := if b.epoch.isSome then discover storesReal pst dm confUrl jwksUrl else (pst, none)
    let note := match dm, b.epoch with
      | some k, some e => if k != e then s!"memo:{k}" else ""
      | _, _ => ""
    let sim := { sim with pst := dr.1, discMemo := if b.mode == "default" && dr.2.isSome then dr.2 else sim.discMemo,
                          notes := sim.notes ++ [note] }
    let (st1, kres) := fetchAll cfg c memo (b.keys.map fun k => (k + 1, cutOf k)) st
    -- the keyring is initialised first (all entries are requested, concurrently); the indexes only after that
    if kres.any (·.isNone) then { sim with st := st1, nextCache := next, outs := sim.outs ++ ["err"] }
    else
      let r := onlineIndexes cfg noetag c memo true (b.fault == "i") b.repos st1
      let o := outcomeOfIdx b.keys kres r.2 (discTok b.epoch dr.2)
      let pk := if o != "err" then sim.pkgs ++ imagePkgs vers r.2 else sim.pkgs
      { sim with st := r.1, nextCache := next, outs := sim.outs ++ [o], pkgs := pk }

def runProc (cfg : Cfg) (world : List GKey) (noetag : Bool) (vers : List (List Nat)) (sim : GSim) (p : List GBuild) : GSim :=
  let sim := p.foldl (runBuild cfg world noetag vers) sim
  { sim with st := step cfg sim.st .exit, discMemo := none }

def dirTokens (st : St) : List String :=
  st.files.flatMap fun f =>
    match f.etag with
    | some e => [s!"E{f.dir}.{e}=L{contentTok (f.body, f.complete)}", s!"T{f.dir}={contentTok (f.body, f.complete)}"]
    | none => [s!"T{f.dir}={contentTok (f.body, f.complete)}"]

def initial (cfg : Cfg) (world : List GKey) : St :=
  (List.range world.length).foldl (fun st i =>
    match world[i]? with
    | some k => step cfg st (.publish (i + 1) k.etag i)
    | none => st) (step cfg {} (.publish (repoUrl 1) 200 200))

/-- the oracle on one etag entry of the real directory: it must hold exactly the body served under that ETag
for a URL of that directory -/
def entryOk (world : List GKey) (t : String) : Bool :=
  if t.startsWith "E" then
    match (t.drop 1).toString.splitOn "=" with
    | [de, kd] =>
      match de.splitOn "." with
      | [d, e] =>
        if d == "0" || d == "50" then kd == s!"L{e}" && e != "?"
        else (List.range world.length).any fun i =>
          match world[i]? with
          | some k => toString k.dir == d && toString k.etag == e && kd == s!"L{i}"
          | none => false
      | _ => false
    | _ => false
  else true

/-- online: the cache-less image of the repository state the build ran against (a build with a cut
connection may fail instead); offline: an error, or what the model's offline build gives (`impls`; by
`offline_authentic_partial` complete bodies the server served under the very URLs asked for) — where the
model makes no prediction (`sched`) the cache-less image of a revision an earlier build brought into the cache -/
def outcomesVerdict (noetag : Bool) (builds : List GBuild) (outs impls : List String) (notes : List String := []) : Option String :=
  let rec go (bs : List GBuild) (os : List String) (ms : List String) (ns : List String) (seen : List Nat) (seenE : List Nat)
      (seenB : Bool) (soft : Option String) (i : Nat) : Option String :=
    match bs, os with
    | [], [] => soft
    | b :: bs', o :: os' =>
      let want := identityOutcome b.rev b.keys b.repos (b.epoch.map toString)
      let m := ms.head?.getD "err"
      let note := ns.head?.getD ""
      if b.mode == "off" then
        -- the cache-less image of a repository state that earlier builds brought into the cache: an index revision of
        -- repository 0 and, when repository 1 is configured, ITS index as well — never an image over fewer repositories —
        -- and, with key discovery, the key set of an epoch an earlier build over the cache saw
        let imageWith := fun (d : Option String) => (seenB || !b.repos.contains 1) && seen.any (fun r => o == identityOutcome r b.keys b.repos d)
        let cachedImage := match b.epoch with
          | none => imageWith none
          | some _ => seenE.any fun e => imageWith (some (toString e))
        let mOk := m == "sched" || o == m || note == "offdisc"
        -- (whatever the keyring looks like: over a repository that was never cached the only legal outcome is an error)
        if o != "err" && b.repos.contains 1 && !seenB then
          some s!"repos:build{i}:offline:{o}:a-configured-remote-repository-was-never-cached:want:err"
        else if o == "err" || (mOk && cachedImage) then go bs' os' ms.tail ns.tail seen seenE seenB soft (i + 1)
        else if note == "offdisc" && (m == "sched" || o == m) && imageWith (some "-") then
          -- the image of a cached revision WITHOUT the discovered keys: the offline discovery failed and was only logged
          go bs' os' ms.tail ns.tail seen seenE seenB
            (soft.orElse fun _ => some s!"disc-offline:build{i}:offline:{o}:the-discovered-keys-are-missing:want:err-or-the-keys-of-a-cached-epoch") (i + 1)
        else some s!"{if b.epoch.isSome then "disc:" else ""}build{i}:offline:{o}:want:err-or-{if m == "sched" then "cache-less-image-of-a-cached-revision" else if cachedImage then m else "the-image-over-all-configured-repositories"}"
      else
        -- (an index that is served without an ETag is never stored)
        let seen' := if b.mode != "none" && b.fault != "i" && !noetag then b.rev :: seen else seen
        let seenB' := seenB || (b.mode != "none" && b.repos.contains 1)
        let seenE' := match b.epoch with
          | some e => if b.mode != "none" then e :: seenE else seenE
          | none => seenE
        if o == want || (b.fault != "-" && o == "err") then go bs' os' ms.tail ns.tail seen' seenE' seenB' soft (i + 1)
        else if b.epoch.isSome && o == identityOutcome b.rev b.keys b.repos ((note.dropPrefix? "memo:").map (·.toString)) && o == m then
          -- the keys the process remembered from before the rotation
          go bs' os' ms.tail ns.tail seen' seenE' seenB'
            (soft.orElse fun _ => some s!"disc-memo:build{i}:{b.mode}:{o}:want:{want}") (i + 1)
        else if b.epoch.isSome && (identityOutcome b.rev b.keys b.repos none).isPrefixOf o then
          some s!"disc:build{i}:{b.mode}:{o}:the-key-files-are-not-those-the-repository-publishes-now:want:{want}"
        else some s!"build{i}:{b.mode}:{o}:want:{want}"
    | _, _ => some "outcome-count"
  go builds outs impls notes [] [] false none 0

def handle (keys history goDir goOutcomes goCwd : String) (opts : String := "") : String :=
  let world := parseKeys keys
  let procs := parseHistory history
  let noetag := (opts.splitOn ",").contains "noetag"
  let cfg := cfgReal (dirOfWorld world)
  let sim := procs.foldl (runProc cfg world noetag (parseVers opts)) { st := initial cfg world }
  let toks := (dirTokens sim.st).mergeSort (fun a b => decide (a ≤ b))
  let impl := ",".intercalate toks ++ "|" ++ ",".intercalate sim.outs
  let gtoks := if goDir.isEmpty then [] else goDir.splitOn ","
  let outs := if goOutcomes.isEmpty then [] else goOutcomes.splitOn ","
  let builds := procs.flatten
  let verdict :=
    if !goCwd.isEmpty then s!"fail:file-created-in-working-directory:{goCwd}"
    else match outcomesVerdict noetag builds outs sim.outs sim.notes with
      | some w => "fail:" ++ w
      | none =>
        match gtoks.find? (fun t => !entryOk world t) with
        | some t => s!"fail:advertised-entry-is-not-the-body-served-under-its-etag:{t}"
        | none => "pass"
  -- (a build over fewer repositories than configured has nothing to do with the key directories of F19d)
  let cls := if verdict.startsWith "fail:disc-memo:" then "F19g" else if verdict.startsWith "fail:disc-offline:" then "F19h"
             else if verdict.startsWith "fail:disc:" then "unlisted"
             else if builds.any (fun b => schedDependent world b || sameEtagPair world b) && !verdict.startsWith "fail:repos:" then "F19d" else "unlisted"
  impl ++ "\t" ++ verdict ++ "\t" ++ cls

end Glue

def handle (args : List String) : Option String :=
  match args with
  | ["cache-glue", keys, history, goDir, goOutcomes, goCwd] => some (Glue.handle keys history goDir goOutcomes goCwd)
  | ["cache-glue", keys, history, goDir, goOutcomes, goCwd, opts] => some (Glue.handle keys history goDir goOutcomes goCwd opts)
  | ["cache-seq", n, revs, builds, goState, goOutcomes] =>
    let revs := parseRevs revs
    let bs := if builds.isEmpty then [] else builds.splitOn ";"
    let sim := bs.foldl (runBuild n.toNat! revs) {}
    let impl := stateString revs sim ++ "|" ++ ",".intercalate sim.outcomes
    let outs := if goOutcomes.isEmpty then [] else goOutcomes.splitOn ","
    let verdict := match stateVerdict goState, depVerdict revs goState, outcomesVerdict revs bs outs sim.outcomes with
      | some w, _, _ => "fail:" ++ w
      | none, some w, _ => "fail:" ++ w
      | none, none, some w => "fail:" ++ w
      | none, none, none => "pass"
    some (impl ++ "\t" ++ verdict ++ "\t" ++ (if sim.regenSeen then "F19a" else "unlisted"))
  | ["cache-conc", expect, goState, goOutcomes, offline, revs] =>
    let outs := if goOutcomes.isEmpty then [] else goOutcomes.splitOn ","
    let verdict := match stateVerdict goState, depVerdict (parseRevs revs) goState, outs.find? (· != expect) with
      | some w, _, _ => "fail:" ++ w
      | none, some w, _ => "fail:" ++ w
      | none, none, some o => s!"fail:concurrent-build:{o}:want:{expect}"
      | none, none, none =>
        if offline == expect || offline == "err" then "pass" else s!"fail:offline-after-recovery:{offline}"
    some ("-\t" ++ verdict ++ "\tunlisted")
  | ["cache-race", expect, goState, goOutcomes, revs] =>
    -- builder B is paused inside `cachedPackage` (marker hit.probe) while builder C populates the cache,
    -- then goes on: every build that completes must produce the cache-less image
    let outs := if goOutcomes.isEmpty then [] else goOutcomes.splitOn ","
    let verdict := match stateVerdict goState, depVerdict (parseRevs revs) goState, outs.find? (· != expect) with
      | some w, _, _ => "fail:" ++ w
      | none, some w, _ => "fail:" ++ w
      | none, none, some o => s!"fail:build-raced-with-population:{o}:want:{expect}"
      | none, none, none => "pass"
    some ("-\t" ++ verdict ++ "\tunlisted")
  | ["cache-plant", kind, want, on, off] =>
    -- a planted entry (truncated / foreign / stale) must never be used: the cache-less image or an error
    let ok := fun (o : String) => o == want || o == "err"
    let verdict := if ok on && ok off then "pass" else s!"fail:planted-entry-used:{kind}:online={on}:offline={off}"
    -- F19b: `cachedPackage` never checks a cached data section against the hash in its name: a truncated
    -- `.dat.tar` is used as it is, and the size of a truncated `.dat.tar.gz` goes into the installed db
    some ("-\t" ++ verdict ++ "\t" ++
      (if kind == "empty-tar" || kind == "cut-tar" || kind == "trunc-dat" then "F19b" else "unlisted"))
  | ["cache-flight", want, results] =>
    -- N coalesced requests for one resource, then a warm and an offline request: the server is healthy, so
    -- every caller must get exactly the served bytes (`coalescing_transparent`: what the shared call
    -- returns is a value — not a handle with a position that the callers would share)
    let rs := if results.isEmpty then [] else results.splitOn ","
    let verdict := match rs.find? (· != want) with
      | some o => s!"fail:coalesced-request-got:{o}:served:{want}:all:{results}"
      | none => "pass"
    some ("-\t" ++ verdict ++ "\tunlisted")
  | ["cache-cold", cacheless, cold] =>
    -- the most basic instance: an empty cache directory must not change the result
    some ("-\t" ++ (if cacheless == cold then "pass" else s!"fail:cold-cache-build-differs:{cold}:cache-less:{cacheless}") ++ "\tunlisted")
  | "cache-plant" :: _ => some "-\tfail:harness-setup\tunlisted"
  | _ => none

end Apko.Driver.Cache
