import Apko.Model.Cache
/-! line-protocol handlers for corr:cache (C19)

`cache-seq \t n \t revs \t builds \t goState \t goOutcomes`
* `n`      number of non-final chunks per written file
* `revs`   `r:pid/k0.k1.k2.k3+pid/k0.k1.k2.k3;r:…` — index revision `r` (its content id) ↦ packages in
           install order, each with the id of its URL (`pid`) and the content ids of its signature section
           (`-` for an unsigned apk), control section, data section and uncompressed tar
* `builds` `;`-separated `on:hk:gk:K:extra[:fr]` (online; HEAD announced `hk`, GET served `gk`; killed at
           marker `K` plus `extra` steps, `K` = `-` for a build that is not killed; the apk files are those of
           revision `fr` — default `gk` —: a package whose URL holds other content there than the index lists
           is fetched, rejected by `verifyExpanded`, and the build fails) or `off`
* `goState`, `goOutcomes`  what the real code left / answered (canonical tokens), for the oracle

Answer: `impl \t verdict \t class` — impl = the model's `state|outcomes` after the same builds, verdict =
the property's oracle evaluated on Go's output, class `F19a` iff the model run itself passed through
a regular incomplete file under a final name (impossible for the repaired builders: `adv_invariant`).

`cache-flight \t want \t results` — oracle only (request coalescing through the real cacheTransport).
`cache-conc \t expect \t goState \t goOutcomes \t offline \t revs` — oracle only (concurrent recovery builds,
then one offline build).  `cache-race \t expect \t goState \t goOutcomes \t revs` — oracle only (a build paused
inside `cachedPackage` while another one populates the cache).  `cache-plant \t kind \t want \t online \t offline` — planted entries: both outcomes must be `want` or `err`.
-/
namespace Apko.Driver.Cache
open Apko.Cache

structure Pkg where
  pid : Nat
  k0 : Option Cid
  k1 : Cid
  k2 : Cid
  k3 : Cid

abbrev Revs := List (Cid × List Pkg)

def parsePkg (s : String) : Option Pkg :=
  match s.splitOn "/" with
  | [pid, ks] =>
    match ks.splitOn "." with
    | [z, a, b, c] => some ⟨pid.toNat!, if z == "-" then none else some z.toNat!, a.toNat!, b.toNat!, c.toNat!⟩
    | _ => none
  | _ => none

def parseRevs (s : String) : Revs :=
  if s.isEmpty then [] else
  (s.splitOn ";").filterMap fun e =>
    match e.splitOn ":" with
    | [r, ps] => some (r.toNat!, if ps.isEmpty then [] else (ps.splitOn "+").filterMap parsePkg)
    | _ => none

def pkgsOf (revs : Revs) (r : Cid) : List Pkg := ((revs.find? (·.1 = r)).map (·.2)).getD []

/-- what the repository serves under the URL of `p` when its files are those of revision `fr`: `none` when
it is the listed apk itself -/
def servedOf (revs : Revs) (fr : Cid) (p : Pkg) : Option Pkg :=
  match (pkgsOf revs fr).find? (·.pid = p.pid) with
  | some q => if q.k1 = p.k1 then none else some q
  | none => none

structure Sim where
  fs : FS := FS.empty
  nextTmp : Nat := 0
  idxTemps : List Name := []
  idxRevs : List Cid := []
  outcomes : List String := []
  regenSeen : Bool := false

def content (c : Cid) (b : Bool) : String := if b then s!"F{c}" else "P"

def advToken (fs : FS) (k : Cid) : Option String :=
  match fs.get (.adv k) with
  | none => none
  | some (.file c b) => some s!"A{k}=R{content c b}"
  | some (.link t) =>
    match fs.get t with
    | some (.file c b) => some s!"A{k}=L{content c b}"
    | _ => some s!"A{k}=LD"

def tmpToken (fs : FS) (i : Nat) : Option String :=
  match fs.get (.tmp i) with
  | some (.file c b) => some s!"T={content c b}"
  | _ => none

def allCids (revs : Revs) (idx : List Cid) : List Cid :=
  (idx ++ revs.map (·.1) ++ revs.flatMap fun (_, ps) => ps.flatMap fun p => p.k0.toList ++ [p.k1, p.k2, p.k3]).eraseDups

def stateString (revs : Revs) (sim : Sim) : String :=
  let toks := (allCids revs sim.idxRevs).filterMap (advToken sim.fs) ++
    (List.range sim.nextTmp).filterMap (tmpToken sim.fs)
  ",".intercalate (toks.mergeSort (fun a b => decide (a ≤ b)))

def regenVisible (revs : Revs) (sim : Sim) : Bool :=
  (allCids revs sim.idxRevs).any fun k =>
    match sim.fs.get (.adv k) with
    | some (.file _ false) => true
    | _ => false

/-- one builder segment: `budget = none` runs to completion, `some (marks, extra)` is a crash prefix.
returns the new directory, the process, and the budget that is left (`none` result budget with
`stopped = true` means the build was killed inside this segment) -/
def runSeg (fs : FS) (prog : Prog) (budget : Option (Nat × Nat)) : FS × Proc × Option (Nat × Nat) × Bool :=
  match budget with
  | none =>
    let r := runPrefix 100000 1000000 0 fs (Proc.new prog)
    (r.1, r.2, none, false)
  | some (marks, extra) =>
    let r := runPrefix 100000 marks extra fs (Proc.new prog)
    match r.2.prog with
    | .halt _ => (r.1, r.2, some (marks - r.2.marks, extra), false)
    | _ => (r.1, r.2, none, true)

def halted (p : Proc) : Option Bool :=
  match p.prog with
  | .halt b => some b
  | _ => none

def obsComplete (p : Proc) : Bool := p.obs.all fun (_, _, b) => b

/-- the revision the index segment ended up reading -/
def revRead (p : Proc) : Option Cid := p.obs.getLast?.map (·.2.1)

/-- package segments of one build, in install order; stops at the crash.  A package that fails (offline
miss, rejected download) does not stop the others: `InstallPackages` fetches every package (plain
`errgroup.Group`, no cancellation) and reports the error at the end. -/
def runPkgsFrom (n : Nat) (offline : Bool) : List (Pkg × Option Pkg) → FS → Nat → Option (Nat × Nat) → Bool → Bool →
    FS × Nat × String × Bool   -- fs, nextTmp, status ("ok" | "err" | "crash"), all observations complete
  | [], fs, nt, _, okc, failed => (fs, nt, if failed then "err" else "ok", okc)
  | (p, served) :: rest, fs, nt, budget, okc, failed =>
    let sg : Option (Name × Cid) := p.k0.map fun k0 => (.tmp (nt + 4), k0)
    let prog := if offline then pkgOffline sg (.tmp nt) p.k1 p.k2 p.k3 n
      else match served with
        | none => pkgBuilder sg (.tmp nt) (.tmp (nt + 1)) (.tmp (nt + 2)) (.tmp (nt + 3)) p.k1 p.k2 p.k3 n
        | some q =>
          pkgBuilderRejected sg (.tmp (nt + 3)) p.k1 p.k2 p.k3 (q.k0.map fun k0 => (.tmp (nt + 4), k0))
            (.tmp nt) (.tmp (nt + 1)) (.tmp (nt + 2)) q.k1 q.k2 q.k3 n
    let nt' := if offline then nt + 1 else nt + 5
    let (fs', pr, budget', stopped) := runSeg fs prog budget
    if stopped then (fs', nt', "crash", okc)
    else match halted pr with
      | some true => runPkgsFrom n offline rest fs' nt' budget' (okc && obsComplete pr) failed
      | _ => runPkgsFrom n offline rest fs' nt' budget' okc true

def runPkgs (n : Nat) (offline : Bool) (pkgs : List (Pkg × Option Pkg)) (fs : FS) (nt : Nat)
    (budget : Option (Nat × Nat)) (okc : Bool) : FS × Nat × String × Bool :=
  runPkgsFrom n offline pkgs fs nt budget okc false

def finishBuild (revs : Revs) (sim : Sim) (fs : FS) (nt : Nat) (out : String) : Sim :=
  let sim' := { sim with fs := fs, nextTmp := nt, outcomes := sim.outcomes ++ [out] }
  { sim' with regenSeen := sim.regenSeen || regenVisible revs sim' }

def buildOnline (n : Nat) (revs : Revs) (sim : Sim) (hk gk fr : Cid) (budget : Option (Nat × Nat)) : Sim :=
  let t := Name.tmp sim.nextTmp
  let sim := { sim with idxTemps := sim.idxTemps ++ [t], idxRevs := (sim.idxRevs ++ [hk, gk]).eraseDups }
  let (fs1, pr, budget1, stopped) := runSeg sim.fs (indexOnline t hk gk n) budget
  let nt := sim.nextTmp + 1
  if stopped then finishBuild revs sim fs1 nt "crash"
  else match halted pr, revRead pr with
    | some true, some r =>
      let pkgs := (pkgsOf revs r).map fun p => (p, servedOf revs fr p)
      let (fs2, nt2, st, okc) := runPkgs n false pkgs fs1 nt budget1 (obsComplete pr)
      finishBuild revs sim fs2 nt2 (if st == "ok" then (if okc then s!"ok:img{r}" else "ok:img?") else st)
    | _, _ => finishBuild revs sim fs1 nt "err"

def buildOffline (n : Nat) (revs : Revs) (sim : Sim) : Sim :=
  let cands := sim.idxRevs.map Name.adv ++ sim.idxTemps
  let (fs1, pr, _, _) := runSeg sim.fs (indexOffline cands) none
  match halted pr, revRead pr with
  | some true, some r =>
    let (fs2, nt2, st, okc) := runPkgs n true ((pkgsOf revs r).map fun p => (p, none)) fs1 sim.nextTmp none (obsComplete pr)
    finishBuild revs sim fs2 nt2 (if st == "ok" then (if okc then s!"ok:img{r}" else "ok:img?") else st)
  | _, _ => finishBuild revs sim fs1 sim.nextTmp "err"

def runBuild (n : Nat) (revs : Revs) (sim : Sim) (b : String) : Sim :=
  match b.splitOn ":" with
  | ["on", hk, gk, k, extra] =>
    buildOnline n revs sim hk.toNat! gk.toNat! gk.toNat! (if k == "-" then none else some (k.toNat!, extra.toNat!))
  | ["on", hk, gk, k, extra, fr] =>
    buildOnline n revs sim hk.toNat! gk.toNat! fr.toNat! (if k == "-" then none else some (k.toNat!, extra.toNat!))
  | ["off"] => buildOffline n revs sim
  | _ => sim

/-! the oracle, evaluated on what the real code left behind / answered -/

def tokenOk (t : String) : Bool :=
  if t.startsWith "A" then
    match (t.drop 1).toString.splitOn "=" with
    | [k, d] => d == s!"LF{k}" || d == s!"RF{k}"   -- in particular not `LD`: a dangling link (`adv_present_resolves`)
    | _ => false
  else true

def stateVerdict (goState : String) : Option String :=
  let toks := if goState.isEmpty then [] else goState.splitOn ","
  match toks.find? (fun t => !tokenOk t) with
  | some t => some (if t.endsWith "=LD" then s!"advertised-entry-dangles:{t}" else s!"advertised-name-holds-other-content:{t}")
  | none => none

/-- `hit_has_signature` on the real directory: where the control and the data entry of a signed package
are there (a hit), its signature entry must be there too -/
def depVerdict (revs : Revs) (goState : String) : Option String :=
  let toks := if goState.isEmpty then [] else goState.splitOn ","
  let has := fun (k : Cid) => toks.any fun t => t.startsWith s!"A{k}="
  let bad := (revs.flatMap (·.2)).find? fun p =>
    match p.k0 with
    | some k0 => has p.k1 && has p.k2 && !has k0
    | none => false
  bad.map fun p => s!"hit-without-signature:A{p.k1},A{p.k2}-present,A{p.k0.getD 0}-absent"

/-- expected outcomes: online not killed → the image of the revision served (or of the revision HEAD
announced, when the repository changed between HEAD and GET); killed → `crash` (or that image when the
marker lies beyond the build); offline → an error or the image of the revision the most recent online
build asked for (never an older revision, never anything else) -/
def outcomesVerdict (revs : Revs) (builds : List String) (outs : List String) : Option String :=
  let rec go (bs : List String) (os : List String) (last : List String) (i : Nat) : Option String :=
    match bs, os with
    | [], [] => none
    | b :: bs', o :: os' =>
      match b.splitOn ":" with
      | "on" :: hk :: gk :: k :: _ :: frs =>
        -- the repository's files are those of revision `fr` (default: the GET revision): where a listed
        -- package's URL serves another apk (a stale index — also the cached one HEAD announced — of a
        -- repository that rebuilt a package) the cache-less build fails (verifyExpanded); with the cache the
        -- build fails too, or — the listed apk being cached — produces the image of the listed revision
        let want := s!"ok:img{gk}"
        let fr := (frs.head?.getD gk).toNat!
        let mismatch := (pkgsOf revs gk.toNat! ++ pkgsOf revs hk.toNat!).any fun p => (servedOf revs fr p).isSome
        if o == want || o == s!"ok:img{hk}" || (k != "-" && o == "crash") || (mismatch && o == "err") then
          go bs' os' [want, s!"ok:img{hk}"] (i + 1)
        else some s!"build{i}:online:{o}:want:{want}"
      | _ =>
        if o == "err" || last.contains o then go bs' os' last (i + 1)
        else some s!"build{i}:offline:{o}:want:err-or-{last}"
    | _, _ => some "outcome-count"
  go builds outs [] 0

def handle (args : List String) : Option String :=
  match args with
  | ["cache-seq", n, revs, builds, goState, goOutcomes] =>
    let revs := parseRevs revs
    let bs := if builds.isEmpty then [] else builds.splitOn ";"
    let sim := bs.foldl (runBuild n.toNat! revs) {}
    let impl := stateString revs sim ++ "|" ++ ",".intercalate sim.outcomes
    let outs := if goOutcomes.isEmpty then [] else goOutcomes.splitOn ","
    let verdict := match stateVerdict goState, depVerdict revs goState, outcomesVerdict revs bs outs with
      | some w, _, _ => "fail:" ++ w
      | none, some w, _ => "fail:" ++ w
      | none, none, some w => "fail:" ++ w
      | none, none, none => "pass"
    some (impl ++ "\t" ++ verdict ++ "\t" ++ (if sim.regenSeen then "F19a" else "unlisted"))
  | ["cache-conc", expect, goState, goOutcomes, offline, revs] =>
    let outs := if goOutcomes.isEmpty then [] else goOutcomes.splitOn ","
    let verdict := match stateVerdict goState, depVerdict (parseRevs revs) goState, outs.find? (· != expect) with
      | some w, _, _ => "fail:" ++ w
      | none, some w, _ => "fail:" ++ w
      | none, none, some o => s!"fail:concurrent-build:{o}:want:{expect}"
      | none, none, none =>
        if offline == expect || offline == "err" then "pass" else s!"fail:offline-after-recovery:{offline}"
    some ("-\t" ++ verdict ++ "\tunlisted")
  | ["cache-race", expect, goState, goOutcomes, revs] =>
    -- builder B is paused inside `cachedPackage` (marker hit.probe) while builder C populates the cache,
    -- then goes on: every build that completes must produce the cache-less image
    let outs := if goOutcomes.isEmpty then [] else goOutcomes.splitOn ","
    let verdict := match stateVerdict goState, depVerdict (parseRevs revs) goState, outs.find? (· != expect) with
      | some w, _, _ => "fail:" ++ w
      | none, some w, _ => "fail:" ++ w
      | none, none, some o => s!"fail:build-raced-with-population:{o}:want:{expect}"
      | none, none, none => "pass"
    some ("-\t" ++ verdict ++ "\tunlisted")
  | ["cache-plant", kind, want, on, off] =>
    -- a planted entry (truncated / foreign / stale) must never be used: the cache-less image or an error
    let ok := fun (o : String) => o == want || o == "err"
    let verdict := if ok on && ok off then "pass" else s!"fail:planted-entry-used:{kind}:online={on}:offline={off}"
    -- F19b: `cachedPackage` never checks a cached data section against the hash in its name: a truncated
    -- `.dat.tar` is used as it is, and the size of a truncated `.dat.tar.gz` goes into the installed db
    some ("-\t" ++ verdict ++ "\t" ++
      (if kind == "empty-tar" || kind == "cut-tar" || kind == "trunc-dat" then "F19b" else "unlisted"))
  | ["cache-flight", want, results] =>
    -- N coalesced requests for one resource, then a warm and an offline request: the server is healthy, so
    -- every caller must get exactly the served bytes (`coalescing_transparent`: what the shared call
    -- returns is a value — not a handle with a position that the callers would share)
    let rs := if results.isEmpty then [] else results.splitOn ","
    let verdict := match rs.find? (· != want) with
      | some o => s!"fail:coalesced-request-got:{o}:served:{want}:all:{results}"
      | none => "pass"
    some ("-\t" ++ verdict ++ "\tunlisted")
  | ["cache-cold", cacheless, cold] =>
    -- the most basic instance: an empty cache directory must not change the result
    some ("-\t" ++ (if cacheless == cold then "pass" else s!"fail:cold-cache-build-differs:{cold}:cache-less:{cacheless}") ++ "\tunlisted")
  | "cache-plant" :: _ => some "-\tfail:harness-setup\tunlisted"
  | _ => none

end Apko.Driver.Cache
