import Apko.Model.FS
/-! line-protocol handlers for corr:fs

* `fs.run  <backend> <op> <op> …`   whole operation sequence (stateless); answer
  `r1~h1;r2~h2;…#dump` for Impl and for Spec, where `ri` is the result of op `i`, `hi` the
  FNV-1a hash of the canonical dump of the node graph after op `i`, `dump` the final dump.
* `fs.trace <backend> <op> …`       same, with the full dump after every op (debugging).
* `p.clean|p.dir|p.base|p.join|p.valid`  `Model/Path.lean` against `path/filepath`.
-/
namespace Apko.Driver.FS
open Apko Apko.Path Apko.FS

def T (s : String) : Text := s.toList

def natS (n : Nat) : Text := T (toString n)
def intS (n : Int) : Text := T (toString n)

def parseNat (s : String) : Nat := s.toList.foldl (fun a c => a * 10 + (c.toNat - 48)) 0
def parseInt (s : String) : Int :=
  match s.toList with
  | '-' :: r => - (Int.ofNat (r.foldl (fun a c => a * 10 + (c.toNat - 48)) 0))
  | r => Int.ofNat (r.foldl (fun a c => a * 10 + (c.toNat - 48)) 0)

def errS : Err → Text
  | .notExist => T "ENOENT" | .exist => T "EEXIST" | .parentNotDir => T "EPARENTNOTDIR"
  | .pathNotDir => T "EPATHNOTDIR" | .notDir => T "ENOTDIR" | .isDir => T "EISDIR"
  | .loop => T "ELOOP" | .tooManyLinks => T "EMLINK" | .notLink => T "ENOTLINK"
  | .notDevice => T "ENOTDEV" | .closed => T "ECLOSED" | .invalid => T "EINVAL"
  | .whence => T "EWHENCE" | .notWrite => T "ENOTWRITE" | .conflictNoTe => T "ECONFLICT-NOTE"
  | .conflictSum => T "ECONFLICT-SUM" | .fileConflict => T "EFILECONFLICT"
  | .nilChecksum => T "ENILSUM" | .unsupported => T "EUNSUPPORTED" | .perm => T "EPERM"

def sepJoin (sep : Text) (l : List Text) : Text := joinWith sep l

def kvS (l : List (Name × Text)) : Text :=
  sepJoin (T "+") (l.map fun e => hex e.1 ++ T "=" ++ hex e.2)

def statS (s : StatInfo) : Text :=
  sepJoin (T "/") [hex s.name, natS s.size, natS s.mode, intS s.mtime, if s.isDir then T "1" else T "0",
    intS s.uid, intS s.gid, match s.hardlink with | none => T "-" | some l => T "L" ++ hex l]

def valS : Val → Text
  | .unit => T "ok"
  | .handle _ => T "h"
  | .bytes b eof => T "b" ++ hex b ++ (if eof then T "|EOF" else [])
  | .num n => T "n" ++ intS n
  | .stat s => T "s" ++ statS s
  | .entries es => T "e" ++ sepJoin (T "+") (es.map statS)
  | .text t => T "t" ++ hex t
  | .xattrs l => T "x" ++ kvS l
  | .bool b => if b then T "true" else T "false"

def outS : Out → Text
  | .ok v => valS v
  | .err e => errS e
  | .nohandle => T "nohandle"

/-! ### canonical dump of the node graph (what the `VerifDump` hooks print) -/

def teS : Option TarEntry → Text
  | none => T "-"
  | some te => sepJoin (T "/") [natS te.size, hex te.content, hex te.checksum, hex te.pkgName]

def attrsS (n : Inode) : Text :=
  sepJoin (T ",") [if n.dir then T "D" else T "F", natS n.mode, intS n.uid, intS n.gid, intS n.mtime,
    natS n.nlink, hex n.data, hex n.target, natS n.major, natS n.minor, kvS (sortNames n.xattrs),
    teS n.te, kvS (sortNames n.hardlinks)]

def indexOf (l : List Ino) (i : Ino) : Option Nat :=
  let r := l.findIdx (· = i)
  if r < l.length then some r else none

mutual
def dumpNode (fs : FS) : Nat → Text → Ino → List Ino → List Text × List Ino
  | 0, _, _, vis => ([], vis)
  | fuel + 1, path, i, vis =>
    match indexOf vis i with
    | some k => ([hex path ++ T ":" ++ natS k], vis)
    | none =>
      let n := fs.node i
      let recd := hex path ++ T ":" ++ natS vis.length ++ T ":" ++ attrsS n
      let (rs, vis') := dumpKids fs fuel path (sortNames n.children) (vis ++ [i])
      (recd :: rs, vis')
def dumpKids (fs : FS) : Nat → Text → List (Name × Ino) → List Ino → List Text × List Ino
  | 0, _, _, vis => ([], vis)
  | _, _, [], vis => ([], vis)
  | fuel + 1, path, (nm, i) :: rest, vis =>
    let (r1, v1) := dumpNode fs fuel (path ++ T "/" ++ nm) i vis
    let (r2, v2) := dumpKids fs fuel path rest v1
    (r1 ++ r2, v2)
end

def dump (fs : FS) : Text :=
  sepJoin (T ";") (dumpNode fs (2 * fs.nodes.length + 4 + (fs.nodes.map (·.children.length)).sum) [] 0 []).1

def fnv (t : Text) : Text :=
  let h := t.foldl (fun (h : UInt64) c => (h ^^^ (UInt64.ofNat c.toNat)) * 1099511628211) 14695981039346656037
  natS h.toNat

/-! ### request decoding -/

def ux (s : String) : Text := unhexS s

def parseKV (s : String) : List (Name × Text) :=
  if s.isEmpty then [] else
  (s.splitOn "+").map fun e =>
    match e.splitOn "=" with
    | [k, v] => (ux k, ux v)
    | _ => (ux e, [])

def parseOp (tok : String) : Option Op :=
  match tok.splitOn "," with
  | ["mkdir", p, m] => some (.mkdir (ux p) (parseNat m))
  | ["mkdirall", p, m] => some (.mkdirAll (ux p) (parseNat m))
  | ["open", p, f, m] => some (.openFile (ux p) (parseNat f) (parseNat m))
  | ["create", p] => some (.create (ux p))
  | ["close", h] => some (.close (parseNat h))
  | ["read", h, n] => some (.read (parseNat h) (parseNat n))
  | ["readat", h, n, o] => some (.readAt (parseNat h) (parseNat n) (parseInt o))
  | ["write", h, d] => some (.write (parseNat h) (ux d))
  | ["seek", h, o, w] => some (.seek (parseNat h) (parseInt o) (parseNat w))
  | ["hstat", h] => some (.hstat (parseNat h))
  | ["readfile", p] => some (.readFile (ux p))
  | ["writefile", p, d, m] => some (.writeFile (ux p) (ux d) (parseNat m))
  | ["readdir", p] => some (.readDir (ux p))
  | ["stat", p] => some (.stat (ux p))
  | ["lstat", p] => some (.lstat (ux p))
  | ["remove", p] => some (.remove (ux p))
  | ["chmod", p, m] => some (.chmod (ux p) (parseNat m))
  | ["chown", p, u, g] => some (.chown (ux p) (parseInt u) (parseInt g))
  | ["chtimes", p, t] => some (.chtimes (ux p) (parseInt t))
  | ["symlink", t, p] => some (.symlink (ux t) (ux p))
  | ["link", o, n] => some (.link (ux o) (ux n))
  | ["readlink", p] => some (.readlink (ux p))
  | ["mknod", p, m, d] => some (.mknod (ux p) (parseNat m) (parseNat d))
  | ["readnod", p] => some (.readnod (ux p))
  | ["setxattr", p, a, d] => some (.setXattr (ux p) (ux a) (ux d))
  | ["getxattr", p, a] => some (.getXattr (ux p) (ux a))
  | ["rmxattr", p, a] => some (.removeXattr (ux p) (ux a))
  | ["listxattrs", p] => some (.listXattrs (ux p))
  | ["wh", tf, n, l, m, sz, mt, sum, xa, content, pn, po, pr] =>
    let h : Hdr := {
      typeflag := parseNat tf
      name := ux n
      linkname := ux l
      mode := parseNat m
      size := parseNat sz
      mtime := parseInt mt
      checksum := (if sum = "-" then none else some (ux sum))
      xattrs := parseKV xa
      content := ux content
      pkgName := ux pn
      pkgOrigin := ux po
      pkgReplaces := (if pr.isEmpty then [] else (pr.splitOn "+").map ux) }
    some (.writeHeader h)
  | _ => none

/-- what the harness drives: the base file system, or a `SubFS` view of it -/
structure St where
  fs : FS
  sub : Option Text := none

/-- `Sub(path)` of `memFS` / `SubFS` -/
def subCall (c : Cfg) (st : St) (p : Text) : St × Text :=
  match st.sub with
  | none =>
    let cp := clean p
    if cp = dot then (st, T "ok") else
    match getNode c st.fs cp with
    | .error e => (st, errS e)
    | .ok i => if !(st.fs.node i).dir then (st, T "ENOTDIR") else ({ st with sub := some cp }, T "ok")
  | some root =>
    if !validPath p then (st, T "EINVAL") else
    let cp := clean p
    if cp = dot then (st, T "ok") else
    let full := join2 root cp
    match getNode c st.fs full with
    | .error e => (st, errS e)
    | .ok i => if !(st.fs.node i).dir then (st, T "ENOTDIR") else ({ st with sub := some full }, T "ok")

def visitS (v : Visit) : Text :=
  match v.err with
  | some e => hex v.path ++ T "!" ++ errS e
  | none => hex v.path ++ (if v.isDir then T "/" else [])

/-- `fs.WalkDir(view, root, …)`: every callback, or `HANG` when the walk never returns -/
def walkCall (c : Cfg) (st : St) (p : Text) : Text :=
  let tr : Text → Text := match st.sub with | none => id | some r => join2 r
  match walkDirOp c st.fs tr p with
  | none => T "HANG"
  | some vs => T "w" ++ sepJoin (T "+") (vs.map visitS)

def runToks (c : Cfg) (verbose : Bool) : List String → St → List Text → List Text × St
  | [], st, acc => (acc.reverse, st)
  | tok :: rest, st, acc =>
    match tok.splitOn "," with
    | ["sub", p] =>
      let (st1, r) := subCall c st (ux p)
      runToks c verbose rest st1 ((r ++ T "~" ++ (if verbose then dump st1.fs else fnv (dump st1.fs))) :: acc)
    | ["walk", p] =>
      let r := walkCall c st (ux p)
      runToks c verbose rest st ((r ++ T "~" ++ (if verbose then dump st.fs else fnv (dump st.fs))) :: acc)
    | _ =>
      match parseOp tok with
      | none => runToks c verbose rest st (T "bad-op" :: acc)
      | some op0 =>
        let op := match st.sub with | none => op0 | some r => subOp r op0
        let (fs1, o) := step c st.fs op
        let d := dump fs1
        runToks c verbose rest { st with fs := fs1 } ((outS o ++ T "~" ++ (if verbose then d else fnv d)) :: acc)

def runCase (c : Cfg) (verbose : Bool) (toks : List String) : String :=
  let (rs, st) := runToks c verbose toks { fs := FS.empty } []
  String.ofList (sepJoin (T ";") rs ++ T "#" ++ dump st.fs)

def backendOf : String → Option Backend
  | "memfs" => some .memfs
  | "tarfs" => some .tarfs
  | _ => none

/-- class of a disagreement between Impl and Spec: the single Spec switches that change the
outcome of this case -/
def classify (b : Backend) (toks : List String) (impl : String) : String :=
  let p := runCase { Cfg.impl b with posix := true } false toks
  let t := runCase { Cfg.impl b with teTrunc := true } false toks
  match decide (p ≠ impl), decide (t ≠ impl) with
  | true, true => "F17b+F17d"
  | true, false => "F17d"
  | false, true => "F17b"
  | false, false => "unlisted"

/-! ### DirFS hard-link groups (`fs.dirhl`): the model's answers projected onto what a directory-backed file
system can be asked without modelling the host (`E` for any failure; sizes, modes and kinds of `Stat`; the
disk view of the names of the alphabet) -/

def projStat (s : StatInfo) (withName : Bool) : Text :=
  (if withName then hex s.name ++ T "/" else []) ++
    sepJoin (T "/") [natS s.size, natS s.mode, if s.isDir then T "1" else T "0"]

def projOut : Out → Text
  | .err _ => T "E"
  | .ok (.stat s) => T "s" ++ projStat s false
  | .ok (.entries es) => T "e" ++ sepJoin (T "+") (es.map fun s => projStat s true)
  | o => outS o

def linkViewS (v : List (Option (Nat × Nat × Text))) : Text :=
  T "g" ++ sepJoin (T "+") (v.map fun e =>
    match e with
    | none => T "-"
    | some (k, n, d) => sepJoin (T ":") [natS k, natS n, natS d.length, hex d])

/-- `disk = true`: the disk view comes from the `Disk` model driven by the calls `DirFS` makes (Impl);
`false`: from the link structure of the reference file system (Spec) -/
def runHL (c : Cfg) (disk : Bool) : List String → FS → Disk → List Text → List Text
  | [], _, _, acc => acc.reverse
  | tok :: rest, fs, d, acc =>
    match tok.splitOn "," with
    | ["hl", ns] =>
      let names := (ns.splitOn "+").map ux
      runHL c disk rest fs d (linkViewS (if disk then d.view names else linkView c fs names) :: acc)
    | _ =>
      match parseOp tok with
      | none => runHL c disk rest fs d (T "bad-op" :: acc)
      | some op =>
        let (fs1, o) := step c fs op
        let okB := match o with | .ok _ => true | _ => false
        runHL c disk rest fs1 (d.apply op okB) (projOut o :: acc)

def runHLCase (c : Cfg) (disk : Bool) (toks : List String) : String :=
  String.ofList (sepJoin (T ";") (runHL c disk toks FS.empty {} []))

/-! ### DirFS re-open histories (`fs.dirre`): as `fs.dirhl`, plus the token `reopen,<how>` — a NEW `DirFS` value over
the same directory (named by its real path, through a symbolic link, with a trailing `/`, `/.`, through `x/..`,
relative to another working directory: all the same to the models).  The state is carried over: the directory's
content is the file system's.  Impl: the overlay as the constructor's callback rebuilds it (`reopenFS`); Spec: the
reference file system goes on unchanged.  Sizes the overlay does not know are not compared: `Lstat` (overlay only;
the bytes are on disk) and symbolic-link entries of `ReadDir` (the host's `Lstat`). -/

def projStatRe (s : StatInfo) (withName noSize : Bool) : Text :=
  (if withName then hex s.name ++ T "/" else []) ++
    sepJoin (T "/") [natS (if noSize then 0 else s.size), natS s.mode, if s.isDir then T "1" else T "0"]

def projOutRe (isLstat : Bool) : Out → Text
  | .err _ => T "E"
  | .ok (.stat s) => T "s" ++ projStatRe s false isLstat
  | .ok (.entries es) => T "e" ++ sepJoin (T "+") (es.map fun s => projStatRe s true (s.mode.testBit 27))
  | o => outS o

def runRe (c : Cfg) (impl : Bool) : List String → FS → Disk → List Text → List Text
  | [], _, _, acc => acc.reverse
  | tok :: rest, fs, d, acc =>
    match tok.splitOn "," with
    | ["hl", ns] =>
      let names := (ns.splitOn "+").map ux
      runRe c impl rest fs d (linkViewS (if impl then d.view names else linkView c fs names) :: acc)
    | ["reopen", _] => runRe c impl rest (if impl then reopenFS fs else fs) d (T "ok" :: acc)
    | _ =>
      match parseOp tok with
      | none => runRe c impl rest fs d (T "bad-op" :: acc)
      | some op =>
        let (fs1, o) := step c fs op
        let okB := match o with | .ok _ => true | _ => false
        let isLstat := match op with | .lstat _ => true | _ => false
        runRe c impl rest fs1 (d.apply op okB) (projOutRe isLstat o :: acc)

def runReCase (c : Cfg) (impl : Bool) (toks : List String) : String :=
  String.ofList (sepJoin (T ";") (runRe c impl toks FS.empty {} []))

def pathReply (t : Text) : Option String :=
  let s := hexS t
  some (s ++ "\t" ++ s ++ "\t-")

def handle (args : List String) : Option String :=
  match args with
  | "fs.run" :: b :: toks =>
    match backendOf b with
    | none => some "bad-backend\tbad-backend\t-"
    | some bk =>
      let impl := runCase (Cfg.impl bk) false toks
      let spec := runCase (Cfg.spec bk) false toks
      some (impl ++ "\t" ++ spec ++ "\t" ++ (if impl = spec then "-" else classify bk toks impl))
  | "fs.trace" :: b :: toks =>
    match backendOf b with
    | none => some "bad-backend\tbad-backend\t-"
    | some bk =>
      let impl := runCase (Cfg.impl bk) true toks
      let spec := runCase (Cfg.spec bk) true toks
      some (impl ++ "\t" ++ spec ++ "\t-")
  | "fs.dirhl" :: toks =>
    -- DirFS inside its envelope is the model's memfs with the content on disk
    let impl := runHLCase (Cfg.impl .memfs) true toks
    let spec := runHLCase (Cfg.spec .memfs) false toks
    some (impl ++ "\t" ++ spec ++ "\t" ++ (if impl = spec then "-" else "unlisted"))
  | "fs.dirre" :: toks =>
    let impl := runReCase (Cfg.impl .memfs) true toks
    let spec := runReCase (Cfg.spec .memfs) false toks
    some (impl ++ "\t" ++ spec ++ "\t" ++ (if impl = spec then "-" else "unlisted"))
  | ["fs.dirfs", op, why, res] =>
    -- DirFS is judged by the harness-side oracles; the class of a failed verdict is decided here
    let cls := if why = "atomic" ∧ op = "remove" ∧ (res = "ENOTEMPTY" ∨ res = "EEXIST") then "F17f" else "unlisted"
    some ("-\t-\t" ++ cls)
  | ["p.clean", p] => pathReply (clean (ux p))
  | ["p.dir", p] => pathReply (dir (ux p))
  | ["p.base", p] => pathReply (base (ux p))
  | ["p.join", a, b] => pathReply (join2 (ux a) (ux b))
  | ["p.valid", p] => let r := if validPath (ux p) then "true" else "false"; some (r ++ "\t" ++ r ++ "\t-")
  | _ => none

end Apko.Driver.FS
