/-! line-protocol handlers for corr:repro (C01): the oracle (byte equality of all outputs across
variants) is evaluated by the harness; the model has nothing to add per case — its content is the
order-independence theorems of Proofs/C01.lean. -/
namespace Apko.Driver.Repro

def handle (args : List String) : Option String :=
  match args with
  | ["x.repro", _] => some "-\t-\t-"
  | _ => none

end Apko.Driver.Repro
