import Apko.Model.IndexOrder
/-! line-protocol handlers for corr:repro (C01).

  x.repro    case-hash                → the oracle (byte equality of all outputs across variants, no scratch path in
                                        any output) is evaluated by the harness; the model has nothing to add per case
                                        — its content is the order-independence theorems of Proofs/C01.lean
  x.collect  n  present  schedule     → impl \t spec \t class: the positions of the indexes `GetRepositoryIndexes`
                                        returns for `n` repository lines, `present` = one `0`/`1` per line (`0`: a
                                        local repository without an index), `schedule` = the completion order the
                                        harness imposed (comma separated positions); impl = `collectPositional`
                                        under that schedule, spec = `inLineOrder`
-/
namespace Apko.Driver.Repro
open Apko.IndexOrder

def parseNats (s : String) : List Nat :=
  if s.isEmpty || s = "-" then [] else (s.splitOn ",").map String.toNat!

def showNats (l : List Nat) : String :=
  if l.isEmpty then "-" else ",".intercalate (l.map toString)

def handle (args : List String) : Option String :=
  match args with
  | ["x.repro", _] => some "-\t-\t-"
  | ["x.collect", n, bits, sched] =>
    let present := bits.toList
    let fetch : Nat → Option Nat := fun i => if present[i]? = some '1' then some i else none
    let impl := collectPositional n.toNat! fetch (parseNats sched)
    let spec := inLineOrder n.toNat! fetch
    some (showNats impl ++ "\t" ++ showNats spec ++ "\t" ++ (if impl = spec then "-" else "unlisted"))
  | _ => none

end Apko.Driver.Repro
