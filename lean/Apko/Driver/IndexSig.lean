import Apko.Model.IndexSig
/-!
line-protocol handlers for corr:indexsig (C04).

The harness runs the real gzip / archive/tar / crypto/rsa code on each archive and sends the *abstract
description* the model is parametric in: the entries of the first gzip member and how the loop over
them ended, which (key, algorithm, body) triples verify over the unread remainder, and what the
remainder / the whole buffer parse to.  The driver instantiates `Crypto` / `Codec` with exactly that
description (the archive is the token `A`, the remainder the token `R`) and runs `parseIndex` (Impl)
and `Spec.acceptableB` (the oracle, on Go's answer).

  is.check  ign nosig url arch                                        → checkOn | ¬exempt | class
  is.parse  ign nosig url arch keys first verif pRest pWhole gokind goout → impl | pass/fail | class
  is.multi  mode ign nosig arch keys goout (url first verif pRest pWhole)* → impl | pass/fail | class

Encodings: `nosig`/`keys`/entries are comma lists; names are `x<hex>`; key material, entry bodies and
package records are opaque tokens; `first` = `none` or `<ending>|<entries>` with ending `eof`, `errnext`,
`errbody:x<hex>`; `verif` = `<pem>:<1|256>:<body>` triples; parse results `err` or `p<rec,rec…>;d<hex>;s<body>`.
-/
namespace Apko.Driver.IndexSig
open Apko Apko.IndexSig

def splitList (s : String) : List String := if s.isEmpty then [] else s.splitOn ","

/-- `x<hex>` → bytes -/
def unx (s : String) : Text := unhex (s.toList.drop 1)

def parseOpts (ign nosig : String) : Opts := ⟨ign == "1", (splitList nosig).map unx⟩

def parseKeys (s : String) : Keys :=
  (splitList s).filterMap fun kv =>
    match kv.splitOn ":" with
    | [n, pem] => some (unx n, pem.toList)
    | _ => none

def parseEnding (s : String) : Ending :=
  match s.splitOn ":" with
  | ["eof"] => .eof
  | ["errbody", n] => .errBody (unx n)
  | _ => .errNext

def parseFirst (s : String) (rest : Bytes) : Option First :=
  if s == "none" then none else
  match s.splitOn "|" with
  | [e, ents] =>
    some ⟨(splitList ents).filterMap (fun x => match x.splitOn ":" with
        | [n, b] => some ⟨unx n, b.toList⟩
        | _ => none), parseEnding e, rest⟩
  | _ => none

def parseAlg (s : String) : Alg := if s == "1" then .sha1 else .sha256

def parseVerif (s : String) : List (Bytes × Alg × Bytes) :=
  (splitList s).filterMap fun x =>
    match x.splitOn ":" with
    | [pem, a, b] => some (pem.toList, parseAlg a, b.toList)
    | _ => none

def parseIdx (s : String) : Option Index :=
  match s.splitOn ";" with
  | [p, d, g] =>
    some ⟨(splitList (String.ofList (p.toList.drop 1))).map String.toList, d.toList.drop 1, g.toList.drop 1⟩
  | _ => none

def showIdx (i : Index) : String :=
  "p" ++ ",".intercalate (i.packages.map String.ofList) ++ ";d" ++ String.ofList i.description ++ ";s" ++ String.ofList i.signature

def tokA : Bytes := ['A']
def tokR : Bytes := ['R']

/-- the interpretation of the parameters that the harness measured on this archive -/
def mkCrypto (table : List (Bytes × Alg × Bytes)) : Crypto where
  sha1 := fun x => '1' :: ':' :: x
  sha256 := fun x => '2' :: '5' :: '6' :: ':' :: x
  rsaVerify := fun pem a d s =>
    (d == match a with | .sha1 => '1' :: ':' :: tokR | .sha256 => '2' :: '5' :: '6' :: ':' :: tokR) &&
    table.contains (pem, a, s)

def mkCodec (first : Option First) (pRest pWhole : Option Index) : Codec where
  readFirst := fun a => if a == tokA then first else none
  indexFromArchive := fun a => if a == tokR then pRest else if a == tokA then pWhole else none

def showRej : Rej → String
  | .noKeys => "nokeys" | .keyName => "keyname" | .gzip => "gzip" | .tar => "tar"
  | .entryName => "name" | .sigFormat => "format" | .readSig => "readsig" | .noSig => "nosig"
  | .verify => "verify" | .parse => "parse"

/-- Go's answer as a `Res` (the rejection reason is irrelevant to the oracle) -/
def parseGo (s : String) : Option Res :=
  if s.startsWith "err" then some (.rej .parse)
  else if s.startsWith "ok " then (parseIdx (s.drop 3).toString).map .ok
  else none

structure One where
  url : Text
  first : Option First
  crypto : Crypto
  codec : Codec

def mkOne (url first verif pRest pWhole : String) : One :=
  let f := parseFirst first tokR
  ⟨unx url, f, mkCrypto (parseVerif verif), mkCodec f (parseIdx pRest) (parseIdx pWhole)⟩

def runOne (keys : Keys) (o : Opts) (arch : Text) (x : One) : Res :=
  parseIndex x.crypto x.codec keys o x.url arch tokA

def verdictOne (keys : Keys) (o : Opts) (arch : Text) (x : One) (go : Res) : Bool :=
  Spec.acceptableB x.crypto x.codec keys o x.url arch tokA go

/-- the readings of this repository's archive (as verified bytes / as a whole) that the Spec allows to be used -/
def acceptableCands (keys : Keys) (o : Opts) (arch : Text) (x : One) : List Index :=
  ([x.codec.indexFromArchive tokR, x.codec.indexFromArchive tokA].filterMap id).filter
    (fun i => verdictOne keys o arch x (.ok i))

def showPkgs (i : Index) : String := "p" ++ ",".intercalate (i.packages.map String.ofList)

def parsePkgs (s : String) : List Text := (splitList (String.ofList (s.toList.drop 1))).map String.toList

def groups : List String → List One
  | u :: f :: v :: pr :: pw :: rest => mkOne u f v pr pw :: groups rest
  | _ => []

def handle (args : List String) : Option String :=
  match args with
  | ["is.check", ign, nosig, url, arch] =>
    let o := parseOpts ign nosig
    let impl := toString (checkOn o (unx url) (unx arch))
    let spec := toString (!Spec.exemptB o (unx url) (unx arch))
    some (impl ++ "\t" ++ spec ++ "\t" ++ (if impl == spec then "-" else "unlisted"))
  | ["is.parse", ign, nosig, url, arch, keys, first, verif, pRest, pWhole, goKind, goOut] =>
    let o := parseOpts ign nosig
    let ks := parseKeys keys
    let x := mkOne url first verif pRest pWhole
    let impl := match runOne ks o (unx arch) x with
      | .ok i => "ok " ++ showIdx i
      | .rej r => "err:" ++ (if goKind == "other" then "other" else showRej r)
    let verdict := match parseGo goOut with
      | none => "fail:unreadable-go-output"
      | some g => if verdictOne ks o (unx arch) x g then "pass" else
          (if Spec.exemptB o x.url (unx arch) then "fail:exempt-but-not-parsed-as-is"
           else "fail:accepted-without-valid-signature-over-parsed-bytes")
    some (impl ++ "\t" ++ verdict ++ "\t" ++ (if verdict == "pass" then "-" else "unlisted"))
  | "is.multi" :: mode :: ign :: nosig :: arch :: keys :: goOut :: rest =>
    -- GetRepositoryIndexes over several repositories; only the package lists are observable
    let o := parseOpts ign nosig
    let ks := parseKeys keys
    let xs := groups rest
    let rs := xs.map (runOne ks o (unx arch))
    let oks := rs.filterMap (fun r => match r with | .ok i => some i | .rej _ => none)
    let impl :=
      if oks.length != rs.length then "err"
      else if mode == "okerr" then "ok"
      else "ok " ++ "|".intercalate (oks.map showPkgs)
    let verdict :=
      if goOut.startsWith "err" then "pass"
      else if mode == "okerr" then
        (if xs.all (fun x => !(acceptableCands ks o (unx arch) x).isEmpty) then "pass"
         else "fail:accepted-an-index-that-has-no-acceptable-reading")
      else
        let gs := ((goOut.drop 3).toString.splitOn "|").map parsePkgs
        if gs.length != xs.length then "fail:number-of-indexes"
        else if (xs.zip gs).all (fun (x, g) => (acceptableCands ks o (unx arch) x).any (fun i => i.packages == g)) then "pass"
        else "fail:accepted-without-valid-signature-over-parsed-bytes"
    some (impl ++ "\t" ++ verdict ++ "\t" ++ (if verdict == "pass" then "-" else "unlisted"))
  | "is.world" :: ign :: nosig :: arch :: keys :: goOut :: rest =>
    -- ResolveWorld: every resolved package must come from an index that may be used
    let o := parseOpts ign nosig
    let ks := parseKeys keys
    let xs := groups rest
    let allowed := xs.flatMap (fun x => (acceptableCands ks o (unx arch) x).flatMap (·.packages))
    let verdict :=
      if goOut.startsWith "err" then "pass"
      else if (parsePkgs ((goOut.drop 3).toString)).all (fun r => allowed.contains r) then "pass"
      else "fail:resolved-package-from-an-index-that-must-not-be-used"
    some ("-\t" ++ verdict ++ "\t" ++ (if verdict == "pass" then "-" else "unlisted"))
  | _ => none

end Apko.Driver.IndexSig
