import Apko.Model.IndexSig
import Apko.Model.IndexSigGlue
import Apko.Generated.TransIndexSig
/-!
line-protocol handlers for corr:indexsig (C04).

The harness runs the real gzip / archive/tar / crypto/rsa code on each archive and sends the *abstract
description* the model is parametric in: the entries of the first gzip member and how the loop over
them ended, which (key, algorithm, body) triples verify over the unread remainder, and what the
remainder / the whole buffer parse to.  The driver instantiates `Crypto` / `Codec` with exactly that
description (the archive is the token `A`, the remainder the token `R`) and runs `parseIndex` (Impl)
and `Spec.acceptableB` (the oracle, on Go's answer).

  is.check  ign nosig url arch                                        → checkOn | ¬exempt | class
  is.parse  ign nosig url arch keys first verif pRest pWhole gokind goout → impl | pass/fail | class
  is.multi  mode ign nosig arch keys goout (url first verif pRest pWhole)* → impl | pass/fail | class
  is.glue   goClasses goAnswers nArchives (first verif pRest pWhole)*nArchives run*  → impl | pass/fail | class
            (end-to-end layer, see the section `glue` below)

Encodings: `nosig`/`keys`/entries are comma lists; names are `x<hex>`; key material, entry bodies and
package records are opaque tokens; `first` = `none` or `<ending>|<entries>` with ending `eof`, `errnext`,
`errbody:x<hex>`; `verif` = `<pem>:<1|256>:<body>` triples; parse results `err` or `p<rec,rec…>;d<hex>;s<body>`.
-/
namespace Apko.Driver.IndexSig
open Apko Apko.IndexSig

def splitList (s : String) : List String := if s.isEmpty then [] else s.splitOn ","

/-- `x<hex>` → bytes -/
def unx (s : String) : Text := unhex (s.toList.drop 1)

def parseOpts (ign nosig : String) : Opts := ⟨ign == "1", (splitList nosig).map unx⟩

def parseKeys (s : String) : Keys :=
  (splitList s).filterMap fun kv =>
    match kv.splitOn ":" with
    | [n, pem] => some (unx n, pem.toList)
    | _ => none

def parseEnding (s : String) : Ending :=
  match s.splitOn ":" with
  | ["eof"] => .eof
  | ["errbody", n] => .errBody (unx n)
  | _ => .errNext

def parseFirst (s : String) (rest : Bytes) : Option First :=
  if s == "none" then none else
  match s.splitOn "|" with
  | [e, ents] =>
    some ⟨(splitList ents).filterMap (fun x => match x.splitOn ":" with
        | [n, b] => some ⟨unx n, b.toList⟩
        | _ => none), parseEnding e, rest⟩
  | _ => none

def parseAlg (s : String) : Alg := if s == "1" then .sha1 else .sha256

def parseVerif (s : String) : List (Bytes × Alg × Bytes) :=
  (splitList s).filterMap fun x =>
    match x.splitOn ":" with
    | [pem, a, b] => some (pem.toList, parseAlg a, b.toList)
    | _ => none

def parseIdx (s : String) : Option Index :=
  match s.splitOn ";" with
  | [p, d, g] =>
    some ⟨(splitList (String.ofList (p.toList.drop 1))).map String.toList, d.toList.drop 1, g.toList.drop 1⟩
  | _ => none

def showIdx (i : Index) : String :=
  "p" ++ ",".intercalate (i.packages.map String.ofList) ++ ";d" ++ String.ofList i.description ++ ";s" ++ String.ofList i.signature

def tokA : Bytes := ['A']
def tokR : Bytes := ['R']

/-- the interpretation of the parameters that the harness measured on this archive -/
def mkCrypto (table : List (Bytes × Alg × Bytes)) : Crypto where
  sha1 := fun x => '1' :: ':' :: x
  sha256 := fun x => '2' :: '5' :: '6' :: ':' :: x
  rsaVerify := fun pem a d s =>
    (d == match a with | .sha1 => '1' :: ':' :: tokR | .sha256 => '2' :: '5' :: '6' :: ':' :: tokR) &&
    table.contains (pem, a, s)

def mkCodec (first : Option First) (pRest pWhole : Option Index) : Codec where
  readFirst := fun a => if a == tokA then first else none
  indexFromArchive := fun a => if a == tokR then pRest else if a == tokA then pWhole else none

def showRej : Rej → String
  | .noKeys => "nokeys" | .keyName => "keyname" | .gzip => "gzip" | .tar => "tar"
  | .entryName => "name" | .sigFormat => "format" | .readSig => "readsig" | .noSig => "nosig"
  | .verify => "verify" | .parse => "parse"

/-- Go's answer as a `Res` (the rejection reason is irrelevant to the oracle) -/
def parseGo (s : String) : Option Res :=
  if s.startsWith "err" then some (.rej .parse)
  else if s.startsWith "ok " then (parseIdx (s.drop 3).toString).map .ok
  else none

structure One where
  url : Text
  first : Option First
  crypto : Crypto
  codec : Codec

def mkOne (url first verif pRest pWhole : String) : One :=
  let f := parseFirst first tokR
  ⟨unx url, f, mkCrypto (parseVerif verif), mkCodec f (parseIdx pRest) (parseIdx pWhole)⟩

def runOne (keys : Keys) (o : Opts) (arch : Text) (x : One) : Res :=
  parseIndex x.crypto x.codec keys o x.url arch tokA

def verdictOne (keys : Keys) (o : Opts) (arch : Text) (x : One) (go : Res) : Bool :=
  Spec.acceptableB x.crypto x.codec keys o x.url arch tokA go

/-- the readings of this repository's archive (as verified bytes / as a whole) that the Spec allows to be used -/
def acceptableCands (keys : Keys) (o : Opts) (arch : Text) (x : One) : List Index :=
  ([x.codec.indexFromArchive tokR, x.codec.indexFromArchive tokA].filterMap id).filter
    (fun i => verdictOne keys o arch x (.ok i))

def showPkgs (i : Index) : String := "p" ++ ",".intercalate (i.packages.map String.ofList)

def parsePkgs (s : String) : List Text := (splitList (String.ofList (s.toList.drop 1))).map String.toList

def groups : List String → List One
  | u :: f :: v :: pr :: pw :: rest => mkOne u f v pr pw :: groups rest
  | _ => []


/-! ## glue: whole histories of build / lock / package-list operations (Model/IndexSigGlue.lean)

`run` = `np;off;cache;net;apks;ops` (one tab field per run)
  net  = `,`-list of `<F|E|N>:x<url>:<tok>:<archive id>`  (F local file with version token, E remote with ETag, N remote without)
  apks = `|`-list of `x<arch>/<ign>/<nosig ,-list>/<keys ,-list of x<name>:<pem>>/<repos ,-list>[/<root ,-list of x<dir>:x<name>:<pem>>]`
  ops  = `|`-list of `<stop>!<resn>&<resn>…`, resn = `<reader>><sib>.<sib>…` (indexes into apks)
`goClasses` = runs `/`-separated, one letter per operation: `L` every index loaded, `E` an index was refused / unreachable
`goAnswers` = runs `/`, operations `|`, answers `&`: `<resn>=<f|n><rec>,<rec>…` (f: full records, n: name|version only), `-` = none

Impl: `Glue.runAll implKeying` over the interpretation the harness measured (archive `i` is the token `A<i>`, its
verified remainder `R<i>`).  Oracle (history- and memo-blind): an operation that got past index loading has, for every
index of every resolution's family, some archive that was ever offered for that URL and that `Spec.acceptableB` allows
to be used under the owner's keys and the reader's switch (or the local file is absent now, or the run is offline
and the index remote: it may never have been stored); and every answered package comes from such a reading of one
of the reader's own repositories. -/
namespace Glue
open Apko.IndexSig.Glue

structure ArchDesc where
  first : String
  verif : List (Bytes × Alg × Bytes)
  pRest : Option Index
  pWhole : Option Index

def tokAi (i : Nat) : Bytes := 'A' :: (toString i).toList
def tokRi (i : Nat) : Bytes := 'R' :: (toString i).toList

def idOf (c : Char) (t : Bytes) : Option Nat :=
  match t with
  | h :: ds => if h == c && !ds.isEmpty && ds.all isDigit then some (digitsToNat ds) else none
  | [] => none

def mkCryptoAll (ds : List ArchDesc) : Crypto where
  sha1 := fun x => '1' :: ':' :: x
  sha256 := fun x => '2' :: '5' :: '6' :: ':' :: x
  rsaVerify := fun pem a d s =>
    let r := match a with
      | .sha1 => stripPrefix ['1', ':'] d
      | .sha256 => stripPrefix ['2', '5', '6', ':'] d
    match r.bind (idOf 'R') with
    | some i => match ds[i]? with
      | some x => x.verif.contains (pem, a, s)
      | none => false
    | none => false

def mkCodecAll (ds : List ArchDesc) : Codec where
  readFirst := fun a => match idOf 'A' a with
    | some i => match ds[i]? with
      | some x => parseFirst x.first (tokRi i)
      | none => none
    | none => none
  indexFromArchive := fun a => match idOf 'R' a with
    | some i => (ds[i]?).bind (·.pRest)
    | none => match idOf 'A' a with
      | some i => (ds[i]?).bind (·.pWhole)
      | none => none

def archDescs : Nat → List String → List ArchDesc × List String
  | 0, rest => ([], rest)
  | n + 1, f :: v :: pr :: pw :: rest =>
    let (ds, r) := archDescs n rest
    (⟨f, parseVerif v, parseIdx pr, parseIdx pw⟩ :: ds, r)
  | _ + 1, rest => ([], rest)

structure NetEnt where
  kind : String
  url : Text
  tok : Text
  aid : Nat

def parseNet (s : String) : List NetEnt :=
  (splitList s).filterMap fun x =>
    match x.splitOn ":" with
    | [k, u, t, a] => some ⟨k, unx u, t.toList, a.toNat!⟩
    | _ => none

def mkNet (off cache : Bool) (es : List NetEnt) : Net where
  offline := off
  cacheOn := cache
  file := fun u => match es.find? (fun e => e.kind == "F" && e.url == u) with
    | some e => some (e.tok, tokAi e.aid)
    | none => none
  remote := fun u => match es.find? (fun e => e.kind != "F" && e.url == u) with
    | some e => some (if e.kind == "E" then some e.tok else none, tokAi e.aid)
    | none => none

/-- key files the root holds outside the keys directory: `,`-list of `x<dir>:x<name>:<pem>` -/
def parseRootFiles (s : String) : List RootFile :=
  (splitList s).filterMap fun x =>
    match x.splitOn ":" with
    | [d, n, pem] => some ⟨unx d, unx n, pem.toList⟩
    | _ => none

/-- the APK's key set is `keysOfRoot` of everything the harness put into the root: the configured keys (files of
`etc/apk/keys`) and whatever else it holds -/
def parseApk (s : String) : Option Apk :=
  match s.splitOn "/" with
  | [a, ign, nosig, keys, repos] =>
    some ⟨unx a, (splitList repos).map unx, parseKeys keys, ign == "1", (splitList nosig).map unx⟩
  | [a, ign, nosig, keys, repos, root] =>
    let files := (parseKeys keys).map (fun k => (⟨keysDirPath, k.1, k.2⟩ : RootFile)) ++ parseRootFiles root
    some ⟨unx a, (splitList repos).map unx, keysOfRoot files, ign == "1", (splitList nosig).map unx⟩
  | _ => none

def parseResn (apks : List Apk) (s : String) : Option Resn :=
  match s.splitOn ">" with
  | [r, ss] =>
    match apks[r.toNat!]? with
    | some reader => some ⟨reader, ((if ss.isEmpty then [] else ss.splitOn ".").filterMap (fun i => apks[i.toNat!]?))⟩
    | none => none
  | _ => none

def parseOp (apks : List Apk) (s : String) : Option Op :=
  match s.splitOn "!" with
  | [st, rs] => some ⟨st == "1", ((if rs.isEmpty then [] else rs.splitOn "&").filterMap (parseResn apks))⟩
  | _ => none

structure PRun where
  run : Run
  ents : List NetEnt

def parseRun (s : String) : Option PRun :=
  match s.splitOn ";" with
  | [np, off, cache, net, apks, ops] =>
    let es := parseNet net
    let as := ((if apks.isEmpty then [] else apks.splitOn "|").filterMap parseApk)
    some ⟨⟨np == "1", mkNet (off == "1") (cache == "1") es, ((if ops.isEmpty then [] else ops.splitOn "|").filterMap (parseOp as))⟩, es⟩
  | _ => none

def showClasses (oks : List (List Bool)) : String :=
  "/".intercalate (oks.map fun l => String.ofList (l.map fun b => if b then 'L' else 'E'))

/-- the readings of archive `aid`, offered for `url`, that the Spec allows to be used under these keys and options -/
def candReadings (ds : List ArchDesc) (keys : Keys) (o : Opts) (arch url : Text) (aid : Nat) : List Index :=
  match ds[aid]? with
  | none => []
  | some d =>
    let f := parseFirst d.first tokR
    let x : One := ⟨url, f, mkCrypto d.verif, mkCodec f d.pRest d.pWhole⟩
    acceptableCands keys o arch x

/-- the first two `|`-separated fields of a record (name, version) -/
def recNV (rec : Text) : Text :=
  match splitOnChar '|' (unhex rec) with
  | n :: v :: _ => n ++ '|' :: v
  | l => joinWith ['|'] l

/-- ids of the archives ever offered for `url` in these runs -/
def offered (runs : List PRun) (url : Text) : List Nat :=
  runs.flatMap fun r => (r.ents.filter (fun e => e.url == url)).map (·.aid)

def familyOK (ds : List ArchDesc) (seen : List PRun) (cur : PRun) (x : Resn) : Bool :=
  (x.reader :: x.sibs).all fun owner =>
    owner.repos.all fun repo =>
      let url := indexURL repo owner.arch
      if !isRemote url && !(cur.ents.any (fun e => e.url == url)) then true
      -- offline, an index that was never stored is skipped like a missing local file; whether one was stored is
      -- history, which this oracle does not look at (what an offline run *answers* is checked by `answerOK`)
      else if isRemote url && cur.run.net.offline then true
      else (offered seen url).any fun aid => !(candReadings ds owner.keys (readOpts x.reader owner) owner.arch url aid).isEmpty

def answerOK (ds : List ArchDesc) (seen : List PRun) (x : Resn) (ans : String) : Bool :=
  let full := ans.startsWith "f"
  let recs := (splitList (ans.drop 1).toString).map String.toList
  let allowed := x.reader.repos.flatMap fun repo =>
    let url := indexURL repo x.reader.arch
    (offered seen url).flatMap fun aid =>
      (candReadings ds x.reader.keys (readOpts x.reader x.reader) x.reader.arch url aid).flatMap (·.packages)
  if full then recs.all (fun r => allowed.contains r)
  else recs.all (fun r => (allowed.map recNV).contains (recNV r))

def opVerdict (ds : List ArchDesc) (seen : List PRun) (cur : PRun) (op : Op) (cls : Char) (answers : String) : Option String :=
  if cls != 'L' then none
  else if !(op.resns.all (familyOK ds seen cur)) then
    some "fail:loaded-an-index-that-no-offered-archive-justifies"
  else
    let bad := (if answers == "-" || answers.isEmpty then [] else answers.splitOn "&").any fun a =>
      match a.splitOn "=" with
      | [i, recs] => match op.resns[i.toNat!]? with
        | some x => !(answerOK ds seen x recs)
        | none => true
      | _ => true
    if bad then some "fail:answer-contains-a-package-of-an-index-that-must-not-be-used" else none

def runVerdict (ds : List ArchDesc) (seen : List PRun) (cur : PRun) (classes : String) (answers : String) : Option String :=
  let anss := answers.splitOn "|"
  let rec go : List Op → List Char → List String → Option String
    | op :: ops, c :: cs, as =>
      match opVerdict ds seen cur op c (as.headD "-") with
      | some v => some v
      | none => go ops cs as.tail
    | _, _, _ => none
  go cur.run.ops classes.toList anss

def verdict (ds : List ArchDesc) (runs : List PRun) (classes answers : List String) : String :=
  let rec go : List PRun → List PRun → List String → List String → String
    | seen, r :: rs, c :: cs, as =>
      match runVerdict ds (seen ++ [r]) r c (as.headD "-") with
      | some v => v
      | none => go (seen ++ [r]) rs cs as.tail
    | _, _, _, _ => "pass"
  go [] runs classes answers

def handle (goClasses goAnswers nArch : String) (rest : List String) : String :=
  let (ds, runsS) := archDescs nArch.toNat! rest
  let runs := runsS.filterMap parseRun
  if runs.length != runsS.length || ds.length != nArch.toNat! then "bad-glue-request\tfail:bad-request\tunlisted" else
  let C := mkCryptoAll ds
  let R := mkCodecAll ds
  let impl := showClasses (runAll implKeying C R ⟨[], [], []⟩ (runs.map (·.run))).1
  let v := verdict ds runs (goClasses.splitOn "/") (goAnswers.splitOn "/")
  impl ++ "\t" ++ v ++ "\t" ++ (if v == "pass" then "-" else "unlisted")

end Glue

def handle (args : List String) : Option String :=
  match args with
  | "is.glue" :: goClasses :: goAnswers :: nArch :: rest => some (Glue.handle goClasses goAnswers nArch rest)
  | ["is.key", alg, digLen, hasBlock, cls, ver] =>
    -- sign.RSAVerifyDigest on one key file; the libraries' answers for that file are given
    let a : Alg := if alg == "256" then .sha256 else .sha1
    let L : KeyLib := {
      pemDecodeFirst := fun _ => if hasBlock == "1" then some ['b'] else none,
      parsePKIX := fun _ => if cls == "rsa" then some (some ['k']) else if cls == "notrsa" then some none else none,
      verifyPKCS1v15 := fun _ _ _ _ => ver == "1",
      hashSize := fun | .sha1 => 20 | .sha256 => 32 }
    let r := if rsaVerifyDigest L ['f'] a (List.replicate digLen.toNat! 'd') ['s'] then "ok" else "err"
    some (r ++ "\t" ++ r ++ "\t-")
  | ["ti.check", ign, nosig, url, arch] =>
    -- the check on the Go → Lean translator (extract/trans.go): impl = the regenerated translation of
    -- shouldCheckSignatureForIndex, spec = the model `checkOn` (equal by Proofs/TransIndexSig.lean)
    let o := parseOpts ign nosig
    some (toString (Generated.Trans.shouldCheckSignatureForIndex (unx url) (unx arch) o) ++ "\t" ++
      toString (checkOn o (unx url) (unx arch)) ++ "\tunlisted")
  | ["is.check", ign, nosig, url, arch] =>
    let o := parseOpts ign nosig
    let impl := toString (checkOn o (unx url) (unx arch))
    let spec := toString (!Spec.exemptB o (unx url) (unx arch))
    some (impl ++ "\t" ++ spec ++ "\t" ++ (if impl == spec then "-" else "unlisted"))
  | ["is.parse", ign, nosig, url, arch, keys, first, verif, pRest, pWhole, goKind, goOut] =>
    let o := parseOpts ign nosig
    let ks := parseKeys keys
    let x := mkOne url first verif pRest pWhole
    let impl := match runOne ks o (unx arch) x with
      | .ok i => "ok " ++ showIdx i
      | .rej r => "err:" ++ (if goKind == "other" then "other" else showRej r)
    let verdict := match parseGo goOut with
      | none => "fail:unreadable-go-output"
      | some g => if verdictOne ks o (unx arch) x g then "pass" else
          (if Spec.exemptB o x.url (unx arch) then "fail:exempt-but-not-parsed-as-is"
           else "fail:accepted-without-valid-signature-over-parsed-bytes")
    some (impl ++ "\t" ++ verdict ++ "\t" ++ (if verdict == "pass" then "-" else "unlisted"))
  | "is.multi" :: mode :: ign :: nosig :: arch :: keys :: goOut :: rest =>
    -- GetRepositoryIndexes over several repositories; only the package lists are observable
    let o := parseOpts ign nosig
    let ks := parseKeys keys
    let xs := groups rest
    let rs := xs.map (runOne ks o (unx arch))
    let oks := rs.filterMap (fun r => match r with | .ok i => some i | .rej _ => none)
    let impl :=
      if oks.length != rs.length then "err"
      else if mode == "okerr" then "ok"
      else "ok " ++ "|".intercalate (oks.map showPkgs)
    let verdict :=
      if goOut.startsWith "err" then "pass"
      else if mode == "okerr" then
        (if xs.all (fun x => !(acceptableCands ks o (unx arch) x).isEmpty) then "pass"
         else "fail:accepted-an-index-that-has-no-acceptable-reading")
      else
        let gs := ((goOut.drop 3).toString.splitOn "|").map parsePkgs
        if gs.length != xs.length then "fail:number-of-indexes"
        else if (xs.zip gs).all (fun (x, g) => (acceptableCands ks o (unx arch) x).any (fun i => i.packages == g)) then "pass"
        else "fail:accepted-without-valid-signature-over-parsed-bytes"
    some (impl ++ "\t" ++ verdict ++ "\t" ++ (if verdict == "pass" then "-" else "unlisted"))
  | "is.world" :: ign :: nosig :: arch :: keys :: goOut :: rest =>
    -- ResolveWorld: every resolved package must come from an index that may be used
    let o := parseOpts ign nosig
    let ks := parseKeys keys
    let xs := groups rest
    let allowed := xs.flatMap (fun x => (acceptableCands ks o (unx arch) x).flatMap (·.packages))
    let verdict :=
      if goOut.startsWith "err" then "pass"
      else if (parsePkgs ((goOut.drop 3).toString)).all (fun r => allowed.contains r) then "pass"
      else "fail:resolved-package-from-an-index-that-must-not-be-used"
    some ("-\t" ++ verdict ++ "\t" ++ (if verdict == "pass" then "-" else "unlisted"))
  | _ => none

end Apko.Driver.IndexSig
