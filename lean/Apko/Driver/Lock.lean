import Apko.Model.Lock
import Apko.Driver.Resolver
/-! line-protocol handlers for corr:lock (C09) -/
namespace Apko.Driver.Lock
open Apko Apko.Resolver Apko.Lock Apko.Driver.Resolver

def showMap (m : SMap (List Text)) : String :=
  let ks := sortS (keys m)
  ";".intercalate (ks.map fun k => enc k ++ ":" ++ ",".intercalate ((sget m k).map enc))

def showUR : UR → String
  | .err => "err"
  | .ok b m => "ok " ++ showMap b ++ "|" ++ showMap m

/-- `k:v,v;k:v` -/
def parseMap (s : String) : SMap (List Text) :=
  if s.isEmpty then [] else
  (s.splitOn ";").map fun kv =>
    match kv.splitOn ":" with
    | [k, v] => (str k, strList v)
    | _ => (str kv, [])

/-- Go's `ok <byArch>|<missing>` -/
def parseUR (go : String) : Option (SMap (List Text) × SMap (List Text)) :=
  if go.startsWith "ok " then
    match (go.drop 3).toString.splitOn "|" with
    | [a, b] => some (parseMap a, parseMap b)
    | _ => none
  else none

/-- raw `resolved` values: arch, n, then n × (name, version, provided) where provided is `-` (no key)
or a list -/
def readRaw : Nat → List String → Option (List RArch × List String)
  | 0, rest => some ([], rest)
  | n + 1, arch :: np :: rest =>
    let rec pk : Nat → List String → RArch → Option (RArch × List String)
      | 0, r, a => some (a, r)
      | k + 1, name :: ver :: prov :: r, a =>
        pk k r { a with
          packages := a.packages ++ [str name],
          versions := setT a.versions (str name) (str ver),
          provided := if prov = "-" then a.provided else setT a.provided (str name) (strList prov) }
      | _, _, _ => none
    match pk np.toNat! rest ⟨str arch, [], [], []⟩ with
    | some (a, rest') =>
      match readRaw n rest' with
      | some (as, rest'') => some (a :: as, rest'')
      | none => none
    | none => none
  | _, _ => none

def idsOf (s : String) : Option (List Nat) :=
  if s.startsWith "ok " then
    let body := (s.drop 3).toString
    some (if body.isEmpty then [] else (body.splitOn ",").map String.toNat!)
  else if s = "ok" then some []
  else none

def pkgsOf (u : Universe) (ids : List Nat) : List Pkg :=
  ids.map fun i => (u.all.find? (·.id = i)).getD { (default : Pkg) with id := i }

def showIds : Res Resolution → String
  | .err => "err"
  | .outOfFuel => "out-of-fuel"
  | .ok r => if r.install.isEmpty then "ok" else "ok " ++ ",".intercalate (r.install.map fun p => toString p.id)

/-- every architecture resolved with all its siblings (`MultiArch.BuildPackageLists`) -/
def resolveAll (archs : List (Text × Universe)) (w : List Text) : List (Text × Res Resolution) :=
  archs.map fun (a, u) => (a, resolve (cfgOf u) w (disqualifyDifference archs a))

def allOk : List (Text × Res Resolution) → Option (List (Text × List Pkg))
  | [] => some []
  | (a, .ok r) :: rest => (allOk rest).map ((a, r.install) :: ·)
  | _ => none

def perms {α} : List α → List (List α)
  | [] => [[]]
  | x :: xs => (perms xs).flatMap fun p => (List.range (p.length + 1)).map fun i => p.take i ++ [x] ++ p.drop i

def sameSet (a b : List Nat) : Bool := a.all (b.contains ·) && b.all (a.contains ·)

def handle (args : List String) : Option String :=
  match args with
  | "l.unify" :: originals :: narch :: rest =>
    match readRaw narch.toNat! rest with
    | some (inputs, [go]) =>
      let o := strList originals
      let impl := showUR (unify o inputs)
      match parseUR go with
      | none => some (impl ++ "\tpass\t-")
      | some (byArch, _) =>
        match specCheck o inputs byArch with
        | some why => some (impl ++ "\tfail:" ++ why ++ "\tunlisted")
        | none => some (impl ++ "\tpass\t-")
    | _ => some "bad-input\tfail:bad-input\tunlisted"
  | "l.unifyperm" :: originals :: narch :: rest =>
    match readRaw narch.toNat! rest with
    | some (inputs, [go]) =>
      let o := strList originals
      let outs := (perms inputs).map fun p => showUR (unify o p)
      let impl := if outs.all (· == outs.headD "") then "same" else "differs"
      if go = "same" then some (impl ++ "\tpass\t-") else some (impl ++ "\tfail:arch-order-dependent\tF09g")
    | _ => some "bad-input\tfail:bad-input\tunlisted"
  | "l.relock" :: world :: self :: narch :: rest =>
    match readArchs narch.toNat! rest with
    | some (archs, [go]) =>
      let w := strList world
      match lookupT archs (str self) with
      | none => some "bad-arch\tfail:bad-arch\tunlisted"
      | some u =>
        let rs := resolveAll archs w
        let origS := match lookupT rs (str self) with | some r => showIds r | none => "err"
        let impl :=
          match allOk rs with
          | none => "orig=" ++ (if origS.startsWith "ok" then "sibling-err" else origS)
          | some sets =>
            match unify w (sets.map fun (a, s) => resolvedOf a s) with
            | .err => "orig=" ++ origS ++ ";lock=err"
            | .ok byArch _ =>
              let l := sget byArch (str self)
              "orig=" ++ origS ++ ";lock=" ++ ",".intercalate (l.map enc) ++ ";re=" ++
                showIds (resolve (cfgOf u) l [])
        -- oracle on Go's answer
        match go.splitOn ";" with
        | [o, l, r] =>
          match idsOf (o.drop 5).toString with
          | none => some (impl ++ "\tpass\t-")
          | some oids =>
            let s := pkgsOf u oids
            let lockGo := strList (l.drop 5).toString
            if lockGo != lockOf w s then some (impl ++ "\tfail:lock-not-exact\tunlisted") else
            match idsOf (r.drop 3).toString with
            | none => some (impl ++ "\tfail:relock-error\t" ++ relockClass u w s)
            | some rids =>
              if sameSet oids rids then some (impl ++ "\tpass\t-")
              else some (impl ++ "\tfail:relock-differs\t" ++ relockClass u w s)
        | _ => some (impl ++ "\tpass\t-")
    | _ => some "bad-universe\tfail:bad-universe\tunlisted"
  | "l.lockall" :: world :: labels :: narch :: rest =>
    -- the real LockImageConfiguration: `labels` are the keys it uses for the architectures, in order
    match readArchs narch.toNat! rest with
    | some (archs, [go]) =>
      let w := strList world
      let lab := strList labels
      match allOk (resolveAll archs w) with
      | none => some ("err\tpass\t-")
      | some sets =>
        let inputs := (sets.zip lab).map fun ((_, s), l) => resolvedOf l s
        let outs := (perms inputs).map fun p => showUR (unify w p)
        let canon := showUR (unify w inputs)
        let impl := if outs.contains go then go else canon
        if outs.any (· != canon) then some (impl ++ "\tfail:arch-order-dependent\tF09g") else
        match parseUR go with
        | none => some (impl ++ "\tpass\t-")
        | some (byArch, _) =>
          match specCheck w inputs byArch with
          | some why => some (impl ++ "\tfail:" ++ why ++ "\tunlisted")
          | none => some (impl ++ "\tpass\t-")
    | _ => some "bad-universe\tfail:bad-universe\tunlisted"
  | _ => none

end Apko.Driver.Lock
