import Apko.Model.Lock
import Apko.Model.LockGlue
import Apko.Driver.Resolver
/-! line-protocol handlers for corr:lock (C09) -/
namespace Apko.Driver.Lock
open Apko Apko.Resolver Apko.Lock Apko.Driver.Resolver
open Apko.LockGlue (Sections PkgRef LockEntry Installed Opts CacheMode)

def showMap (m : SMap (List Text)) : String :=
  let ks := sortS (keys m)
  ";".intercalate (ks.map fun k => enc k ++ ":" ++ ",".intercalate ((sget m k).map enc))

def showUR : UR → String
  | .err => "err"
  | .ok b m => "ok " ++ showMap b ++ "|" ++ showMap m

/-- `k:v,v;k:v` -/
def parseMap (s : String) : SMap (List Text) :=
  if s.isEmpty then [] else
  (s.splitOn ";").map fun kv =>
    match kv.splitOn ":" with
    | [k, v] => (str k, strList v)
    | _ => (str kv, [])

/-- Go's `ok <byArch>|<missing>` -/
def parseUR (go : String) : Option (SMap (List Text) × SMap (List Text)) :=
  if go.startsWith "ok " then
    match (go.drop 3).toString.splitOn "|" with
    | [a, b] => some (parseMap a, parseMap b)
    | _ => none
  else none

/-- raw `resolved` values: arch, n, then n × (name, version, provided) where provided is `-` (no key)
or a list -/
def readRaw : Nat → List String → Option (List RArch × List String)
  | 0, rest => some ([], rest)
  | n + 1, arch :: np :: rest =>
    let rec pk : Nat → List String → RArch → Option (RArch × List String)
      | 0, r, a => some (a, r)
      | k + 1, name :: ver :: prov :: r, a =>
        pk k r { a with
          packages := a.packages ++ [str name],
          versions := setT a.versions (str name) (str ver),
          provided := if prov = "-" then a.provided else setT a.provided (str name) (strList prov) }
      | _, _, _ => none
    match pk np.toNat! rest ⟨str arch, [], [], []⟩ with
    | some (a, rest') =>
      match readRaw n rest' with
      | some (as, rest'') => some (a :: as, rest'')
      | none => none
    | none => none
  | _, _ => none

def idsOf (s : String) : Option (List Nat) :=
  if s.startsWith "ok " then
    let body := (s.drop 3).toString
    some (if body.isEmpty then [] else (body.splitOn ",").map String.toNat!)
  else if s = "ok" then some []
  else none

def pkgsOf (u : Universe) (ids : List Nat) : List Pkg :=
  ids.map fun i => (u.all.find? (·.id = i)).getD { (default : Pkg) with id := i }

def showIds : Res Resolution → String
  | .err => "err"
  | .outOfFuel => "out-of-fuel"
  | .ok r => if r.install.isEmpty then "ok" else "ok " ++ ",".intercalate (r.install.map fun p => toString p.id)

/-- every architecture resolved with all its siblings (`MultiArch.BuildPackageLists`) -/
def resolveAll (archs : List (Text × Universe)) (w : List Text) : List (Text × Res Resolution) :=
  archs.map fun (a, u) => (a, resolve (cfgOf u) w (disqualifyDifference archs a))

def allOk : List (Text × Res Resolution) → Option (List (Text × List Pkg))
  | [] => some []
  | (a, .ok r) :: rest => (allOk rest).map ((a, r.install) :: ·)
  | _ => none

def perms {α} : List α → List (List α)
  | [] => [[]]
  | x :: xs => (perms xs).flatMap fun p => (List.range (p.length + 1)).map fun i => p.take i ++ [x] ++ p.drop i

def isOkUR : UR → Bool
  | .ok _ _ => true
  | .err => false

def sameSet (a b : List Nat) : Bool := a.all (b.contains ·) && b.all (a.contains ·)


/-! ### glue steps (`Model/LockGlue.lean`) -/

/-- n × (sig, ctl, dat, sigSum, ctlSum, datSum, q1, cachedSig, cachedSigSum): the file at the URL now, and the signature
section of the file the package cache was filled from (the same, unless the package was re-signed in between) -/
def readSections : Nat → Nat → List String → Option (List (PkgRef × Sections × Sections) × List String)
  | 0, _, rest => some ([], rest)
  | n + 1, i, sig :: ctl :: dat :: ss :: cs :: ds :: q1 :: osig :: oss :: rest =>
    let url : Text := (toString i).toList
    let s : Sections := { sig := sig.toNat!, ctl := ctl.toNat!, dat := dat.toNat!, sigSum := str ss, ctlSum := str cs,
                          datSum := str ds, q1 := str q1, name := url, version := [], arch := [] }
    let p : PkgRef := { name := url, version := [], arch := [], url := url, checksum := str q1 }
    let old : Sections := { s with sig := osig.toNat!, sigSum := str oss }
    (readSections n (i + 1) rest).map fun (l, r) => ((p, s, old) :: l, r)
  | _, _, _ => none

def showEntry (e : LockEntry) : String :=
  ",".intercalate ([e.sigRange, e.sigSum, e.ctlRange, e.ctlSum, e.datRange, e.datSum, e.checksum].map enc)

/-- the state a run of the given kind finds, for files `fs` -/
def stateOf (kind : String) (fs : List (PkgRef × Sections × Sections)) : Opts × LockGlue.St :=
  let disk := fs.map fun (p, _, old) => (p.url, LockGlue.diskEntryOf old)
  let memo := fs.map fun (p, s, _) => (p.url, p.checksum, LockGlue.expandFresh s)
  let o (c : CacheMode) (ign : Bool) : Opts := ⟨c, ign, false⟩
  match kind with
  | "off" => (o .off false, LockGlue.St.empty)
  | "cold" => (o .on false, LockGlue.St.empty)
  | "warm" => (o .on false, ⟨disk, memo⟩)
  | _ => (o .on false, ⟨disk, []⟩)          -- "fresh" / "stale": another process filled the disk cache

def entryOfText (arch : Text) (t : Text) (intact : Bool) : LockEntry × Option Sections :=
  let f := splitOnChar ' ' t
  let name := f.headD []
  let version := (f.drop 1).headD []
  let checksum := (f.drop 2).headD []
  let url := arch ++ ['/'] ++ t
  ({ name := name, url := url, version := version, arch := arch, sigRange := [], sigSum := [], ctlRange := [], ctlSum := [],
     datRange := [], datSum := [], checksum := checksum },
   if intact then some { sig := 0, ctl := 1, dat := 1, sigSum := [], ctlSum := [], datSum := [], q1 := checksum,
                         name := name, version := version, arch := arch } else none)

/-- narch × (arch, `xENTRY/status,…`) -/
def readLocked : Nat → List String → Option (List (Text × List (LockEntry × Option Sections)) × List String)
  | 0, rest => some ([], rest)
  | n + 1, arch :: l :: rest =>
    let a := str arch
    let es := if l.isEmpty then [] else (l.splitOn ",").map fun x =>
      match x.splitOn "/" with
      | [e, st] => entryOfText a (str e) (st == "intact")
      | _ => entryOfText a (str x) false
    (readLocked n rest).map fun (r, rest') => ((a, es) :: r, rest')
  | _, _ => none

def showImage (arch : Text) (l : List Text) : Text :=
  (enc arch ++ ":" ++ ",".intercalate (l.map enc)).toList

/-- images (or locked lists) without packages are not shown: a build for an empty list emits an empty image or none -/
def showImages (imgs : List (Text × List Text)) : String :=
  ";".intercalate ((sortS ((imgs.filter (!·.2.isEmpty)).map fun (a, l) => showImage a l)).map String.ofList)

def glueHandle (args : List String) : Option String :=
  match args with
  | "l.lockfile" :: kind :: ign :: n :: rest =>
    match readSections n.toNat! 0 rest with
    | some (fs, [go]) =>
      let (o, st) := stateOf kind fs
      let o := { o with ignoreSignatures := ign == "1" }
      let repo : LockGlue.Repo := fun u => (fs.find? (·.1.url = u)).map (·.2.1)
      let impl := match LockGlue.lockFile o st repo [fs.map (·.1)] with
        | none => "err"
        | some l => ";".intercalate (l.map showEntry)
      let spec := ";".intercalate (fs.map fun (p, s, _) => showEntry (LockGlue.specEntry p s))
      -- F09k: the package cache holds a package whose signature section is not the one of the file at the URL
      let cls := if LockGlue.staleSignature o st repo (fs.map (·.1)) then "F09k" else "unlisted"
      if go = spec then some (impl ++ "\tpass\t-")
      else some (impl ++ "\tfail:the recorded ranges/checksums are not those of the files at the recorded URLs\t" ++ cls)
    | _ => some "bad-input\tfail:bad-input\tunlisted"
  | "l.lockbuild" :: narch :: rest =>
    match readLocked narch.toNat! rest with
    | some (archs, [pred, go]) =>
      let lock : List LockEntry := archs.flatMap fun (_, es) => es.map (·.1)
      let files := archs.flatMap fun (_, es) => es
      let repo : LockGlue.Repo := fun u => (files.find? (·.1.url = u)).bind (·.2)
      let txt (n v c : Text) : Text := n ++ [' '] ++ v ++ [' '] ++ c
      let impl0 := match LockGlue.buildAll ⟨.off, false, false⟩ LockGlue.St.empty repo lock (archs.map (·.1)) with
        | none => "err"
        | some imgs => "ok " ++ showImages (imgs.map fun (_, db) =>
            ((db.head?.map (·.arch)).getD [], db.map fun i => txt i.name i.version i.checksum))
      let impl := if pred = "free" then go else impl0
      let listed := "ok " ++ showImages (archs.map fun (a, es) => (a, es.map fun (e, _) => txt e.name e.version e.checksum))
      if go = "err" || go = listed then some (impl ++ "\tpass\t-")
      else some (impl ++ "\tfail:build --lockfile succeeded and the images do not hold exactly what the lock lists\tunlisted")
    | _ => some "bad-input\tfail:bad-input\tunlisted"
  | _ => none

def handle (args : List String) : Option String :=
  match glueHandle args with
  | some r => some r
  | none =>
  match args with
  | "l.unify" :: originals :: narch :: rest =>
    match readRaw narch.toNat! rest with
    | some (inputs, [go]) =>
      let o := strList originals
      let impl := showUR (unify o inputs)
      match parseUR go with
      | none =>
        if !inputs.isEmpty && mustLock o inputs then some (impl ++ "\tfail:spurious-lock-error\tunlisted")
        else some (impl ++ "\tpass\t-")
      | some (byArch, _) =>
        match specCheck o inputs byArch with
        | some why => some (impl ++ "\tfail:" ++ why ++ "\tunlisted")
        | none => some (impl ++ "\tpass\t-")
    | _ => some "bad-input\tfail:bad-input\tunlisted"
  | "l.unifyperm" :: originals :: narch :: rest =>
    match readRaw narch.toNat! rest with
    | some (inputs, [go]) =>
      let o := strList originals
      let outs := (perms inputs).map fun p => showUR (unify o p)
      let impl := if outs.all (· == outs.headD "") then "same" else "differs"
      if go = "same" then some (impl ++ "\tpass\t-") else some (impl ++ "\tfail:arch-order-dependent\tF09g")
    | _ => some "bad-input\tfail:bad-input\tunlisted"
  | "l.relock" :: world :: self :: narch :: rest =>
    match readArchs narch.toNat! rest with
    | some (archs, [go]) =>
      let w := strList world
      match lookupT archs (str self) with
      | none => some "bad-arch\tfail:bad-arch\tunlisted"
      | some u =>
        let rs := resolveAll archs w
        let origS := match lookupT rs (str self) with | some r => showIds r | none => "err"
        let impl :=
          match allOk rs with
          | none => "orig=" ++ (if origS.startsWith "ok" then "sibling-err" else origS)
          | some sets =>
            match unify w (sets.map fun (a, s) => resolvedOf a s) with
            | .err => "orig=" ++ origS ++ ";lock=err"
            | .ok byArch _ =>
              let l := sget byArch (str self)
              "orig=" ++ origS ++ ";lock=" ++ ",".intercalate (l.map enc) ++ ";re=" ++
                showIds (resolve (cfgOf u) l [])
        -- oracle on Go's answer
        match go.splitOn ";" with
        | [o, l, r] =>
          match idsOf (o.drop 5).toString with
          | none => some (impl ++ "\tpass\t-")
          | some oids =>
            let s := pkgsOf u oids
            let lockGo := strList (l.drop 5).toString
            if lockGo != lockOf w s then some (impl ++ "\tfail:lock-not-exact\tunlisted") else
            match idsOf (r.drop 3).toString with
            | none => some (impl ++ "\tfail:relock-error\t" ++ relockClass u w s)
            | some rids =>
              if sameSet oids rids then some (impl ++ "\tpass\t-")
              else some (impl ++ "\tfail:relock-differs\t" ++ relockClass u w s)
        | _ => some (impl ++ "\tpass\t-")
    | _ => some "bad-universe\tfail:bad-universe\tunlisted"
  | "l.lockall" :: world :: labels :: narch :: rest =>
    -- the real LockImageConfiguration: `labels` are the keys it uses for the architectures, in order
    match readArchs narch.toNat! rest with
    | some (archs, [go]) =>
      let w := (sortS (strList world)).eraseDups     -- build.New writes sets.List(sets.New(packages...)) to /etc/apk/world
      let lab := strList labels
      match allOk (resolveAll archs w) with
      | none => some ("err\tpass\t-")
      | some sets =>
        let inputs := (sets.zip lab).map fun ((_, s), l) => resolvedOf l s
        let w := strList world        -- unify sees the requested list as written (later duplicates overwrite pins)
        let showCfg (r : UR) : String :=
          match r with
          | .err => "err"
          | .ok b m => showUR (.ok b m) ++ "|A " ++ ";".intercalate ((sortS (keys b)).map fun k =>
              enc k ++ ":" ++ (if k = indexKey then ",".intercalate (lab.map enc) else enc k))
        let outs := (perms inputs).map fun p => showCfg (unify w p)
        let canon := showCfg (unify w inputs)
        let impl := if outs.contains go then go else canon
        if outs.any (· != canon) then some (impl ++ "\tfail:arch-order-dependent\tF09g") else
        match parseUR ((go.splitOn "|A ").headD "") with
        | none =>
          if mustLock w inputs then some (impl ++ "\tfail:spurious-lock-error\tunlisted")
          else some (impl ++ "\tpass\t-")
        | some (byArch, m) =>
          match specCheck w inputs byArch with
          | some why => some (impl ++ "\tfail:" ++ why ++ "\tunlisted")
          | none =>
            -- every per-architecture configuration must be a configuration for exactly that architecture
            if go != showCfg (.ok byArch m) then some (impl ++ "\tfail:config-archs\tunlisted")
            else some (impl ++ "\tpass\t-")
    | _ => some "bad-universe\tfail:bad-universe\tunlisted"
  | "l.e2e" :: world :: narch :: rest =>
    match readArchs narch.toNat! rest with
    | some (archs, [go]) =>
      let w := (sortS (strList world)).eraseDups     -- build.New writes sets.List(sets.New(packages...)) to /etc/apk/world
      let field (k : String) : String :=
        ((go.splitOn " ").find? (·.startsWith (k ++ "="))).map (fun s => (s.drop (k.length + 1)).toString) |>.getD ""
      -- `apko lock`: every architecture alone, on the requested world
      let singles := archs.map fun (a, u) => (a, resolve (cfgOf u) w [])
      let lockOk := allOk singles
      let showNV (l : List Pkg) := ",".intercalate ((sortS (l.map fun p => p.name ++ ['='] ++ p.version)).map enc)
      -- `apko build`: joint resolution, unify, then each per-architecture lock re-resolved alone
      let multi := allOk (resolveAll archs w)
      let cfgs := multi.bind fun sets =>
        match unify (strList world) (sets.map fun (a, s) => resolvedOf a s) with
        | .err => none
        | .ok byArch _ => some (sets.map fun (a, s) => (a, s, sget byArch a))
      let relocks := cfgs.map fun l => l.map fun (a, s, pl) =>
        (a, s, match lookupT archs a with | some u => resolve (cfgOf u) pl [] | none => .err)
      let firstBad := relocks.bind fun l => l.find? fun (_, _, r) => match r with | .ok _ => false | _ => true
      let buildOk := match relocks with | some l => l.all (fun (_, _, r) => match r with | .ok _ => true | _ => false) | none => false
      let ids (l : List Pkg) := l.map (·.id)
      let same : Bool := match relocks, lockOk with
        | some l, some ss => l.all fun (a, _, r) =>
            match r, lookupT ss a with
            | .ok x, some s1 => ids x.install == ids s1
            | _, _ => false
        | _, _ => false
      let sameSets : Bool := match relocks, lockOk with
        | some l, some ss => l.all fun (a, _, r) =>
            match r, lookupT ss a with
            | .ok x, some s1 => sameSet (ids x.install) (ids s1)
            | _, _ => false
        | _, _ => false
      let impl := "build=" ++ (if buildOk then "ok" else "err") ++
        " lock=" ++ (if lockOk.isSome then "ok" else "err") ++
        " ranges=" ++ (if lockOk.isSome then "ok" else "-") ++
        " locked=" ++ (if lockOk.isNone then "-" else if cfgs.isSome then "ok" else "err") ++
        " same=" ++ (if lockOk.isNone || cfgs.isNone || !buildOk then "-" else toString same) ++
        " samefs=" ++ (if lockOk.isNone || cfgs.isNone || !buildOk then "-" else toString sameSets) ++
        " pkgs=" ++ (match lockOk with
          | some ss => ";".intercalate (ss.map fun (a, s) => enc a ++ ":" ++ showNV s)
          | none => "-")
      -- LockImageConfiguration ranges over a Go map: when unify's outcome depends on the order (F09g) either
      -- answer can come back
      let orderDep : Bool := match multi with
        | some sets =>
          let outs := (perms (sets.map fun (a, s) => resolvedOf a s)).map fun p => isOkUR (unify (strList world) p)
          outs.any (· != outs.headD true)
        | none => false
      if orderDep then some (go ++ "\tfail:arch-order-dependent\tF09g") else
      let rg := field "ranges"
      if rg != "ok" && rg != "-" then some (impl ++ "\tfail:" ++ rg ++ "\tunlisted") else
      if field "build" = "ok" then
        if field "lock" = "ok" && field "locked" = "ok" && field "same" = "true" then some (impl ++ "\tpass\t-")
        else if field "lock" = "ok" && field "locked" = "ok" && field "samefs" = "true" then
          -- same packages, same files; only the order of installation (lib/apk/db/installed) differs
          some (impl ++ "\tfail:install-order-differs\tF09j")
        else
          -- `apko lock` resolves every architecture alone, `apko build` jointly
          let diverges := match multi, lockOk with
            | some m, some ss => m.any fun (a, s) => match lookupT ss a with | some s1 => !sameSet (ids s) (ids s1) | none => true
            | _, _ => true
          let cls := if archs.length > 1 && diverges then "F09i" else
            match relocks.bind (·.head?), archs.head? with
            | some (_, s, _), some (_, u) => relockClass u (strList world) s
            | _, _ => "unlisted"
          some (impl ++ "\tfail:locked-build-differs\t" ++ cls)
      else
        match firstBad with
        | some (a, s, _) =>
          match lookupT archs a with
          | some u => some (impl ++ "\tfail:unlocked-build-fails-on-its-own-lock\t" ++ relockClass u (strList world) s)
          | none => some (impl ++ "\tpass\t-")
        | none => some (impl ++ "\tpass\t-")
    | _ => some "bad-universe\tfail:bad-universe\tunlisted"
  | _ => none

end Apko.Driver.Lock
