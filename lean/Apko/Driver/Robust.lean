/-! line-protocol handlers for corr:robust (C15).  Readers that have a model are routed to that
model's handlers (`v.parse`, `v.con`, `f.idx.r`, `f.idb.r`, `f.pw.r`, `f.gr.r`); for the library-backed
readers (gzip, tar, YAML, JSON) the oracle "returned a result or an error, promptly" is evaluated by
the harness and there is nothing for the model to add. -/
namespace Apko.Driver.Robust

def handle (args : List String) : Option String :=
  match args with
  | ["x.robust", _] => some "-\t-\t-"
  | _ => none

end Apko.Driver.Robust
