import Apko.Model.RobustStream
import Apko.Driver.Formats
/-! line-protocol handlers for corr:robust (C15).

Readers that have a value-level model elsewhere are routed to that model's handlers by the suite
(`v.parse`, `v.con`, `f.idx.r`, `f.idb.r`, `f.pw.r`, `f.gr.r`).  The handlers here run the checked-accessor
models of `Model/Robust.lean` and the stream / include models of `Model/RobustStream.lean` with the
guard lists regenerated from /repo (`x` = hex text):

  x.pw <x> / x.gr <x>        UserFile.Load / GroupFile.Load through the checked models
  x.osrel <x>                readReleaseData: ID|NAME|VERSION_ID
  x.ctl <x>                  controlValue on a .PKGINFO text for the keys datahash, triggers; then datahash
  x.perms <x>                parseInstalledPerms
  x.world <x> / x.repos <x>  GetWorld / GetRepositories
  x.repoline <x>             the `@tag url` decision of GetRepositoryIndexes: ok / invalid
  x.groups <x>               number of capturing groups of a regular-expression literal
  x.resub <which> <x> <m;m;…>  ParseVersion / ResolvePackageNameVersionPin / parseAlpineVersion / signature name
                             on the submatch lists the real expression returned (m = x.x.x…)
  x.split <members> / x.expand <members>   Split / ExpandApk on a stream of gzip members
  x.idxarch <gzOk> <entries> <end>         IndexFromArchive on tar entries
  x.inc <path> <files>       ImageConfiguration.Load over an include graph
  x.robust <id>              library-backed readers: nothing for the model to add

An answer `oob` never equals what the Go side sends: the real code answering at all means it did not
panic, so a model that says `oob` is a broken correspondence; the Go side panicking is a violation by
itself. -/

namespace Apko.Driver.Robust
open Apko Apko.Formats Apko.Robust

def triple (impl : String) : String := impl ++ "\t" ++ impl ++ "\t-"

def showR {α : Type} (f : α → String) : Res α → String
  | .ok a => f a
  | .err => "err"
  | .oob => "oob"

def hexList (l : List Text) : String := ",".intercalate (l.map hexS)

def rBool (s : String) : Bool := s = "1"

/-- member: size,headerOk,bodyOk,firstName(hex or -),tarOk,restOk,restSumsOk,restTarOk -/
def rMember (s : String) : Option Member :=
  match s.splitOn "," with
  | [sz, h, b, n, t, r, rs, rt] =>
    some ⟨sz.toNat!, rBool h, rBool b, (if n = "-" then none else some (unhexS n)), rBool t, rBool r, rBool rs, rBool rt⟩
  | _ => none

def rMembers (s : String) : Option (List Member) :=
  if s = "" then some [] else mapAllOpt rMember (s.splitOn ";")

/-- entry: name(hex),readOk,parseOk -/
def rEntry (s : String) : Option Entry :=
  match s.splitOn "," with
  | [n, r, p] => some ⟨unhexS n, rBool r, rBool p⟩
  | _ => none

def rEntries (s : String) : Option (List Entry) :=
  if s = "" then some [] else mapAllOpt rEntry (s.splitOn ";")

/-- file: key(hex),decodes,include(hex) -/
def rConf (s : String) : Option (Text × ConfFile) :=
  match s.splitOn "," with
  | [k, d, i] => some (unhexS k, ⟨rBool d, unhexS i⟩)
  | _ => none

def rConfs (s : String) : Option ConfFS :=
  if s = "" then some [] else mapAllOpt rConf (s.splitOn ";")

def rMatch (s : String) : List Text := if s = "-" then [] else (s.splitOn ".").map unhexS
def rMatches (s : String) : List (List Text) := if s = "" then [] else (s.splitOn ";").map rMatch

def showVersion (v : Apko.Version) : String :=
  s!"ok {v.numbers}|{v.letter}|{v.pre}|{v.preNum}|{v.post}|{v.postNum}|{v.rev}"

/-- all values recorded for a key, in file order -/
def valuesOf (kvs : List (Text × Text)) (k : Text) : List Text :=
  (kvs.filter fun p => p.1 = k).map (·.2)

def handle (args : List String) : Option String :=
  match args with
  | ["x.robust", _] => some "-\t-\t-"
  | ["x.pw", x] =>
    some <| triple <| showR (fun l => ";".intercalate (l.map Driver.Formats.wUser))
      (loadRes (userParse Generated.lenGuards_UserParse) (unhexS x))
  | ["x.gr", x] =>
    some <| triple <| showR (fun l => ";".intercalate (l.map Driver.Formats.wGroup))
      (loadRes (groupParse Generated.lenGuards_GroupParse) (unhexS x))
  | ["x.osrel", x] =>
    some <| triple <| showR (fun (a, b, c) => s!"ok {hexS a}|{hexS b}|{hexS c}")
      (readRelease Generated.prefixGuards_readReleaseData (unhexS x))
  | ["x.ctl", x] =>
    let want := ["datahash".toList, "triggers".toList]
    let r := controlValues Generated.lenGuards_controlValue want (unhexS x)
    some <| triple <| showR (fun kvs =>
      let dh := valuesOf kvs "datahash".toList
      s!"ok {hexList dh}|{hexList (valuesOf kvs "triggers".toList)}|" ++
        showR hexS (datahashOf Generated.lenGuards_datahash dh)) r
  | ["x.perms", x] =>
    some <| triple <| showR (fun (u, g, p) => s!"ok {u}|{g}|{p}")
      (installedPerms Generated.lenGuards_parseInstalledPerms (unhexS x))
  | ["x.world", x] => some <| triple ("ok " ++ hexList (world (unhexS x)))
  | ["x.repos", x] => some <| triple ("ok " ++ hexList (repositories (unhexS x)))
  | ["x.repoline", x] =>
    some <| triple <| showR (fun _ => "ok")
      (repoLine Generated.lenGuards_GetRepositoryIndexes Generated.prefixGuards_GetRepositoryIndexes (unhexS x))
  | ["x.groups", x] => some <| triple (toString (countGroups (unhexS x)))
  | ["x.resub", which, input, ms] =>
    let all := rMatches ms
    let one := all.headD []
    let wf (lit : String) (l : List (List Text)) : String :=
      if l.all (fun m => m.length = submatchLen lit) then "wf" else "not-wf"
    some <| triple <| match which with
      | "version" => wf Generated.versionRegex all ++ " " ++
          showR showVersion (parseVersionG Generated.lenGuards_ParseVersion all)
      | "pin" => wf Generated.packageNameRegex all ++ " " ++
          showR (fun o => match o with
            | none => s!"{input}||0|"
            | some (n, v, p, op) =>
              s!"{hexS n}|{hexS v}|{(if op.isEmpty then Dep.any else opOf op).toNat}|{hexS p}")
            (resolvePinG Generated.lenGuards_ResolvePin all)
      | "alpine" => wf Generated.re_repoRE (if one = [] then [] else [one]) ++ " " ++
          showR (fun o => match o with | none => "none" | some v => "ok " ++ hexS v)
            (alpineVersionG Generated.lenGuards_parseAlpineVersion one)
      | "signature" => wf Generated.re_signatureFileRegex (if one = [] then [] else [one]) ++ " " ++
          showR (fun (k, t) => s!"ok {hexS k}|{hexS t}")
            (signatureNameG Generated.lenGuards_parseRepositoryIndex one)
      | _ => "bad-wire"
  | ["x.split", ms] =>
    some <| triple <| match rMembers ms with
      | none => "bad-wire"
      | some ms =>
        match splitG Generated.prefixGuards_Split ms with
        | .ok parts => s!"ok {parts.length} " ++
            showR (fun _ => "control") (controlOf Generated.lenGuards_ParsePackageInfo parts)
        | .err => "err"
        | .oob => "oob"
  | ["x.expand", ms] =>
    some <| triple <| match rMembers ms with
      | none => "bad-wire"
      | some ms =>
        match expandApkG Generated.prefixGuards_expandNext Generated.expandCases expandDataFlag ms with
        | none => "hang"
        | some r => showR (fun (s, _) => s!"ok signed={s}") r
  | ["x.idxarch", gz, es, fin] =>
    some <| triple <| match rEntries es with
      | none => "bad-wire"
      | some es =>
        if !rBool gz then "err" else
        showR (fun _ => "ok") (indexFromArchiveG Generated.prefixGuards_IndexFromArchive es
          (if fin = "eof" then .eof else .err))
  | ["x.inc", path, files] =>
    some <| triple <| match rConfs files with
      | none => "bad-wire"
      | some fs =>
        match loadConfigG includeChecked fs (unhexS path) with
        | none => "hang"
        | some true => "ok"
        | some false => "err"
  | _ => none

end Apko.Driver.Robust
