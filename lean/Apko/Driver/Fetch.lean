import Apko.Model.Fetch
import Apko.Driver.Retry
/-! line-protocol handlers for corr:retry-e2e (C20 end to end)

`fetch.hist \t target \t memo \t kind \t etag \t data(hex) \t ops \t go-output`
  target = index | key; memo = 0 | 1 (the shared cache object remembers HEAD answers); kind = h | i | e;
  etag = ETag number of the first revision (0 = the server sends none);
  ops separated by `|`: `P<etag>:<hex>` (publish), `X` (new process), `O<mode>:<script>:<sizes>` with
  mode = d | c | o, script = connections separated by `;` (the `retry.run` form plus `,noetag`),
  sizes = the buffer sizes of the reads on network bodies, in order, separated by `.`
`fetch.pkgs \t kind \t cachemode(n|c|o) \t datas(hex;hex…) \t script \t sizes(;) \t go-output`

An answer (one per fetch operation / package, separated by `|`) is a blank-separated token list:
  `R:ok:<hex>` | `R:err`, then the directory sorted (`A<etag>=<hex>` advertised entry, `T=<hex>` temp file
  no entry leads to), then the trace (`h`, `q-`, `q<p>`, `b<o|e|w|f>`).
The driver answers `impl \t pass|fail:<why> \t class`: the model's answers, and the oracle evaluated on the
answers of the real code.
-/
namespace Apko.Driver.Fetch
open Apko Apko.Retry Apko.Fetch Apko.Driver.Retry

def parseXConn (s : String) : Option XConn :=
  match s.splitOn "," with
  | [f, st, pg, nb, cut, en, eg, ch, ne] => do
    let c ← parseConn (",".intercalate [f, st, pg, nb, cut, en, eg, ch])
    let ne ← parseBool ne
    pure ⟨c, ne⟩
  | _ => none

def parseXScript (s : String) : Option (List XConn) :=
  if s.isEmpty then some [] else (s.splitOn ";").mapM parseXConn

def parseSizes (s : String) : Option (List Nat) :=
  if s.isEmpty then some [] else (s.splitOn ".").mapM (·.toNat?)

def parseMode : String → Option Mode
  | "d" => some .direct | "c" => some .cached | "o" => some .offline | _ => none

def parseEtag (s : String) : Option (Option Etag) :=
  s.toNat?.map (fun n => if n = 0 then none else some n)

def parseOp (target : String) (memo : Bool) (s : String) : Option Fetch.Op :=
  if s = "X" then some .exit
  else if s.startsWith "P" then
    match (s.drop 1).toString.splitOn ":" with
    | [e, d] => do
      let e ← parseEtag e
      pure (.publish e (unhexS d))
    | _ => none
  else if s.startsWith "O" then
    match (s.drop 1).toString.splitOn ":" with
    | [m, sc, sz] => do
      let m ← parseMode m
      let sc ← parseXScript sc
      let sz ← parseSizes sz
      pure (if target = "key" then .key m memo sc sz else .index m memo sc sz)
    | _ => none
  else none

def parseOps (target : String) (memo : Bool) (s : String) : Option (List Fetch.Op) :=
  if s.isEmpty then some [] else (s.splitOn "|").mapM (parseOp target memo)

def showEv : Ev → String
  | .head => "h"
  | .get none => "q-"
  | .get (some p) => s!"q{p}"
  | .body r => "b" ++ showRes r

def showFile (f : File) : String :=
  match f.name with
  | some e => s!"A{e}=" ++ hexS f.content
  | none => "T=" ++ hexS f.content

def showResult : Result → String
  | .ok bs => "R:ok:" ++ hexS bs
  | .error => "R:err"

def sortStrs (l : List String) : List String := (l.toArray.qsort (· < ·)).toList

def showAnswer (a : Ans) (evs : List Ev) (files : List File) : String :=
  " ".intercalate
    ((match a with | .res r => showResult r | .unmodelled => "R:unmodelled") ::
      (sortStrs (files.map showFile) ++ evs.map showEv))

/-! ### the answers of the real code -/

structure GoAns where
  res   : Option Text            -- `some bs` = ok
  adv   : List (Nat × Text)
  advS  : List String            -- the advertised tokens as they came (sorted)
  tmps  : List Text
  other : List String            -- tokens that are neither
  evs   : List String
deriving Repr, Inhabited

def parseAns (s : String) : Option GoAns :=
  match s.splitOn " " with
  | [] => none
  | r :: toks =>
    let res : Option (Option Text) :=
      if r = "R:err" then some none
      else if r.startsWith "R:ok:" then some (some (unhexS (r.drop 5).toString))
      else none
    res.map fun res =>
      toks.foldl (fun (a : GoAns) t =>
        if t.startsWith "A" then
          match (t.drop 1).toString.splitOn "=" with
          | [e, h] =>
            match e.toNat? with
            | some e => { a with adv := a.adv ++ [(e, unhexS h)], advS := a.advS ++ [t] }
            | none => { a with other := a.other ++ [t] }
          | _ => { a with other := a.other ++ [t] }
        else if t.startsWith "T=" then { a with tmps := a.tmps ++ [unhexS (t.drop 2).toString] }
        else if t = "h" || t.startsWith "q" || t.startsWith "b" then { a with evs := a.evs ++ [t] }
        else { a with other := a.other ++ [t] })
        ⟨res, [], [], [], [], []⟩

/-- the connection that answered the most recent GET of a trace, with the Range offset it was asked for:
the k-th request (HEAD or GET) is answered by the k-th connection -/
def lastGet : List String → List Conn → Option (Conn × Option Nat) → Option (Conn × Option Nat)
  | [], _, acc => acc
  | e :: es, cs, acc =>
    if e = "h" then lastGet es cs.tail acc
    else if e.startsWith "q" then
      let range := if e = "q-" then none else (e.drop 1).toString.toNat?
      match cs with
      | [] => lastGet es [] none
      | c :: cs' => lastGet es cs' (some (c, range))
    else lastGet es cs acc

def requests (evs : List String) : Nat := (evs.filter fun e => e = "h" || e.startsWith "q").length

/-- the current connection has a clean early end the code cannot see (outside the recorded assumption) -/
def waived (data : Text) (k : Kind) (evs : List String) (script : List Conn) : Bool :=
  match lastGet evs script none with
  | some (c, range) => c.invisibleEnd data k range
  | none => false

/-- the key fetch accepts any 2xx answer; only 200 is known to carry the file (honest server) -/
def key2xx (target : String) (evs : List String) (script : List Conn) : Bool :=
  target == "key" &&
  match lastGet evs script none with
  | some (c, _) =>
    match c.status with
    | some st => decide (200 < st ∧ st ≤ 299 ∧ st ≠ 206)
    | none => false
  | none => false

structure OSt where
  etag : Option Etag
  data : Text
  served : List (Etag × Text)
  tolerated : List (Etag × Text)
  prevAdv : List String
deriving Repr, Inhabited

def isPrefix (a b : Text) : Bool := a.isPrefixOf b

/-- the oracle on the answers of the real code, operation by operation -/
def verdictHist (target : String) (k : Kind) : OSt → List Fetch.Op → List GoAns → Nat → String
  | _, [], [], _ => "pass"
  | _, [], _ :: _, _ => "fail:more-answers-than-operations"
  | st, .publish e d :: ops, as, i =>
    let served := match e with | some e => (e, d) :: st.served | none => st.served
    verdictHist target k { st with etag := e, data := d, served := served } ops as i
  | st, .exit :: ops, as, i => verdictHist target k st ops as i
  | st, op :: ops, as, i =>
    let (mode, script) : Mode × List XConn := match op with
      | .index m _ sc _ => (m, sc)
      | .key m _ sc _ => (m, sc)
      | _ => (.offline, [])
    match as with
    | [] => s!"fail:op-{i}-no-answer"
    | a :: as =>
      let conns := script.map (·.conn)
      let w := mode != .offline && waived st.data k a.evs conns
      let k2 := mode != .offline && key2xx target a.evs conns
      if !a.other.isEmpty then s!"fail:op-{i}-unexpected-file:" ++ " ".intercalate a.other else
      -- every advertised entry is a body the server answered with under that ETag
      let bad := a.adv.filter fun (e, c) =>
        !(st.served.contains (e, c) || st.tolerated.contains (e, c) ||
          (w && st.etag == some e && isPrefix c st.data))
      if !bad.isEmpty then s!"fail:op-{i}-advertised-entry-is-not-a-served-body:" ++
          " ".intercalate (bad.map fun (e, c) => s!"A{e}=" ++ hexS c) else
      let tolerated := st.tolerated ++ (a.adv.filter fun x => !st.served.contains x && !st.tolerated.contains x)
      match a.res with
      | none =>
        if a.advS != st.prevAdv then s!"fail:op-{i}-error-but-advertised:" ++ " ".intercalate a.advS
        else verdictHist target k { st with tolerated := tolerated, prevAdv := a.advS } ops as (i + 1)
      | some bs =>
        let fromNet := bs == st.data || (w && isPrefix bs st.data) || k2
        let fromDir := (st.served.map (·.2)).contains bs || (tolerated.map (·.2)).contains bs
        let ok := match mode with
          | .direct => fromNet
          | .cached => fromNet || fromDir
          | .offline => fromDir
        if !ok then s!"fail:op-{i}-accepted-bytes-are-not-a-complete-served-body:" ++ hexS bs
        else verdictHist target k { st with tolerated := tolerated, prevAdv := a.advS } ops as (i + 1)

def runHist (target : String) (memo : Bool) (k : Kind) (etag : Option Etag) (data : Text)
    (ops : List Fetch.Op) : String :=
  let st := St.init ⟨etag, data, k⟩
  let _ := memo
  "|".intercalate ((answers Cfg.generated Callers.generated st ops).map fun a => showAnswer a.1 a.2.1 a.2.2)

/-! ### packages -/

def runPkgs (k : Kind) (offline : Bool) (pkgs : List (Text × List Nat)) (script : List Conn) : String :=
  if offline then "|".intercalate (pkgs.map fun _ => "R:err")
  else
    let rs := fetchPackages Cfg.generated Callers.generated k (pkgs.map fun p => (p.1, szReader p.2)) script
    "|".intercalate (rs.map fun r => showAnswer (.res r.1) (ofLog r.2) [])

def verdictPkgs (k : Kind) : List Text → List GoAns → List Conn → Nat → String
  | [], [], _, _ => "pass"
  | [], _ :: _, _, _ => "fail:more-answers-than-packages"
  | _ :: _, [], _, i => s!"fail:package-{i}-no-answer"
  | d :: ds, a :: as, script, i =>
    if !a.other.isEmpty || !a.adv.isEmpty || !a.tmps.isEmpty then s!"fail:package-{i}-left-files-in-the-cache"
    else
      let rest := script.drop (requests a.evs)
      match a.res with
      | none => verdictPkgs k ds as rest (i + 1)
      | some bs =>
        if bs == d || (waived d k a.evs script && isPrefix bs d) then verdictPkgs k ds as rest (i + 1)
        else s!"fail:package-{i}-stream-ended-cleanly-with-bytes-that-are-not-the-package:" ++ hexS bs

def handle (args : List String) : Option String :=
  match args with
  | ["fetch.hist", target, memo, k, e, d, ops, goOut] =>
    match parseKind k, parseEtag e, parseBool memo, parseOps target (memo = "1") ops with
    | some k, some e, some memo, some ops =>
      let data := unhexS d
      let impl := runHist target memo k e data ops
      let gas := if goOut.isEmpty then some [] else (goOut.splitOn "|").mapM parseAns
      let v := match gas with
        | none => "fail:unparsable-answer"
        | some gas =>
          verdictHist target k ⟨e, data, (match e with | some e => [(e, data)] | none => []), [], []⟩ ops gas 0
      some <| impl ++ "\t" ++ v ++ "\t" ++ (if v = "pass" then "-" else "unlisted")
    | _, _, _, _ => some "bad-case\tfail:bad-case\tunlisted"
  | ["fetch.pkgs", k, cm, datas, sc, sizes, goOut] =>
    match parseKind k, parseScript sc with
    | some k, some sc =>
      let ds := (datas.splitOn ";").map unhexS
      let szs := (sizes.splitOn ";").map fun s => (parseSizes s).getD []
      let pkgs := ds.zip (szs ++ List.replicate ds.length [])
      let impl := runPkgs k (cm = "o") pkgs sc
      let gas := if goOut.isEmpty then some [] else (goOut.splitOn "|").mapM parseAns
      let v := match gas with
        | none => "fail:unparsable-answer"
        | some gas => verdictPkgs k ds gas sc 0
      some <| impl ++ "\t" ++ v ++ "\t" ++ (if v = "pass" then "-" else "unlisted")
    | _, _ => some "bad-case\tfail:bad-case\tunlisted"
  | _ => none

end Apko.Driver.Fetch
