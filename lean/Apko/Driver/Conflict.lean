import Apko.Model.Conflict
import Apko.Driver.Formats
/-! line-protocol handler for corr:conflict (C07).

Request (tab separated):
  c.inst <backend> <base> <pkgs> <go-outcome> <go-tree> <go-db>
    backend   tarfs | memfs | dirfs
    entry     hexname:kind:mode:uid:gid:sum:hextarget:size        kind ∈ d f l ; joined by `;`
    pkg       hexname,hexversion,hexorigin,<.hex list of replaces>,<entries>   joined by `|`
    outcome   ok | conflict:<hexname> | exists | error
    go-tree   hexpath:kind:perm:uid:gid:x  joined by `;`   (x = sha1 hex of a file, hex target of a link)
    go-db     one `p<recs>` per package joined by `|`, rec = hexname:isdir:mode:uid:gid joined by `;`
Answer `impl \t verdict \t class`: impl = `outcome|tree|hex(db projection)` of the Impl model (to be
compared with the same rendering of what the real code did), verdict = `pass` or `fail:<reasons>` of
the oracle evaluated on Go's observation, class = the listed finding that explains every reason
(`unlisted` when one reason has no listed explanation). -/
namespace Apko.Driver.Conflict
open Apko Apko.Conflict Apko.Path

def rKind : String → Option Kind
  | "d" => some .dir | "f" => some .reg | "l" => some .link | _ => none

def wKind : Kind → String
  | .dir => "d" | .reg => "f" | .link => "l"

def rEntry (s : String) : Option Entry :=
  match s.splitOn ":" with
  | [n, k, m, u, g, sum, t, sz] =>
    match rKind k, m.toNat?, u.toInt?, g.toInt?, sz.toNat? with
    | some k, some m, some u, some g, some sz =>
      some { name := unhexS n, kind := k, mode := m, uid := u, gid := g, sum := sum.toList, target := unhexS t, size := sz }
    | _, _, _, _, _ => none
  | _ => none

def rEntries : String → Option (List Entry) := Driver.Formats.rMany ";" rEntry

def rPkg (s : String) : Option Pkg :=
  match s.splitOn "," with
  | [n, v, o, r, es] =>
    match rEntries es with
    | some es => some { name := unhexS n, version := unhexS v, origin := unhexS o, replaces := Driver.Formats.rList r, entries := es }
    | none => none
  | _ => none

def rPkgs : String → Option (List Pkg) := Driver.Formats.rMany "|" rPkg

def rBackend : String → Option Backend
  | "tarfs" => some .lazy | "memfs" => some .memfs | "dirfs" => some .dirfs | _ => none

def rOutcome (s : String) : Option Outcome :=
  if s = "ok" then some .ok else if s = "exists" then some .exists_ else if s = "error" then some .error
  else match s.splitOn ":" with
    | ["conflict", n] => some (.conflict (unhexS n))
    | _ => none

def wOutcome : Outcome → String
  | .ok => "ok" | .exists_ => "exists" | .error => "error" | .conflict n => "conflict:" ++ hexS n

def rONode (s : String) : Option ONode :=
  match s.splitOn ":" with
  | [p, k, perm, u, g, x] =>
    match rKind k, perm.toNat?, u.toInt?, g.toInt? with
    | some k, some perm, some u, some g =>
      some { path := unhexS p, kind := k, perm := perm, uid := u, gid := g, x := if k = .link then unhexS x else x.toList }
    | _, _, _, _ => none
  | _ => none

def rORec (s : String) : Option ORec :=
  match s.splitOn ":" with
  | [n, d, m, u, g] =>
    match m.toInt?, u.toInt?, g.toInt? with
    | some m, some u, some g => some { name := unhexS n, isDir := d == "1", mode := m, uid := u, gid := g }
    | _, _, _ => none
  | _ => none

def rODb (s : String) : Option (List (List ORec)) :=
  Driver.Formats.rMany "|" (fun p => Driver.Formats.rMany ";" rORec (p.drop 1).toString) s

/-! ## rendering the Impl run -/

def wNode (p : PathK) (n : Node) : String :=
  let own := s!"{(nodeOwner n).1}:{(nodeOwner n).2}"
  match n with
  | .dir perm => s!"{hexS (joinNames p)}:d:{perm}:{own}:"
  | .file s perm _ _ => s!"{hexS (joinNames p)}:f:{perm}:{own}:{String.ofList s}"
  | .link t _ perm _ => s!"{hexS (joinNames p)}:l:{perm}:{own}:{hexS t}"

def dbDirPrefix : PathK := ["lib".toList, "apk".toList, "db".toList]

def wTree (t : Tree) : String :=
  let vis := t.filter fun e => !(dbDirPrefix.isPrefixOf e.1 && e.1.length > 3)
  let sorted := vis.mergeSort fun a b => Formats.textLe (joinNames a.1) (joinNames b.1)
  ";".intercalate (sorted.map fun e => wNode e.1 e.2)

/-- the bookkeeping directory the harness creates before the install -/
def dbDirs : List Entry :=
  [{ name := "lib/apk/db".toList, kind := .dir, mode := 0o755 }]

structure Run where
  outcome : Outcome
  st : St
  recs : List (List Entry)

def runCfg (c : Cfg) (base : List Entry) (pkgs : List Pkg) : Run :=
  match installAll c (dbDirs ++ base) pkgs with
  | .error (o, fl) => { outcome := o, st := { tree := [], flags := fl }, recs := [] }
  | .ok (st, all) => { outcome := .ok, st := st, recs := recordAll st.inst all }

def wRun (pkgs : List Pkg) (r : Run) : String :=
  match r.outcome with
  | .ok =>
    match dbText Driver.Formats.b64 pkgs r.recs with
    | some db => s!"ok|{wTree r.st.tree}|{hexS db}"
    | none => "ok|dberr|"
  | o => wOutcome o ++ "||"

/-! ## classes: which listed finding explains a reason of the oracle -/

def reasonName (r : Text) : Text := (r.dropWhile (· != ':')).drop 1
def reasonKind (r : Text) : String := String.ofList (r.takeWhile (· != ':'))

/-- the Impl run raised the flag that explains the reason, or the recorded data themselves do -/
def explain (pkgs : List Pkg) (impl : Run) (implReasons : List Text) (r : Text) : Option String :=
  let n := reasonName r
  let fl := impl.st.flags
  let anyEmpty := fl.any fun f => match f with | .emptyOrigin _ => true | _ => false
  let anyVer := fl.any fun f => match f with | .versioned _ => true | _ => false
  let lof := fl.any fun f => match f with | .linkUntracked m => m == n | _ => false
  let thr := fl.any fun f => match f with | .throughLink m d => m == n || d == n | _ => false
  let anyThr := fl.any fun f => match f with | .throughLink _ _ => true | _ => false
  let bk := fl.any fun f => match f with | .baseKept m => m == n | _ => false
  let ali := fl.any fun f => match f with | .alias _ => true | _ => false
  -- the reason names the node an aliased header name (directory symlink, unclean spelling) reaches
  let aliN := fl.any fun f => match f with | .alias m => joinNames (parts m) == n | _ => false
  let dropped := impl.recs.any fun files => (droppedNames files).contains n
  let recOwner := (pkgs.zip impl.recs).any fun (_, files) => files.any fun e => e.name == n ∨ Formats.trimSuffixSlash e.name == n ∨ joinNames (parts e.name) == n
  match reasonKind r with
  | "outcome" | "content" =>
    if anyEmpty then some "F07b" else if anyVer then some "F07h" else if anyThr then some "F07d" else none
  | "unrecorded" => if dropped then some "F07a" else if ali then some "F07g" else none
  | "stale" => if lof then some "F07c" else if thr then some "F07d" else if ali then some "F07g" else none
  | "stray" => if thr then some "F07d" else if ali then some "F07g" else none
  | "multi" => if ali then some "F07g" else if bk then some "F07i" else none
  | "owner" => if recOwner && implReasons.contains r then some "F07e" else none
  | "mode" => if aliN then some "F07g" else if implReasons.contains r then some "F07f" else none
  | _ => none

/-- the observation the Impl run predicts (for the reasons the model itself foresees) -/
def implObs (pkgs : List Pkg) (impl : Run) : List ONode × List (List ORec) :=
  let nodes := impl.st.tree.map fun (p, n) =>
    match n with
    | .dir perm => ({ path := joinNames p, kind := .dir, perm := perm, uid := (nodeOwner n).1, gid := (nodeOwner n).2, x := [] } : ONode)
    | .file s perm _ _ => { path := joinNames p, kind := .reg, perm := perm, uid := (nodeOwner n).1, gid := (nodeOwner n).2, x := s }
    | .link t _ perm _ => { path := joinNames p, kind := .link, perm := perm, uid := (nodeOwner n).1, gid := (nodeOwner n).2, x := t }
  let recs := (pkgs.zip impl.recs).map fun (_, files) =>
    match Formats.sortHeaders (files.map toRec) with
    | none => []
    | some sorted => sorted.map fun r =>
      ({ name := if r.isDir then Formats.trimSuffixSlash r.name else joinNames (parts r.name), isDir := r.isDir, mode := r.mode % 512, uid := r.uid, gid := r.gid } : ORec)
  (nodes, recs)

def classOf (pkgs : List Pkg) (impl : Run) (implReasons : List Text) (reasons : List Text) : String :=
  let cs := reasons.map (explain pkgs impl implReasons)
  if cs.any Option.isNone then "unlisted"
  else match cs.head? with
    | some (some c) => c
    | _ => "-"

def handle (args : List String) : Option String :=
  match args with
  | ["c.inst", be, base, pkgs, gout, gtree, gdb] =>
    some <|
    match rBackend be, rEntries base, rPkgs pkgs, rOutcome gout with
    | some be, some base, some pkgs, some gout =>
      let impl := runCfg { backend := be } base pkgs
      let implS := wRun pkgs impl
      let gt := if gout = .ok then rEntriesO gtree else some []
      let gd := if gout = .ok then rODb gdb else some []
      match gt, gd with
      | some gt, some gd =>
        let reasons := oracle be (dbDirs ++ base) pkgs gout gt gd
        if reasons.isEmpty then s!"{implS}\tpass\t-" else
        let (io, ir) := implObs pkgs impl
        let implReasons := if impl.outcome = .ok then idbTruth (dbDirs ++ base) pkgs io ir else []
        let why := ",".intercalate (reasons.map fun r => String.ofList (hex r))
        let short := ",".intercalate ((reasons.map reasonKind).eraseDups)
        s!"{implS}\tfail:{short}:{why}\t{classOf pkgs impl implReasons reasons}"
      | _, _ => "bad-go-output\tfail:parse\tunlisted"
    | _, _, _, _ => "bad-request\tfail:parse\tunlisted"
  | _ => none
where
  rEntriesO : String → Option (List ONode) := Driver.Formats.rMany ";" rONode

end Apko.Driver.Conflict
