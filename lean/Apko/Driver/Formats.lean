import Apko.Model.Formats
/-! line-protocol handlers for corr:formats (C16).

Requests (tab separated; records in the wire format below; `x` = hex text):
  f.idx.rw  <pkgs>          ArchiveFromIndex → text → IndexFromArchive → re-render
  f.idx.r   <x>             ParsePackageIndex on arbitrary text
  f.idb.rw  <aspect> <ipkgs>  AddInstalledPackage* → text → ParseInstalled → re-render; aspect ∈ pkg|iif|files|csum|text2
  f.idb.r   <x>             ParseInstalled on arbitrary text
  f.base    <x>             the same text through ParseInstalled and ParsePackageIndex (base_image.go)
  f.pw.rw <users> / f.pw.r <x> / f.gr.rw <groups> / f.gr.r <x>
Answers `impl \t spec \t class`.  Outside the property's quantifier (`WF…` false) the spec makes no
demand and repeats impl.  `class` names the listed defect that fully explains impl ≠ spec. -/
namespace Apko.Driver.Formats
open Apko Apko.Formats

/-! ## concrete base64 (encoding/base64.StdEncoding), trusted: see `Codec` -/

def b64Alphabet : Text := "ABCDEFGHIJKLMNOPQRSTUVWXYZabcdefghijklmnopqrstuvwxyz0123456789+/".toList
def b64Char (n : Nat) : Char := b64Alphabet.getD n 'A'
def b64Val (c : Char) : Option Nat := b64Alphabet.idxOf? c

def b64EncN : List Nat → Text
  | a :: b :: c :: rest =>
    b64Char (a / 4) :: b64Char (a % 4 * 16 + b / 16) :: b64Char (b % 16 * 4 + c / 64) :: b64Char (c % 64) :: b64EncN rest
  | [a, b] => [b64Char (a / 4), b64Char (a % 4 * 16 + b / 16), b64Char (b % 16 * 4), '=']
  | [a] => [b64Char (a / 4), b64Char (a % 4 * 16), '=', '=']
  | [] => []

def b64DecN : Text → Option (List Nat)
  | [] => some []
  | [a, b, '=', '='] => match b64Val a, b64Val b with
    | some x, some y => some [x * 4 + y / 16]
    | _, _ => none
  | [a, b, c, '='] => match b64Val a, b64Val b, b64Val c with
    | some x, some y, some z => some [x * 4 + y / 16, y % 16 * 16 + z / 4]
    | _, _, _ => none
  | a :: b :: c :: d :: rest => match b64Val a, b64Val b, b64Val c, b64Val d, b64DecN rest with
    | some x, some y, some z, some w, some tl => some ((x * 4 + y / 16) :: (y % 16 * 16 + z / 4) :: (z % 4 * 64 + w) :: tl)
    | _, _, _, _, _ => none
  | _ => none

def b64 : Codec where
  enc := fun b => b64EncN (b.map Char.toNat)
  dec := fun t => (b64DecN (t.filter fun c => c != '\r' && c != '\n')).map (·.map Char.ofNat)

/-! ## wire format -/

def wList (l : List Text) : String := String.join (l.map fun t => "." ++ hexS t)
def rList (s : String) : List Text := ((s.splitOn ".").drop 1).map unhexS

def wPkg (p : Pkg) : String :=
  ",".intercalate [hexS p.name, hexS p.version, hexS p.arch, hexS p.description, hexS p.license,
    hexS p.origin, hexS p.maintainer, hexS p.url, hexS p.commit, hexS p.checksum, wList p.deps,
    wList p.provides, wList p.installIf, wList p.replaces, toString p.size, toString p.installedSize,
    toString p.priority, toString p.buildTime]

def rPkg (s : String) : Option Pkg :=
  match s.splitOn "," with
  | [n, v, a, d, l, o, m, u, c, ck, dp, pr, ii, rp, sz, isz, k, bt] =>
    match sz.toNat?, isz.toNat?, k.toNat?, bt.toInt? with
    | some sz, some isz, some k, some bt =>
      some { name := unhexS n, version := unhexS v, arch := unhexS a, description := unhexS d,
             license := unhexS l, origin := unhexS o, maintainer := unhexS m, url := unhexS u,
             commit := unhexS c, checksum := unhexS ck, deps := rList dp, provides := rList pr,
             installIf := rList ii, replaces := rList rp, size := sz, installedSize := isz,
             priority := k, buildTime := bt }
    | _, _, _, _ => none
  | _ => none

def rMany {α : Type} (sep : String) (f : String → Option α) (s : String) : Option (List α) :=
  if s = "" then some [] else mapAllOpt f (s.splitOn sep)

def wPkgs (ps : List Pkg) : String := ";".intercalate (ps.map wPkg)
def rPkgs : String → Option (List Pkg) := rMany ";" rPkg

def wFile (f : FileRec) : String :=
  ",".intercalate [hexS f.name, if f.isDir then "1" else "0", toString f.mode, toString f.uid, toString f.gid, hexS f.csum]
def rFile (s : String) : Option FileRec :=
  match s.splitOn "," with
  | [n, d, m, u, g, c] => match m.toInt?, u.toInt?, g.toInt? with
    | some m, some u, some g => some { name := unhexS n, isDir := d == "1", mode := m, uid := u, gid := g, csum := unhexS c }
    | _, _, _ => none
  | _ => none
def wFiles (fs : List FileRec) : String := ";".intercalate (fs.map wFile)
def rFiles : String → Option (List FileRec) := rMany ";" rFile

def wIPkg (ip : IPkg) : String := wPkg ip.pkg ++ "/" ++ wFiles ip.files
def rIPkg (s : String) : Option IPkg :=
  match s.splitOn "/" with
  | [p, fs] => match rPkg p, rFiles fs with
    | some p, some fs => some ⟨p, fs⟩
    | _, _ => none
  | _ => none
def wIPkgs (l : List IPkg) : String := "|".intercalate (l.map wIPkg)
def rIPkgs : String → Option (List IPkg) := rMany "|" rIPkg

def wUser (u : User) : String :=
  ",".intercalate [hexS u.name, hexS u.password, toString u.uid, toString u.gid, hexS u.info, hexS u.home, hexS u.shell]
def rUser (s : String) : Option User :=
  match s.splitOn "," with
  | [n, p, u, g, i, h, sh] => match u.toNat?, g.toNat? with
    | some u, some g => some ⟨unhexS n, unhexS p, u, g, unhexS i, unhexS h, unhexS sh⟩
    | _, _ => none
  | _ => none
def wGroup (g : Group) : String := ",".intercalate [hexS g.name, hexS g.password, toString g.gid, wList g.members]
def rGroup (s : String) : Option Group :=
  match s.splitOn "," with
  | [n, p, g, m] => match g.toNat? with
    | some g => some ⟨unhexS n, unhexS p, g, rList m⟩
    | none => none
  | _ => none

def showRes {α : Type} (f : α → String) : Res α → String
  | .ok a => f a
  | .err => "err"
  | .oob => "oob"

def triple (impl spec cls : String) : String :=
  impl ++ "\t" ++ spec ++ "\t" ++ (if impl = spec then "-" else cls)

/-- sort file records by name (canonical order for comparison) -/
def sortFiles (fs : List FileRec) : List FileRec := fs.mergeSort fun a b => textLe a.name b.name

/-! ## index -/

def idxMax : Nat := indexTokenMax
def wfPkgs (rows : List Row) (max : Nat) (ps : List Pkg) : Bool := ps.all (WFPkg b64 rows max)

/-- how Go's default list formatting reads back -/
def mangleList (l : List Text) : List Text := splitRepeatedField (goList l)

def idxRW (ps : List Pkg) : String :=
  let text := renderIndex b64 indexRows ps
  let out (parsed : Res (List Pkg)) : String :=
    match parsed with
    | .ok qs => hexS text ++ "|" ++ wPkgs qs ++ "|" ++ hexS (renderIndex b64 indexRows qs)
    | .err => hexS text ++ "|err"
    | .oob => hexS text ++ "|oob"
  let impl := out (parseIndex b64 indexCases text)
  if wfPkgs indexRows idxMax ps then
    let want := ps.map indexProj
    let spec := hexS text ++ "|" ++ wPkgs want ++ "|" ++ hexS text
    -- F16a: explained when the only difference is install_if read back from `[a b]`
    let mangled := want.map fun p => if p.installIf = [] then p else { p with installIf := mangleList p.installIf }
    let alt := hexS text ++ "|" ++ wPkgs mangled ++ "|" ++ hexS (renderIndex b64 indexRows mangled)
    triple impl spec (if impl = alt then "F16a-index" else "unlisted")
  else triple impl impl "-"

/-! ## installed db -/

def idbMax : Nat := defaultTokenMax

def cleanName (n : Text) : Bool :=
  let cs := splitOnChar '/' n
  lineSafe n && cs.all fun c => !c.isEmpty && c != ['.'] && c != ['.', '.']

def parentOf (n : Text) : Option Text :=
  let cs := splitOnChar '/' n
  if cs.length ≤ 1 then none else some (joinWith ['/'] cs.dropLast)

def csumOK (c : Text) : Bool :=
  c.isEmpty || (if (['Q', '1'] : Text).isPrefixOf c then (b64.dec (c.drop 2)).isSome && lineSafe c else (hexDecode c).isSome)

def wfFiles (fs : List FileRec) : Bool :=
  fs.all (fun f => cleanName f.name && decide (0 ≤ f.mode) && decide (f.mode < 4096)
      && decide (-(2 ^ 63) ≤ f.uid) && decide (f.uid < 2 ^ 63) && decide (-(2 ^ 63) ≤ f.gid) && decide (f.gid < 2 ^ 63)
      && csumOK f.csum
      && (match parentOf f.name with
          | none => true
          | some d => fs.any fun g => g.isDir && g.name == d))
  && (fs.map (·.name)).Pairwise (· ≠ ·)

def wfIPkg (ip : IPkg) : Bool :=
  WFPkg b64 idbRows idbMax ip.pkg && wfFiles ip.files &&
  (match renderInstalled b64 idbRows ip with
   | .ok t => linesFit idbMax (rawLines t)
   | _ => false)

/-- canonical form of a checksum: "Q1" + base64 -/
def canonCsum (c : Text) : Text :=
  if c.isEmpty || (['Q', '1'] : Text).isPrefixOf c then c
  else match hexDecode c with
    | some b => 'Q' :: '1' :: b64.enc b
    | none => c

def isTopDropped (fs : List FileRec) (f : FileRec) : Bool :=
  !f.name.contains '/' && (!f.isDir || !(fs.any fun g => (f.name ++ ['/']).isPrefixOf g.name))

def filesView (fs : List FileRec) : String :=
  wFiles ((sortFiles fs).map fun f => { f with csum := [] })
def csumView (fs : List FileRec) : String :=
  ";".intercalate ((sortFiles fs).map fun f => hexS f.name ++ "," ++ hexS f.csum)

def dropLinesTagged (tags : List Char) (t : Text) : Text :=
  unlines ((rawLines t).filter fun l => match l with
    | c :: ':' :: _ => !tags.contains c
    | _ => true)

def firstSome {α : Type} : List (Option α) → Option α
  | [] => none
  | some a :: _ => some a
  | none :: r => firstSome r

/-! F16i: `sortTarHeaders` emits the subtree of a directory once per record of its name; sorting its own
output again multiplies per level.  The size is predicted with the counting walk of the model
(`sortHeadersCount`: every distinct name is visited once, so its cost does not grow with the answer) BEFORE anything is sorted: above `sortSizeCap` records
neither the model nor (in the harness) the Go function is run, the answer is `blowup` (first write) or
`blowup2` (re-write of what was read back) against the demand `linear`. -/

def overCap (fs : List FileRec) : Bool :=
  match sortHeadersCount fs with
  | some n => decide (sortSizeCap < n)
  | none => false

/-- F16i iff every file list above the cap has two records of one directory name that has children -/
def blowupClass (l : List IPkg) : String :=
  if (l.filter fun ip => overCap ip.files).all (fun ip => dupDirWithChildren ip.files) then "F16i" else "unlisted"

/-- the counting walk agrees with the length of what the sort emits (checked on every case below the cap) -/
def countAgrees (ips : List IPkg) : Bool :=
  ips.all fun ip => match sortHeaders ip.files, sortHeadersCount ip.files with
    | some o, some n => o.length == n
    | none, none => true
    | _, _ => false

def idbRW (aspect : String) (ips : List IPkg) : String :=
  if ips.any (fun ip => overCap ip.files) then "blowup\tlinear\t" ++ blowupClass ips else
  if aspect == "pkg" && !countAgrees ips then "count-mismatch\tcount-mismatch\tunlisted" else
  match renderInstalledAll b64 idbRows ips with
  | .err => triple "werr" "werr" "-"
  | .oob => triple "woob" "woob" "-"
  | .ok text =>
    let parsed := parseInstalled b64 idbCases idbGuarded text
    let wf := ips.all wfIPkg
    let view (f : List IPkg → String) : String := showRes f parsed
    let join (xs : List String) : String := "|".intercalate xs
    match aspect with
    | "pkg" =>
      let f (l : List IPkg) := hexS text ++ "|" ++ wPkgs (l.map fun ip => { ip.pkg with installIf := [] })
      let impl := view f
      if wf then
        let spec := f ips
        -- F16b: empty D:/p: read back as [""]
        let alt := f (ips.map fun ip => { ip with pkg := { ip.pkg with
          deps := if ip.pkg.deps = [] then [[]] else ip.pkg.deps,
          provides := if ip.pkg.provides = [] then [[]] else ip.pkg.provides } })
        triple impl spec (if impl = alt then "F16b" else "unlisted")
      else triple impl impl "-"
    | "iif" =>
      let f (l : List IPkg) := join (l.map fun ip => wList ip.pkg.installIf)
      let impl := view f
      if wf then
        let alt := f (ips.map fun ip => { ip with pkg := { ip.pkg with installIf := splitOnChar ' ' (goList ip.pkg.installIf) } })
        let alt2 := f (ips.map fun ip => { ip with pkg := { ip.pkg with installIf := mangleList ip.pkg.installIf } })
        triple impl (f ips) (if impl = alt || impl = alt2 then "F16a-idb" else "unlisted")
      else triple impl impl "-"
    | "files" =>
      let f (l : List IPkg) := join (l.map fun ip => filesView ip.files)
      let impl := view f
      if wf then
        let tg (fs : List FileRec) := fs.map fun x => { x with mode := if x.isDir then 0o755 else 0o644, uid := 0, gid := 0 }
        -- F16d is repaired: no class explains a mode that comes back without its setuid/setgid/sticky bits
        let th (fs : List FileRec) := fs.filter fun x => !isTopDropped fs x
        let v (t : List FileRec → List FileRec) := f (ips.map fun ip => { ip with files := t ip.files })
        let cls := firstSome [
          if impl = v th then some "F16h" else none,
          if impl = v tg then some "F16g" else none,
          if impl = v (tg ∘ th) then some "F16g" else none]
        triple impl (f ips) (cls.getD "unlisted")
      else triple impl impl "-"
    | "csum" =>
      let f (l : List IPkg) := join (l.map fun ip => csumView ip.files)
      let impl := view f
      if wf then
        let spec := f (ips.map fun ip => { ip with files := ip.files.map fun x => { x with csum := canonCsum x.csum } })
        let th (fs : List FileRec) := fs.filter fun x => !isTopDropped fs x
        let alt := f (ips.map fun ip => { ip with files := (th ip.files).map fun x => { x with csum := [] } })
        triple impl spec (if impl = alt then (if ips.all (fun ip => ip.files.all fun x => x.csum.isEmpty) then "F16h" else "F16c") else "unlisted")
      else triple impl impl "-"
    | _ => -- "text2": re-render what was read
      let over2 := match parsed with
        | .ok l => l.any fun ip => overCap ip.files
        | _ => false
      if over2 then "blowup2\tlinear\t" ++ (match parsed with
        | .ok l => blowupClass l
        | _ => "unlisted") else
      let impl := match parsed with
        | .ok l => (match renderInstalledAll b64 idbRows l with
          | .ok t2 => hexS t2
          | .err => "werr2"
          | .oob => "woob2")
        | .err => "err"
        | .oob => "oob"
      if wf then
        let spec := hexS text
        let expl (tags : List Char) : Bool :=
          match parsed with
          | .ok l => (match renderInstalledAll b64 idbRows l with
            | .ok t2 => dropLinesTagged tags t2 == dropLinesTagged tags text
            | _ => false)
          | _ => false
        let cls := firstSome [
          if expl ['i'] then some "F16a-idb" else none,
          if expl ['i', 'Z'] then some "F16c" else none,
          if expl ['i', 'Z', 'M', 'a'] then some "F16g" else none,
          if expl ['i', 'Z', 'M', 'a', 'D', 'p'] then some "F16b" else none]
        triple impl spec (cls.getD "unlisted")
      else triple impl impl "-"

/-! ## passwd / group -/

def colonSafe (t : Text) : Bool := lineSafe t && t.all (· != ':')
def wfUserCore (u : User) : Bool :=
  colonSafe u.name && colonSafe u.password && colonSafe u.info && colonSafe u.home && colonSafe u.shell &&
  decide (u.uid < 4294967296) && decide (u.gid < 4294967296) && decide ((renderUser u).length ≤ defaultTokenMax)
/-- the quantifier of `passwd_roundtrip` (`WFUser`); white space at the outer ends is inside it (F16f repaired) -/
def wfUser (u : User) : Bool := wfUserCore u

/-- the quantifier of `group_roundtrip` (`WFGroup`): member names free of `,` `:` LF CR, any number of
members — none included — except the list `[""]`, which is written like the empty list -/
def memberSafe (t : Text) : Bool := colonSafe t && t.all (· != ',')
def wfGroupCore (g : Group) : Bool :=
  colonSafe g.name && colonSafe g.password && g.members.all memberSafe && g.members != [[]] && decide (g.gid < 4294967296) &&
  decide ((renderGroup g).length ≤ defaultTokenMax)
def wfGroup (g : Group) : Bool := wfGroupCore g

def pwRW (us : List User) : String :=
  let text := writeUsers us
  let out : Option (List User) → String
    | some l => hexS text ++ "|" ++ ";".intercalate (l.map wUser) ++ "|" ++ hexS (writeUsers l)
    | none => hexS text ++ "|err"
  let impl := out (loadUsers text)
  -- F16f is repaired: padded fields must come back as written (no class explains a difference)
  if us.all wfUser then triple impl (out (some us)) "unlisted"
  else triple impl impl "-"

def grRW (gs : List Group) : String :=
  let text := writeGroups gs
  let out : Option (List Group) → String
    | some l => hexS text ++ "|" ++ ";".intercalate (l.map wGroup) ++ "|" ++ hexS (writeGroups l)
    | none => hexS text ++ "|err"
  let impl := out (loadGroups text)
  -- F16e is repaired: a group without members must come back without members (no class explains a difference)
  if gs.all wfGroup then triple impl (out (some gs)) "unlisted"
  else triple impl impl "-"

def handle (args : List String) : Option String :=
  match args with
  | ["f.idx.rw", ps] => some <| match rPkgs ps with
    | some ps => idxRW ps
    | none => "bad-wire"
  | ["f.idx.r", x] =>
    let r := showRes wPkgs (parseIndex b64 indexCases (unhexS x))
    some (triple r r "-")
  | ["f.idb.rw", aspect, ips] => some <| match rIPkgs ips with
    | some ips => idbRW aspect ips
    | none => "bad-wire"
  | ["f.idb.r", x] =>
    let r := showRes wIPkgs (parseInstalled b64 idbCases idbGuarded (unhexS x))
    some (triple r r "-")
  | ["f.base", x] =>
    let t := unhexS x
    let r := showRes (fun l => wPkgs (l.map (·.pkg))) (parseInstalled b64 idbCases idbGuarded t) ++ "|" ++
      showRes wPkgs (parseIndex b64 indexCases t)
    some (triple r r "-")
  | ["f.pw.rw", us] => some <| match rMany ";" rUser us with
    | some us => pwRW us
    | none => "bad-wire"
  | ["f.pw.r", x] =>
    let r := match loadUsers (unhexS x) with
      | some l => ";".intercalate (l.map wUser)
      | none => "err"
    some (triple r r "-")
  | ["f.gr.rw", gs] => some <| match rMany ";" rGroup gs with
    | some gs => grRW gs
    | none => "bad-wire"
  | ["f.gr.r", x] =>
    let r := match loadGroups (unhexS x) with
      | some l => ";".intercalate (l.map wGroup)
      | none => "err"
    some (triple r r "-")
  | _ => none

end Apko.Driver.Formats
