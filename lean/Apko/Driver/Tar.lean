import Apko.Model.Tar
import Apko.Model.TarCancel
import Apko.Driver.FS
/-! line-protocol handlers for corr:tar (C06)

* `tar.layer <backend> <go-entries> <op> <op> …` — the operations (tokens of `Driver/FS.lean`, plus
  `bigfile,<path>,<seed>,<n>,<perm>`) build the model state; answer
  `impl` = the entry list `Model/Tar.lean: writeTar` emits for it, `spec` = verdict of the property's
  oracle on *Go's* entry list (`extract go ≈ observeTree`, owner names from the image's passwd/group,
  canonical order), `class` = the violated hypothesis of `C06.extract_writeTar_partial`.
* `tar.check <go-entries> <observation> <passwd> <group>` — the same oracle on an observation of a file
  system the harness built through the real build path (no model state).

Entry: `path,kind,mode,uid,gid,uname,gname,size,linkname,major,minor,mtime,xattrs,content` (texts in hex,
content as `h<hex>` up to 32 bytes, else `z<len>:<fnv64>`), entries joined by `;`.
Observation record: `path,kind,mode,uid,gid,mtime,size,content,target,major,minor,xattrs,ident`.
-/
namespace Apko.Driver.Tar
open Apko Apko.Path Apko.FS Apko.Tar
open Apko.Driver.FS (T natS intS parseNat parseInt ux kvS parseKV sepJoin fnv parseOp backendOf)

def kindS : Kind → Text
  | .reg => T "0" | .link => T "1" | .symlink => T "2" | .char => T "3" | .block => T "4"
  | .dir => T "5" | .fifo => T "6" | .other => T "?"

def kindOf (s : String) : Kind :=
  match s with
  | "0" => .reg | "1" => .link | "2" => .symlink | "3" => .char | "4" => .block | "5" => .dir | "6" => .fifo
  | _ => .other

/-- short contents travel as they are, long ones as length and FNV-1a hash -/
def contentKey (c : Text) : Text :=
  if c.length ≤ 32 then 'h' :: hex c else 'z' :: (natS c.length ++ ':' :: fnv c)

def entryS (e : Entry) : Text :=
  sepJoin (T ",") [hex (joinNames e.path), kindS e.kind, natS e.mode, intS e.uid, intS e.gid, hex e.uname,
    hex e.gname, natS e.size, hex e.linkname, natS e.devmajor, natS e.devminor, intS e.mtime, kvS e.xattrs,
    contentKey e.content]

def entriesS (es : List Entry) : Text :=
  if es.any (·.kind = .other) then T "ERR" else sepJoin (T ";") (es.map entryS)

/-- the content field is kept as its key: the oracle compares keys -/
def parseEntry (s : String) : Option Entry :=
  match s.splitOn "," with
  | [p, k, m, u, g, un, gn, sz, ln, ma, mi, mt, xa, c] =>
    some { path := parts (ux p), kind := kindOf k, mode := parseNat m, uid := parseInt u, gid := parseInt g,
           uname := ux un, gname := ux gn, size := parseNat sz, linkname := ux ln, devmajor := parseNat ma,
           devminor := parseNat mi, mtime := parseInt mt, xattrs := parseKV xa, content := c.toList }
  | _ => none

def parseEntries (s : String) : Option (List Entry) :=
  if s.isEmpty then some [] else (s.splitOn ";").mapM parseEntry

def parseObs (s : String) : Option (List Name × XNode) :=
  match s.splitOn "," with
  | [p, k, m, u, g, mt, sz, c, tg, ma, mi, xa, idn] =>
    let a : Attrs :=
      { kind := kindOf k, mode := parseNat m, uid := parseInt u, gid := parseInt g, mtime := parseInt mt,
        size := parseNat sz, content := c.toList, target := ux tg, devmajor := parseNat ma,
        devminor := parseNat mi, xattrs := parseKV xa }
    some (parts (ux p), { attrs := a, ident := parseNat idn })
  | _ => none

def parseTree (s : String) : Option Tree :=
  if s.isEmpty then some [] else (s.splitOn ";").mapM parseObs

def keyTree (t : Tree) : Tree :=
  t.map fun e => (e.1, { e.2 with attrs := { e.2.attrs with
    content := if e.2.attrs.kind = .reg then contentKey e.2.attrs.content else [] } })

def pathS (p : List Name) : String := hexS (joinNames p)

def xerrS : XErr → String
  | .duplicate p => "duplicate:" ++ pathS p
  | .rootEntry => "root-entry"
  | .orphan p => "parent-missing:" ++ pathS p
  | .linkTarget p => "link-target-missing:" ++ pathS p
  | .badKind p => "bad-kind:" ++ pathS p

/-- the length a content key stands for -/
def keyLen (k : Text) : Nat :=
  match k with
  | 'h' :: r => r.length / 2
  | 'z' :: r => parseNat (String.ofList (r.takeWhile (· ≠ ':')))
  | _ => 0

/-- the property's oracle on an entry list against an observed tree (contents as keys) -/
def verdict (es : List Entry) (obs : Tree) (users groups : List (Nat × Text)) : String :=
  let paths := es.map (·.path)
  if !strictlySorted paths then "fail:order" else
  if !parentsFirst paths then "fail:parents-first" else
  match extract es with
  | .error e => "fail:extract:" ++ xerrS e
  | .ok x =>
    if x.map (·.1) ≠ obs.map (·.1) then "fail:paths" else
    match (x.zip obs).find? (fun a => a.1.2.attrs ≠ a.2.2.attrs) with
    | some a => "fail:attrs:" ++ pathS a.1.1
    | none =>
      if !decide (SameTree x obs) then "fail:hardlink-identity" else
      match es.find? (fun e => e.kind = .reg ∧ e.size ≠ keyLen e.content) with
      | some e => "fail:size:" ++ pathS e.path
      | none =>
        match es.find? (fun e => e.uname ≠ (nameOf users e.uid).getD [] ∨ e.gname ≠ (nameOf groups e.gid).getD []) with
        | some e => "fail:names:" ++ pathS e.path
        | none => "pass"

/-- which hypothesis of `extract_writeTar_partial` the state violates -/
def classOf (b : Backend) (fs : FS) : String :=
  let W := walk fs
  if !wfNodes fs then "unlisted" else
  if !linksAfterTargets b fs then
    -- F06a: the named target is (still) another name of the node but sorts later; F06c: it is gone or another node
    let bad := (List.range W.length).filter fun k =>
      match W[k]? with
      | some w => !latOK b fs (W.take k) w
      | none => false
    let reorder := bad.all fun k =>
      match W[k]? with
      | some w =>
        match hlOf b (fs.node w.2) w.1 with
        | some l => W.any fun y => decide (y.1 = parts l) && decide (y.2 = w.2) && !(fs.node y.2).dir
        | none => true
      | none => true
    if reorder then "F06a" else "F06c"
  else if !linksRegistered b fs then "F06b"
  else if !xattrsCaptured fs then "F06d"
  else "unlisted"

/-- deterministic filler for big files (the harness makes the same bytes) -/
def bigData (seed n : Nat) : Text := (List.range n).map fun i => Char.ofNat ((i * 31 + seed) % 251)

def parseOpX (tok : String) : Option Op :=
  match tok.splitOn "," with
  | ["bigfile", p, seed, n, perm] => some (.writeFile (ux p) (bigData (parseNat seed) (parseNat n)) (parseNat perm))
  | _ => parseOp tok

def runOps (c : Cfg) : List String → FS → FS
  | [], fs => fs
  | tok :: rest, fs =>
    match parseOpX tok with
    | none => runOps c rest fs
    | some op => runOps c rest (step c fs op).1

def layerReply (bk : Backend) (goEntries : String) (toks : List String) : String :=
  let fs := runOps (Cfg.impl bk) toks FS.empty
  let impl := String.ofList (entriesS (writeTar bk fs))
  let spec :=
    match parseEntries goEntries with
    | none => "fail:unreadable"
    | some es => verdict es (keyTree (observeTree bk fs)) (usersOf bk fs) (groupsOf bk fs)
  impl ++ "\t" ++ spec ++ "\t" ++ (if spec = "pass" then "-" else classOf bk fs)

/-- class of a failed end-to-end verdict, from the observation alone: a link entry whose target is a
later path with the same identity is F06a; names of one identity that are not link entries are F06b -/
def classOfObs (es : List Entry) (obs : Tree) : String :=
  let identOf (p : List Name) : Option Nat := (obs.lookup p).map (·.ident)
  let early := es.any fun e => e.kind = .link ∧
    (let tp := parts e.linkname
     identOf tp = identOf e.path ∧ (identOf tp).isSome ∧ decide (e.path < tp))
  if early then "F06a" else "unlisted"

def parseReadback (s : String) : Option Readback :=
  match s.splitOn "," with
  | [p, sz, c, n] => some { path := parts (ux p), statSize := parseNat sz, content := c.toList, readLen := parseNat n }
  | _ => none

def rbErrS : RbErr → String
  | .missing p => "readback-missing:" ++ pathS p
  | .size p => "readback-size:" ++ pathS p
  | .content p => "readback-content:" ++ pathS p
  | .statVsRead p => "readback-stat-vs-read:" ++ pathS p

/-- `tar.readback`: every regular entry of Go's layer against what Go's FS interface read back -/
def readbackVerdict (goEntries rb : String) : String :=
  match parseEntries goEntries with
  | none => "pass"     -- an unreadable layer is reported by tar.layer / tar.check
  | some es =>
    -- records of failed calls (`path,!stat:…`) do not parse: the entry is then reported as missing
    let rbs := (if rb.isEmpty then [] else rb.splitOn ";").filterMap parseReadback
    match readbackCheck es rbs with
    | none => "pass"
    | some e => "fail:" ++ rbErrS e

/-! `tar.cancel <backend> <single|writetar|multi> <live|never> <canceled|deadline> <go-outcome> <op> …` — the layer writer
under a context whose `ctx.Err()` returned nil `live` times before it reported the error.  Go's outcome: `ERR:<kind>`,
`E:<entries>` (single layer, `writeTar`) or `P:<paths>` (the union of the layers `splitLayers` wrote).  `impl` =
`Model/TarCancel.lean: layerCtx` with the plan read off the regenerated statements; `spec` = the call failed, or the
layer(s) hold exactly the paths of the file system and (entry lists) pass the oracle of `tar.layer`. -/

def ctxErrS : CtxErr → String
  | .canceled => "canceled" | .deadline => "deadline"

def parseCtx (live kind : String) : Option Ctx :=
  if live = "never" then none
  else some { live := parseNat live, err := if kind = "deadline" then .deadline else .canceled }

def pathsS (ps : List (List Name)) : String := String.ofList (sepJoin (T ";") (ps.map fun p => hex (joinNames p)))

def cancelReply (bk : Backend) (path live kind go : String) (toks : List String) : String :=
  let fs := runOps (Cfg.impl bk) toks FS.empty
  let es := writeTar bk fs
  let multi := path = "multi"
  let plan := if multi then multiPlan else if path = "writetar" then writeTarPlan else singlePlan
  let impl :=
    match layerCtx plan (parseCtx live kind) es with
    | .error e => "ERR:" ++ ctxErrS e
    | .ok l =>
      if es.any (·.kind = .other) then "ERR:other"
      else if multi then "P:" ++ pathsS (l.map (·.path))
      else "E:" ++ String.ofList (entriesS l)
  let want := (walk fs).map (·.1)
  let incomplete (got : List (List Name)) : String :=
    "fail:incomplete:no-error-and-" ++ toString got.length ++ "-of-" ++ toString want.length ++ "-paths"
  let (spec, cls) :=
    if go.startsWith "ERR:" then ("pass", "-")
    else if go.startsWith "P:" then
      let got := if go.length = 2 then [] else ((go.drop 2).toString.splitOn ";").map fun h => parts (ux h)
      if got = want then ("pass", "-") else (incomplete got, "unlisted")
    else if go.startsWith "E:" then
      match parseEntries (go.drop 2).toString with
      | none => ("fail:unreadable", "unlisted")
      | some ges =>
        if ges.map (·.path) ≠ want then (incomplete (ges.map (·.path)), "unlisted")
        else
          let v := verdict ges (keyTree (observeTree bk fs)) (usersOf bk fs) (groupsOf bk fs)
          (v, if v = "pass" then "-" else classOf bk fs)
    else ("fail:unreadable", "unlisted")
  impl ++ "\t" ++ spec ++ "\t" ++ cls

def handle (args : List String) : Option String :=
  match args with
  | "tar.cancel" :: b :: path :: live :: kind :: go :: toks =>
    match backendOf b with
    | none => some "bad-backend\tbad-backend\t-"
    | some bk => some (cancelReply bk path live kind go toks)
  | "tar.layer" :: b :: goEntries :: toks =>
    match backendOf b with
    | none => some "bad-backend\tbad-backend\t-"
    | some bk => some (layerReply bk goEntries toks)
  | ["tar.check", goEntries, obs, passwd, group] =>
    match parseEntries goEntries, parseTree obs with
    | some es, some o =>
      let v := verdict es o (usersOfText (ux passwd)) (groupsOfText (ux group))
      some ("-\t" ++ v ++ "\t" ++ (if v = "pass" then "-" else classOfObs es o))
    | _, _ => some "-\tfail:unreadable\tunlisted"
  | ["tar.readback", goEntries, rb] => some ("-\t" ++ readbackVerdict goEntries rb ++ "\tunlisted")
  | ["tar.readback", goEntries] => some ("-\t" ++ readbackVerdict goEntries "" ++ "\tunlisted")
  | "tar.digest" :: _ => some "-\t-\tunlisted"
  | _ => none

end Apko.Driver.Tar
